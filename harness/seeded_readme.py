"""Regenerates seeded/README.md and seeded/results.json from the meta.json of every promoted seeded change."""
import json, os
VERIF = os.path.dirname(os.path.dirname(os.path.abspath(__file__)))
S = os.path.join(VERIF, "seeded")


def main():
    rows, res = [], {}
    for n in sorted(os.listdir(S)):
        mp = os.path.join(S, n, "meta.json")
        if not os.path.exists(mp):
            continue
        c = json.load(open(mp))["confirmed"]
        out = c["check_output"]
        first = next((l.strip() for l in out if l.startswith("  ")), out[0] if out else "")
        how = "concrete failing input" if c["with_concrete_failing_input"] else "no-failing-input-found"
        rows.append("| %s | %s | %s | %s |" % (n, "yes" if c["detected"] else "NO", how if c["detected"] else "-",
                                               first[:150].replace("|", "\\|")))
        res[n] = {"demo": (c["demo_exit_unchanged_tree"], c["demo_exit_with_change"]), "detected": c["detected"],
                  "concrete": c["with_concrete_failing_input"], "s": c["check_seconds"], "first": out[:2]}
    head = ("# Seeded changes\n\nEach directory: `patch.diff` (applies to /repo HEAD with `git apply`), `demo.py` (exit 0 on the "
            "unchanged tree, non-zero with the change), `notes.md` (the author's description), `meta.json` (what was run and "
            "observed). Written by independent sub-agents from the property text only (round 1: `_a`/`_b`/`_c`; round 2, asked "
            "for changes that need scale, boundary values or rarely exercised paths to show: `_r2`; round 3, aimed at the glue "
            "around the core and at interactions of features: `_r3`; round 4, confined to the small files no earlier round had "
            "touched: `_r4`; round 5, by theme -- performance work, API evolution, plugins / interop: `_r5`; round 6, by theme -- "
            "numerical robustness, data-structure refactors, defensive programming: `_r6`; round 7, by theme -- value types, object "
            "lifetime, control flow at the boundaries: `_r7`; rounds 8-26, asked for interactions of features, history dependence, "
            "aliasing, re-entrancy, scale, coincidences and Python's own semantics, with the tricks of all earlier rounds listed as "
            "taken: `_r8` ... `_r26`); all pass the 76 existing "
            "tests. Results of `harness/promote.py` (quick tier of the property's own check); %d changes, %d detected, %d with "
            "a concrete failing input:\n\n| change | detected | how | first line of the report |\n|---|---|---|---|\n"
            % (len(rows), sum(1 for r in res.values() if r["detected"]), sum(1 for r in res.values() if r["concrete"])))
    open(os.path.join(S, "README.md"), "w").write(head + "\n".join(rows) + "\n")
    json.dump(res, open(os.path.join(S, "results.json"), "w"), indent=1)
    print(len(rows), "changes;", sum(1 for r in res.values() if r["detected"]), "detected")


if __name__ == "__main__":
    main()
