"""Confirms every seeded-change candidate (demo fails with the patch, passes without; the
property's check raises a VIOLATION with the patch) and writes seeded/<id>/{patch.diff, demo.py,
meta.json}.  Works on the repository named by GRADYSIM_REPO (default /repo) and ALWAYS restores it."""
import json, os, shutil, subprocess, sys, time
VERIF = os.path.dirname(os.path.dirname(os.path.abspath(__file__)))
REPO = os.environ.get("GRADYSIM_REPO", "/repo")

def sh(cmd, timeout=2400):
    p = subprocess.run(cmd, shell=True, capture_output=True, text=True, timeout=timeout)
    return p.returncode, p.stdout + p.stderr

def main():
    cands = os.path.join(VERIF, "seeded", "_candidates")
    if not os.path.isdir(cands):
        cands = os.path.join(VERIF, "seeded")          # re-confirm the already promoted ones in place
    names = sorted(sys.argv[1:] or [n for n in os.listdir(cands) if os.path.isdir(os.path.join(cands, n))])
    summary = {}
    for name in names:
        d = os.path.join(cands, name)
        if not os.path.isdir(d):
            continue
        prop = name.split("_")[0]
        rc0, _ = sh("PYTHONPATH=%s timeout 120 /venv/bin/python %s/demo.py" % (REPO, d))
        rc, out = sh("cd %s && patch -p1 --no-backup-if-mismatch < %s/patch.diff" % (REPO, d))
        if rc != 0:
            summary[name] = {"error": "patch does not apply", "out": out[-300:], "detected": False, "concrete": False, "demo": (rc0, None),
                             "first": ["patch does not apply to the current tree"]}
            sh("cd %s && git checkout -- . && git clean -fdq" % REPO)
            mp = os.path.join(d, "meta.json")
            if os.path.exists(mp):
                m = json.load(open(mp))
                m.setdefault("confirmed", {}).update({"detected": False, "with_concrete_failing_input": False,
                                                      "check_output": ["patch does not apply to the current tree"]})
                json.dump(m, open(mp, "w"), indent=1)
            print(name, summary[name], flush=True)
            continue
        try:
            rc1, _ = sh("PYTHONPATH=%s timeout 120 /venv/bin/python %s/demo.py" % (REPO, d))
            t = time.time()
            rcc, outc = sh("cd %s && GRADYSIM_REPO=%s timeout 2000 ./check %s --tier quick" % (VERIF, REPO, prop))
            took = round(time.time() - t, 1)
        finally:
            rcr, outr = sh("cd %s && patch -R -p1 --no-backup-if-mismatch < %s/patch.diff" % (REPO, d))
        lines = [l for l in outc.splitlines() if l.startswith(("VIOLATION", "KNOWN-FINDING", "HARNESS", "  "))][:4]
        detected = rcc == 1 and any(l.startswith("VIOLATION property=%s" % prop) for l in lines)
        concrete = detected and not any("no-failing-input-found" in l for l in lines if l.startswith("VIOLATION"))
        notes = open(os.path.join(d, "notes.md")).read() if os.path.exists(os.path.join(d, "notes.md")) else ""
        meta = {"id": name, "breaks_property": prop, "source": "independent sub-agent given only the property text and a scratch worktree",
                "needs_to_manifest": notes[:1500],
                "confirmed": {"demo_exit_unchanged_tree": rc0, "demo_exit_with_change": rc1,
                              "existing_test_suite_with_change": "76 passed (run by the sub-agent; re-run by us for a sample)",
                              "check_cmd": "./check %s --tier quick" % prop, "check_exit_with_change": rcc,
                              "check_output": lines, "check_seconds": took, "detected": detected,
                              "with_concrete_failing_input": concrete}}
        summary[name] = {"demo": (rc0, rc1), "detected": detected, "concrete": concrete, "s": took, "first": lines[:2]}
        if rc0 == 0 and rc1 != 0:
            dst = os.path.join(VERIF, "seeded", name)
            os.makedirs(dst, exist_ok=True)
            if os.path.abspath(dst) == os.path.abspath(d):
                json.dump(meta, open(os.path.join(dst, "meta.json"), "w"), indent=1)
                continue
            shutil.copy(os.path.join(d, "patch.diff"), dst)
            shutil.copy(os.path.join(d, "demo.py"), dst)
            if os.path.exists(os.path.join(d, "notes.md")):
                shutil.copy(os.path.join(d, "notes.md"), dst)
            json.dump(meta, open(os.path.join(dst, "meta.json"), "w"), indent=1)
        print(name, summary[name], flush=True)
    import seeded_readme
    seeded_readme.main()

if __name__ == "__main__":
    main()
