"""Check engine: proof-obligation check (Coq build + Print Assumptions + forbidden tokens),
correspondence bookkeeping, shrinking, replay files, evidence, VIOLATION/KNOWN-FINDING lines."""
import copy
import fcntl
import json
import os
import re
import subprocess
import sys
import time
from collections import Counter

from common import VERIF, BUILD, DRIVER, digest, load_known, Clock

COQ = os.path.join(VERIF, "coq")
ALLOWED_AXIOMS = {
    # standard-library axioms that come with Coq's classical real numbers (Reals); they may
    # appear only under theorems about the R instance
    "ClassicalDedekindReals.sig_not_dec", "ClassicalDedekindReals.sig_forall_dec",
    "FunctionalExtensionality.functional_extensionality_dep", "Classical_Prop.classic",
}
FORBIDDEN = re.compile(r"\b(Admitted|admit|Axiom|Axioms|Parameter|Parameters|Conjecture|Conjectures|"
                       r"Abort|give_up)\b|Unset\s+Guard|Unset\s+Positivity|Unset\s+Universe|"
                       r"bypass_check|type-in-type|impredicative-set|Admit\s+Obligations")


def sh(cmd, cwd=None, timeout=3000):
    p = subprocess.run(cmd, shell=True, cwd=cwd, capture_output=True, text=True, timeout=timeout)
    return p.returncode, p.stdout + p.stderr


class Lock:
    def __enter__(self):
        os.makedirs(BUILD, exist_ok=True)
        self.f = open(os.path.join(BUILD, ".lock"), "w")
        fcntl.flock(self.f, fcntl.LOCK_EX)

    def __exit__(self, *a):
        fcntl.flock(self.f, fcntl.LOCK_UN)
        self.f.close()


def ensure_built(clean=False):
    """Full .vo build of the development (never -vos), extraction, OCaml driver."""
    with Lock():
        if clean:
            sh("rm -f Makefile Makefile.conf .Makefile.d; find . -name '*.vo' -o -name '*.glob' -o -name '*.vok' "
               "-o -name '*.vos' -o -name '.*.aux' | xargs rm -f; rm -f model.ml model.mli", cwd=COQ)
        if not os.path.exists(os.path.join(COQ, "Makefile")):
            rc, out = sh("coq_makefile -f _CoqProject -o Makefile", cwd=COQ)
            if rc != 0:
                return False, out
        rc, out = sh("timeout 3000 make -j16", cwd=COQ, timeout=3100)
        if rc != 0:
            return False, out[-4000:]
        ml = os.path.join(COQ, "model.ml")
        if os.path.exists(ml):
            sh("mv model.ml model.mli %s/" % BUILD, cwd=COQ)
        src = os.path.join(VERIF, "ocaml", "driver.ml")
        need = (not os.path.exists(DRIVER)
                or os.path.getmtime(DRIVER) < os.path.getmtime(src)
                or os.path.getmtime(DRIVER) < os.path.getmtime(os.path.join(BUILD, "model.ml")))
        if need:
            rc, out = sh("cp %s . && timeout 600 ocamlfind ocamlopt -w -a model.mli model.ml driver.ml -o driver" % src, cwd=BUILD)
            if rc != 0:
                return False, out[-4000:]
    return True, ""


def strip_comments(text):
    out, depth, i = [], 0, 0
    while i < len(text):
        if text.startswith("(*", i):
            depth += 1
            i += 2
        elif text.startswith("*)", i) and depth > 0:
            depth -= 1
            i += 2
        else:
            if depth == 0 or text[i] == "\n":
                out.append(text[i])
            i += 1
    return "".join(out)


def forbidden_tokens():
    """Scans the whole development (comments stripped) for declarations / switches that would
    weaken the proofs.  `Variable` and `Context` are accepted inside sections only."""
    bad = []
    for root, _, files in os.walk(COQ):
        for fn in sorted(files):
            if not fn.endswith(".v"):
                continue
            path = os.path.join(root, fn)
            depth = 0
            for ln, code in enumerate(strip_comments(open(path).read()).split("\n"), 1):
                if re.match(r"\s*Section\b", code):
                    depth += 1
                if re.match(r"\s*End\b", code) and depth > 0:
                    depth -= 1
                m = FORBIDDEN.search(code)
                if m:
                    bad.append("%s:%d: %s" % (os.path.relpath(path, VERIF), ln, m.group(0)))
                if re.match(r"\s*(Variable|Variables|Hypothesis|Hypotheses|Context)\b", code) and depth == 0:
                    bad.append("%s:%d: %s outside a section" % (os.path.relpath(path, VERIF), ln, code.strip()[:40]))
    return bad


def check_props(prop, thorough=False):
    """Recompiles Props/<prop>.v and reads what Print Assumptions says for every theorem."""
    res = {"file": "coq/Props/%s.v" % prop, "theorems": [], "axioms": {}, "ok": False, "log": "", "coqchk": None}
    src = os.path.join(COQ, "Props", prop + ".v")
    if not os.path.exists(src):
        res["log"] = "missing " + src
        return res
    names = re.findall(r"^Print Assumptions (\w+)\.", open(src).read(), re.M)
    stated = re.findall(r"^(?:Theorem|Lemma|Corollary)\s+(\w+)", open(src).read(), re.M)
    res["theorems"] = stated
    with Lock():
        rc, out = sh("timeout 1200 coqc -Q . GS Props/%s.v" % prop, cwd=COQ, timeout=1300)
    res["log"] = out[-3000:]
    if rc != 0:
        return res
    blocks = re.split(r"(?=^Closed under the global context|^Axioms:)", out, flags=re.M)
    blocks = [b for b in blocks if b.startswith(("Closed", "Axioms:"))]
    if len(blocks) != len(names) or set(names) != set(stated):
        res["log"] += "\nPrint Assumptions blocks: %d, printed: %s, stated: %s" % (len(blocks), names, stated)
        return res
    ok = True
    for name, b in zip(names, blocks):
        if b.startswith("Closed"):
            res["axioms"][name] = []
        else:
            ax = re.findall(r"^([A-Za-z_][\w.]*)\s*:", b, re.M)
            ax = [a for a in ax if a != "Axioms"]
            res["axioms"][name] = ax
            for a in ax:
                if a not in ALLOWED_AXIOMS:
                    ok = False
                    res["log"] += "\nnon-allowed axiom %s under %s" % (a, name)
    if thorough:
        # independent re-check: the whole development is rebuilt from clean in a private copy (so
        # that concurrent checks cannot disturb each other) and coqchk re-checks the compiled
        # property file and everything it depends on, printing the axioms it relies on
        import shutil
        priv = os.path.join(BUILD, "clean_%s_%d" % (prop, os.getpid()))
        shutil.rmtree(priv, ignore_errors=True)
        try:
            shutil.copytree(COQ, priv, ignore=shutil.ignore_patterns("*.vo", "*.vok", "*.vos", "*.glob", ".*.aux", "Makefile*",
                                                                     ".Makefile.d", "model.ml*", ".lia.cache", ".nia.cache"))
            rc1, out1 = sh("coq_makefile -f _CoqProject -o Makefile && timeout 3000 make -j16", cwd=priv, timeout=3100)
            if rc1 != 0:
                res["coqchk"] = {"rc": rc1, "tail": "clean rebuild failed: " + out1[-1500:]}
                ok = False
            else:
                rc2, out2 = sh("timeout 2400 coqchk -silent -o -Q . GS GS.Props.%s" % prop, cwd=priv, timeout=2500)
                res["coqchk"] = {"rc": rc2, "clean_rebuild": "ok", "tail": out2[-2500:]}
                if rc2 != 0:
                    ok = False
        finally:
            shutil.rmtree(priv, ignore_errors=True)
    res["ok"] = ok
    return res


class Check:
    """One run of one property's check."""

    def __init__(self, prop, tier, seed):
        self.prop, self.tier, self.seed = prop, tier, seed
        self.clock = Clock()
        self.evals = 0
        self.hashes = set()
        self.samples = []
        self.classes = Counter()
        self.features = Counter()
        self.corr_breaks = []       # {class, case, diff}
        self.violations = []        # {class, case, what}
        self.validated = 0
        self.notes = []
        self.proof = None
        self.rule = ""
        self.exhaustive = False
        self.extra = {}

    # -- bookkeeping ---------------------------------------------------------------------------
    def record(self, cls, case, nontrivial=True, feats=()):
        self.evals += 1
        self.classes[cls] += 1
        if nontrivial:
            self.hashes.add(digest(case))
        for f in feats:
            self.features[f] += 1
        if len(self.samples) < 3 or (self.evals % 997 == 0 and len(self.samples) < 8):
            self.samples.append({"class": cls, "case": case})

    def corr_break(self, cls, case, diff, extra=None):
        self.corr_breaks.append({"class": cls, "case": case, "diff": diff, "extra": extra})

    def violation(self, cls, case, what, extra=None):
        self.violations.append({"class": cls, "case": case, "what": what, "extra": extra})

    # -- finishing -------------------------------------------------------------------------------
    def finish(self):
        prop = self.prop
        known = [k for k in load_known().get("known", []) if k["property"] == prop]
        os.makedirs(os.path.join(VERIF, "replays"), exist_ok=True)
        os.makedirs(os.path.join(VERIF, "evidence"), exist_ok=True)
        lines = []
        failing = []
        known_hits = []
        for v in self.violations:
            k = next((k for k in known if _matches(k, v)), None)
            if k is not None:
                known_hits.append((k, v))
            else:
                failing.append(v)
        printed_known = set()
        for k, v in known_hits:
            if k["id"] not in printed_known:
                printed_known.add(k["id"])
                print("KNOWN-FINDING: property=%s %s" % (prop, k["what"][:200]))
        rc = 0
        if failing:
            v = failing[0]
            path = self._write_replay("violation", v)
            print("VIOLATION property=%s replay=%s" % (prop, path))
            print("  " + str(v["what"])[:400])
            rc = 1
        elif self.corr_breaks:
            b = self.corr_breaks[0]
            path = self._write_replay("correspondence", b)
            print("VIOLATION property=%s replay=%s no-failing-input-found" % (prop, path))
            print("  correspondence corr:%s/%s no longer holds: %s" % (prop, b["class"], str(b["diff"])[:300]))
            rc = 1
        elif self.proof is not None and not self.proof["ok"]:
            path = self._write_replay("proof", {"class": "proof", "case": self.proof["file"],
                                                 "what": self.proof["log"][-1500:]})
            print("VIOLATION property=%s replay=%s no-failing-input-found" % (prop, path))
            print("  proof obligations of %s no longer check" % self.proof["file"])
            rc = 1
        n_thm = len(self.proof["theorems"]) if self.proof else 0
        ax = sorted({a for l in (self.proof["axioms"].values() if self.proof else []) for a in l})
        ev = {
            "property_id": prop, "tier": self.tier, "seed": self.seed, "level": "proof",
            "coverage": {
                "obligations": max(n_thm, 1),
                "discharged": n_thm if (self.proof and self.proof["ok"]) else 0,
                "checker_cmd": "cd /verif/coq && make -j16 (full .vo build) && coqc -Q . GS Props/%s.v (Print Assumptions)"
                               % prop + ("; coqchk -silent -o -Q . GS GS.Props.%s" % prop if self.tier == "thorough" else ""),
                "trusted_base": [
                    "Coq 8.16.1 kernel (coqc; coqchk in the thorough tier); no native_compute",
                    "axioms reported by Print Assumptions this run: %s" % (ax if ax else "none (all theorems closed under the global context)"),
                    "extraction with ExtrOcamlBasic only, OCaml 4.13.1, ocaml/driver.ml (parser, float ArithOps, printers)",
                    "Python harness (scripted protocols, recorders, canonicalisation, diff), CPython, glibc libm",
                    "assumed: non-NaN IEEE doubles satisfy OrderLaws; the C accelerator of heapq computes what Lib/heapq.py says (its transcription coq/Heap.v is proved to keep the multiset and the heap condition and to pop the least event under Event.__lt__, and is compared layout-exactly with CPython on every run of C02/C03)",
                ],
                "theorems": self.proof["theorems"] if self.proof else [],
                "axioms_per_theorem": self.proof["axioms"] if self.proof else {},
                "coqchk": self.proof.get("coqchk") if self.proof else None,
                "evaluations": self.evals,
                "distinct_nontrivial": len(self.hashes),
                "rule": self.rule,
                "samples": self.samples[:8] if self.samples else [{"note": "no generated case"}],
                "traces_validated_against_impl": self.validated,
                "classes": dict(self.classes),
                "input_distribution": dict(self.features.most_common(60)),
                "correspondence_breaks": len(self.corr_breaks),
                "exhaustive": self.exhaustive,
                "known_findings_seen": sorted(printed_known),
            },
            "assumptions": self.notes,
            "wall_s": self.clock.wall(),
            "violations": len(failing) + (1 if (rc == 1 and not failing) else 0),
        }
        ev["coverage"].update(self.extra)
        with open(os.path.join(VERIF, "evidence", prop + ".json"), "w") as f:
            json.dump(ev, f, indent=1, default=str)
        print("%s %s: %d theorems %s, %d cases (%d distinct non-trivial), %d correspondence breaks, %d violations, %.1fs"
              % (prop, self.tier, n_thm, "checked" if (self.proof and self.proof["ok"]) else "NOT CHECKED",
                 self.evals, len(self.hashes), len(self.corr_breaks), len(failing), self.clock.wall()))
        return rc

    def _write_replay(self, kind, item):
        name = "%s-%s-%s.json" % (self.prop, kind, digest(item.get("case")))
        path = os.path.join(VERIF, "replays", name)
        with open(path, "w") as f:
            json.dump({"property": self.prop, "kind": kind, "class": item.get("class"),
                       "theorem_or_correspondence": ("corr:%s/%s" % (self.prop, item.get("class"))) if kind != "proof" else item.get("case"),
                       "case": item.get("case"), "what": item.get("what"), "diff": item.get("diff"),
                       "extra": item.get("extra"), "seed": self.seed, "tier": self.tier}, f, indent=1, default=str)
        return path


def _matches(known, v):
    m = known.get("match", {})
    text = json.dumps(v, default=str)
    return all(str(val) in text for val in m.values())


def shrink(case, fails, candidates, budget=150):
    """Greedy delta-debugging: `candidates(case)` yields smaller variants; keep one while it
    still fails."""
    cur = case
    n = 0
    progress = True
    while progress and n < budget:
        progress = False
        for cand in candidates(cur):
            n += 1
            if n >= budget:
                break
            try:
                if fails(cand):
                    cur = cand
                    progress = True
                    break
            except Exception:
                continue
    return cur


def sim_candidates(sc):
    for i, rules in enumerate(sc["script"]):
        for j in range(len(rules)):
            c = copy.deepcopy(sc)
            del c["script"][i][j]
            yield c
    for i, rules in enumerate(sc["script"]):
        for j, r in enumerate(rules):
            if len(r["acts"]) > 1:
                for k in range(len(r["acts"])):
                    c = copy.deepcopy(sc)
                    del c["script"][i][j]["acts"][k]
                    yield c
    last = len(sc["nodes"]) - 1
    ext_on_last = sc["drv"][0] == "drive" and any(op[0] == "ext" and op[1] >= last for op in sc["drv"][1])
    if len(sc["nodes"]) > 1 and not ext_on_last:
        c = copy.deepcopy(sc)
        c["nodes"].pop()
        c["script"].pop()
        yield c
    if sc["drv"][0] == "drive":
        ops = sc["drv"][1]
        for i in range(len(ops)):
            c = copy.deepcopy(sc)
            c["drv"] = ("drive", ops[:i] + ops[i + 1:])
            yield c
    for h in list(sc["handlers"]):
        if h.startswith("R") or h == "A":
            c = copy.deepcopy(sc)
            c["handlers"].remove(h)
            if h == "A":
                c["asserts"] = []
            yield c
    if len(sc["asserts"]) > 1:
        for k in range(len(sc["asserts"])):
            c = copy.deepcopy(sc)
            del c["asserts"][k]
            yield c


def list_candidates(ops):
    for i in range(len(ops)):
        yield ops[:i] + ops[i + 1:]
