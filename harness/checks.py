"""Per-property checks.  `python checks.py Cxx --tier quick|thorough [--replay file]`.

Every check: (1) rebuilds the Coq development if needed and re-checks Props/Cxx.v (Print
Assumptions against the allow-list, forbidden tokens); (2) runs the correspondence between the
extracted model and /repo's implementation on the property's scenario classes; (3) runs the
property's monitors on the implementation's traces (the search for a concrete failing input);
(4) writes evidence/Cxx.json and prints VIOLATION / KNOWN-FINDING lines."""
import argparse
import copy
import itertools
import json
import os
import random
import sys
import tempfile

sys.path.insert(0, os.path.dirname(os.path.abspath(__file__)))
from common import VERIF, digest            # noqa: E402
import engine                                # noqa: E402
from engine import Check, shrink, sim_candidates, list_candidates   # noqa: E402
import corr                                  # noqa: E402
import gen_sim                               # noqa: E402
import monitors as _M                        # noqa: E402


class _SafeMonitors:
    """A monitor that crashes on an unexpected trace must not mask the correspondence break that
    the same trace produces: it reports nothing instead."""

    def __getattr__(self, name):
        f = getattr(_M, name)
        if not name.startswith("mon_"):
            return f

        def safe(*a, **k):
            try:
                return f(*a, **k)
            except Exception as e:      # noqa: BLE001
                return []
        return safe


M = _SafeMonitors()

QUICK = {"sims": 500, "el_len": 4, "el_rand": 600, "fifo_len": 6}
THORO = {"sims": 5000, "el_len": 5, "el_rand": 6000, "fifo_len": 8}


def sizes(tier):
    return THORO if tier == "thorough" else QUICK


# ---------------------------------------------------------------------------------------------
# event-loop histories
# ---------------------------------------------------------------------------------------------

def concretise(abstract):
    """abstract ops ('s', delta) / 'pop' / ... -> concrete ops with timestamps relative to the
    clock at that point (simulated with the obvious reference queue) and fresh tags."""
    now, q, ops, tag = 0.0, [], [], 0
    for a in abstract:
        if isinstance(a, tuple):
            ts = now + a[1]
            ops.append(("sched", ts, tag))
            if ts >= now:
                q.append((ts, tag))
            tag += 1
        elif a == "pop":
            ops.append(("pop",))
            if q:
                m = min(q)
                q.remove(m)
                now = m[0]
        elif a == "clear":
            ops.append(("clear",))
            q = []
        else:
            ops.append((a,))
    return ops


EL_ALPHA = [("s", -1.0), ("s", 0.0), ("s", 1.0), ("s", 2.0), "pop", "peek", "clear", "len"]


def el_exhaustive(maxlen):
    for n in range(1, maxlen + 1):
        for combo in itertools.product(EL_ALPHA, repeat=n):
            yield concretise(list(combo) + ["now"])


def el_random(R, count, maxlen=60):
    for i in range(count):
        n = R.randint(5, maxlen)
        ab = []
        if i % 4 == 3:
            # deep queue: many pending events with unrelated due times, zero-delay requests in between, then a full drain
            for _ in range(R.randint(maxlen, 3 * maxlen)):
                x = R.random()
                if x < 0.65:
                    ab.append(("s", 0.0 if R.random() < 0.4 else R.choice([0.5, 1.0, 2.0, 3.0, 4.0, 0.25, round(R.uniform(0, 6), 2)])))
                elif x < 0.95:
                    ab.append("pop")
                else:
                    ab.append(R.choice(["peek", "len", "now"]))
            ab += ["pop"] * (3 * maxlen)
            yield concretise(ab)
            continue
        for _ in range(n):
            x = R.random()
            if x < 0.5:
                d = R.choice([0.0, 0.0, 0.5, 1.0, 1.0, 2.0, 0.25, -0.5, -1.0]) if R.random() < 0.85 else R.uniform(-1, 5)
                ab.append(("s", d))
            elif x < 0.85:
                ab.append("pop")
            else:
                ab.append(R.choice(["peek", "len", "now", "clear", "peek", "len"]))
        yield concretise(ab)


def el_chrono(R, count, maxlen=40):
    """agenda-like histories: requests come in chronological order (each due no earlier than the one before, ties
    included), pops in between; after a pop, some requests are due together with (or between) events that are still
    pending -- a timer re-armed for the instant of another pending one -- and the agenda goes on from there"""
    for i in range(count):
        now, last, q, ops, tag = 0.0, 0.0, [], [], 0
        n = R.randint(6, maxlen)
        popped = False
        for j in range(n):
            if len(q) >= 3 and R.random() < 0.3:
                ops.append(("pop",)); m = min(q); q.remove(m); now = m[0]
                popped = True
                continue
            if popped and q and R.random() < 0.45:
                a = R.choice(q)[0]
                b = R.choice(q)[0]
                ts = max(now, R.choice([a, a, min(a, b) + abs(a - b) / 2]))
            else:
                ts = max(last, now) + R.choice([0.0, 0.0, 1.0, 3.0, 4.0, 0.5])
            ops.append(("sched", ts, tag)); q.append((ts, tag)); tag += 1
            last = max(last, ts)
        ops += [("len",)] + [("pop",)] * (len(q) + 1)
        yield ops


_MINED = None


def mined_constants():
    """numeric literals of the code under test (read from the current source on every run): thresholds a piece of code
    compares against are where its behaviour changes, so time offsets just below, at and just above them are generated"""
    global _MINED
    if _MINED is None:
        import ast
        import glob
        from common import REPO
        cs = set()
        for f in glob.glob(os.path.join(REPO, "gradysim", "**", "*.py"), recursive=True):
            try:
                tree = ast.parse(open(f).read())
            except Exception:  # noqa: BLE001
                continue
            for n in ast.walk(tree):
                if isinstance(n, ast.Constant) and isinstance(n.value, (int, float)) and not isinstance(n.value, bool):
                    v = abs(float(n.value))
                    if 1e-3 <= v <= 1e7 and v not in (1.0, 2.0, 3.0):
                        cs.add(v)
        _MINED = sorted(cs)
    return _MINED


def el_mined(R, count, maxlen=14):
    """histories whose time offsets sit around the numeric literals found in the source: every ordered pair (a, b) of
    literals in the shape `far event at +a, near event at +b, advance to the near one, another event at +a, drain`, each
    offset just below / at / just above the literal; then random histories over the same offsets"""
    cs = (mined_constants() or [60.0])[:16]
    fs = (0.99, 1.0, 1.01)
    for a in cs:
        for b in cs:
            for f1 in fs:
                for f2 in fs:
                    for f3 in fs:
                        yield concretise([("s", a * f1), ("s", b * f2), "pop", ("s", a * f3), "len", "pop", "pop", "pop"])
    for _ in range(count):
        pool = []
        for c in R.sample(cs, min(len(cs), R.randint(1, 3))):
            pool += [c * f for f in (0.5, 0.99, 1.0, 1.01, 1.5)]
        ab = []
        for _ in range(R.randint(5, maxlen)):
            x = R.random()
            if x < 0.55:
                ab.append(("s", R.choice(pool) if R.random() < 0.75 else R.choice([0.0, 1.0, 0.5, 30.0])))
            elif x < 0.92:
                ab.append("pop")
            else:
                ab.append(R.choice(["peek", "len", "now"]))
        ab += ["pop"] * 10
        yield concretise(ab)


def el_infinite(R, count):
    """histories in which several events are due at +infinity ("never", used as a timestamp) next to finite ones: they are
    events like any other -- refused never, popped last, in the order they were requested"""
    inf = float("inf")
    for _ in range(count):
        ops, tag = [], 0
        for _ in range(R.randint(4, 14)):
            ts = inf if R.random() < 0.6 else R.choice([0.0, 1.0, 2.0, 1e300, 1.7e308])
            ops.append(("sched", ts, tag)); tag += 1
            if R.random() < 0.15:
                ops.append(("peek",))
        ops += [("len",)] + [("pop",)] * (tag + 1)
        if R.random() < 0.5:
            ops += [("sched", inf, tag), ("sched", inf, tag + 1), ("pop",), ("pop",), ("now",)]
        yield ops


def el_long(R, n_ops, burst=0):
    """one long history: optionally a burst of `burst` schedules into an empty queue, then a long
    alternation with a small queue and many ties"""
    now, q, ops, tag = 0.0, [], [], 0
    for _ in range(burst):
        ts = now + R.choice([0.0, 1.0, 1.0, 2.0, 0.5])
        ops.append(("sched", ts, tag)); q.append((ts, tag)); tag += 1
    for _ in range(burst):
        ops.append(("pop",)); m = min(q); q.remove(m); now = m[0]
    while len(ops) < n_ops:
        if len(q) < 3 or (len(q) < 9 and R.random() < 0.5):
            ts = now + R.choice([0.0, 0.0, 1.0, 1.0, 2.0, 0.5])
            ops.append(("sched", ts, tag)); q.append((ts, tag)); tag += 1
        else:
            ops.append(("pop",)); m = min(q); q.remove(m); now = m[0]
    ops += [("len",)] + [("pop",)] * (len(q) + 1)
    return ops


def fifo_exhaustive(maxlen):
    """all insertion orders of timestamps {1,2,3} (ties!) interleaved with pops, then drain"""
    alpha = [1.0, 2.0, 3.0, "pop"]
    for n in range(2, maxlen + 1):
        for combo in itertools.product(alpha, repeat=n):
            if combo.count("pop") > n // 2:
                continue
            ops, tag, now, q = [], 0, 0.0, []
            for a in combo:
                if a == "pop":
                    ops.append(("pop",))
                    if q:
                        m = min(q)
                        q.remove(m)
                        now = m[0]
                else:
                    ops.append(("sched", a, tag))
                    if a >= now:
                        q.append((a, tag))
                    tag += 1
            ops += [("pop",)] * (len(q) + 1)
            yield ops


def run_el_class(chk, cls, histories, batch=4000):
    buf = []

    def flush():
        if not buf:
            return
        for r in corr.corr_els(buf):
            ops = r["ops"]
            nontrivial = sum(1 for o in ops if o[0] == "sched") >= 2 and any(o[0] == "pop" for o in ops)
            chk.record(cls, {"ops": ops} if len(ops) <= 12 else {"ops": ops[:12], "more": len(ops) - 12}, nontrivial,
                       feats=["el:" + o[0] for o in ops])
            chk.validated += 1
            viol = [x for x in M.mon_el(ops, r["impl"]) if x.startswith(chk.prop)]
            if viol and [x for x in M.mon_el(ops, r["model"]) if x.startswith(chk.prop)]:
                # the monitor also rejects the trace of the PROVED model: the monitor is wrong here, not the code
                chk.extra["monitor_rejected_model_trace"] = chk.extra.get("monitor_rejected_model_trace", 0) + 1
                viol = []
            if viol:
                if len(ops) > 3000:
                    # a very long history: cut it right after the first failing operation instead of delta debugging
                    import re
                    m_ = re.search(r"op (\d+)", viol[0])
                    small = ops[:int(m_.group(1)) + 1] if m_ else ops
                else:
                    small = shrink(ops, lambda c: any(x.startswith(chk.prop) for x in M.mon_el(c, corr.run_el_impl(c))),
                                   list_candidates)
                from scripted import run_el_impl
                chk.violation(cls, {"ops": small}, M.mon_el(small, run_el_impl(small)),
                              extra={"impl": run_el_impl(small)})
            elif r["diff"] is not None:
                chk.corr_break(cls, {"ops": ops}, r["diff"], extra={"impl": r["impl"], "model": r["model"]})
        buf.clear()
    for h in histories:
        buf.append(h)
        if len(buf) >= batch:
            flush()
            if len(chk.violations) + len(chk.corr_breaks) > 20:
                return
    flush()


# ---------------------------------------------------------------------------------------------
# whole simulations
# ---------------------------------------------------------------------------------------------

def run_sim_class(chk, cls, scs, mons, variant=None, batch=250, tag=None):
    """Correspondence + monitors on a list of scenarios.  `mons`: functions (sc, trace) -> [str]."""
    tag = tag or chk.prop
    for k, sc in enumerate(scs):
        # every third scenario is run by a protocol that keeps ONE command object per kind and re-fills it
        # for every request (legal use of the API; the simulator must have taken what it needs at hand-over)
        if "reuse_commands" not in sc and k % 3 == 1:
            sc["reuse_commands"] = True
        if "fresh_controllers" not in sc and k % 2 == 0:
            sc["fresh_controllers"] = True     # a new CommunicationController object for every range request
        if "build_twice" not in sc and k % 6 == 4:
            sc["build_twice"] = True           # builder.build() called twice, the second simulator is the one that runs
        if "poll_done" not in sc and k % 4 == 1:
            sc["poll_done"] = True             # is_simulation_done() asked before the run and between steps
        if "rerun" not in sc and k % 8 == 6 and sc["drv"][0] == "run":
            sc["rerun"] = True                 # run once to the end, build again from the same builder, record the second run
        if "int_numbers" not in sc and k % 7 == 5:
            sc["int_numbers"] = True           # whole numbers handed over as ints (positions, times, speeds, ranges, delays)
        if "enum_names" not in sc and "odd_names" not in sc and k % 5 == 1:
            sc["enum_names"] = True            # timer names given as members of a str-Enum
        if "raw_commands" not in sc and k % 6 == 2:
            sc["raw_commands"] = True          # generic command classes with the command type as a plain int
        if "odd_names" not in sc and k % 5 == 3:
            sc["odd_names"] = 2 if k % 10 == 8 else True   # timer names containing pattern characters ("slot[1]", "s*", "done?"),
            #                                                 or names that only a normalisation would make equal
        if "late_config" not in sc and k % 5 == 2:
            sc["late_config"] = True           # configuration objects filled in AFTER they were handed to handler / builder
        if "nodes_first" not in sc and k % 4 == 3:
            sc["nodes_first"] = True           # builder.add_node(...) for every node BEFORE the handlers are added
        if "positional_config" not in sc and k % 3 == 0:
            sc["positional_config"] = True     # configuration dataclasses built from positional arguments (the documented field order)
        if "two_controllers" not in sc and "fresh_controllers" not in sc and k % 4 == 1:
            sc["two_controllers"] = True       # range requests alternate between two kept CommunicationController objects
        if "cross_flags" not in sc and k % 3 == 2 and len(sc["nodes"]) > 1:
            sc["cross_flags"] = True           # what an assertion reads about a node is written by ANOTHER node's callbacks
        if "odd_payloads" not in sc and k % 6 == 5:
            sc["odd_payloads"] = True          # message texts with format / quote / NUL / non-BMP / lone-surrogate / glob characters
        if "long_payloads" not in sc and k % 4 == 0:
            sc["long_payloads"] = True         # messages of 700 characters (the message number padded with zeros)
        if "worker_thread" not in sc and k % 7 == 2:
            sc["worker_thread"] = True         # the simulation is built in this thread and run in another one (joined at once)
        if "replaced_handlers" not in sc and k % 5 == 0:
            sc["replaced_handlers"] = True     # default handlers added first, replaced by the scenario's own under the same labels
        if "poll_inside" not in sc and k % 6 == 3:
            sc["poll_inside"] = True           # is_simulation_done() asked from inside the callbacks (a read-only query)
        if "interloper" not in sc and k % 5 == 4:
            sc["interloper"] = True            # an unrelated simulation is built and run from inside the 2nd and 5th callback
        if "ext_inside" not in sc and sc["drv"][0] == "drive" and k % 2 == 1:
            sc["ext_inside"] = True            # requests "from outside" made from inside another node's callback instead
        if "json_payloads" not in sc and "odd_payloads" not in sc and k % 9 in (4, 7):
            sc["json_payloads"] = True         # message texts that are deeply nested JSON documents
        if "builder_reused" not in sc and k % 7 == 6:
            sc["builder_reused"] = True        # after build(), the builder prepares and builds another simulation; the first one runs
        if "forked" not in sc and k % 11 == 5:
            sc["forked"] = True                # the built simulator is deep-copied before it starts; the copy runs
        if "cb_returns" not in sc and k % 3 == 1:
            sc["cb_returns"] = True            # the protocol's callbacks return values (True, counts, ...) instead of None
        if "early_controller" not in sc and k % 7 == 3:
            sc["early_controller"] = True
        if "late_classes" not in sc and k % 3 == 0:
            sc["late_classes"] = True
        if "truthy_preds" not in sc and k % 2 == 1:
            sc["truthy_preds"] = True          # assertion predicates return non-bool objects with the same truth value
        # the harness' own default switches execution logging off; every fourth scenario runs under the
        # library's default configuration (execution_logging=True) instead
        if variant is None and "variant" not in sc and k % 4 == 2:
            sc["variant"] = {"execution_logging": True}
        # ... and every ninth with the documented debug switch on as well (debug-level records are then built)
        if variant is None and "variant" not in sc and k % 9 == 7:
            sc["variant"] = {"execution_logging": True, "debug": True}
        # ... and every eleventh with the profiling switch on
        if variant is None and "variant" not in sc and k % 11 == 3:
            sc["variant"] = {"profile": True}
        # ... and every thirteenth paced against the wall clock (a million times faster than real time)
        if variant is None and "variant" not in sc and k % 13 == 6:
            sc["variant"] = {"real_time": 1e6}
    for i in range(0, len(scs), batch):
        part = scs[i:i + batch]
        for r in corr.corr_sims(part, variant=variant):
            sc = r["sc"]
            feats = gen_sim.features(sc, r["impl"])
            cbs = sum(1 for l in r["impl"] if l.startswith("cb "))
            chk.record(cls, _brief(sc), nontrivial=cbs > len(sc["nodes"]), feats=feats)
            chk.validated += 1
            viol = []
            for mon in mons:
                viol += [x for x in mon(sc, r["impl"]) if x.startswith(tag)]
            if viol and r["diff"] is None:
                # implementation and proved model agree on this scenario, yet the monitor objects: the monitor
                # is wrong here (or the property is refuted by the model, which the theorems exclude)
                chk.extra["monitor_rejected_model_trace"] = chk.extra.get("monitor_rejected_model_trace", 0) + 1
                chk.extra.setdefault("monitor_rejections", []).append(viol[0][:160])
                viol = []
            elif viol and any(x.startswith(tag) for mon in mons for x in mon(sc, r["model"])):
                chk.extra["monitor_rejected_model_trace"] = chk.extra.get("monitor_rejected_model_trace", 0) + 1
                viol = []
                # fall through: the traces differ, so the correspondence break is reported
            crash = next((l for l in r["impl"] if l.startswith("impl-exception")), None)
            if not viol and crash is not None and not any(l.startswith("impl-exception") for l in r["model"]):
                # the implementation raised where the proved model completes the scenario: whatever the property
                # promises for this scenario did not happen -- a concrete failing input
                small = _shrink_diff(sc, variant) if len(chk.violations) < 2 else sc
                rr = corr.corr_sims([small], variant=variant)[0]
                c2 = next((l for l in rr["impl"] if l.startswith("impl-exception")), None)
                if c2 is None:
                    small, rr, c2 = sc, r, crash
                chk.violation(cls, small, ["%s: the implementation raised an unexpected exception on this scenario (%s); the model "
                                           "completes it" % (tag, c2[len("impl-exception "):])],
                              extra={"impl": rr["impl"][:200], "model": rr["model"][:200]})
                continue
            if viol:
                small = _shrink_sim(sc, mons, tag, variant) if len(chk.violations) < 2 else sc
                rr = corr.corr_sims([small], variant=variant)[0]
                vs = [x for mon in mons for x in mon(small, rr["impl"]) if x.startswith(tag)]
                chk.violation(cls, small, vs or viol, extra={"impl": rr["impl"][:200], "model": rr["model"][:200]})
            elif r["diff"] is not None:
                small = _shrink_diff(sc, variant) if len(chk.corr_breaks) < 2 else sc
                rr = corr.corr_sims([small], variant=variant)[0]
                chk.corr_break(cls, small, rr["diff"] or r["diff"],
                               extra={"impl": rr["impl"][:200], "model": rr["model"][:200]})
        if len(chk.violations) + len(chk.corr_breaks) > 6:
            return


def _brief(sc):
    d = {k: sc[k] for k in ("handlers", "nodes", "med", "mob", "asserts", "seed", "dur", "maxit", "drv", "script")}
    for k in ("reuse_commands", "fresh_controllers", "odd_names", "truthy_preds", "build_twice", "poll_done", "int_numbers", "enum_names", "raw_commands", "rerun", "late_config", "nodes_first", "interloper", "poll_inside", "positional_config", "two_controllers", "cross_flags", "worker_thread", "replaced_handlers", "long_payloads", "odd_payloads", "variant", "stream",
              "ext_inside", "forked", "builder_reused", "json_payloads", "cb_returns", "early_controller", "late_classes", "slow_cb", "host_plugin", "tag_names", "quote_plugin",
              "assert_names", "trace_limit", "fuel"):
        if k in sc:
            d[k] = sc[k]
    return d


def _shrink_sim(sc, mons, tag, variant):
    def fails(c):
        r = corr.corr_sims([c], variant=variant)[0]
        return any(x.startswith(tag) for mon in mons for x in mon(c, r["impl"]))
    return shrink(sc, fails, sim_candidates, budget=120)


def _shrink_diff(sc, variant):
    def fails(c):
        return corr.corr_sims([c], variant=variant)[0]["diff"] is not None
    return shrink(sc, fails, sim_candidates, budget=120)


def gen_many(R, n, prof):
    return [gen_sim.gen_scenario(R, prof) for _ in range(n)]


# ---------------------------------------------------------------------------------------------
# corpus: minimised failures found earlier (including the replays of the repaired defects)
# ---------------------------------------------------------------------------------------------

def corpus(prop):
    d = os.path.join(VERIF, "corpus", prop)
    out = []
    if os.path.isdir(d):
        for fn in sorted(os.listdir(d)):
            if fn.endswith(".json"):
                out.append(json.load(open(os.path.join(d, fn))))
    return out


def run_corpus(chk, mons_sim):
    for item in corpus(chk.prop):
        if item["kind"] == "el":
            run_el_class(chk, "corpus", [[tuple(o) for o in item["ops"]]])
        elif item["kind"] == "sim":
            sc = item["sc"]
            sc["nodes"] = [{"pos": tuple(n["pos"]), "ty": n["ty"]} for n in sc["nodes"]]
            sc["drv"] = tuple(sc["drv"])
            sc["med"] = tuple(sc["med"])
            sc["mob"] = (sc["mob"][0], sc["mob"][1], tuple(sc["mob"][2]))
            sc["asserts"] = [tuple(a) for a in sc["asserts"]]
            for rules in sc["script"]:
                for r in rules:
                    r["trig"] = tuple(r["trig"])
                    r["acts"] = [tuple(a) for a in r["acts"]]
            run_sim_class(chk, "corpus", [sc], mons_sim)


# ---------------------------------------------------------------------------------------------
# C01 .. C06
# ---------------------------------------------------------------------------------------------

def gen_timer_storm(R):
    """many timers of one name set and then cancelled while other events are pending (cancelled timers
    stay queued until their time), then the run goes on with ordinary timers and messages"""
    nn = R.randint(1, 3)
    k = R.choice([40, 64, 65, 70, 100, 130])
    acts = [("settimer", 0, "abs", R.choice([1.0, 2.0, 3.0, 4.0]) + i * 0.001) for i in range(k)]
    if R.random() < 0.6:
        # many survivors with unrelated due times interleaved with the cancelled ones, in no particular order
        acts = [("settimer", 0, "abs", round(R.uniform(0.25, 8.0), 3)) for _ in range(k)]
        for _ in range(R.randint(8, 60)):
            acts.insert(R.randrange(len(acts) + 1), ("settimer", R.choice([1, 2]), "abs", round(R.uniform(0.25, 8.0), 3)))
    acts.insert(R.randrange(len(acts)), ("settimer", 1, "abs", 0.5))
    acts.insert(R.randrange(len(acts)), ("settimer", 2, "abs", 2.5))
    acts += [("settimer", 1, "abs", 6.0), ("settimer", 2, "abs", 5.0), ("settimer", 1, "abs", 1.5), ("settimer", 2, "abs", 3.5), ("settimer", 1, "abs", 4.5)]
    when = R.choice(["init", "timer"])
    script = [[] for _ in range(nn)]
    if when == "init":
        script[0].append({"trig": ("init",), "nth": None, "acts": acts + [("cancel", 0)]})
    else:
        script[0].append({"trig": ("init",), "nth": None, "acts": acts})
        script[0].append({"trig": ("timer", 1), "nth": 0, "acts": [("cancel", 0), ("settimer", 0, "rel", 0.25)]})
    script[0].append({"trig": ("timer", None), "nth": R.randrange(3), "acts": [("settimer", 2, "rel", 0.5), ("bcast", 7)]})
    for me in range(1, nn):
        script[me].append({"trig": ("init",), "nth": None, "acts": [("settimer", 0, "abs", R.choice([0.75, 2.25, 5.5])), ("send", 3, 0)]})
    return {"handlers": ["T", "C"] + (["R0"] if R.random() < 0.5 else []),
            "nodes": [{"pos": (float(i), 0.0, 0.0), "ty": 0} for i in range(nn)], "med": (1000.0, R.choice([0.0, 0.5]), 0.0),
            "mob": (1.0, 1.0, (0.0, 0.0, 0.0)), "asserts": [], "seed": 1, "dur": None, "maxit": None, "drv": ("run",), "script": script}


def gen_decimal_ties(R):
    """requests for one and the same instant T made at different moments t (decimal, not dyadic, values:
    t + (T - t) != T in doubles for some of them), by timers and by delayed messages"""
    nn = R.randint(1, 2)
    script = [[] for _ in range(nn)]
    grid = [round(0.1 * k, 1) for k in range(1, 60)]
    for me in range(nn):
        T = R.choice(grid[8:])
        ts = sorted(R.sample([g for g in grid if g < T], R.randint(1, 3)))
        acts0 = [("settimer", 1, "abs", T)] + [("settimer", 10 + j, "abs", t) for j, t in enumerate(ts)]
        R.shuffle(acts0)
        script[me].append({"trig": ("init",), "nth": None, "acts": acts0})
        for j, t in enumerate(ts):
            acts = [("settimer", 2 + j, "abs", T)]
            if nn > 1 and R.random() < 0.4:
                acts.append(("send", 40 + j, 1 - me))
            script[me].append({"trig": ("timer", 10 + j), "nth": None, "acts": acts})
    known = [(0.2, 0.9), (0.4, 1.7), (0.8, 2.9), (1.3, 3.4), (1.1, 5.2)]
    if R.random() < 0.5:
        t, T = R.choice(known)
        script[0] = [{"trig": ("init",), "nth": None, "acts": [("settimer", 1, "abs", T), ("settimer", 10, "abs", t)]},
                     {"trig": ("timer", 10), "nth": None, "acts": [("settimer", 2, "abs", T)]}]
    return {"handlers": R.sample(["T", "C"], 2), "nodes": [{"pos": (float(i), 0.0, 0.0), "ty": 0} for i in range(nn)],
            "med": (100.0, R.choice([0.0, 0.1, 0.3]), 0.0), "mob": (1.0, 1.0, (0.0, 0.0, 0.0)), "asserts": [], "seed": 1,
            "dur": None, "maxit": None, "drv": ("run",), "script": script}


def check_C01(chk, R, S):
    chk.rule = ("event-loop API histories (exhaustive over {schedule at clock-1/+0/+1/+2, pop, peek, clear, len} up to "
                "length %d, then random to length 60) and whole simulations from the structured-random script generator; "
                "non-trivial = >=2 schedules and a pop / more callbacks than nodes; distinct = hash of the canonical case"
                % S["el_len"])
    run_corpus(chk, [M.mon_C01])
    run_el_class(chk, "el-exhaustive", el_exhaustive(S["el_len"]))
    run_el_class(chk, "el-random", el_random(R, S["el_rand"]))
    run_sim_class(chk, "sim-general", gen_many(R, S["sims"], {}), [M.mon_C01])
    run_sim_class(chk, "sim-ties", gen_many(R, S["sims"] // 2, {"p_timer": 1.0, "p_comm": 1.0, "delays": [0.0, 0.5, 1.0],
                                                              "max_rules": 5, "fails": [0.0]}), [M.mon_C01])
    run_sim_class(chk, "sim-timer-storm", [gen_timer_storm(R) for _ in range(max(12, S["sims"] // 20))], [M.mon_C01])
    run_sim_class(chk, "sim-decimal-ties", [gen_decimal_ties(R) for _ in range(max(60, S["sims"] // 5))], [M.mon_C01])
    run_sim_class(chk, "sim-external-requests", [gen_drive_scenario(R, ("settimer", "send", "bcast", "cancel")) for _ in range(max(60, S["sims"] // 5))], [M.mon_C01])
    run_el_class(chk, "el-chronological", el_chrono(R, max(200, S["el_rand"] // 4)))
    run_el_class(chk, "el-around-source-constants", el_mined(R, max(300, S["el_rand"] // 4)))
    run_el_class(chk, "el-events-at-infinity", el_infinite(R, 200))
    # runs paced against the wall clock in which one callback takes a noticeable wall-clock time (0.12 s): what a callback
    # costs in real time is no input of the simulated clock
    slow = []
    for j in range(4):
        sc = gen_decimal_ties(R) if j % 2 else gen_timer_storm(R)
        sc["drv"] = ("run",)
        sc["variant"] = {"real_time": 1e6 if j < 3 else 40.0}
        sc["slow_cb"] = 2 + j
        slow.append(sc)
    run_sim_class(chk, "sim-paced-slow-callback", slow, [M.mon_C01])
    _crowd_class(chk, R, [M.mon_C01])
    el_exact_integer_class(chk, R, max(200, S["el_rand"] // 10))
    # the same scenarios in a child interpreter started with optimisations on (asserts stripped): same traces
    import subproc_matrix
    subproc_matrix.run(chk, gen_many(R, 8, {"p_assert": 0.0}), R, light=True, hashseeds=("1",), env_extra={"PYTHONOPTIMIZE": "1"},
                       what="PYTHONOPTIMIZE=1, PYTHONHASHSEED")
    chk.exhaustive = True


def el_exact_integer_class(chk, R, count):
    """event-loop histories whose timestamps are whole numbers given as Python ints far beyond 2^53 (integer nanoseconds since
    1970, say): exact numbers that are not doubles, so there is no model run -- the oracle is the definition itself: every pop
    returns the pending event that is smallest by (timestamp, order of scheduling), compared exactly, and the clock reads
    that timestamp.  A request is expected to be refused exactly when its timestamp is below the clock."""
    from gradysim.simulator.event import EventLoop, EventLoopException
    for _ in range(count):
        base = R.choice([1_700_000_000_000_000_000, 2 ** 53, 2 ** 60 + 1, 10 ** 17 + 7, 2 ** 64])
        loop, pending, hist, bad = EventLoop(), [], [], []
        clock, n = 0, 0
        for _ in range(R.randint(4, 40)):
            if R.random() < 0.6 or not pending:
                ts = base + R.choice([0, 1, 2, 3, 1, 0, 2, R.randint(0, 300)])
                hist.append(("schedule", ts))
                try:
                    loop.schedule_event(ts, (lambda: None), "e%d" % n)
                    ok = True
                except EventLoopException:
                    ok = False
                if ok != (ts >= clock) and ok != (float(ts) >= float(clock)):
                    bad.append("C01: request %d for exact time %d with the clock at %d was %s" % (n, ts, clock, "accepted" if ok else "refused"))
                if ok:
                    pending.append((ts, n))
                n += 1
            else:
                hist.append(("pop",))
                e = loop.pop_event()
                want = min(pending)
                # (a loop that turns the timestamps it is given into doubles orders them as doubles, ties first in, first out: that
                # is accepted as well, as long as the clock it reports never goes back)
                as_double = min(pending, key=lambda q: (float(q[0]), q[1]))
                k_ = int(e.context[1:])
                got = next((q for q in pending if q[1] == k_), (e.timestamp, k_))
                if got == as_double and float(e.timestamp) == float(got[0]):
                    want = as_double
                pending.remove(want)
                if got != want:
                    bad.append("C01: pop returned the event scheduled %s for time %d, the earliest pending one is the one scheduled %s for time %d"
                               % (("#%d" % got[1]), got[0], ("#%d" % want[1]), want[0]))
                    if (got[0], got[1]) in pending:
                        pending.remove(got)
                        pending.append(want)
                if e.timestamp < clock:
                    bad.append("C01: the clock went back from %r to %r" % (clock, e.timestamp))
                clock = e.timestamp
                if loop.current_time != e.timestamp:
                    bad.append("C01: after popping the event of time %r the clock reads %r" % (e.timestamp, loop.current_time))
        chk.record("el-exact-integer-timestamps", {"base": str(base), "ops": len(hist)}, True)
        chk.validated += 1
        if bad:
            chk.violation("el-exact-integer-timestamps", {"ops": [list(map(str, h)) for h in hist]}, bad[:3])


def el_million_class(chk):
    """one step of the loop in which 2^20 + 3 events are requested for one and the same instant, popped afterwards: first in,
    first out (no model run: the oracle is the order of the requests)"""
    from gradysim.simulator.event import EventLoop
    import time
    if chk.violations or chk.corr_breaks:
        return          # (the property is already shown to fail on this tree; a million events are not needed to say so)
    loop = EventLoop()
    cb = (lambda: None)
    loop.schedule_event(1.0, cb, "first")
    loop.pop_event()
    n = 2 ** 20 + 3
    t0 = time.time()
    for i in range(n):
        loop.schedule_event(5.0, cb, str(i))
        if i == 20000 and time.time() - t0 > 2.0:
            # an event loop a hundred times slower than the unchanged one: this class would take hours; it is left out
            chk.record("el-million-requests-in-one-step", {"requests": i, "abandoned": "too slow"}, False)
            return
    loop.schedule_event(5.0, cb, "last")
    wrong = None
    for i in range(n):
        e = loop.pop_event()
        if e.context != str(i):
            wrong = (i, e.context)
            break
        if i == 20000 and time.time() - t0 > 30.0:
            chk.record("el-million-requests-in-one-step", {"requests": n, "abandoned": "too slow"}, False)
            return
    chk.record("el-million-requests-in-one-step", {"requests": n}, True)
    chk.validated += 1
    if wrong is not None:
        chk.violation("el-million-requests-in-one-step", {"requests": n, "instant": 5.0},
                      ["C03: %d events requested for one instant within one step of the loop: pop #%d returned the event requested #%s "
                       "(first in, first out expected)" % (n, wrong[0], wrong[1])])

def heapq_layout_class(chk, R, count):
    """the Gallina transcription of CPython's heapq (coq/Heap.v), ordered by the model's ev_lt, against CPython's heapq holding the
    repo's own Event objects (ordered by Event.__lt__): the layout of the whole array after every push and pop must be the same, and
    the transcription's array must satisfy the heap condition after every operation (computed inside Coq by vm_compute).  When the
    layouts differ the histories are searched for one on which the repo's events leave the heap out of (time, request) order: that is
    the failing input; a different layout with the right order of pops is recorded and raises nothing (the theorems of C02/C03 about
    the event loop do not rest on the array layout)."""
    import heapq
    import subprocess
    from gradysim.simulator.event import Event
    try:
        # (Event is a value class of the library, not documented API: if it can no longer be built or compared this way the class
        # is left out -- the event-loop classes, which use the documented API only, carry the tie)
        probe = [Event(timestamp=1.0, callback=None, context="", sequence=1), Event(timestamp=1.0, callback=None, context="", sequence=0)]
        heapq.heapify(probe)
        _ = (probe[0].sequence, probe[0].timestamp)
    except Exception as exc:
        chk.record("heapq-layout-skipped", {"reason": "Event(timestamp, callback, context, sequence) unusable: %s" % type(exc).__name__}, False)
        return
    cases = []
    try:
        for k in range(count):
            ops, heap, layouts, n, pops = [], [], [], 0, []
            span = R.choice([1, 2, 3, 5, 40])
            for _ in range(R.randint(1, 60 if k % 10 else 400)):
                if R.random() < 0.62 or not heap:
                    ts = R.randint(0, span)
                    ops.append(ts)
                    heapq.heappush(heap, Event(timestamp=float(ts), callback=None, context="", sequence=n))
                    n += 1
                else:
                    ops.append(None)
                    e = heapq.heappop(heap)
                    pops.append((e.timestamp, e.sequence, sorted((x.timestamp, x.sequence) for x in heap + [e])[0]))
                layouts.append([e.sequence for e in heap])
            cases.append((ops, layouts, pops))
            chk.record("heapq-layout", {"ops": len(ops), "span": span}, True)
    except Exception as exc:
        chk.record("heapq-layout-skipped", {"reason": "heapq over Event objects raised %s" % type(exc).__name__}, False)
        return
    def lit(c):
        ops, layouts, _ = c
        return "([%s], [%s])" % ("; ".join("None" if o is None else "Some %d%%Z" % o for o in ops),
                                 "; ".join("[%s]" % "; ".join("%d%%N" % q for q in l) for l in layouts))
    src = """From Coq Require Import List ZArith NArith Bool. Import ListNotations.
From GS Require Import Num NumZ EventLoop Heap.
Definition E := event Z unit.
Definition lt : E -> E -> bool := ev_lt Z_ops.
Fixpoint run (ops : list (option Z)) (h : list E) (n : N) : list (list N * bool) :=
  match ops with
  | [] => []
  | Some ts :: r => let h' := heappush lt h (mkEv ts n tt) in (map (@ev_seq Z unit) h', heap_invb lt h') :: run r h' (N.succ n)
  | None :: r => match heappop lt h with
                 | None => ([], false) :: run r h n
                 | Some (_, h') => (map (@ev_seq Z unit) h', heap_invb lt h') :: run r h' n
                 end
  end.
Definition same (a b : list (list N)) : bool := if list_eq_dec (list_eq_dec N.eq_dec) a b then true else false.
Definition verdict (c : list (option Z) * list (list N)) : nat :=
  let res := run (fst c) [] 0%%N in
  if negb (forallb snd res) then 2 else if same (map fst res) (snd c) then 0 else 1.
Definition cases : list (list (option Z) * list (list N)) := [
%s
].
Eval vm_compute in (map verdict cases).
""" % ";\n".join(lit(c) for c in cases)
    d = tempfile.mkdtemp(prefix="heapq_", dir=os.path.join(VERIF, "build"))
    try:
        open(os.path.join(d, "hcases.v"), "w").write(src)
        p = subprocess.run("ulimit -s unlimited 2>/dev/null; timeout 900 coqc -Q %s GS hcases.v" % engine.COQ, shell=True, cwd=d,
                           capture_output=True, text=True)
        out = p.stdout + p.stderr
    finally:
        import shutil
        shutil.rmtree(d, ignore_errors=True)
    import re
    m = re.search(r"=\s*\[([^\]]*)\]", out)
    verdicts = [int(x) for x in re.findall(r"\d+", m.group(1))] if (p.returncode == 0 and m) else None
    if verdicts is None or len(verdicts) != len(cases):
        chk.corr_break("heapq-layout", {"cases": len(cases)}, "the transcription could not be evaluated: " + out[-600:])
        return
    chk.validated += len(cases)
    for c, v in sorted(zip(cases, verdicts), key=lambda cv: len(cv[0][0])):
        ops, layouts, pops = c
        case = {"heap_ops": ["pop" if o is None else o for o in ops]}
        if v == 2:
            chk.corr_break("heapq-layout", case, "the transcribed heap leaves an array without the heap condition")
        elif v == 1:
            wrong = [q for q in pops if (q[0], q[1]) != q[2]]
            if wrong:
                chk.violation("heapq-layout", case,
                              ["C03: heapq over the repo's events popped the event of time %r requested #%d while the one of time %r "
                               "requested #%d was queued" % (wrong[0][0], wrong[0][1], wrong[0][2][0], wrong[0][2][1])])
            else:
                chk.record("heapq-layout-differs-pops-agree", {"ops": len(ops)}, False)
            break


def check_C02(chk, R, S):
    chk.rule = ("event-loop API histories (exhaustive to length %d, random to 60) checked against conservation "
                "(len = accepted - popped - cleared, pops only of queued events, refusals change nothing) and whole "
                "simulations run to exhaustion; distinct = hash of the canonical case" % S["el_len"])
    run_corpus(chk, [])
    run_el_class(chk, "el-exhaustive", el_exhaustive(S["el_len"]))
    run_el_class(chk, "el-random", el_random(R, S["el_rand"]))
    run_el_class(chk, "el-burst-1100", [el_long(R, 2600, burst=R.choice([1024, 1100, 1300]))], batch=1)
    prof = {"p_bounded": 1.0, "p_mob": 0.0, "p_steps": 0.1, "range": 1000.0, "fails": [0.0, 0.0, 0.5],
            "acts": ["settimer", "cancel", "send", "bcast", "flag", "goto"]}
    run_sim_class(chk, "sim-exhaustion", gen_many(R, S["sims"], prof), [M.mon_C02])
    run_sim_class(chk, "sim-watchdog", [gen_watchdog(R) for _ in range(max(60, S["sims"] // 4))], [M.mon_C02])
    run_sim_class(chk, "sim-many-nodes-timers", [gen_many_nodes_timers(R) for _ in range(max(12, S["sims"] // 20))], [M.mon_C02])
    plugin_hosts_class(chk, R, max(30, S["sims"] // 8))
    run_el_class(chk, "el-chronological", el_chrono(R, max(200, S["el_rand"] // 4)))
    run_el_class(chk, "el-around-source-constants", el_mined(R, max(300, S["el_rand"] // 4)))
    run_el_class(chk, "el-events-at-infinity", el_infinite(R, 200))
    paced_interrupt_class(chk, R, which=(2, 3))
    heapq_layout_class(chk, R, max(150, S["el_rand"] // 20))
    chk.exhaustive = True


def check_C03(chk, R, S):
    chk.rule = ("all insertion orders of timestamps {1,2,3} (ties) interleaved with pops up to %d operations, drained; "
                "random histories with ties; simulations with bursts of same-instant timers and sends over fixed delays"
                % S["fifo_len"])
    run_corpus(chk, [M.mon_C03])
    run_el_class(chk, "fifo-exhaustive", fifo_exhaustive(S["fifo_len"]))
    run_el_class(chk, "el-random", el_random(R, S["el_rand"]))
    run_el_class(chk, "el-long-150000", [el_long(R, 150000) for _ in range(6 if chk.tier == "quick" else 16)], batch=2)
    run_sim_class(chk, "sim-bursts", [gen_burst(R) for _ in range(S["sims"])], [M.mon_C03])
    run_sim_class(chk, "sim-timer-rearm", [gen_rearm(R) for _ in range(S["sims"])], [M.mon_C03])
    run_sim_class(chk, "sim-decimal-ties", [gen_decimal_ties(R) for _ in range(max(60, S["sims"] // 5))], [M.mon_C03])
    el_million_class(chk)

    def mon_update_order(sc, tr):
        # (a request made at a mobility-update instant and judged on the positions of the wrong side of that update: the update and
        # the event that made the request ran in the wrong order)
        v = ["C03: an event and the mobility update due at the same instant ran out of request order -- " + x[4:].lstrip()
             for x in M.mon_C09(sc, tr)]
        si = sc.get("sameinst")
        if si and si["k"] >= 2:
            # the timer was requested at initialisation, the update of its instant one interval before that instant: the timer runs
            # first, and what it sends (message 1) is judged on the separation BEFORE the update
            a = si["timer_node"]
            got = any(t[0] == "cb" and t[1] == str(1 - a) and t[3] == "packet" and t[4] == "1" for t in M.parse(tr))
            sent = any(t[0] == "act" and t[1] == str(a) and t[2] in ("send", "bcast") and t[3] == "1" and t[-1] == "ok" for t in M.parse(tr))
            want = si["before"] <= si["range"]
            if sent and got != want:
                v.append("C03: node %d's timer for %r was requested at initialisation, the mobility update of %r only at %r, yet the update ran "
                         "first: the message the timer sends was %s although the nodes were %r apart before that update and %r after it "
                         "(range %r)" % (a, si["T"], si["T"], si["T"] - si["rate"], "delivered" if got else "not delivered",
                                         si["before"], si["after"], si["range"]))
        return v
    # events that coincide with a mobility update: a timer armed at initialisation for the instant of the k-th update (requested
    # before that update was, for k >= 2), a send from the telemetry that update delivers (requested after it)
    run_sim_class(chk, "sim-same-instant-as-update", [gen_same_instant_scenario(R) for _ in range(max(60, S["sims"] // 6))],
                  [M.mon_C03, mon_update_order])
    run_sim_class(chk, "sim-mass-cancel", [gen_mass_cancel(R, n) for n in sorted(set([1100] + [m for m in mined_burst_sizes() if m <= 12000]))[:6]
                                           for _ in range(2)], [M.mon_C03], batch=4)
    run_el_class(chk, "el-chronological", el_chrono(R, max(200, S["el_rand"] // 4)))
    run_el_class(chk, "el-around-source-constants", el_mined(R, max(300, S["el_rand"] // 4)))
    run_el_class(chk, "el-events-at-infinity", el_infinite(R, 200))
    heapq_layout_class(chk, R, max(150, S["el_rand"] // 20))
    chk.exhaustive = True


def gen_mass_cancel(R, size):
    """a watchdog re-armed `size` times and then cancelled (that many dead events stay queued, the majority of the queue)
    while same-instant timers and messages requested before and after earlier events were executed are waiting"""
    T = R.choice([5.0, 6.0])
    nn = 2
    first = [("settimer", 10 + j, "abs", T) for j in range(R.randint(3, 6))]
    second = [("settimer", 20 + j, "abs", T) for j in range(R.randint(3, 6))] + [("send", 30 + j, 1) for j in range(R.randint(2, 5))]
    R.shuffle(second)
    script = [[{"trig": ("init",), "nth": None, "acts": first + [("settimer", 0, "abs", 0.5), ("settimer", 3, "abs", 1.0), ("settimer", 4, "abs", 1.0 + (T - 1.0) / 2)]},
               {"trig": ("timer", 0), "nth": None, "acts": [("settimer", 5, "abs", 0.75)]},
               {"trig": ("timer", 3), "nth": None, "acts": second + [("settimer", 1, "abs", 9.0)] * size + [("cancel", 1)]},
               {"trig": ("timer", 4), "nth": None, "acts": [("settimer", 40 + j, "abs", T) for j in range(3)] + [("cancel", 1)]}],
              [{"trig": ("init",), "nth": None, "acts": [("settimer", 50, "abs", T), ("settimer", 51, "abs", T)]}]]
    return {"handlers": ["T", "C"], "nodes": [{"pos": (float(i), 0.0, 0.0), "ty": 0} for i in range(nn)],
            "med": (100.0, T - 1.0, 0.0), "mob": (0.5, 1.0, (0.0, 0.0, 0.0)), "asserts": [], "seed": 1, "dur": 12.0, "maxit": None,
            "drv": ("run",), "script": script, "trace_limit": 4 * size + 2000, "fuel": 2 * size + 5000, "time_limit": 120.0}


def gen_rearm(R, names=3):
    """same-instant timers that are set, cancelled and set again, from init and from timer handlers"""
    nn = R.randint(1, 3)
    times = R.sample([0.5, 1.0, 1.5, 2.0], 2)

    def acts(k):
        out = []
        for _ in range(k):
            if R.random() < 0.7:
                out.append(("settimer", R.randrange(names), "abs", R.choice(times)))
            else:
                out.append(("cancel", R.randrange(names)))
        return out
    script = []
    for me in range(nn):
        rules = [{"trig": ("init",), "nth": None, "acts": acts(R.randint(3, 9))}]
        for _ in range(R.randint(0, 2)):
            rules.append({"trig": ("timer", R.choice([None, 0, 1, 2])), "nth": R.randrange(3), "acts": acts(R.randint(1, 4))})
        script.append(rules)
    return {"handlers": ["T"] + (["R0"] if R.random() < 0.3 else []),
            "nodes": [{"pos": (float(i), 0.0, 0.0), "ty": 0} for i in range(nn)],
            "med": (1000.0, 0.0, 0.0), "mob": (1.0, 1.0, (0.0, 0.0, 0.0)), "asserts": [], "seed": R.randrange(1 << 30),
            "dur": None, "maxit": None, "drv": ("run",), "script": script}


def gen_watchdog(R):
    """the restart-the-timeout idiom and what comes after it: inside the handler of timer N the node cancels N and sets it
    again for later; before (or after) the re-armed N is due, another callback of the node -- another timer, a packet --
    cancels N, sets it once more, or leaves it alone"""
    nn = R.randint(1, 3)
    script = []
    for me in range(nn):
        N, K = R.sample([0, 1, 2], 2)
        t1 = R.choice([0.5, 1.0, 1.5])
        d = R.choice([1.0, 2.0, 0.5])
        t3 = t1 + d * R.choice([0.5, 0.5, 1.0, 1.5])      # before, at, after the re-armed timer is due
        first = [("cancel", N), ("settimer", N, "rel", d)]
        if R.random() < 0.3:
            first = [("settimer", N, "rel", d)]                    # re-armed without the cancel
        if R.random() < 0.2:
            first = first + [("cancel", N), ("settimer", N, "rel", d)]   # twice in the same handler
        later = R.choice([[("cancel", N)], [("cancel", N)], [("cancel", N), ("settimer", N, "rel", 1.0)], [("cancel", K)], []])
        rules = [{"trig": ("init",), "nth": None, "acts": [("settimer", N, "abs", t1), ("settimer", K, "abs", t3)]
                  + ([("settimer", N, "abs", t1)] if R.random() < 0.2 else [])},
                 {"trig": ("timer", N), "nth": 0, "acts": first},
                 {"trig": ("timer", K), "nth": 0, "acts": later}]
        if nn > 1 and R.random() < 0.4:
            rules.append({"trig": ("packet", None), "nth": 0, "acts": [("cancel", N)]})
            rules[0]["acts"].append(("send", 100 + me, (me + 1) % nn))
        script.append(rules)
    return {"handlers": R.sample(["T", "C"], 2), "nodes": [{"pos": (float(i), 0.0, 0.0), "ty": 0} for i in range(nn)],
            "med": (1000.0, R.choice([0.0, 1.25, 2.0]), 0.0), "mob": (1.0, 1.0, (0.0, 0.0, 0.0)), "asserts": [], "seed": R.randrange(1 << 30),
            "dur": None, "maxit": None, "drv": ("run",), "script": script}


def gen_many_nodes(R, rng=None, mob=True):
    """scale in the number of nodes (11-30): identifiers with two digits, broadcasts with a wide fan-out, a telemetry
    event per node and update; few rules per node"""
    nn = R.randint(11, 30)
    side = R.choice([4, 5, 6])
    nodes = [{"pos": (float(3 * (i % side)), float(3 * (i // side)), 0.0), "ty": R.choice([0, 0, 1])} for i in range(nn)]
    script = []
    msg = itertools.count(0)
    for me in range(nn):
        rules = []
        if R.random() < 0.4:
            rules.append({"trig": ("init",), "nth": None, "acts": [("settimer", R.randrange(3), "abs", R.choice([0.5, 1.0, 1.5]))]})
            rules.append({"trig": ("timer", None), "nth": 0,
                          "acts": [R.choice([("bcast", next(msg)), ("send", next(msg), R.choice([i for i in range(nn) if i != me]))])]})
        if R.random() < 0.25:
            rules.append({"trig": ("packet", None), "nth": 0, "acts": [("send", next(msg), R.choice([i for i in range(nn) if i != me]))]})
        if mob and R.random() < 0.3:
            rules.append({"trig": ("init",), "nth": None, "acts": [("goto", float(R.randint(0, 15)), float(R.randint(0, 15)), 0.0)]})
        script.append(rules)
    hs = ["T", "C"] + (["M"] if mob else [])
    return {"handlers": R.sample(hs, len(hs)), "nodes": nodes, "med": (rng if rng is not None else R.choice([5.0, 8.0, 1000.0]), R.choice([0.0, 0.25]), 0.0),
            "mob": (R.choice([0.5, 1.0]), 3.0, (0.0, 0.0, 0.0)), "asserts": [], "seed": R.randrange(1 << 30),
            "dur": R.choice([2.0, 2.5, 3.0]), "maxit": None, "drv": ("run",), "script": script}


def mined_counts():
    """whole numbers among the literals of the source, as node counts (a threshold on the number of nodes / recipients is
    where a fan-out changes its code path): the number itself and one more"""
    out = set()
    for c in mined_constants():
        if c == int(c) and 8 <= c <= 300:
            out.update((int(c), int(c) + 1))
    return sorted(out) or [11]


def gen_crowd(R, nn, mob=True):
    """nn nodes with timers at assorted instants on a quarter-second grid; a few of them broadcast (one of them after
    raising its own range well above the medium's), everybody is moved by the mobility handler"""
    side = max(4, int(nn ** 0.5))
    nodes = [{"pos": (float(4 * (i % side)), float(4 * (i // side)), 0.0), "ty": 0} for i in range(nn)]
    msg = itertools.count(0)
    script = []
    loud = R.randrange(nn)
    for me in range(nn):
        acts = [("settimer", k, "abs", 0.25 * R.randint(1, 16)) for k in range(R.randint(0, 3))]
        rules = [{"trig": ("init",), "nth": None, "acts": acts}] if acts else []
        if me == loud or R.random() < 0.05:
            rules.append({"trig": ("init",), "nth": None, "acts": ([("range", 1000.0)] if me == loud else []) + [("settimer", 7, "abs", 2.0)]})
            rules.append({"trig": ("timer", 7), "nth": None, "acts": [("bcast", next(msg))]})
        if mob and R.random() < 0.2:
            rules.append({"trig": ("init",), "nth": None, "acts": [("goto", float(R.randint(0, 20)), float(R.randint(0, 20)), 0.0)]})
        script.append(rules)
    hs = ["T", "C"] + (["M"] if mob else [])
    return {"handlers": R.sample(hs, len(hs)), "nodes": nodes, "med": (R.choice([6.0, 30.0]), R.choice([0.5, 0.0]), 0.0),
            "mob": (1.0, 3.0, (0.0, 0.0, 0.0)), "asserts": [], "seed": R.randrange(1 << 30),
            "dur": 4.5, "maxit": None, "drv": ("run",), "script": script}


def _crowd_class(chk, R, mons, mob=True):
    run_sim_class(chk, "sim-node-counts-around-source-constants", [gen_crowd(R, n, mob) for n in mined_counts() for _ in range(3)], mons)


def gen_many_names(R):
    """scale in the number of timer NAMES (35-90 per node): a protocol that puts a job number into the name of each timer"""
    nn = R.randint(1, 2)
    script = []
    for me in range(nn):
        N = R.randint(35, 90)
        batch = R.choice([N, 10, 17])
        rules = [{"trig": ("init",), "nth": None, "acts": [("settimer", 100 + k, "abs", 0.5 + 0.25 * (k % 9)) for k in range(min(batch, N))]
                  + [("cancel", 100 + k) for k in R.sample(range(min(batch, N)), 3)]}]
        # the rest of the names are used one after the other, each from the handler of an earlier one
        for k in range(batch, N):
            rules.append({"trig": ("timer", 100 + k - batch), "nth": None, "acts": [("settimer", 100 + k, "rel", R.choice([0.25, 0.5, 1.0]))]
                          + ([("cancel", 100 + R.randrange(k))] if R.random() < 0.15 else [])})
        script.append(rules)
    return {"handlers": ["T"], "nodes": [{"pos": (float(i), 0.0, 0.0), "ty": 0} for i in range(nn)],
            "med": (1000.0, 0.0, 0.0), "mob": (1.0, 1.0, (0.0, 0.0, 0.0)), "asserts": [], "seed": R.randrange(1 << 30),
            "dur": None, "maxit": None, "drv": ("run",), "script": script}


def gen_many_nodes_timers(R):
    """11-30 nodes whose timers carry one- and two-digit names (job numbers), set, cancelled and re-set: node 1's timer
    "12" and node 11's timer "2" are different timers"""
    nn = R.randint(11, 30)
    names = [0, 1, 2, 3, 10, 11, 12, 20, 21, 22, 23]
    script = []
    for me in range(nn):
        mine = R.sample(names, R.randint(2, 5))
        rules = [{"trig": ("init",), "nth": None, "acts": [("settimer", k, "abs", R.choice([1.0, 1.5, 2.0, 2.5])) for k in mine]
                  + ([("settimer", 99, "abs", 0.5)] if R.random() < 0.7 else [])},
                 {"trig": ("timer", 99), "nth": None, "acts": [("cancel", R.choice(names)) for _ in range(R.randint(1, 3))]}]
        script.append(rules)
    return {"handlers": ["T"], "nodes": [{"pos": (float(i), 0.0, 0.0), "ty": 0} for i in range(nn)],
            "med": (1000.0, 0.0, 0.0), "mob": (1.0, 1.0, (0.0, 0.0, 0.0)), "asserts": [], "seed": R.randrange(1 << 30),
            "dur": None, "maxit": None, "drv": ("run",), "script": script}


def gen_burst(R):
    """bursts of sends on links with a fixed delay, and of same-instant timers, with unique payloads"""
    nn = R.randint(2, 4)
    delay = R.choice([0.0, 0.5, 1.0, 0.25])
    msg = itertools.count(0)
    script = []
    for me in range(nn):
        rules = []
        acts = []
        for _ in range(R.randint(2, 12)):
            x = R.random()
            others = [i for i in range(nn) if i != me]
            if x < 0.5:
                acts.append(("send", next(msg), R.choice(others)))
            elif x < 0.6:
                acts.append(("bcast", next(msg)))
            else:
                acts.append(("settimer", R.randrange(3), R.choice(["abs", "rel"]), R.choice([0.0, 0.5, 1.0, 1.0, 1.5])))
        rules.append({"trig": ("init",), "nth": None, "acts": acts})
        if R.random() < 0.7:
            acts2 = []
            for _ in range(R.randint(1, 6)):
                others = [i for i in range(nn) if i != me]
                if R.random() < 0.6:
                    acts2.append(("send", next(msg), R.choice(others)))
                else:
                    acts2.append(("settimer", R.randrange(3), "rel", R.choice([0.0, 0.5, 1.0])))
            rules.append({"trig": R.choice([("timer", None), ("packet", None)]), "nth": R.randrange(3), "acts": acts2})
        script.append(rules)
    return {"handlers": R.sample(["T", "C"], 2) + (["R0"] if R.random() < 0.3 else []),
            "nodes": [{"pos": (float(i), 0.0, 0.0), "ty": 0} for i in range(nn)],
            "med": (1000.0, delay, 0.0), "mob": (1.0, 1.0, (0.0, 0.0, 0.0)), "asserts": [], "seed": R.randrange(1 << 30),
            "dur": None, "maxit": None, "drv": ("run",), "script": script}


def gen_near_ties(R):
    """two events due one rounding error apart (0.1 + 0.2 and 0.3): a message sent at a with delay d arrives at the double
    a + d, a timer is set for the decimal that a + d was meant to be; either may be requested first; a recorder handler"""
    pairs = [(0.1, 0.2), (0.2, 0.1), (0.1, 0.7), (0.7, 0.1), (0.2, 0.4), (0.4, 0.2), (1.1, 2.2), (0.3, 0.6), (0.6, 0.3)]
    a, d = R.choice(pairs)
    T = round(a + d, 1)
    other = R.choice([x for x in (round(a / 2, 2), round(a + d / 2, 2), 0.0) if x < T])
    script = [[{"trig": ("init",), "nth": None, "acts": [("settimer", 0, "abs", a)] + ([("settimer", 1, "abs", other)] if other > 0 else [("settimer", 2, "abs", T)])},
               {"trig": ("timer", 0), "nth": None, "acts": [("send", 7, 1)]},
               {"trig": ("timer", 1), "nth": None, "acts": [("settimer", 2, "abs", T)]}],
              [{"trig": ("packet", None), "nth": None, "acts": [("settimer", 1, "rel", 0.5)]}]]
    return {"handlers": R.sample(["T", "C", "R0"], 3), "nodes": [{"pos": (float(i), 0.0, 0.0), "ty": 0} for i in range(2)],
            "med": (100.0, d, 0.0), "mob": (1.0, 1.0, (0.0, 0.0, 0.0)), "asserts": [], "seed": 1,
            "dur": None, "maxit": 400, "drv": ("run",), "script": script, "near": (T, a + d)}


def check_C04(chk, R, S):
    chk.rule = ("timelines from scripted programs x duration in {None, 0, an event time, between two, past the last} x "
                "max_iterations in {None, 0, 1, k, > total}, blocking and stepped; the bounded run must execute exactly "
                "the eligible prefix of the unbounded run (recomputed from recorder traces)")
    run_corpus(chk, [M.mon_C04_bounds])
    scs = []
    for _ in range(S["sims"] // 4):
        base = gen_sim.gen_scenario(R, {"rec_weights": [0, 3, 1], "p_assert": 0.0, "p_bounded": 0.7, "p_steps": 0.0})
        base["dur"], base["maxit"], base["drv"] = None, 400, ("run",)
        scs.append(base)
    scs += [gen_near_ties(R) for _ in range(max(12, S["sims"] // 20))]
    refs = corr.corr_sims(scs)
    todo = []
    for r in refs:
        base = r["sc"]
        # the reference timeline is the proved model's unbounded run of the scenario (the implementation's own unbounded
        # run is compared with it like every other run)
        ref_trace = r["model"] if r.get("model") and len(r["model"]) > 1 else r["impl"]
        ex = M.executed(ref_trace, M.recs(base)[0])
        times = sorted({ts for _, ts in ex})
        durs = [None, 0.0]
        if times:
            import math
            t0 = R.choice(times)
            durs += [R.choice(times), times[-1], times[-1] + 1.0,
                     math.nextafter(t0, -math.inf), math.nextafter(t0, math.inf), t0 * (1 - 1e-12), round(t0, 1), round(t0, 2)]
            if len(times) > 1:
                k = R.randrange(len(times) - 1)
                durs.append((times[k] + times[k + 1]) / 2)
        if "near" in base:
            durs = [base["near"][0], base["near"][1], min(base["near"]), None]
        durs = [d for d in durs if d is None or d >= 0.0]        # a negative duration is not a meaningful configuration
        its = [None, 0, 1, max(1, len(ex) // 2), len(ex), len(ex) + 5, -1, -3]      # a negative limit: no ordinal is below it
        for _ in range(4):
            c = copy.deepcopy(base)
            c["dur"], c["maxit"] = R.choice(durs), R.choice(its)
            if c["dur"] is None and c["maxit"] is None:
                c["maxit"] = 400
            if R.random() < 0.35:
                c["drv"] = ("steps", R.randint(0, len(ex) + 4))
            todo.append((c, ref_trace))
    reftr = {id(c): t for c, t in todo}

    def mon_prefix(sc, trace):
        return M.mon_C04_prefix(sc, trace, reftr[id(sc)], 400) if id(sc) in reftr else []
    run_sim_class(chk, "sim-bounds", [c for c, _ in todo], [M.mon_C04_bounds, mon_prefix])
    paced_interrupt_class(chk, R)


class _Interrupt(BaseException):
    pass


def paced_interrupt_class(chk, R, which=(0, 1, 2, 3)):
    """a blocking run paced against the wall clock is interrupted (an alarm whose handler raises, as Ctrl-C does) while it is
    WAITING for its next event, and resumed by calling start_simulation() again: every event within the bounds is still
    executed, exactly once.  The alarm only raises when the interpreter is found sleeping inside the simulator (not inside a
    callback or between two statements of the event loop); otherwise the experiment is counted as inconclusive."""
    import linecache
    import signal
    import time
    import scripted as SC
    from gradysim.simulator.simulation import SimulationBuilder, SimulationConfiguration
    from gradysim.simulator.handler.timer import TimerHandler
    for j in which:
        times = [[0.2, 0.5, 0.8], [0.25, 0.6, 0.9, 0.9]][j % 2]
        speed = [2.0, 2.5][j % 2]
        # j >= 2: the alarm's handler does not raise but makes a request through the node's provider (a timer due BEFORE the
        # event being waited for) and returns: the wait goes on, and the new timer is the next event to be executed
        request = j >= 2
        script = [[{"trig": ("init",), "nth": None, "acts": [("settimer", i, "abs", t) for i, t in enumerate(times)]}]]
        sc = {"handlers": ["T"], "nodes": [{"pos": (0.0, 0.0, 0.0), "ty": 0}], "med": (60.0, 0.0, 0.0), "mob": (0.5, 1.0, (0.0, 0.0, 0.0)),
              "asserts": [], "seed": 1, "dur": 1.0, "maxit": None, "drv": ("run",), "script": script}
        state = {}

        def onalarm(signum, frame):
            line = linecache.getline(frame.f_code.co_filename, frame.f_lineno)
            if frame.f_code.co_filename.endswith(os.path.join("simulator", "simulation.py")) and "sleep" in line:
                state["hit"] = True
                if request:
                    proto = SC.CTX.sim.get_node(0).protocol_encapsulator.protocol
                    state["t_new"] = proto.provider.current_time() + 0.07      # (before the event being waited for: they are 0.3 apart)
                    proto.external([("settimer", 7, state["t_new"])])
                    return
                raise _Interrupt()
            state["miss"] = (frame.f_code.co_filename, frame.f_lineno)
        tr = []
        SC.CTX.scenario, SC.CTX.trace, SC.CTX.sim, SC.CTX.ncb, SC.CTX.inside, SC.CTX.kept_telemetry = sc, tr, None, 0, None, None
        SC.CTX.after_fire = None
        old = signal.signal(signal.SIGALRM, onalarm)
        err = None
        try:
            with SC._Quiet():
                b = SimulationBuilder(SimulationConfiguration(duration=1.0, execution_logging=False, real_time=speed))
                b.add_handler(TimerHandler())
                b.add_node(SC.PROTO[0], (0.0, 0.0, 0.0))
                sim = b.build()
                SC.CTX.sim = sim
                # the middle of the wait between the first and the second timer
                signal.setitimer(signal.ITIMER_REAL, (times[0] + times[1]) / 2 / speed)
                try:
                    try:
                        sim.start_simulation()
                    except _Interrupt:
                        state["resumed"] = True
                        sim.start_simulation()
                except Exception as e:  # noqa: BLE001
                    err = e
        finally:
            signal.setitimer(signal.ITIMER_REAL, 0)
            signal.signal(signal.SIGALRM, old)
            SC.CTX.sim = None
        got = [l for l in tr if l.startswith("cb ") and not l.endswith(" ext")]
        chk.record("paced-run-interrupted-while-waiting", {"timers": times, "speed": speed, "request": request, "interrupted": bool(state.get("hit")),
                                                           "inconclusive": state.get("miss") is not None and not state.get("hit")}, True)
        chk.validated += 1
        if not state.get("hit"):
            continue
        # what is expected: the model's (and the implementation's) run of the scenario, with the timer that was requested during
        # the wait set at the start instead (it is due at the same time either way)
        rsc = copy.deepcopy(sc)
        if request:
            rsc["script"][0][0]["acts"].append(("settimer", 7, "abs", state["t_new"]))
        ref = corr.corr_sims([rsc])[0]
        want = [l for l in ref["impl"] if l.startswith("cb ")]
        chk.validated += 1
        if ref["diff"] is not None:
            chk.corr_break("paced-run-interrupted-while-waiting", ref["sc"], ref["diff"], extra={"impl": ref["impl"][:40], "model": ref["model"][:40]})
        if err is not None:
            chk.violation("paced-run-interrupted-while-waiting", {"scenario": sc, "speed": speed},
                          ["C04: a paced run interrupted while waiting for its next event and resumed with start_simulation() raised %s: %s"
                           % (type(err).__name__, str(err)[:100])])
        elif got != want:
            d = corr.first_diff(want, got)
            chk.violation("paced-run-interrupted-while-waiting", {"scenario": sc, "speed": speed, "request": request},
                          ["%s: a paced run %s while WAITING for its next event (no callback running) does not execute the events within "
                           "its bounds, each once: line %d: %r (expected) vs %r"
                           % ((chk.prop, "during which a timer due before that event was requested through the provider" if request else
                               "interrupted and resumed with start_simulation()") + d)])


def check_C05(chk, R, S):
    chk.rule = ("simulations with 1-3 recording handlers (and timer/comm/mobility/assertion handlers), 0-4 nodes, every "
                "termination cause, blocking / stepped / extra steps after completion, protocols that schedule inside "
                "finish; the lifecycle projection of the trace must have the phase shape")
    run_corpus(chk, [M.mon_C05])
    prof = {"rec_weights": [1, 3, 3], "p_steps": 0.5, "min_nodes": 0, "trigs": ["init", "timer", "packet", "telem", "finish", "finish"]}
    scs = gen_many(R, S["sims"], prof)
    for sc in scs:
        if sc["drv"][0] == "steps" and R.random() < 0.5:
            sc["drv"] = ("steps", sc["drv"][1] + R.randint(20, 120))      # extra steps after completion
        if R.random() < 0.1:
            sc["dur"], sc["maxit"] = R.choice([(0.0, None), (None, 0), (None, 1)])
    run_sim_class(chk, "sim-lifecycle", scs, [M.mon_C05])
    # the same life cycles paced against the wall clock, blocking: runs that are over before their first event included
    paced = []
    for sc in scs[:max(60, len(scs) // 3)]:
        c = copy.deepcopy(sc)
        c["drv"] = ("run",)
        if R.random() < 0.4:
            c["dur"], c["maxit"] = R.choice([(0.0, None), (None, 0), (0.001, None), (None, 1)])
        paced.append(c)
    run_sim_class(chk, "sim-lifecycle-paced", paced, [M.mon_C05], variant={"real_time": 1e6})
    # mixed driving: some manual steps then the blocking call; the blocking call twice
    mixed = gen_many(R, max(60, S["sims"] // 3), dict(prof, p_steps=0.0))
    for sc in mixed:
        sc["drv"] = ("mixed", R.randint(0, 12)) if R.random() < 0.6 else ("runrun",)
    run_sim_class(chk, "sim-mixed-driving", mixed, [M.mon_C05])


VARIANTS = [{"execution_logging": True}, {"debug": True, "execution_logging": True}, {"profile": True},
            {"log_file": True}, {"real_time": 1e6}]


def check_C06(chk, R, S):
    chk.rule = ("each scenario is run blocking and stepped (with extra steps), and under logging / debug / profiling / "
                "log-file / real-time-pacing variants, and interleaved step-by-step with a second simulation in the same "
                "process; every variant's implementation trace must equal the one model trace")
    run_corpus(chk, [])
    n = max(40, S["sims"] // 5)
    scs = gen_many(R, n, {"p_steps": 0.0, "fails": [0.0, 0.3, 0.5], "p_assert": 0.0})
    # cancel-heavy scenarios (dead timer events stay queued, sometimes as the last events of the run), half of them under an
    # iteration limit: whether and when such an event is popped must not depend on how the run is driven
    for _ in range(max(20, n // 2)):
        w = gen_watchdog(R)
        if R.random() < 0.5:
            w["maxit"] = R.randint(3, 9)
        scs.append(w)
    # runs that an assertion cuts short (or fails at the end): what the protocols are called back with while the failure
    # propagates must not depend on how the run is driven either
    for _ in range(max(20, n // 2)):
        a = gen_assert_scenario(R)
        a["drv"] = ("run",)
        scs.append(a)
    base = corr.corr_sims(scs)
    for r in base:
        chk.record("base", _brief(r["sc"]), True, gen_sim.features(r["sc"], r["impl"]))
        chk.validated += 1
        if r["diff"] is not None:
            chk.corr_break("base", r["sc"], r["diff"], extra={"impl": r["impl"][:100], "model": r["model"][:100]})
    tmp = tempfile.mkdtemp(prefix="gsverif")
    try:
        for vi, var in enumerate(VARIANTS):
            v = dict(var)
            if v.get("log_file"):
                v["log_file"] = os.path.join(tmp, "sim.log")
            res = corr.corr_sims(scs, variant=v)
            for r, b in zip(res, base):
                chk.record("variant:%s" % "+".join(sorted(var)), _brief(r["sc"]), False)
                chk.validated += 1
                if r["impl"] != b["impl"]:
                    d = corr.first_diff(b["impl"], r["impl"])
                    chk.violation("variant:%s" % "+".join(sorted(var)), r["sc"],
                                  ["C06: trace differs between the default configuration and %s: line %d: %r vs %r" % (var, d[0], d[1], d[2])])
        # the scenario run once to its end, built again from the same builder (same handler objects) and run again:
        # the second run must be what a fresh run is
        again = []
        for r in base:
            c2 = copy.deepcopy(r["sc"])
            c2["rerun"] = True
            again.append(c2)
        res = corr.corr_sims(again)
        for r, b in zip(res, base):
            chk.record("run-again", _brief(r["sc"]), False)
            chk.validated += 1
            if r["impl"] != b["impl"]:
                d = corr.first_diff(b["impl"], r["impl"])
                chk.violation("run-again", r["sc"], ["C06: the scenario run a second time (built again from the same builder after a first "
                                                     "complete run) differs from its fresh run at line %d: %r vs %r" % d])
        # stepped driving (with extra steps) must give the same callbacks as the blocking call
        stepped = []
        for r in base:
            c = copy.deepcopy(r["sc"])
            its = int(r["impl"][-1].split()[3]) if r["impl"] and r["impl"][-1].startswith("end") and r["impl"][-1].split()[3].isdigit() else 50
            c["drv"] = ("steps", its + 1 + R.randint(0, 3))
            stepped.append(c)
        res = corr.corr_sims(stepped)
        for r, b in zip(res, base):
            chk.record("stepped", _brief(r["sc"]), False)
            chk.validated += 1
            if r["diff"] is not None:
                chk.corr_break("stepped", r["sc"], r["diff"], extra={"impl": r["impl"][:100], "model": r["model"][:100]})
            a = [l for l in b["impl"] if not l.startswith(("ret", "end"))]
            s_ = [l for l in r["impl"] if not l.startswith(("ret", "end"))]
            if a != s_:
                d = corr.first_diff(a, s_)
                chk.violation("stepped", r["sc"], ["C06: blocking and stepped runs differ at line %d: %r vs %r" % d])
        # some manual steps (not finishing the run), then the blocking call
        mixed = []
        for r in base:
            c = copy.deepcopy(r["sc"])
            c["drv"] = ("mixed", R.randint(1, 6))
            mixed.append(c)
        res = corr.corr_sims(mixed)
        for r, b in zip(res, base):
            chk.record("mixed-driving", _brief(r["sc"]), False)
            chk.validated += 1
            if r["diff"] is not None:
                chk.corr_break("mixed-driving", r["sc"], r["diff"], extra={"impl": r["impl"][:100], "model": r["model"][:100]})
            a = [l for l in b["impl"] if not l.startswith(("ret", "end"))]
            s_ = [l for l in r["impl"] if not l.startswith(("ret", "end"))]
            if a != s_:
                d = corr.first_diff(a, s_)
                chk.violation("mixed-driving", r["sc"], ["C06: a run driven by some steps and then the blocking call differs from the blocking run at line %d: %r vs %r" % d])
        # two simulations interleaved in one process
        import lockstep
        pairs = [(scs[i], scs[(i + 1) % len(scs)]) for i in range(0, len(scs) - 1, 2)]
        pairs += [(sc, sc) for sc in scs]          # twins: the same scenario twice, interleaved
        for a, b in pairs:
            ta, tb = lockstep.run_lockstep(a, copy.deepcopy(b) if a is b else b)
            chk.record("lockstep", {"a": _brief(a), "b": _brief(b)}, True)
            chk.validated += 2
            ra = [l for l in base[scs.index(a)]["impl"] if not l.startswith(("ret", "end"))]
            rb = [l for l in base[scs.index(b)]["impl"] if not l.startswith(("ret", "end"))]
            if a is b:
                b = copy.deepcopy(a)
            for nm, got, want, sc in (("first", ta, ra, a), ("second", tb, rb, b)):
                if got != want:
                    d = corr.first_diff(want, got)
                    chk.violation("lockstep", {"a": _brief(a), "b": _brief(b)},
                                  ["C06: the %s of two simulations stepped alternately in one process differs from its "
                                   "stand-alone run at line %d: %r vs %r" % (nm, d[0], d[1], d[2])])
    finally:
        import shutil
        shutil.rmtree(tmp, ignore_errors=True)
    import subproc_matrix
    if chk.tier == "thorough":
        subproc_matrix.run(chk, scs[:25], R)
    else:
        # quick tier: a light version (two hash seeds, one order), lossy scenarios first
        lossy = [sc for sc in scs if 0.0 < sc["med"][2] < 1.0 and "C" in sc["handlers"]]
        rest = [sc for sc in scs if sc not in lossy]
        subproc_matrix.run(chk, (lossy + rest)[:12], R, light=True)
        # scenarios with three user-defined (recording) handlers, whose hooks and same-instant events have an order: under
        # six hash seeds (3! orders of the labels)
        multi = []
        for sc in rest[:12]:
            c = copy.deepcopy(sc)
            c["handlers"] = [h for h in c["handlers"] if not h.startswith("R")] + ["R0", "R1", "R2"]
            multi.append(c)
        subproc_matrix.run(chk, multi[:6], R, light=True, hashseeds=("1", "2", "3", "4", "5", "6", "7"))


def gen_drive_scenario(R, kinds=("settimer", "settimer", "cancel", "send")):
    """manual driving with requests made from OUTSIDE any callback: before the first step (right after build())
    and between steps, through the node's provider, next to the requests the callbacks make themselves"""
    nn = R.randint(1, 3)
    times = [0.5, 1.0, 1.5, 2.0, 3.0]
    msg = itertools.count(100)

    def ext_acts(me):
        out = []
        for _ in range(R.randint(1, 3)):
            k = R.choice(kinds)
            if k == "settimer":
                out.append(("settimer", R.randrange(3), R.choice(times + [0.0, 0.25])))
            elif k == "cancel":
                out.append(("cancel", R.randrange(3)))
            elif k == "send" and nn > 1:
                out.append(("send", next(msg), R.choice([i for i in range(nn) if i != me])))
            elif k == "goto":
                out.append(("goto",) + gen_sim.gen_pos(R, 8))
            elif k == "speed":
                out.append(("speed", R.choice([0.5, 2.0, 5.0])))
            else:
                out.append(("bcast", next(msg)))
        return out
    script = []
    for me in range(nn):
        rules = []
        if R.random() < 0.7:
            rules.append({"trig": ("init",), "nth": None, "acts": [("settimer", R.randrange(3), "abs", R.choice(times)) for _ in range(R.randint(1, 3))]})
        if R.random() < 0.6:
            rules.append({"trig": ("timer", None), "nth": R.randrange(3), "acts": [R.choice([("cancel", R.randrange(3)), ("settimer", R.randrange(3), "rel", 0.5)])]})
        if R.random() < 0.4:
            rules.append({"trig": ("packet", None), "nth": None, "acts": [("settimer", R.randrange(3), "rel", 0.25)]})
        script.append(rules)
    ops = []
    for _ in range(R.choice([0, 1, 1, 2])):                       # before the first step
        me = R.randrange(nn)
        ops.append(("ext", me, ext_acts(me)))
    for _ in range(R.randint(4, 30)):
        if R.random() < 0.75:
            ops.append(("step",))
        else:
            me = R.randrange(nn)
            ops.append(("ext", me, ext_acts(me)))
    ops += [("step",)] * R.choice([0, 5, 40, 40])
    hs = ["T", "C"] + (["M"] if "goto" in kinds else [])
    R.shuffle(hs)
    return {"handlers": hs, "nodes": [{"pos": (float(i), 0.0, 0.0), "ty": 0} for i in range(nn)],
            "med": (100.0, R.choice([0.0, 0.5]), 0.0), "mob": (0.5, 2.0, (0.0, 0.0, 0.0)), "asserts": [], "seed": 1,
            "dur": R.choice([None, 2.5]), "maxit": None, "drv": ("drive", ops), "script": script}


def gen_range_before_start(R, everybody=True):
    """the medium's range reaches nobody; the nodes' own ranges are raised through the controller extension from OUTSIDE,
    on the built simulation before its first step; then the protocols talk"""
    nn = R.randint(2, 5)
    msg = itertools.count(0)
    script = []
    for me in range(nn):
        acts = [R.choice([("bcast", next(msg)), ("send", next(msg), R.choice([i for i in range(nn) if i != me]))]) for _ in range(R.randint(1, 3))]
        rules = [{"trig": R.choice([("init",), ("init",), ("timer", None)]), "nth": None, "acts": acts}]
        if rules[0]["trig"][0] == "timer":
            rules.insert(0, {"trig": ("init",), "nth": None, "acts": [("settimer", 0, "abs", R.choice([0.5, 1.0]))]})
            rules[1]["nth"] = 0
        script.append(rules)
    who = list(range(nn)) if everybody else R.sample(range(nn), R.randint(1, nn))
    ops = [("ext", me, [("range", R.choice([1000.0, 100.0]))]) for me in who] + [("step",)] * 60
    return {"handlers": R.sample(["T", "C"], 2), "nodes": [{"pos": (3.0 * i, 0.0, 0.0), "ty": 0} for i in range(nn)],
            "med": (1.0, R.choice([0.0, 0.5]), 0.0), "mob": (0.5, 2.0, (0.0, 0.0, 0.0)), "asserts": [], "seed": 1,
            "dur": None, "maxit": None, "drv": ("drive", ops), "script": script}


def gen_range_around_constants(R):
    """a sender and receivers whose distance sits just below / at / just above a range that is one of the numeric
    literals found in the source (read on every run), along an axis and along a space diagonal"""
    out = []
    for c in (mined_constants() or [60.0])[:16]:
        for fd, fr in ((0.99, 1.0), (1.0, 1.0), (1.01, 1.0), (1.0, 0.99), (1.0, 1.01)):
            d, r = c * fd, c * fr
            k = d / 3 ** 0.5
            nodes = [{"pos": (0.0, 0.0, 0.0), "ty": 0}, {"pos": (d, 0.0, 0.0), "ty": 0}, {"pos": (k, k, k), "ty": 0}, {"pos": (0.0, -d, 0.0), "ty": 0}]
            script = [[{"trig": ("init",), "nth": None, "acts": [("bcast", 1), ("settimer", 0, "abs", 1.0)]},
                       {"trig": ("timer", 0), "nth": None, "acts": [("send", 2, 1), ("send", 3, 2), ("bcast", 4)]}], [], [], []]
            out.append({"handlers": R.sample(["T", "C"], 2), "nodes": nodes, "med": (r, R.choice([0.0, 0.5]), 0.0),
                        "mob": (1.0, 1.0, (0.0, 0.0, 0.0)), "asserts": [], "seed": 1, "dur": None, "maxit": None, "drv": ("run",), "script": script})
    return out


def gen_range_toggling(R):
    """a sender that keeps switching its range between a few values (A, B, A, ...; through two controller objects, one,
    or a fresh one each time) and transmits after every switch; receivers sit between the values"""
    vals = R.sample([2.0, 5.0, 10.0, 20.0, 0.0], R.randint(2, 3))
    nn = R.randint(2, 5)
    nodes = [{"pos": (0.0, 0.0, 0.0), "ty": 0}] + [{"pos": (R.choice([1.0, 3.0, 7.0, 15.0, 25.0]), 0.0, 0.0), "ty": 0} for _ in range(nn - 1)]
    msg = itertools.count(0)
    rules = [{"trig": ("init",), "nth": None, "acts": [("settimer", 0, "abs", 0.5)]}]
    for k in range(R.randint(3, 8)):
        rules.append({"trig": ("timer", 0), "nth": k, "acts": [("range", vals[k % len(vals)]), ("bcast", next(msg)), ("settimer", 0, "rel", 0.5)]})
    sc = {"handlers": R.sample(["T", "C"], 2), "nodes": nodes, "med": (R.choice([6.0, 12.0]), R.choice([0.0, 0.25]), 0.0),
          "mob": (1.0, 1.0, (0.0, 0.0, 0.0)), "asserts": [], "seed": 1, "dur": None, "maxit": None, "drv": ("run",),
          "script": [rules] + [[] for _ in range(nn - 1)]}
    m = R.random()
    if m < 0.5:
        sc["two_controllers"] = True
    elif m < 0.75:
        sc["fresh_controllers"] = True
    return sc


def check_C07(chk, R, S):
    chk.rule = ("1-4 nodes x 3 timer names; set/cancel from init, timer, packet and telemetry callbacks, re-entrant "
                "same-name cancel/set inside the firing handler, ties, past timers, timer storms, requests for one instant made at "
                "different decimal times, sets/cancels issued from OUTSIDE callbacks (before the first step, between steps), the "
                "restart-the-timeout idiom (cancel + set inside the timer's own handler) followed by a later cancel / set; the "
                "abstract timer table is replayed along the implementation's trace")
    run_corpus(chk, [M.mon_C07])
    run_sim_class(chk, "sim-timer-rearm", [gen_rearm(R) for _ in range(S["sims"])], [M.mon_C07])
    prof = {"p_timer": 1.0, "p_mob": 0.3, "p_assert": 0.0, "acts": ["settimer", "settimer", "cancel", "send", "bcast", "flag"],
            "trigs": ["init", "timer", "timer", "packet", "telem"], "max_rules": 5}
    run_sim_class(chk, "sim-timers", gen_many(R, S["sims"], prof), [M.mon_C07])
    prof2 = dict(prof, p_bounded=1.0, p_mob=0.0, p_steps=0.0)
    scs = gen_many(R, S["sims"] // 2, prof2)
    for sc in scs:
        sc["dur"], sc["maxit"] = None, None
    run_sim_class(chk, "sim-timers-exhaustion", scs, [M.mon_C07])
    run_sim_class(chk, "sim-timer-storm", [gen_timer_storm(R) for _ in range(max(12, S["sims"] // 20))], [M.mon_C07])
    run_sim_class(chk, "sim-decimal-ties", [gen_decimal_ties(R) for _ in range(max(60, S["sims"] // 5))], [M.mon_C07])
    run_sim_class(chk, "sim-external-requests", [gen_drive_scenario(R) for _ in range(max(100, S["sims"] // 2))], [M.mon_C07])
    run_sim_class(chk, "sim-watchdog", [gen_watchdog(R) for _ in range(max(100, S["sims"] // 2))], [M.mon_C07])
    run_sim_class(chk, "sim-many-timer-names", [gen_many_names(R) for _ in range(max(12, S["sims"] // 20))], [M.mon_C07])
    run_sim_class(chk, "sim-many-nodes-timers", [gen_many_nodes_timers(R) for _ in range(max(12, S["sims"] // 20))], [M.mon_C07])
    plugin_hosts_class(chk, R, max(30, S["sims"] // 8))


def plugin_hosts_class(chk, R, count, telemetry=False):
    """the protocol's own timers when it hosts one of the library's follow-mobility plugins (which run timers and exchange
    messages of their own): compared with the same scenario without the plugin -- own timers fire exactly as they would.
    The plugins themselves are not modelled: the two implementation runs are compared with each other."""
    from scripted import run_sim_impl
    for _ in range(count):
        nn = R.randint(1, 2)
        script = []
        for me in range(nn):
            rules = [{"trig": ("init",), "nth": None, "acts": [("settimer", R.randrange(8), "abs", R.choice([0.05, 0.11, 0.25, 0.3])) for _ in range(R.randint(2, 5))]}]
            if nn > 1:
                rules.append({"trig": ("timer", None), "nth": 0, "acts": [R.choice([("send", 50 + me, 1 - me), ("bcast", 60 + me)])]})
            if R.random() < 0.5:
                rules.append({"trig": ("timer", None), "nth": R.randrange(3), "acts": [R.choice([("cancel", R.randrange(8)), ("settimer", R.randrange(8), "rel", 0.07)])]})
            script.append(rules)
        base = {"handlers": ["T", "C", "M"], "nodes": [{"pos": (float(3 * i), 0.0, 0.0), "ty": 0} for i in range(nn)],
                "med": (100.0, 0.0, 0.0), "mob": (0.05, 1.0, (0.0, 0.0, 0.0)), "asserts": [], "seed": 1, "dur": 0.5, "maxit": None,
                "drv": ("run",), "script": script, "tag_names": True, "quote_plugin": True, "trace_limit": 200000, "late_classes": True}
        hosted = dict(copy.deepcopy(base), host_plugin=R.choice(["leader", "follower"]))
        ta, _ = run_sim_impl(base)
        try:
            tb, _ = run_sim_impl(hosted)
        except Exception as e:  # noqa: BLE001
            chk.record("sim-plugin-hosts", {"host": hosted["host_plugin"], "nodes": nn}, True)
            chk.violation("sim-plugin-hosts", {"scenario": hosted},
                          ["%s: hosting the %s plugin makes the run raise %s: %s (the same scenario without the plugin completes)"
                           % (chk.prop, hosted["host_plugin"], type(e).__name__, str(e)[:120])])
            continue
        own = lambda tr: [" ".join(l.split()[:4]) if l.split()[3] == "telem" else l for l in tr if l.startswith("cb ") and (   # noqa: E731
            l.split()[3] == "timer" or (l.split()[3] == "packet" and l.split()[4].isdigit()) or (telemetry and l.split()[3] == "telem"))]
        # (telemetry: which node is told at which time; the follower plugin steers its node, so positions may differ)
        chk.record("sim-plugin-hosts", {"host": hosted["host_plugin"], "nodes": nn}, True)
        chk.validated += 2
        if own(ta) != own(tb):
            d = corr.first_diff(own(ta), own(tb))
            chk.violation("sim-plugin-hosts", {"scenario": hosted},
                          ["%s: the protocol's own timer / packet callbacks differ when it hosts the %s plugin: line %d: %r (alone) vs %r (hosting)"
                           % (chk.prop, hosted["host_plugin"], d[0], d[1], d[2])])


def check_C08(chk, R, S):
    chk.rule = ("2-8 nodes all in range on a loss-free medium, delays {<=0, >0}, sends/broadcasts (distinct payloads) from "
                "every callback kind, bursts, malformed destinations (self, unknown, None); delivered multiset and times "
                "recomputed from the requests")
    run_corpus(chk, [M.mon_C08])
    prof = {"min_nodes": 2, "max_nodes": 8, "p_comm": 1.0, "range": 1000.0, "fails": [0.0, -0.5], "p_assert": 0.0,
            "acts": ["send", "send", "bcast", "settimer", "goto", "flag"], "bad_send": 0.2, "p_mob": 0.3}
    scs0 = gen_many(R, S["sims"], prof)
    for sc in scs0:
        if R.random() < 0.5:
            sc["reuse_commands"] = True       # the protocol re-fills one command object for every send
    run_sim_class(chk, "sim-inrange", scs0, [M.mon_C08])
    bursts = [gen_burst(R) for _ in range(S["sims"] // 2)]
    for sc in bursts:
        sc["reuse_commands"] = True
    run_sim_class(chk, "sim-bursts-reused-commands", bursts, [M.mon_C08])
    run_sim_class(chk, "sim-external-requests", [gen_drive_scenario(R, ("send", "bcast", "send", "settimer")) for _ in range(max(60, S["sims"] // 5))], [M.mon_C08])
    scs = gen_many(R, S["sims"] // 2, dict(prof, p_bounded=1.0, p_mob=0.0, p_steps=0.0))
    for sc in scs:
        sc["dur"], sc["maxit"] = None, None
    run_sim_class(chk, "sim-inrange-exhaustion", scs, [M.mon_C08])
    run_sim_class(chk, "sim-bursts", [gen_burst(R) for _ in range(S["sims"] // 2)], [M.mon_C08])
    _many_nodes_class(chk, R, S, [M.mon_C08], rng=1000.0, mob=False)
    run_sim_class(chk, "sim-range-set-before-start", [gen_range_before_start(R) for _ in range(max(30, S["sims"] // 10))], [M.mon_C08])

    def mon_addressees_in_range(sc, tr):
        return ["C08:" + x[4:] for x in M.mon_C09(sc, tr)]
    # who is in range changes during the run (per-node ranges set through the controller after the node has already transmitted):
    # a message must reach exactly the addressees in range at ITS send time
    run_sim_class(chk, "sim-range-toggling", [gen_range_toggling(R) for _ in range(max(40, S["sims"] // 6))], [M.mon_C08, mon_addressees_in_range])
    run_sim_class(chk, "sim-range", [gen_range_scenario(R) for _ in range(max(60, S["sims"] // 4))], [M.mon_C08, mon_addressees_in_range])


QUADS = [(1, 2, 2, 3), (2, 3, 6, 7), (1, 4, 8, 9), (4, 4, 7, 9), (2, 6, 9, 11), (6, 6, 7, 11), (3, 4, 12, 13), (2, 10, 11, 15)]


def gen_range_scenario(R, lossy=False):
    """placements incl. exactly-on-the-boundary distances (Pythagorean quadruples scaled by powers of two:
    every operation exact in doubles), per-node ranges changed at arbitrary times, nodes moving while
    messages are in flight"""
    nn = R.randint(2, 5)
    nodes = []
    base = (float(R.randint(-4, 4)), float(R.randint(-4, 4)), float(R.randint(0, 3)))
    rng = R.choice([3.0, 7.0, 9.0, 11.0, 13.0, 15.0, 5.0])
    sc2 = 2.0 ** R.randint(-2, 2)
    for i in range(nn):
        if i == 0:
            nodes.append({"pos": base, "ty": 0})
        elif R.random() < 0.5:
            a, b, c, d = R.choice(QUADS)
            sg = [R.choice([-1, 1]) for _ in range(3)]
            per = R.sample([a, b, c], 3)
            off = R.choice([0.0, 0.0, 2.0 ** -20, -2.0 ** -20])
            nodes.append({"pos": (base[0] + sg[0] * per[0] * sc2 + off, base[1] + sg[1] * per[1] * sc2, base[2] + sg[2] * per[2] * sc2), "ty": 0})
            if R.random() < 0.7:
                rng = d * sc2
        else:
            nodes.append({"pos": gen_sim.gen_pos(R, 12), "ty": 0})
    if R.random() < 0.25:
        # nodes stacked on one spot (distance exactly 0) and a range of exactly 0: the boundary is included
        for i in range(1, nn):
            if R.random() < 0.6:
                nodes[i] = {"pos": nodes[R.randrange(i)]["pos"], "ty": 0}
        if R.random() < 0.6:
            rng = 0.0
    delay = R.choice([0.0, 0.5, 1.0, 0.25])
    script = []
    msg = itertools.count(0)
    for me in range(nn):
        rules = []
        for _ in range(R.randint(1, 4)):
            acts = []
            for _ in range(R.randint(1, 4)):
                x = R.random()
                others = [i for i in range(nn) if i != me]
                if x < 0.35:
                    acts.append(("bcast", next(msg)))
                elif x < 0.6:
                    acts.append(("send", next(msg), R.choice(others)))
                elif x < 0.75:
                    acts.append(("range", R.choice([0.0, 3.0, 7.0, 9.0, 11.0, 13.0, 15.0, 1.5, 30.0]) * R.choice([1.0, sc2])))
                elif x < 0.9:
                    acts.append(("goto",) + gen_sim.gen_pos(R, 12))
                else:
                    acts.append(("settimer", R.randrange(2), "rel", R.choice([0.25, 0.5, 1.0])))
            trig = R.choice([("init",), ("timer", None), ("telem",), ("packet", None), ("telem",)])
            rules.append({"trig": trig, "nth": None if trig[0] == "init" else R.randrange(5), "acts": acts})
        script.append(rules)
    hs = ["T", "C"] + (["M"] if R.random() < 0.7 else [])
    R.shuffle(hs)
    sc = {"handlers": hs, "nodes": nodes, "med": (rng, delay, 0.0), "mob": (R.choice([0.25, 0.5, 0.1]), R.choice([2.0, 5.0, 10.0]), (0.0, 0.0, 0.0)),
          "asserts": [], "seed": R.randrange(1 << 30), "dur": R.choice([2.0, 3.0, 4.5]), "maxit": None, "drv": ("run",), "script": script}
    return sc


def gen_same_instant_scenario(R):
    """two sends at the very instant of a mobility update, one queued before the update (a timer armed at
    initialisation) and one made from the telemetry the update delivers, while the pair crosses the range
    boundary during exactly that update: each must be judged on the positions of its own moment"""
    rate = R.choice([0.25, 0.5])
    v = R.choice([2.0, 4.0, 8.0])
    k = R.randint(1, 5)
    x0 = float(R.randint(1, 6))
    away = R.random() < 0.5
    far = x0 + v * rate * 12
    start, target = (x0, far) if away else (far, x0)
    sgn = 1.0 if away else -1.0
    pre, post = start + sgn * v * rate * (k - 1), start + sgn * v * rate * k
    rng = (pre + post) / 2
    mover = R.randrange(2)
    T = k * rate
    nodes = [{"pos": (0.0, 0.0, 0.0), "ty": 0}, {"pos": (0.0, 0.0, 0.0), "ty": 0}]
    nodes[mover]["pos"] = (start, 0.0, 0.0)
    script = [[], []]
    script[mover].append({"trig": ("init",), "nth": None, "acts": [("goto", target, 0.0, 0.0)]})
    a, b = R.randrange(2), R.randrange(2)                    # who sends before / after the update
    kind = lambda me, m: ("send", m, 1 - me) if R.random() < 0.6 else ("bcast", m)
    script[a].append({"trig": ("init",), "nth": None, "acts": [("settimer", 0, "abs", T)]})
    script[a].append({"trig": ("timer", 0), "nth": 0, "acts": [kind(a, 1)]})
    script[b].append({"trig": ("telem",), "nth": k - 1, "acts": [kind(b, 2)]})
    if R.random() < 0.5:
        script[1 - b].append({"trig": ("telem",), "nth": k, "acts": [kind(1 - b, 3)]})
    hs = ["T", "C", "M"]
    R.shuffle(hs)
    return {"handlers": hs, "nodes": nodes, "med": (rng, R.choice([0.0, 0.0, 0.125]), 0.0), "mob": (rate, v, (0.0, 0.0, 0.0)),
            "asserts": [], "seed": 1, "dur": T + 1.0, "maxit": None, "drv": ("run",), "script": script,
            "sameinst": {"k": k, "timer_node": a, "before": abs(pre), "after": abs(post), "range": rng, "T": T, "rate": rate}}


def _many_nodes_class(chk, R, S, mons, rng=None, mob=True):
    run_sim_class(chk, "sim-many-nodes", [gen_many_nodes(R, rng, mob) for _ in range(max(12, S["sims"] // 20))], mons)


def check_C09(chk, R, S):
    chk.rule = ("3-D placements incl. exact boundary distances (scaled Pythagorean quadruples, +-2^-20 off), per-node ranges "
                "changed at arbitrary times, delays, nodes moving while messages are in flight; expected receivers "
                "recomputed from the positions known at send time; co-located nodes and range exactly 0; two sends at the very instant "
                "of a mobility update (before / after it) while the pair crosses the range boundary")
    run_corpus(chk, [M.mon_C09])
    scs = [gen_range_scenario(R) for _ in range(S["sims"])]
    run_sim_class(chk, "sim-range", scs, [M.mon_C09])
    run_sim_class(chk, "sim-same-instant", [gen_same_instant_scenario(R) for _ in range(max(40, S["sims"] // 10))], [M.mon_C09])
    _many_nodes_class(chk, R, S, [M.mon_C09])
    _crowd_class(chk, R, [M.mon_C09])
    run_sim_class(chk, "sim-range-set-before-start", [gen_range_before_start(R, everybody=False) for _ in range(max(30, S["sims"] // 10))], [M.mon_C09])
    run_sim_class(chk, "sim-range-around-source-constants", gen_range_around_constants(R), [M.mon_C09])
    far = []
    for _ in range(max(30, S["sims"] // 8)):
        sc = gen_range_scenario(R)
        off = (R.choice([1e8, -3.1e9, 2.3e9, 1e10]), R.choice([1e8, 2.3e9, -1.7e9]), R.choice([0.0, 1.7e9]))
        for nd in sc["nodes"]:
            nd["pos"] = (nd["pos"][0] + off[0], nd["pos"][1] + off[1], nd["pos"][2] + off[2])
        far.append(sc)
    # the same geometry translated far away from the origin of the scene (the separations stay, the magnitudes do not)
    run_sim_class(chk, "sim-range-far-from-origin", far, [M.mon_C09])
    run_sim_class(chk, "sim-range-toggling", [gen_range_toggling(R) for _ in range(max(40, S["sims"] // 6))], [M.mon_C09])
    # the range gate on a lossy medium, the draws scripted (mostly above the rate): delivered iff in range AND the draw passes
    lossy = []
    for _ in range(max(40, S["sims"] // 5)):
        sc = gen_range_scenario(R)
        f = R.choice([0.3, 0.5, 0.8])
        sc["med"] = (sc["med"][0], sc["med"][1], f)
        sc["stream"] = [R.choice([0.999, 0.999, f + 0.01, f, 0.0, R.random()]) for _ in range(600)]
        lossy.append(sc)

    def mon_lossy(sc, tr):
        return [x.replace("C10:", "C09:") for x in M.mon_C10(sc, tr) if "draws consumed" not in x]
    run_sim_class(chk, "sim-range-lossy-scripted", lossy, [mon_lossy])
    nb = sum(1 for sc in scs for nd in sc["nodes"][1:] if (M._py_sq(sc["nodes"][0]["pos"], nd["pos"]) == sc["med"][0] ** 2))
    chk.extra["boundary_pairs"] = nb


def gen_loss_scenario(R, exhaustive_pattern=None):
    nn = R.randint(2, 6) if exhaustive_pattern is None else len(exhaustive_pattern[0]) + 1
    fail = R.choice([0.1, 0.5, 0.9, 1.0, 0.3]) if exhaustive_pattern is None else exhaustive_pattern[1]
    script = [[] for _ in range(nn)]
    msg = itertools.count(0)
    if exhaustive_pattern is not None:
        script[0].append({"trig": ("init",), "nth": None, "acts": [("bcast", 0), ("bcast", 1)]})
        stream = list(exhaustive_pattern[0]) + list(reversed(exhaustive_pattern[0]))
    else:
        for me in range(nn):
            acts = []
            for _ in range(R.randint(1, 5)):
                others = [i for i in range(nn) if i != me]
                acts.append(("bcast", next(msg)) if R.random() < 0.6 else ("send", next(msg), R.choice(others)))
                if acts[-1][0] == "bcast" and R.random() < 0.2:
                    # a broadcast command that still carries a destination (a re-used command object): a broadcast all the same
                    acts[-1] = ("bcastdst", acts[-1][1], R.choice(others + [me]))
            script[me].append({"trig": R.choice([("init",), ("init",), ("packet", None)]), "nth": None if R.random() < 0.5 else 0, "acts": acts})
            if script[me][-1]["trig"][0] == "packet":
                script[me][-1]["nth"] = R.randrange(2)
        n_draws = 400
        stream = [R.choice([0.0, fail, fail + 2.0 ** -40 if fail < 1 else 1.0 - 2.0 ** -53, max(0.0, fail - 2.0 ** -40), 1.0 - 2.0 ** -53,
                            R.random(), R.random()]) for _ in range(n_draws)]
    return {"handlers": ["C", "T"], "nodes": [{"pos": (float(i), 0.0, 0.0), "ty": 0} for i in range(nn)],
            "med": (1000.0, R.choice([0.0, 0.5]), fail), "mob": (1.0, 1.0, (0.0, 0.0, 0.0)), "asserts": [], "seed": 1,
            "stream": stream, "dur": None, "maxit": None, "drv": ("run",), "script": script}


def check_C10(chk, R, S):
    chk.rule = ("scripted random.random(): ALL keep/drop patterns for broadcasts of up to %d copies at rates {0.5, 1.0}, "
                "boundary draws {0, rate-, rate, rate+, 1-}; random scripted streams; seeded real generator at rates "
                "{0, .1, .5, .9, 1}; thorough: frequency test" % (5 if chk.tier == "quick" else 8))
    run_corpus(chk, [M.mon_C10])
    pats = []
    maxc = 5 if chk.tier == "quick" else 8
    for ncopies in range(1, maxc + 1):
        for bits in itertools.product([0, 1], repeat=ncopies):
            for f in (0.5, 1.0):
                keep = 0.75 if f < 1 else 1.0 - 2.0 ** -53
                pats.append((tuple(keep if b else 0.25 for b in bits), f))
    run_sim_class(chk, "loss-patterns-exhaustive", [gen_loss_scenario(R, p) for p in pats], [M.mon_C10])
    run_sim_class(chk, "loss-scripted-random", [gen_loss_scenario(R) for _ in range(S["sims"])], [M.mon_C10])
    big = []
    for _ in range(max(6, S["sims"] // 40)):
        nn = R.randint(33, 48)
        f = R.choice([0.01, 0.1, 0.5, 0.9])
        stream = [R.choice([0.0, f, R.random(), R.random(), 1.0 - 2.0 ** -53]) for _ in range(3 * nn)]
        big.append({"handlers": ["C", "T"], "nodes": [{"pos": (float(i % 7), float(i // 7), 0.0), "ty": 0} for i in range(nn)],
                    "med": (1000.0, 0.0, f), "mob": (1.0, 1.0, (0.0, 0.0, 0.0)), "asserts": [], "seed": 1, "stream": stream,
                    "dur": None, "maxit": None, "drv": ("run",),
                    "script": [[{"trig": ("init",), "nth": None, "acts": [("bcast", 1), ("bcast", 2)]}]] + [[] for _ in range(nn - 1)]})
    run_sim_class(chk, "loss-large-broadcast", big, [M.mon_C10])
    prof = {"min_nodes": 2, "max_nodes": 6, "p_comm": 1.0, "fails": [0.0, 0.1, 0.5, 0.9, 1.0], "p_assert": 0.0,
            "acts": ["send", "bcast", "bcast", "settimer", "range"]}
    run_sim_class(chk, "loss-seeded", gen_many(R, S["sims"], prof), [])
    plugin_hosts_class(chk, R, max(30, S["sims"] // 8))
    freq_test_with_trips(chk, R)
    chk.exhaustive = True
    if chk.tier == "thorough":
        freq_test(chk, R)


def freq_test_with_trips(chk, R):
    """a test, not a proof: a sender that hosts the library's random-trip plugin and re-plans its trip before every broadcast
    (the plugin draws its waypoints from the same process-wide generator as the medium): each receiver still loses about the
    configured share of the copies (6 sigma), and the fate of a copy is not the same round after round"""
    import math
    from scripted import run_sim_impl, CTX
    rounds = 300
    for f in (0.5, 0.3):
        script = [[{"trig": ("init",), "nth": None, "acts": [("settimer", 0, "abs", 1.0)]},
                   {"trig": ("timer", 0), "nth": None, "acts": [("bcast", 7), ("settimer", 0, "rel", 1.0)]}], [], []]
        sc = {"handlers": ["C", "T", "M"], "nodes": [{"pos": (0.0, 0.0, 0.0), "ty": 0}, {"pos": (5.0, 0.0, 0.0), "ty": 0}, {"pos": (0.0, 5.0, 0.0), "ty": 0}],
              "med": (1e6, 0.0, f), "mob": (100.0, 1.0, (0.0, 0.0, 0.0)), "asserts": [], "seed": R.randrange(1 << 30),
              "dur": rounds + 0.5, "maxit": None, "drv": ("run",), "script": script, "host_plugin": "random_trip", "time_limit": 120.0,
              "trace_limit": 200000}
        CTX.limit = 10 ** 6
        try:
            tr, _ = run_sim_impl(sc)
        finally:
            CTX.limit = 60000
        sigma = math.sqrt(rounds * f * (1 - f))
        for rcv in (1, 2):
            times = [l.split()[2] for l in tr if l.startswith("cb %d " % rcv) and " packet " in l]
            got = len(times)
            # rounds in which this receiver's fate differs from the round before
            have = set(times)
            sent = [l.split()[2] for l in tr if l.startswith("cb 0 ") and " timer 0" in l]
            fates = [t in have for t in sent]
            flips = sum(1 for a, b in zip(fates, fates[1:]) if a != b)
            chk.record("loss-frequency-with-random-trips", {"rate": f, "receiver": rcv, "rounds": len(sent), "received": got, "flips": flips}, True)
            chk.validated += 1
            want = len(sent) * (1 - f)
            if len(sent) < rounds - 1 or abs(got - want) > 6 * sigma or flips < 40:
                chk.violation("loss-frequency-with-random-trips", {"scenario": sc, "receiver": rcv},
                              ["C10: with the sender re-planning a random trip every round, receiver %d got %d of %d broadcasts at loss rate %r "
                               "(expected %.0f +- %.0f) and its fate changed %d times between consecutive rounds"
                               % (rcv, got, len(sent), f, want, 6 * sigma, flips)])


def freq_test(chk, R):
    """a test, not a proof: observed loss frequency of the real generator within 6 sigma"""
    import math
    from scripted import run_sim_impl
    for f in (0.1, 0.5, 0.9):
        nn = 11
        script = [[{"trig": ("init",), "nth": None, "acts": [("bcast", i) for i in range(200)]}]] + [[] for _ in range(nn - 1)]
        sc = {"handlers": ["C", "T"], "nodes": [{"pos": (float(i), 0.0, 0.0), "ty": 0} for i in range(nn)],
              "med": (1000.0, 0.0, f), "mob": (1.0, 1.0, (0.0, 0.0, 0.0)), "asserts": [], "seed": R.randrange(1 << 30),
              "dur": None, "maxit": None, "drv": ("run",), "script": script, "time_limit": 120.0}
        from scripted import CTX
        CTX.limit = 10 ** 6
        tr, draws = run_sim_impl(sc)
        CTX.limit = 60000
        n = 200 * (nn - 1)
        got = sum(1 for l in tr if " packet " in l)
        lost = n - got
        sigma = math.sqrt(n * f * (1 - f))
        chk.record("loss-frequency", {"rate": f, "copies": n, "lost": lost}, True)
        if abs(lost - n * f) > 6 * sigma:
            chk.violation("loss-frequency", {"rate": f, "copies": n, "lost": lost, "seed": sc["seed"]},
                          ["C10: %d of %d copies lost at configured rate %r (expected %.0f +- %.0f)" % (lost, n, f, n * f, 6 * sigma)])


def gen_motion(R):
    nn = R.randint(1, 3)
    rate = R.choice([0.5, 1.0, 0.25, 0.1, 0.3])
    script = []
    for me in range(nn):
        pool = [gen_sim.gen_pos(R, 10) for _ in range(2)]       # targets a node is sent back to (revisits, abandoned legs resumed)
        rules = [{"trig": ("init",), "nth": None, "acts": ([("goto",) + (R.choice(pool) if R.random() < 0.4 else gen_sim.gen_pos(R, 10))] if R.random() < 0.8 else [])
                  + ([("speed", R.choice([0.0, 0.5, 1.0, 2.0, 5.0, 10.0, 100.0, R.uniform(0, 20)]))] if R.random() < 0.6 else [])}]
        for _ in range(R.randint(0, 4)):
            acts = []
            for _ in range(R.randint(1, 2)):
                x = R.random()
                if x < 0.5:
                    acts.append(("goto",) + (R.choice(pool) if R.random() < 0.4 else gen_sim.gen_pos(R, 10) if R.random() < 0.8 else tuple(float(v) for v in (R.randint(-3, 3), R.randint(-3, 3), R.randint(0, 2)))))
                elif x < 0.8:
                    acts.append(("speed", R.choice([0.0, 0.5, 1.0, 2.0, 5.0, 10.0, 100.0, R.uniform(0, 20)])))
                elif x < 0.92:
                    acts.append(("gotohere",))          # "halt where you are"
                else:
                    acts.append(("gotogeo", R.uniform(-2e-4, 2e-4), R.uniform(-2e-4, 2e-4), R.uniform(0, 5)))
            rules.append({"trig": R.choice([("telem",), ("telem",), ("timer", None)]), "nth": R.randrange(12), "acts": acts})
        if R.random() < 0.4:
            rules[0]["acts"].append(("settimer", 0, "abs", R.choice([0.3, 0.7, 1.2, 2.0])))
        rules = [r for r in rules if r["acts"]]
        script.append(rules)
    return {"handlers": R.sample(["M", "T"], 2), "nodes": [{"pos": gen_sim.gen_pos(R, 10), "ty": 0} for _ in range(nn)],
            "med": (60.0, 0.0, 0.0), "mob": (rate, R.choice([1.0, 2.0, 5.0, 10.0]), (0.0, 0.0, 0.0)), "asserts": [],
            "seed": R.randrange(1 << 30), "dur": R.choice([2.0, 4.0, 6.0, 3.3]), "maxit": None, "drv": ("run",), "script": script}


def check_C11(chk, R, S):
    chk.rule = ("random starts/targets/speeds/update intervals, multi-step trajectories to arrival and beyond, "
                "retargeting and speed changes at arbitrary ticks (incl. speed 0, integer positions, zero distance); "
                "positions compared bit-exactly with the model and against the metric clauses")
    run_corpus(chk, [M.mon_C11])
    run_sim_class(chk, "sim-motion", [gen_motion(R) for _ in range(S["sims"])], [M.mon_C11])
    run_sim_class(chk, "sim-external-requests", [gen_drive_scenario(R, ("goto", "goto", "speed", "settimer")) for _ in range(max(60, S["sims"] // 5))], [M.mon_C11])
    extreme = []
    for _ in range(max(30, S["sims"] // 10)):
        sc = gen_motion(R)
        big = R.choice([1e308, float("inf"), 1e200, 1e-300, 5e-324])
        sc["mob"] = (R.choice([10.0, 0.5, 2.0]), big, sc["mob"][2])
        for rules in sc["script"]:
            for r in rules:
                r["acts"] = [("speed", R.choice([1e308, float("inf"), 1e-300, 3.0])) if a[0] == "speed" else a for a in r["acts"]]
        extreme.append(sc)
    # speeds at the ends of the double range: speed * interval overflows to infinity (the node lands at once) or underflows
    run_sim_class(chk, "sim-motion-extreme-speeds", extreme, [M.mon_C11])
    # a node that changes its mind: three to five target commands of alternating kinds (Cartesian, geographic, speed) in
    # one callback, or in callbacks between two updates -- the last one counts
    bursts = []
    for _ in range(max(40, S["sims"] // 6)):
        sc = gen_motion(R)
        for rules in sc["script"]:
            for r in rules:
                if r["trig"][0] == "init" and R.random() < 0.5:
                    continue
                acts = []
                geo = R.random() < 0.5
                for _ in range(R.randint(3, 5)):
                    if R.random() < 0.15:
                        acts.append(("speed", R.choice([0.5, 2.0, 5.0])))
                    elif geo:
                        acts.append(("gotogeo", R.uniform(-2e-4, 2e-4), R.uniform(-2e-4, 2e-4), R.uniform(0, 5)))
                    else:
                        acts.append(("goto",) + gen_sim.gen_pos(R, 10))
                    if R.random() < 0.85:
                        geo = not geo
                r["acts"] = [a for a in r["acts"] if a[0] == "settimer"] + acts
        bursts.append(sc)
    run_sim_class(chk, "sim-motion-command-bursts", bursts, [M.mon_C11])


def check_C12(chk, R, S):
    chk.rule = ("1-6 nodes, static and moving, update intervals {0.25, 0.5, 1, 0.1, 0.3}, durations cutting mid-interval, "
                "iteration limits cutting mid-update; every telemetry (node, time, position) compared")
    run_corpus(chk, [M.mon_C12])
    scs = [gen_motion(R) for _ in range(S["sims"] // 2)]
    prof = {"p_mob": 1.0, "p_timer": 0.9, "min_nodes": 1, "max_nodes": 6, "p_assert": 0.0}
    scs += gen_many(R, S["sims"] // 2, prof)
    run_sim_class(chk, "sim-telemetry", scs, [M.mon_C12])
    _many_nodes_class(chk, R, S, [M.mon_C12])
    _crowd_class(chk, R, [M.mon_C12])
    # nodes far from the origin crawling so slowly that a whole update's step is below the resolution of their coordinates
    absorbed = []
    for _ in range(max(20, S["sims"] // 12)):
        nn = R.randint(1, 4)
        nodes = [{"pos": (R.choice([1e7, -3e8, 2.5e9, 0.0]), R.choice([1e7, 0.0, -4e9]), 0.0), "ty": 0} for _ in range(nn)]
        script = [[{"trig": ("init",), "nth": None, "acts": [R.choice([("goto", nd["pos"][0] + 50.0, nd["pos"][1], 0.0), ("goto", nd["pos"][0] + 50.0, nd["pos"][1] - 20.0, 5.0)]), ("speed", R.choice([1e-9, 1e-12, 3e-10, 1.0]))]}]
                  for nd in nodes]
        absorbed.append({"handlers": R.sample(["T", "M"], 2), "nodes": nodes, "med": (60.0, 0.0, 0.0), "mob": (R.choice([0.5, 0.25]), 1e-9, (0.0, 0.0, 0.0)),
                         "asserts": [], "seed": 1, "dur": 5.0, "maxit": None, "drv": ("run",), "script": script})
    run_sim_class(chk, "sim-telemetry-absorbed-steps", absorbed, [M.mon_C12])
    plugin_hosts_class(chk, R, max(30, S["sims"] // 8), telemetry=True)


def gen_pair_C13(R):
    """(with, without): same scenario with and without node-scoped requests of a silent node x"""
    base = gen_sim.gen_scenario(R, {"min_nodes": 2, "max_nodes": 4, "fails": [0.0], "p_assert": 0.0, "p_steps": 0.0,
                                    "p_timer": 1.0, "p_comm": 0.9, "p_mob": 0.6, "max_rules": 5, "p_bounded": 1.0,
                                    "acts": ["settimer", "settimer", "cancel", "cancel", "send", "bcast", "goto", "speed", "range"],
                                    "trigs": ["init", "timer", "timer", "packet", "telem"]})
    base["maxit"] = None
    if base["dur"] is None:
        base["dur"] = R.choice([2.0, 3.0])
    nn = len(base["nodes"])
    x = nn - 1 if R.random() < 0.6 else R.randrange(nn)
    scoped = ["settimer", "cancel", "cancel", "goto", "speed", "range"]
    rules = [{"trig": ("init",), "nth": None, "acts": [("cancel", k) for k in R.sample([0, 1, 2], R.randint(1, 3))]
              + [("settimer", R.randrange(3), "abs", R.choice([0.25, 0.5, 1.0]))]}]
    for _ in range(R.randint(1, 4)):
        acts = [gen_sim.gen_action(R, {"acts": scoped}, nn, x) for _ in range(R.randint(1, 4))]
        trig = R.choice([("init",), ("timer", None), ("telem",), ("packet", None)])
        rules.append({"trig": trig, "nth": None if trig[0] == "init" else R.randrange(4), "acts": acts})
    with_ = copy.deepcopy(base)
    with_["script"][x] = rules
    without = copy.deepcopy(base)
    mode = "silent"
    if x == nn - 1 and R.random() < 0.5:
        without["nodes"].pop()
        without["script"].pop()
        mode = "absent"
        # an absent node cannot be the destination of anybody's unicast
        for sc in (with_, without):
            for rs in sc["script"]:
                for r in rs:
                    r["acts"] = [a for a in r["acts"] if not (a[0] == "send" and isinstance(a[2], int) and a[2] >= nn - 1)]
            sc["script"] = [[r for r in rs if r["acts"]] for rs in sc["script"]]
    else:
        without["script"][x] = []
        if "C" in base["handlers"] and R.random() < 0.4:
            # a lossy medium with the generator seeded identically in both runs: the draws are one per copy, in or out of
            # range, so what the silent node does (moving into or out of somebody's range included) shifts nobody's draws
            fail = R.choice([0.3, 0.5, 0.8])
            for sc in (with_, without):
                sc["med"] = (sc["med"][0], sc["med"][1], fail)
            mode = "silent-lossy"
    return with_, without, x, mode


def gen_pair_C13_coincide(R):
    """the silent node's requests COINCIDE with the others': same timer names, same due instants, set before, between
    and after the others' own same-instant requests (timers of other names, messages arriving at that instant)"""
    nn = R.randint(2, 4)
    x = R.choice([0, 0, R.randrange(nn)])
    T = R.choice([1.0, 2.0, 5.0, 0.5])
    delay = R.choice([0.0, T, T])
    script = []
    msg = itertools.count(0)
    for me in range(nn):
        acts = []
        for _ in range(R.randint(2, 5)):
            k = R.random()
            if k < 0.55:
                acts.append(("settimer", R.randrange(3), "abs", R.choice([T, T, T + 1.0])))
            elif k < 0.85 and nn > 1:
                acts.append(("send", next(msg), R.choice([i for i in range(nn) if i != me])))
            else:
                acts.append(("bcast", next(msg)))
        rules = [{"trig": ("init",), "nth": None, "acts": acts}]
        if R.random() < 0.6:
            rules.append({"trig": ("packet", None), "nth": R.randrange(2), "acts": [("settimer", R.randrange(3), "abs", R.choice([T, T + 1.0]))]})
        if R.random() < 0.4:
            rules.append({"trig": ("timer", None), "nth": 0, "acts": [("settimer", R.randrange(3), "abs", T + 1.0)]})
        script.append(rules)
    base = {"handlers": R.sample(["T", "C"], 2), "nodes": [{"pos": (float(i), 0.0, 0.0), "ty": 0} for i in range(nn)],
            "med": (100.0, delay, 0.0), "mob": (1.0, 1.0, (0.0, 0.0, 0.0)), "asserts": [], "seed": 1, "dur": T + 3.0, "maxit": None,
            "drv": ("run",), "script": script}
    xr = [{"trig": ("init",), "nth": None, "acts": [("settimer", k, "abs", R.choice([T, T, T + 1.0])) for k in R.sample([0, 1, 2], R.randint(1, 3))]}]
    if R.random() < 0.5:
        xr.append({"trig": ("timer", None), "nth": 0, "acts": [("settimer", R.randrange(3), "abs", T + 1.0), ("cancel", R.randrange(3))]})
    with_ = copy.deepcopy(base)
    with_["script"][x] = xr
    without = copy.deepcopy(base)
    without["script"][x] = []
    return with_, without, x, "silent-coinciding"


def gen_pair_C13_crossing(R):
    """lossy medium, generator seeded identically: the silent node flies into (or out of) the range of nodes that keep
    broadcasting; its own node-scoped requests are the only difference between the two runs"""
    nn = R.randint(3, 4)
    x = R.randrange(nn)
    rng = R.choice([15.0, 20.0, 30.0])
    inward = R.random() < 0.6
    nodes, script = [], []
    for i in range(nn):
        if i == x:
            far = (rng * R.choice([1.5, 2.0, 3.0]), R.choice([0.0, 3.0]), 0.0)
            nodes.append({"pos": far if inward else (R.uniform(0, 4), R.uniform(0, 4), 0.0), "ty": 0})
            script.append([])
        else:
            nodes.append({"pos": (R.uniform(0, 6), R.uniform(0, 6), 0.0), "ty": 0})
            per = R.choice([0.5, 0.75, 1.0])
            script.append([{"trig": ("init",), "nth": None, "acts": [("settimer", 0, "abs", per)]},
                           {"trig": ("timer", 0), "nth": None, "acts": [("bcast", 100 * i + 1), ("settimer", 0, "rel", per)]}])
    base = {"handlers": R.sample(["T", "C", "M"], 3), "nodes": nodes, "med": (rng, R.choice([0.0, 0.0, 0.25]), R.choice([0.3, 0.5, 0.7])),
            "mob": (R.choice([0.5, 0.25, 1.0]), R.choice([10.0, 20.0]), (0.0, 0.0, 0.0)), "asserts": [], "seed": R.randrange(1000),
            "dur": R.choice([6.0, 8.0]), "maxit": None, "drv": ("run",), "script": script}
    tgt = (R.uniform(0, 4), R.uniform(0, 4), 0.0) if inward else (rng * 3.0, 0.0, 0.0)
    xr = [{"trig": ("init",), "nth": None, "acts": [("goto",) + tgt] + ([("speed", R.choice([5.0, 15.0]))] if R.random() < 0.5 else [])}]
    if R.random() < 0.5:
        xr.append({"trig": ("telem",), "nth": R.randrange(2, 8), "acts": [("range", R.choice([0.0, 5.0, 100.0]))]})
    with_ = copy.deepcopy(base)
    with_["script"][x] = xr
    without = copy.deepcopy(base)
    return with_, without, x, "silent-crossing-lossy"


def mined_burst_sizes():
    """whole numbers among the literals of the source that could be a limit on how many events one instant may hold"""
    return sorted({int(c) + 1 for c in mined_constants() if c == int(c) and 300 < c <= 200000}) or [1001]


def gen_pair_C13_burst(R, size):
    """the silent node arms `size` timers for one and the same instant (a node-scoped request, however many); the others go
    on with timers, messages among themselves and telemetry before and after that instant"""
    nn = 3
    x = 2
    script = [[{"trig": ("init",), "nth": None, "acts": [("settimer", 0, "abs", 0.5), ("settimer", 1, "abs", 2.0), ("settimer", 2, "abs", 3.0)]},
               {"trig": ("timer", None), "nth": None, "acts": [("send", 5, 1)]}],
              [{"trig": ("packet", None), "nth": None, "acts": [("settimer", 1, "rel", 0.25)]}],
              []]
    base = {"handlers": ["T", "C", "M"], "nodes": [{"pos": (float(i), 0.0, 0.0), "ty": 0} for i in range(nn)],
            "med": (100.0, 0.0, 0.0), "mob": (0.5, 1.0, (0.0, 0.0, 0.0)), "asserts": [], "seed": 1, "dur": 4.0, "maxit": None,
            "drv": ("run",), "script": script, "trace_limit": 4 * size + 2000, "fuel": 2 * size + 5000, "time_limit": 120.0}
    with_ = copy.deepcopy(base)
    with_["script"][x] = [{"trig": ("init",), "nth": None, "acts": [("settimer", 0, "abs", 1.0)] * size}]
    return with_, copy.deepcopy(base), x, "silent-burst"


def gen_pair_C13_parked(R):
    """the silent node is given a target and then parked (speed 0) before the others set off; the others travel to targets at
    very different distances, so that one arrives while another is still on its way"""
    nn = R.randint(3, 5)
    x = R.choice([0, 0, R.randrange(nn)])
    script = []
    for me in range(nn):
        far = R.choice([1.0, 2.0, 30.0, 100.0])
        script.append([{"trig": ("init",), "nth": None, "acts": [("goto", far, float(me), 0.0)] + ([("speed", R.choice([2.0, 5.0]))] if R.random() < 0.5 else [])}])
    base = {"handlers": R.sample(["T", "M"], 2), "nodes": [{"pos": (0.0, float(i), 0.0), "ty": 0} for i in range(nn)],
            "med": (100.0, 0.0, 0.0), "mob": (R.choice([0.1, 0.25, 0.5]), R.choice([5.0, 10.0]), (0.0, 0.0, 0.0)), "asserts": [], "seed": 1,
            "dur": R.choice([2.0, 4.0]), "maxit": None, "drv": ("run",), "script": script}
    with_ = copy.deepcopy(base)
    with_["script"][x] = [{"trig": ("init",), "nth": None, "acts": [("goto", 0.0, 500.0, 0.0), ("speed", 0.0)]}] + \
                         ([{"trig": ("telem",), "nth": R.randrange(3, 12), "acts": [("speed", 3.0)]}] if R.random() < 0.4 else [])
    without = copy.deepcopy(base)
    without["script"][x] = []
    return with_, without, x, "silent-parked"


def gen_pair_C13_parked_crowd(R):
    """nine and more nodes, most of them under way; a handful stay where they are (among them nodes with two-digit
    identifiers and the silent node) and report every update to a common receiver over a zero-delay medium; then the
    silent node sets off as well"""
    nn = R.randint(9, 14)
    npark = R.randint(3, 6)
    high = [i for i in range(8, nn)]
    parked = set(R.sample(high, min(len(high), R.randint(1, 3))))
    while len(parked) < npark:
        parked.add(R.randrange(1, nn))
    parked = sorted(parked)
    x = R.choice(parked)
    k0 = R.randint(2, 4)
    script = []
    for me in range(nn):
        if me in parked:
            rules = [{"trig": ("telem",), "nth": k, "acts": [("send", 100 + me, 0)]} for k in (k0, k0 + 1, k0 + 3)]
        else:
            rules = [{"trig": ("init",), "nth": None, "acts": [("goto", 40.0 + me, float(me % 5), 0.0)]}]
        script.append(rules)
    base = {"handlers": R.sample(["T", "M", "C"], 3), "nodes": [{"pos": (float(i % 4), float(i // 4), 0.0), "ty": 0} for i in range(nn)],
            "med": (1000.0, 0.0, 0.0), "mob": (0.25, 2.0, (0.0, 0.0, 0.0)), "asserts": [], "seed": 1,
            "dur": 2.0, "maxit": None, "drv": ("run",), "script": script, "trace_limit": 20000}
    with_ = copy.deepcopy(base)
    with_["script"][x] = [{"trig": ("init",), "nth": None, "acts": [("settimer", 0, "abs", 0.3)]},
                          {"trig": ("timer", 0), "nth": None, "acts": [("goto", 5.0, 50.0, 0.0)]}]
    without = copy.deepcopy(base)
    without["script"][x] = []
    return with_, without, x, "silent-sets-off-among-parked"


def gen_pair_C13_refused(R):
    """the silent node makes a request that is REFUSED (a timer in the past, which it is told about by the documented
    exception), the others then set timers of their own, and the silent node cancels the name of its refused request"""
    nn = R.randint(2, 4)
    x = R.choice([0, nn - 1, R.randrange(nn)])
    t_ref, t_b, t_cancel = R.choice([0.5, 0.6]), R.choice([0.75, 0.8]), R.choice([1.0, 1.5])
    script = []
    for me in range(nn):
        rules = [{"trig": ("init",), "nth": None, "acts": [("settimer", 0, "abs", t_b + 0.01 * me)] + ([("settimer", 2, "abs", 2.5)] if R.random() < 0.5 else [])},
                 {"trig": ("timer", 0), "nth": None, "acts": [("settimer", R.choice([1, 2]), "abs", R.choice([2.0, 3.0]))] + ([("settimer", 1, "rel", 0.5)] if R.random() < 0.4 else [])}]
        script.append(rules)
    base = {"handlers": ["T"] + (["C"] if R.random() < 0.5 else []), "nodes": [{"pos": (float(i), 0.0, 0.0), "ty": 0} for i in range(nn)],
            "med": (100.0, 0.0, 0.0), "mob": (0.5, 1.0, (0.0, 0.0, 0.0)), "asserts": [], "seed": 1,
            "dur": 4.0, "maxit": None, "drv": ("run",), "script": script}
    name = R.choice([1, 2, 3])
    with_ = copy.deepcopy(base)
    with_["script"][x] = [{"trig": ("init",), "nth": None, "acts": [("settimer", 0, "abs", t_ref), ("settimer", 4, "abs", t_cancel)]},
                          {"trig": ("timer", 0), "nth": None, "acts": [("settimer", name, "abs", R.choice([0.1, 0.25, 0.0]))] * R.randint(1, 2)},
                          {"trig": ("timer", 4), "nth": None, "acts": [("cancel", name)]}]
    without = copy.deepcopy(base)
    without["script"][x] = []
    return with_, without, x, "silent-refused-request"


def check_C13(chk, R, S):
    chk.rule = ("paired runs: a scenario with and without a sequence of node-scoped requests (set/cancel timer, goto, "
                "speed, range) by a silent existing node or by one additional node; the other nodes' callbacks, times, "
                "payloads, positions and request outcomes must be identical in both runs, and both must equal the model; a quarter of "
                "the pairs make the silent node's requests coincide (same timer names, same due instants) with the others' own; "
                "lossy media with the generator seeded identically, the silent node flying into / out of the range of broadcasting nodes")
    run_corpus(chk, [])
    pairs = [gen_pair_C13(R) for _ in range(S["sims"] * 3)] + [gen_pair_C13_coincide(R) for _ in range(S["sims"])] + \
            [gen_pair_C13_crossing(R) for _ in range(max(20, S["sims"] // 5))] + \
            [gen_pair_C13_parked(R) for _ in range(max(20, S["sims"] // 5))] + \
            [gen_pair_C13_refused(R) for _ in range(max(20, S["sims"] // 5))] + \
            [gen_pair_C13_parked_crowd(R) for _ in range(max(20, S["sims"] // 5))] + \
            [gen_pair_C13_burst(R, n) for n in mined_burst_sizes() if n <= 12000]
    ra = corr.corr_sims([p[0] for p in pairs])
    rb = corr.corr_sims([p[1] for p in pairs])
    for (w, wo, x, mode), a, b in zip(pairs, ra, rb):
        chk.record("pair:" + mode, {"with": _brief(w), "x": x}, True, gen_sim.features(w, a["impl"]))
        chk.validated += 2
        for r in (a, b):
            if r["diff"] is not None:
                chk.corr_break("pair:" + mode, r["sc"], r["diff"], extra={"impl": r["impl"][:120], "model": r["model"][:120]})
        pa, pb = M.project_others(a["impl"], x), M.project_others(b["impl"], x)
        if pa != pb:
            qa, qb = M.mask_finish_time(pa), M.mask_finish_time(pb)
            if qa == qb:
                chk.violation("pair:" + mode, {"with": _brief(w), "x": x, "tag": "finish-time-is-global-clock"},
                              ["C13: finish() of the other nodes reports a different time (finish-time-is-global-clock)"])
            else:
                d = corr.first_diff(qb, qa)
                chk.violation("pair:" + mode, {"with": w, "without": wo, "x": x},
                              ["C13: what the other nodes observe changed when silent node %d issued node-scoped requests: line %d "
                               "without: %r / with: %r" % (x, d[0], d[1], d[2])])
        ma = M.mask_finish_time(M.project_others(a["model"], x))
        mb = M.mask_finish_time(M.project_others(b["model"], x))
        if ma != mb:
            chk.violation("pair-model:" + mode, {"with": w, "without": wo, "x": x},
                          ["C13: the MODEL's other-node projections differ (model-level counterexample)"])
    from scripted import run_sim_impl
    # bursts too large for the model's list-based queue to replay in reasonable time: the paired runs of the implementation
    # are compared with each other only
    for n in [m for m in mined_burst_sizes() if m > 12000]:
        w, wo, x, mode = gen_pair_C13_burst(R, n)
        ta, _ = run_sim_impl(w)
        tb, _ = run_sim_impl(wo)
        chk.record("pair:" + mode + "-implementation-only", {"burst": n, "x": x}, True)
        chk.validated += 2
        qa, qb = M.mask_finish_time(M.project_others(ta, x)), M.mask_finish_time(M.project_others(tb, x))
        if qa != qb:
            d = corr.first_diff(qb, qa)
            chk.violation("pair:" + mode, {"burst": n, "x": x, "with": _brief(w)},
                          ["C13: what the other nodes observe changed when silent node %d armed %d timers for one instant: line %d "
                           "without: %r / with: %r" % (x, n, d[0], d[1], d[2])])
    # identities
    for n in (1, 2, 5, 9):
        sc = {"handlers": ["T"], "nodes": [{"pos": (float(i), 0.0, 0.0), "ty": i % 3} for i in range(n)], "med": (60.0, 0.0, 0.0),
              "mob": (1.0, 1.0, (0.0, 0.0, 0.0)), "asserts": [], "seed": 1, "dur": None, "maxit": None, "drv": ("run",),
              "script": [[] for _ in range(n)]}
        tr, _ = run_sim_impl(sc)
        chk.record("identities", {"nodes": n}, True)
        ids = [int(l.split()[1]) for l in tr if l.startswith("cb ") and l.split()[3] == "init"]
        if ids != list(range(n)) or any(l.startswith("ids ") for l in tr):
            chk.violation("identities", sc, ["C13: node identifiers seen by the protocols: %s, returned by add_node: 0..%d" % (ids, n - 1)])


def gen_assert_scenario(R):
    sc = gen_sim.gen_scenario(R, {"p_assert": 1.0, "rec_weights": [0, 1, 0], "acts": ["flag", "flag", "settimer", "send", "bcast"],
                                  "min_nodes": 1, "max_nodes": 5, "p_timer": 1.0, "p_mob": 0.2, "max_rules": 5})
    hs = [h for h in sc["handlers"] if h not in ("A", "R0")]
    sc["handlers"] = hs + ["R0", "A"]
    if R.random() < 0.5:
        sc["script"][0].insert(0, {"trig": ("init",), "nth": None, "acts": [("flag", True)]})
    if R.random() < 0.5:
        # finish() changes what the predicates read: nothing is evaluated after it
        for rules in sc["script"]:
            if R.random() < 0.7:
                rules.append({"trig": ("finish",), "nth": None, "acts": [("flag", R.random() < 0.5)]})
    return sc

def assert_shared_state_class(chk):
    """predicates that read state SHARED by the nodes (a tick counter one node advances, once per event): the predicate of node i is
    true exactly while the counter lies in window i, so several nodes' predicates may turn true -- or be true only -- after one and the
    same event.  Every assignment of windows over three ticks to 2-3 nodes of the stated type (plus a node of another type, which
    must not matter), for the two per-protocol kinds.  No model run (the model's predicates read per-node flags): the oracle is the
    definition -- eventually: fails iff some node's window misses every tick 1..T; always: fails iff some node's window misses a
    tick, and then at the first such tick."""
    from gradysim.protocol.interface import IProtocol
    from gradysim.simulator.handler.assertion import (AssertionHandler, FailedAssertionException, assert_eventually_true_for_protocol,
                                                      assert_always_true_for_protocol)
    from gradysim.simulator.handler.timer import TimerHandler
    from gradysim.simulator.simulation import SimulationBuilder, SimulationConfiguration
    T = 3
    subsets = [frozenset(c) for r in range(T + 1) for c in itertools.combinations(range(1, T + 1), r)]
    for nn in (2, 3):
        for windows in itertools.product(subsets, repeat=nn):
            for kind in ("EP", "AP"):
                shared = {"tick": 0}

                class Ticker(IProtocol):
                    def initialize(self):
                        if self.provider.get_id() == 0:
                            self.provider.schedule_timer("tick", self.provider.current_time() + 1)

                    def handle_timer(self, timer):
                        shared["tick"] += 1
                        if shared["tick"] < T:
                            self.provider.schedule_timer("tick", self.provider.current_time() + 1)

                    def handle_packet(self, message):
                        pass

                    def handle_telemetry(self, telemetry):
                        pass

                    def finish(self):
                        pass

                class Bystander(Ticker):
                    def initialize(self):
                        pass

                class Other(IProtocol):
                    initialize = handle_timer = handle_packet = handle_telemetry = finish = lambda self, *a: None

                def pred(node, windows=windows, kind=kind):
                    # (before the first event the counter is 0: 'always' predicates hold there, 'eventually' ones do not)
                    if shared["tick"] == 0:
                        return kind == "AP"
                    return shared["tick"] in windows[node.id]
                deco = assert_eventually_true_for_protocol if kind == "EP" else assert_always_true_for_protocol
                b = SimulationBuilder(SimulationConfiguration(execution_logging=False))
                b.add_handler(TimerHandler())
                b.add_handler(AssertionHandler([deco(Ticker, "shared")(pred)]))
                for i in range(nn):
                    b.add_node(Ticker if i == 0 else Bystander, (0, 0, 0))
                b.add_node(Other, (0, 0, 0))
                failed_at = None
                try:
                    b.build().start_simulation()
                except FailedAssertionException:
                    failed_at = shared["tick"]
                if kind == "EP":
                    want = T if any(not w for w in windows) else None
                else:
                    miss = [t for t in range(1, T + 1) if any(t not in w for w in windows)]
                    want = miss[0] if miss else None
                case = {"kind": kind, "windows": [sorted(w) for w in windows], "ticks": T}
                chk.record("assert-shared-state-exhaustive", case, True)
                chk.validated += 1
                if failed_at != want:
                    def say(x):
                        return "did not fail" if x is None else "failed after event %d" % x
                    chk.violation("assert-shared-state-exhaustive", case,
                                  ["C18: %s-for-protocol over predicates true while a shared counter is in %s (one window per node): the run %s, "
                                   "by the definition it %s" % ("eventually" if kind == "EP" else "always", case["windows"], say(failed_at),
                                                                  "should not fail" if want is None else "fails after event %d" % want)])
                    if len(chk.violations) > 20:
                        return


def check_C18(chk, R, S):
    chk.rule = ("scripted protocols toggling the flag the predicates read; 1-3 nodes of 3 protocol types (one a subclass), "
                "1-3 assertions of the four kinds, timelines with the first violation at every position incl. zero events; "
                "expected outcome recomputed from the flag timeline")
    run_corpus(chk, [M.mon_C18])
    scs = [gen_assert_scenario(R) for _ in range(S["sims"] * 2)]
    run_sim_class(chk, "sim-assertions", scs, [M.mon_C18])
    crowd = []
    for _ in range(max(20, S["sims"] // 10)):
        sc = gen_assert_scenario(R)
        sc["asserts"] = [(k, R.randrange(3)) if k in ("AP", "EP") else (k, R.choice(["all", "any"]))
                         for k in (R.choice(["AP", "EP", "EP", "ASIM", "ESIM", "ESIM"]) for _ in range(R.randint(8, 20)))]
        crowd.append(sc)
    run_sim_class(chk, "sim-many-assertions", crowd, [M.mon_C18])
    # every order in which 2-3 nodes of one type hold the flag for a short while (disjoint windows), plus nodes that never do
    win = []
    for nn in (2, 3):
        for order in itertools.permutations(range(nn)):
            for kind in (("EP", 0), ("ESIM", "any"), ("ESIM", "all"), ("AP", 0)):
                for lazy in (None, 0, nn - 1):
                    script = []
                    for me in range(nn):
                        slot = order.index(me)
                        if lazy == me:
                            script.append([])
                            continue
                        script.append([{"trig": ("init",), "nth": None, "acts": [("settimer", 0, "abs", 1.0 + 2 * slot), ("settimer", 1, "abs", 2.0 + 2 * slot)]},
                                       {"trig": ("timer", 0), "nth": None, "acts": [("flag", True)]},
                                       {"trig": ("timer", 1), "nth": None, "acts": [("flag", False)]}])
                    win.append({"handlers": ["T", "R0", "A"], "nodes": [{"pos": (float(i), 0.0, 0.0), "ty": 0} for i in range(nn)],
                                "med": (60.0, 0.0, 0.0), "mob": (1.0, 1.0, (0.0, 0.0, 0.0)), "asserts": [kind], "seed": 1, "dur": None,
                                "maxit": None, "drv": ("run",), "script": script})
    run_sim_class(chk, "assert-flag-windows-exhaustive", win, [M.mon_C18])
    # what an assertion reads about one node is written by another node's callback: every choice of writer, of the instant,
    # and of whether the node read about has callbacks of its own afterwards
    cross = []
    for nn in (2, 3):
        for w in range(nn):
            for kind in (("AP", 0), ("ASIM", "all"), ("EP", 0), ("ESIM", "all")):
                for busy in (False, True):
                    up = kind[0] in ("AP", "ASIM")
                    script = []
                    for me in range(nn):
                        # (an event before the write, so that the assertions have been looked at once already)
                        rules = [{"trig": ("init",), "nth": None, "acts": [("flag", up)] + ([("settimer", 2, "abs", 0.5), ("settimer", 0, "abs", 1.0)] if me == w else [])
                                  + ([("settimer", 1, "abs", 2.0)] if busy else [])}]
                        if me == w:
                            rules.append({"trig": ("timer", 0), "nth": None, "acts": [("flag", not up)]})
                        script.append(rules)
                    cross.append({"handlers": ["T", "R0", "A"], "nodes": [{"pos": (float(i), 0.0, 0.0), "ty": 0} for i in range(nn)],
                                  "med": (60.0, 0.0, 0.0), "mob": (1.0, 1.0, (0.0, 0.0, 0.0)), "asserts": [kind], "seed": 1, "dur": None,
                                  "maxit": None, "drv": ("run",), "script": script, "cross_flags": True})
    run_sim_class(chk, "assert-cross-node-writes-exhaustive", cross, [M.mon_C18])
    # two assertions under ONE name: the first may fail, the second (about a protocol type no node has) cannot
    dup = []
    for sc in win[:len(win) // 2]:
        c = copy.deepcopy(sc)
        c["asserts"] = [c["asserts"][0], (R.choice(["AP", "EP"]), 1)]
        c["assert_names"] = ["a0", "a0"]
        dup.append(c)
    run_sim_class(chk, "assert-name-collisions", dup, [M.mon_C18])
    # small-scope exhaustive: 1 node, timeline of flag values over 3 events x every assertion kind
    ex = []
    for bits in itertools.product([0, 1], repeat=4):
        for kind in (("AP", 0), ("EP", 0), ("ASIM", "all"), ("ESIM", "any"), ("AP", 1), ("EP", 1)):
            for ty in (0, 1, 2):
                script = [[{"trig": ("init",), "nth": None, "acts": [("flag", bool(bits[0])), ("settimer", 0, "abs", 1.0), ("settimer", 0, "abs", 2.0), ("settimer", 0, "abs", 3.0)]}]
                          + [{"trig": ("timer", None), "nth": k, "acts": [("flag", bool(bits[k + 1]))]} for k in range(3)]]
                ex.append({"handlers": ["T", "R0", "A"], "nodes": [{"pos": (0.0, 0.0, 0.0), "ty": ty}], "med": (60.0, 0.0, 0.0),
                           "mob": (1.0, 1.0, (0.0, 0.0, 0.0)), "asserts": [kind], "seed": 1, "dur": None, "maxit": None,
                           "drv": ("run",), "script": script})
    for kind in (("EP", 0), ("ESIM", "any"), ("AP", 0), ("ASIM", "all")):
        for b0, b1, bf in itertools.product([False, True], repeat=3):
            ex.append({"handlers": ["T", "R0", "A"], "nodes": [{"pos": (0.0, 0.0, 0.0), "ty": 0}], "med": (60.0, 0.0, 0.0),
                       "mob": (1.0, 1.0, (0.0, 0.0, 0.0)), "asserts": [kind], "seed": 1, "dur": None, "maxit": None, "drv": ("run",),
                       "script": [[{"trig": ("init",), "nth": None, "acts": [("flag", b0), ("settimer", 0, "abs", 1.0)]},
                                   {"trig": ("timer", None), "nth": 0, "acts": [("flag", b1)]},
                                   {"trig": ("finish",), "nth": None, "acts": [("flag", bf)]}]]})
        ex.append({"handlers": ["T", "R0", "A"], "nodes": [{"pos": (0.0, 0.0, 0.0), "ty": 0}], "med": (60.0, 0.0, 0.0),
                   "mob": (1.0, 1.0, (0.0, 0.0, 0.0)), "asserts": [kind], "seed": 1, "dur": None, "maxit": None,
                   "drv": ("run",), "script": [[]]})
    run_sim_class(chk, "assert-timelines-exhaustive", ex, [M.mon_C18])
    assert_shared_state_class(chk)
    chk.exhaustive = True


# ---------------------------------------------------------------------------------------------
# plugins: dispatcher (C15), mission (C16), random trip (C17)
# ---------------------------------------------------------------------------------------------

def run_plugin_class(chk, cls, cases, impl, to_text, monitor, nontrivial=lambda c, t: True, batch=1500, guard=True):
    """guard: a monitor finding is reported only if the same monitor accepts the proved model's trace of
    the same case (switched off where the monitor carries a clause that is NOT proved of the model)"""
    import plugins  # noqa: F401
    from common import run_driver, first_diff
    for i in range(0, len(cases), batch):
        part = cases[i:i + batch]
        impls, texts = [], []
        for j, c in enumerate(part):
            r = impl(c)
            extra = None
            if isinstance(r, tuple):
                r, extra = r
            impls.append(list(r))
            texts.append(to_text("p%d" % j, c, extra) if extra is not None else to_text("p%d" % j, c))
        out = run_driver("".join(texts))
        for j, c in enumerate(part):
            m = out.get("p%d" % j, ["<no model output>"])
            if any("outoffuel" in l for l in m):
                # handlers dispatching each other deeper than the model's fuel: nothing to compare
                chk.record(cls, {"skipped": "nested dispatch deeper than the model's fuel"}, False)
                continue
            if any("runaway" in l for l in impls[j]) and any(l.count("call ") > 380 for l in m):
                # a handler that keeps registering itself makes the chain grow without bound, in the model
                # as in the code: the harness' invocation guard stopped the implementation; nothing to compare
                chk.record(cls, {"skipped": "self-amplifying handler chain"}, False)
                continue
            chk.record(cls, c if len(str(c)) < 1500 else {"ops": len(c.get("ops", []))}, nontrivial(c, impls[j]),
                       feats=[cls + ":" + (o[0] if isinstance(o, (list, tuple)) else str(o)) for o in c.get("ops", [])][:40])
            chk.validated += 1
            viol = [x for x in monitor(c, impls[j]) if x.startswith(chk.prop)]
            if guard and viol and (impls[j] == m or [x for x in monitor(c, m) if x.startswith(chk.prop)]):
                chk.extra["monitor_rejected_model_trace"] = chk.extra.get("monitor_rejected_model_trace", 0) + 1
                chk.extra.setdefault("monitor_rejections", []).append(viol[0][:160])
                viol = []
            if viol:
                small = c
                if len(chk.violations) < 2:
                    def fails(cc):
                        rr = impl(cc)
                        rr = rr[0] if isinstance(rr, tuple) else rr
                        return any(x.startswith(chk.prop) for x in monitor(cc, list(rr)))
                    small = shrink(c, fails, ops_candidates, budget=150)
                rr = impl(small)
                rr = rr[0] if isinstance(rr, tuple) else rr
                chk.violation(cls, small, [x for x in monitor(small, list(rr)) if x.startswith(chk.prop)] or viol, extra={"impl": list(rr)[:60]})
            else:
                d = first_diff(impls[j], m)
                if d is not None:
                    chk.corr_break(cls, c, d, extra={"impl": impls[j][:60], "model": m[:60]})
        if len(chk.violations) + len(chk.corr_breaks) > 6:
            return


def ops_candidates(case):
    if "ops" in case:
        ops = case["ops"]
        for i in range(len(ops)):
            if isinstance(ops[i], (list, tuple)) and len(ops[i]) > 3 and str(ops[i][3]).startswith("SIMRUN"):
                continue          # the operations that stand for one run of the hosting simulation go together
            c = dict(case)
            c["ops"] = ops[:i] + ops[i + 1:]
            yield c
    elif "pts" in case:
        for i in range(len(case["pts"])):
            if len(case["pts"]) > 1:
                c = dict(case)
                c["pts"] = case["pts"][:i] + case["pts"][i + 1:]
                yield c
    elif "nodes" in case and "me" in case:
        for i in range(len(case["nodes"])):
            if i != case["me"]:
                c = dict(case)
                c["nodes"] = case["nodes"][:i] + case["nodes"][i + 1:]
                c["me"] = case["me"] - (1 if i < case["me"] else 0)
                yield c


def gen_disp_case(R, maxops=10, nested=False):
    ninst = R.choice([1, 1, 2])
    nh = R.randint(1, 4)
    beh = []
    for h in range(nh):
        table = []
        nent = R.randint(2, 4) if nested else R.randint(0, 3)
        for e in range(nent):
            res = R.choice(["continue", "continue", "interrupt", "none"])
            ops = []
            for _ in range(R.choices([0, 1, 2, 3], weights=[3, 3, 2, 1])[0] if nested else R.choices([0, 1, 2], weights=[5, 3, 1])[0]):
                if nested and e < nent - 1 and R.random() < 0.45:
                    # the handler delivers a callback itself (often of the kind it is running for): a nested dispatch.
                    # Only in entries used once (the last entry repeats for ever), so the nesting is bounded.
                    ops.append(("ndisp", R.randrange(ninst), R.choice(["timer", "timer", "timer", "packet", "telem", "init", "finish"]), 0))
                    continue
                kind_ = R.choice(["reg", "unreg", "unreg"])
                if kind_ == "reg":
                    # a running handler registers only handlers with a smaller id: chains cannot amplify themselves
                    # without bound (self-registration is covered by the small exhaustive class)
                    if h == 0:
                        continue
                    tgt = R.randrange(h)
                else:
                    tgt = R.choice([h, h, R.randrange(nh)])
                ops.append((kind_, R.randrange(ninst), R.choice(["timer", "timer", "telem", "packet", "init", "finish"]), tgt))
            table.append((res, ops))
        beh.append(table)
    ops = [("create", i) for i in range(ninst) if R.random() < 0.9]
    for _ in range(R.randint(2, maxops)):
        x = R.random()
        i = R.randrange(ninst)
        k = R.choice(["timer", "timer", "telem", "packet", "init", "finish"]) if not nested else R.choice(["timer", "timer", "timer", "packet", "telem"])
        if x < 0.4:
            ops.append(("reg", i, k, R.randrange(nh)))
        elif x < 0.55:
            ops.append(("unreg", i, k, R.randrange(nh)))
        elif x < 0.6:
            ops.append(("create", i))
        else:
            ops.append(("disp", i, k))
    case = {"ninst": ninst, "beh": beh, "ops": ops}
    if R.random() < 0.4:
        case["bound"] = True               # handlers are bound methods, looked up anew for every (un)registration
    if (len(ops) + 2 * nh) % 2 == 0:
        case["odd_results"] = True         # handlers that return values of other types where "anything but INTERRUPT" is meant
    if not case.get("bound") and (len(ops) + nh) % 3 == 0:
        case["partials"] = True            # handlers are functools.partial objects with equal bound arguments
    if R.random() < 0.35:
        case["shape"] = R.choice(["decorated", "aliased"])    # how the protocol class defines its callbacks
    if R.random() < 0.5:
        # protocol instances inside a real simulation, callbacks delivered through the node's encapsulator; the
        # dispatcher is typically first asked for in the middle of the run (after some callbacks were delivered)
        case["via"] = "simulator"
        if R.random() < 0.6:
            first = [op for op in ops if op[0] != "create"]
            pre = [("disp", R.randrange(ninst), R.choice(["init", "timer", "packet", "telem"])) for _ in range(R.randint(1, 3))]
            case["ops"] = pre + [("create", i) for i in range(ninst)] + first
        if R.random() < 0.4 and not nested:
            # somewhere in the history the simulation is run to its end; the dispatchers are used on afterwards
            at = R.randrange(1, len(case["ops"]) + 1)
            run = [("disp", i, "init", "SIMRUN" if i == 0 else "SIMRUN-cont") for i in range(ninst)] + \
                  [("disp", i, "finish", "SIMRUN-cont") for i in range(ninst)]
            case["ops"] = case["ops"][:at] + run + case["ops"][at:]
    return case


def disp_exhaustive(maxlen):
    """every history over {register h0/h1, unregister h0/h1, dispatch} for the timer chain of one
    instance, for a few fixed behaviours incl. self-unregistering / registering / interrupting handlers"""
    behs = [
        [[("continue", [])], [("continue", [])]],
        [[("continue", [("unreg", 0, "timer", 0)])], [("continue", [])]],
        [[("continue", [])], [("continue", [("unreg", 0, "timer", 0)])]],
        [[("interrupt", [])], [("continue", [("reg", 0, "timer", 0)])]],
        [[("none", [("reg", 0, "timer", 1)])], [("interrupt", [("unreg", 0, "timer", 1)]), ("continue", [])]],
    ]
    alpha = [("reg", 0, "timer", 0), ("reg", 0, "timer", 1), ("unreg", 0, "timer", 0), ("unreg", 0, "timer", 1), ("disp", 0, "timer")]
    for beh in behs:
        for n in range(1, maxlen + 1):
            for combo in itertools.product(alpha, repeat=n):
                if not any(o[0] == "disp" for o in combo):
                    continue
                yield {"ninst": 1, "beh": beh, "ops": [("create", 0)] + list(combo) + [("disp", 0, "timer")]}


def disp_exhaustive_nested(maxlen):
    """handlers that deliver a callback themselves (a dispatch nested in the running one), then (un)register"""
    behs = [
        [[("continue", [("ndisp", 0, "timer", 0), ("unreg", 0, "timer", 0)]), ("continue", [])], [("continue", [])]],
        [[("continue", [("ndisp", 0, "timer", 0), ("reg", 0, "timer", 1)]), ("continue", [])], [("continue", [])]],
        [[("continue", [])], [("continue", [("ndisp", 0, "timer", 0), ("unreg", 0, "timer", 1)]), ("continue", [])]],
        [[("interrupt", [("ndisp", 0, "timer", 0)]), ("continue", [("unreg", 0, "timer", 1)])], [("none", [])]],
        [[("continue", [("ndisp", 0, "packet", 0), ("unreg", 0, "timer", 1)]), ("continue", [])], [("continue", [("ndisp", 0, "timer", 0)]), ("interrupt", [])]],
    ]
    alpha = [("reg", 0, "timer", 0), ("reg", 0, "timer", 1), ("reg", 0, "packet", 1), ("unreg", 0, "timer", 0), ("disp", 0, "timer")]
    for beh in behs:
        for n in range(1, maxlen + 1):
            for combo in itertools.product(alpha, repeat=n):
                if not any(o[0] == "disp" for o in combo):
                    continue
                yield {"ninst": 1, "beh": beh, "ops": [("create", 0)] + list(combo) + [("disp", 0, "timer")]}


def check_C15(chk, R, S):
    import plugins
    chk.rule = ("histories of create / register / unregister / dispatch over the five callback kinds, 1-2 protocol "
                "instances, 1-4 handlers whose results (CONTINUE / INTERRUPT / None) and re-entrant (un)registrations "
                "vary per invocation; small-scope exhaustive over one chain with self-unregistering / registering / "
                "interrupting handlers (length <= %d), then random; the same again with handlers that deliver callbacks themselves "
                "(dispatches nested in the running one, same kind and other kinds)" % (4 if chk.tier == "quick" else 6))
    run_plugin_class(chk, "disp-exhaustive", list(disp_exhaustive(4 if chk.tier == "quick" else 6)), plugins.run_disp_impl,
                     plugins.disp_to_text, M.mon_C15)
    run_plugin_class(chk, "disp-random", [gen_disp_case(R, 10 if chk.tier == "quick" else 40) for _ in range(S["sims"] * 4)],
                     plugins.run_disp_impl, plugins.disp_to_text, M.mon_C15)
    run_plugin_class(chk, "disp-nested-exhaustive", list(disp_exhaustive_nested(4 if chk.tier == "quick" else 5)), plugins.run_disp_impl,
                     plugins.disp_to_text, M.mon_C15)
    run_plugin_class(chk, "disp-nested-random", [gen_disp_case(R, 10 if chk.tier == "quick" else 30, nested=True) for _ in range(S["sims"] * 3)],
                     plugins.run_disp_impl, plugins.disp_to_text, M.mon_C15)
    crowd = []
    for _ in range(3 if chk.tier == "quick" else 8):
        # scale in the number of protocol instances that have a dispatcher (130-300): an early instance's dispatcher is
        # asked for again after all the others were created
        n = R.randint(130, 300)
        k = R.choice(["timer", "packet", "telem"])
        ops = [("create", 0), ("reg", 0, k, 0)] + [("create", i) for i in range(1, n)] + \
              [("reg", 0, k, 1), ("disp", 0, k), ("unreg", 0, k, 0), ("disp", 0, k), ("reg", n - 1, k, 2), ("disp", n - 1, k), ("disp", 0, k)]
        crowd.append({"ninst": n, "beh": [[("continue", [])], [("continue", [])], [("interrupt", [])]], "ops": ops})
    run_plugin_class(chk, "disp-many-instances", crowd, plugins.run_disp_impl, plugins.disp_to_text, M.mon_C15)
    many = {"ninst": 1, "beh": [[("continue", [])]], "ops": [("create", 0), ("reg", 0, "timer", 0)] + [("create", 0)] * 1200 + [("disp", 0, "timer")]}
    run_plugin_class(chk, "disp-many-creates", [many], plugins.run_disp_impl, plugins.disp_to_text, M.mon_C15)
    chk.exhaustive = True


def gen_mission_case(R, maxops=14):
    mode = R.choice(["no", "restart", "reverse", "reverse"])
    tol = R.choice([0.5, 1.0, 0.25, 2.0])
    n = R.choice([1, 1, 2, 2, 3, 4, 5])

    def wp():
        return (float(R.randint(-8, 8)), float(R.randint(-8, 8)), float(R.randint(0, 4))) if R.random() < 0.7 else \
            (R.uniform(-8, 8), R.uniform(-8, 8), R.uniform(0, 4))
    def mission(k):
        m = [wp() for _ in range(k)]
        if R.random() < 0.35:
            # a waypoint repeated back to back (hover / turn on the spot): the mission is the list as given
            i = R.randrange(len(m))
            m.insert(i, m[i])
        return m
    missions = [mission(n)]
    ops = []
    cur_m = None
    for _ in range(R.randint(2, maxops)):
        x = R.random()
        if x < 0.15 or (cur_m is None and x < 0.5):
            if R.random() < 0.3:
                missions.append(mission(R.choice([1, 2, 3])))
            cur_m = R.choice(missions)
            ops.append(("start", list(cur_m)))
        elif x < 0.22:
            ops.append(("stop",))
            if R.random() < 0.5:
                cur_m = None
        elif x < 0.34:
            ops.append(("setwp", R.choice([-1, 0, 0, 1, 1, 2, 3, 5, len(cur_m) if cur_m else 0, (len(cur_m) - 1) if cur_m else 0])))
        elif x < 0.46:
            ops.append(("setrev", R.random() < 0.5))
        else:
            m = cur_m or missions[0]
            w = R.choice(m)
            y = R.random()
            if y < 0.5:
                p = w
            elif y < 0.65:
                p = (w[0] + tol, w[1], w[2])                  # exactly on the tolerance boundary
            elif y < 0.78:
                p = (w[0] + tol * 0.5, w[1] - tol * 0.5, w[2])
            elif y < 0.88:
                p = (w[0] + tol * 0.7, w[1] - tol * 0.7, w[2] + tol * 0.7)   # within the tolerance per coordinate, not as a point
            else:
                p = (w[0] + tol * 1.5, w[1] + 3.0, w[2])
            ops.append(("telem", p))
    case = {"speed": R.choice([5.0, 1.0, 12.5]), "mode": mode, "tol": tol, "ops": ops}
    if R.random() < 0.3:
        case["via_file"] = True          # missions handed over through start_mission_with_waypoint_file
        case["file_fmt"] = R.choice(["r", "r", "e", "sp", "plus"])     # the same numbers written in exponent form, padded, signed
        case["file_rel"] = R.random() < 0.4     # named relative to the working directory; a same-named decoy lies beside the protocol's source
        case["file_link"] = (not case["file_rel"]) and len(ops) % 2 == 0   # named through a symlinked directory and ".."
    if R.random() < 0.3:
        case["decoy"] = True             # the protocol owns a second, idle mission plugin created after this one
    if R.random() < 0.3:
        case["kept_ref"] = True          # telemetry delivered through a bound method looked up once, after the plugin was created
    return case


def mission_exhaustive(maxlen):
    for mode in ("no", "restart", "reverse"):
        for n in (1, 2, 3):
            m = [(float(3 * i), 0.0, 0.0) for i in range(n)]
            alpha = [("start", m), ("stop",), ("setwp", 0), ("setwp", n - 1), ("setwp", n), ("setrev", True), ("setrev", False)] + \
                    [("telem", w) for w in m] + [("telem", (100.0, 0.0, 0.0))]
            for k in range(1, maxlen + 1):
                for combo in itertools.product(alpha, repeat=k):
                    yield {"speed": 5.0, "mode": mode, "tol": 0.5, "ops": [("start", m)] + list(combo)}


def gen_long_mission_case(R):
    """scale in the mission length (30-70 waypoints): flown through in order, with jumps to late waypoints, reversals and
    restarts in between"""
    n = R.randint(30, 70)
    m = [(float(3 * i), float((i * 7) % 11), float(i % 4)) for i in range(n)]
    mode = R.choice(["no", "restart", "reverse"])
    ops = [("start", list(m))]
    cur, step = 0, 1
    for _ in range(R.randint(n, 2 * n + 10)):
        x = R.random()
        if x < 0.8:
            ops.append(("telem", m[cur % n] if 0 <= cur < n else m[0]))
            cur += step
            if cur >= n or cur < 0:
                if mode == "reverse":
                    step = -step
                    cur = max(0, min(n - 1, cur + 2 * step))
                else:
                    cur = 0
        elif x < 0.88:
            cur = R.choice([n - 1, n - 2, n // 2, 0, 9, 10, 11])
            ops.append(("setwp", cur))
        elif x < 0.94:
            ops.append(("setrev", R.random() < 0.5))
        else:
            ops.append(("telem", (1000.0, 0.0, 0.0)))
    return {"speed": 5.0, "mode": mode, "tol": 0.5, "ops": ops}


def check_C16(chk, R, S):
    import plugins
    chk.rule = ("histories of start / stop / set-waypoint / set-reversed / telemetry (on the waypoint, inside, exactly on "
                "and outside the tolerance) for mission lengths 1-5 and the three loop modes; small-scope exhaustive "
                "(lengths 1-3, histories <= %d after a start), then random" % (3 if chk.tier == "quick" else 4))
    cases = []
    for item in corpus("C16"):
        cases.append(item["case"])
    run_plugin_class(chk, "mission-exhaustive", cases + list(mission_exhaustive(3 if chk.tier == "quick" else 4)),
                     plugins.run_mission_impl, plugins.mission_to_text, M.mon_C16)
    run_plugin_class(chk, "mission-random", [gen_mission_case(R, 14 if chk.tier == "quick" else 60) for _ in range(S["sims"] * 4)],
                     plugins.run_mission_impl, plugins.mission_to_text, M.mon_C16)
    run_plugin_class(chk, "mission-long", [gen_long_mission_case(R) for _ in range(max(12, S["sims"] // 20))],
                     plugins.run_mission_impl, plugins.mission_to_text, M.mon_C16)
    chk.exhaustive = True


def gen_trip_case(R, scripted=False, maxops=14, restarts=False):
    def rng():
        a = float(R.randint(-60, 40))
        if R.random() < 0.25:
            # bounds that are not on any decimal grid; degenerate and very thin ranges (a fixed flight level)
            a = a + R.choice([0.3456, 0.00049, 1.0 / 3, 0.123456789])
            return (a, a + R.choice([0.0, 0.0, 0.0004, 1e-6, 0.5]))
        return (a, a + R.choice([0.0, 1.0, 10.0, 100.0, 37.5]))
    box = (rng(), rng(), rng())
    tol = R.choice([1.0, 0.5, 2.0])
    ops = []
    for _ in range(R.randint(2, maxops)):
        x = R.random()
        if restarts and x < 0.3:
            ops.append(("init+telem", None))
        elif x < 0.25:
            ops.append(("init",))
        elif x < 0.4:
            ops.append(("finish",))
        elif x < 0.5:
            ops.append(("travel",))
        elif x < 0.85:
            ops.append(("telem", None))
        elif x < 0.95:
            ops.append(("telem+finish", None))
        else:
            ops.append(("telem+init", None))
    during = R.random() < 0.15 and not restarts
    if during:
        # a trip is started, a foreign telemetry handler is registered, and the trip is started AGAIN at once
        ops = [("init",), ("init",)] + [op for op in ops if op[0] not in ("telem+finish", "telem+init")]
    case = {"box": box, "tol": tol, "ops": ops}
    if during:
        case["mute"] = "during"
    if scripted:
        case["stream"] = [R.choice([0.0, 1.0 - 2.0 ** -53, 0.5, R.random(), R.random()]) for _ in range(6 * len(ops) + 6)]
    else:
        case["seed"] = R.randrange(1 << 30)
    # telemetry positions: near / at / far from the target the MODEL-independent way: replay the draws
    st = list(case["stream"]) if scripted else [x for x in _seeded(case["seed"], 6 * len(ops) + 6)]
    cur, target, ongoing = 0, None, False
    for i, op in enumerate(ops):
        if op[0] in ("init", "travel"):
            w = tuple(box[k][0] + (box[k][1] - box[k][0]) * st[cur + k] for k in range(3))
            cur += 3
            if op[0] == "init":
                target, ongoing = w, True
        elif op[0] == "finish":
            ongoing = False
        elif op[0] in ("telem", "telem+finish", "telem+init", "init+telem"):
            y = R.random()
            base = target if target is not None else (0.0, 0.0, 0.0)
            if op[0] == "init+telem" and not ongoing:
                op = ops[i] = ("telem", None)          # (only a trip under way can be started AGAIN from a handler)
            elif op[0] == "init+telem":
                # a foreign telemetry handler registered while the trip is under way starts it again, typically because the
                # position reported is the old target: the restart comes first, the trip's own reaction to the report second
                w = tuple(box[k][0] + (box[k][1] - box[k][0]) * st[cur + k] for k in range(3))
                cur += 3
                target = w
                if y > 0.8:
                    base = w
            if y < 0.45:
                p = base
            elif y < 0.6:
                p = (base[0] + tol, base[1], base[2])
            elif y < 0.72:
                p = (base[0] + tol * 0.4, base[1] - tol * 0.4, base[2])
            elif y < 0.84:
                # every coordinate within the tolerance, the point itself (0.7 * sqrt 3 tolerances away) not
                p = (base[0] + tol * 0.7, base[1] - tol * 0.7, base[2] + tol * 0.7)
            else:
                p = (base[0] + 3 * tol, base[1] + 7.0, base[2])
            ops[i] = (op[0], p)
            if ongoing and target is not None and M._py_sq(p, target) <= tol * tol:
                w = tuple(box[k][0] + (box[k][1] - box[k][0]) * st[cur + k] for k in range(3))
                cur += 3
                target = w
            if op[0] == "telem+finish":
                ongoing = False
            elif op[0] == "telem+init":
                w = tuple(box[k][0] + (box[k][1] - box[k][0]) * st[cur + k] for k in range(3))
                cur += 3
                target, ongoing = w, True
    if R.random() < 0.3:
        case["decoy"] = True     # the protocol also owns an idle mission plugin and a second trip plugin that never starts
    if R.random() < 0.3:
        case["kept_ref"] = True  # telemetry delivered through a bound method looked up once, after the plugin was created
    if "mute" not in case and R.random() < 0.3 and not any(op[0] in ("telem+finish", "telem+init", "init+telem") for op in ops):
        case["mute"] = True      # after the first trip an INTERRUPTing telemetry filter is registered on the protocol, for good
    return case


def _seeded(seed, n):
    r = random.Random(seed)
    return [r.random() for _ in range(n)]


def check_C17(chk, R, S):
    import plugins
    chk.rule = ("histories of initiate / finish / telemetry (at, inside, exactly on, outside the tolerance of the current "
                "target) / travel / status queries after every call; draws from the seeded generator and from scripted "
                "streams that include the ends of the box (0 and 1-2^-53)")

    def impl(c):
        r, d = plugins.run_trip_impl(c)
        return r, plugins.trip_stream(c, d)
    run_plugin_class(chk, "trip-seeded", [gen_trip_case(R, False, 14 if chk.tier == "quick" else 50) for _ in range(S["sims"] * 2)],
                     impl, plugins.trip_to_text, M.mon_C17)
    run_plugin_class(chk, "trip-scripted", [gen_trip_case(R, True, 14 if chk.tier == "quick" else 50) for _ in range(S["sims"] * 2)],
                     impl, plugins.trip_to_text, M.mon_C17)
    run_plugin_class(chk, "trip-restarted-from-a-handler", [gen_trip_case(R, k % 2 == 0, 14, restarts=True) for k in range(max(60, S["sims"] // 3))],
                     impl, plugins.trip_to_text, M.mon_C17)
    run_plugin_class(chk, "trip-long", [gen_trip_case(R, k % 2 == 0, 150) for k in range(max(12, S["sims"] // 20))],
                     impl, plugins.trip_to_text, M.mon_C17)
    fresh = [{"box": ((-50.0, 50.0), (-50.0, 50.0), (0.0, 50.0)), "tol": 1.0, "seed": 1, "ops": ops}
             for ops in ([("finish",)], [("telem", (0.0, 0.0, 0.0))], [("finish",), ("finish",), ("init",), ("init",), ("finish",), ("telem", (0.0, 0.0, 0.0))])]
    run_plugin_class(chk, "trip-fresh-plugin", fresh, impl, plugins.trip_to_text, M.mon_C17)


def check_C19(chk, R, S):
    import geomcam as G
    chk.rule = ("random camera orientations / cone angles (incl. >= 180 deg) / reaches; other nodes at random places, exactly "
                "collinear with the axis (in front, at the reach, beyond), exactly opposite, at the camera's own position; "
                "cameras re-oriented with change_facing; integer scenes translated by integer vectors (exact) must give the "
                "same answer; bit-exact comparison with the model plus an independent atan2 oracle with a 1e-4 rad guard band")
    excs = {}

    def impl(c):
        r, e = G.run_camera_impl(c)
        excs[id(c)] = e
        return r

    def mon(c, lines):
        return G.mon_C19(c, lines, excs.get(id(c)))
    cases = [item["case"] for item in corpus("C19")]
    cases += [G.gen_camera_case(R) for _ in range(S["sims"] * 3)]
    run_plugin_class(chk, "camera-scenes", cases, impl, G.camera_to_text, mon)
    crowd = []
    for _ in range(max(12, S["sims"] // 20)):
        c = G.gen_camera_case(R)
        c["nodes"] = list(c["nodes"]) + [(R.uniform(-25, 25), R.uniform(-25, 25), R.uniform(-5, 25)) for _ in range(R.randint(30, 80))]
        crowd.append(c)
    run_plugin_class(chk, "camera-crowded-scenes", crowd, impl, G.camera_to_text, mon)
    ext = []
    for _ in range(max(30, S["sims"] // 8)):
        c = G.gen_camera_case(R)
        c["reach"] = R.choice([1e300, 1.7e308, 1e200, 1e-300, 5e-324, float("inf")])
        ext.append(c)
    run_plugin_class(chk, "camera-extreme-reach", ext, impl, G.camera_to_text, mon)
    run_plugin_class(chk, "camera-two-pictures", [G.gen_two_pictures_case(R) for _ in range(S["sims"] * 2)], impl, G.camera_to_text, mon)
    # translation invariance on exactly representable scenes
    n_pairs = 0
    for _ in range(S["sims"] // 2):
        c = G.gen_camera_case(R, integer=True)
        t = (float(R.randint(-40, 40)), float(R.randint(-40, 40)), float(R.randint(-10, 40)))
        c2 = dict(c, nodes=[(p[0] + t[0], p[1] + t[1], p[2] + t[2]) for p in c["nodes"]])
        a, _ = G.run_camera_impl(c)
        b, _ = G.run_camera_impl(c2)
        ia = [x.split()[0] for x in a[0].split("|")[1:]]
        ib = [x.split()[0] for x in b[0].split("|")[1:]]
        chk.record("camera-translated", {"scene": c, "shift": t}, True)
        n_pairs += 1
        if ia != ib:
            chk.violation("camera-translated", {"scene": c, "shift": t},
                          ["C19: nodes reported %s, after translating the whole scene by %s: %s" % (ia, t, ib)])
    chk.extra["translated_pairs"] = n_pairs


def check_C20(chk, R, S):
    import geomcam as G
    chk.rule = ("random references with |lat| <= 60 deg and targets within ~1.5 km in all four quadrants (incl. due N/E/S/W "
                "and the reference itself): bit-exact conversion vs the model, quadrant signs, altitude, and every pairwise "
                "distance of converted points against great-circle + altitude distance (0.5 %); simulations in which a node "
                "is sent to geographic coordinates must move exactly as when sent to the converted point")
    cases = [item["case"] for item in corpus("C20")]
    cases += [G.gen_geo_case(R) for _ in range(S["sims"] * 4)]
    run_plugin_class(chk, "geo-points", cases, G.run_geo_impl, G.geo_to_text, G.mon_C20, guard=False)
    run_plugin_class(chk, "geo-points-at-the-seams", [G.gen_geo_seam_case(R) for _ in range(S["sims"])], G.run_geo_impl, G.geo_to_text,
                     G.mon_C20, guard=False)
    run_plugin_class(chk, "geo-points-high-latitude-wide", [G.gen_geo_highlat_case(R) for _ in range(S["sims"])], G.run_geo_impl, G.geo_to_text,
                     G.mon_C20, guard=False)
    # goto-geo == goto(converted), through the mobility handler
    from gradysim.protocol.position import geo_to_cartesian
    scs_geo, scs_xyz = [], []
    for it in range(max(20, S["sims"] // 4)):
        g = G.gen_geo_case(R)
        ref, tgt = g["ref"], g["pts"][0]
        if it % 5 == 4:
            # a site on the 180th meridian: targets east of it are written with up-counted longitudes (180.01), those west of
            # -180 with down-counted ones -- the only spellings that keep the east-west order around the reference
            lon0 = R.choice([180.0, 179.995, -180.0, -179.996])
            ref = (R.uniform(-40, 40), lon0, R.choice([0.0, 20.0]))
            tgt = (ref[0] + R.uniform(-0.01, 0.01), lon0 + R.choice([-1, 1]) * R.uniform(0.002, 0.012), ref[2] + R.choice([0.0, 30.0]))
        try:
            conv = tuple(geo_to_cartesian(tuple(ref), tuple(tgt)))
        except Exception:  # noqa: BLE001
            conv = (0.0, 0.0, 0.0)
        base = {"handlers": ["M", "T"], "nodes": [{"pos": (0.0, 0.0, 0.0), "ty": 0}, {"pos": (5.0, 5.0, 0.0), "ty": 0}], "med": (60.0, 0.0, 0.0),
                "mob": (0.5, R.choice([10.0, 50.0, 200.0]), tuple(ref)), "asserts": [], "seed": 1, "dur": 6.0, "maxit": None,
                "drv": ("run",)}
        # the same latitude/longitude again at other altitudes, later and by another node
        tgt2 = (tgt[0], tgt[1], tgt[2] + R.choice([25.0, -10.0, 3.5]))
        tgt3 = (tgt[0], tgt[1], tgt[2] + R.choice([40.0, 7.0]))
        conv2 = tuple(geo_to_cartesian(tuple(ref), tgt2))
        conv3 = tuple(geo_to_cartesian(tuple(ref), tgt3))
        k = R.randrange(2, 8)
        a = dict(base, script=[[{"trig": ("init",), "nth": None, "acts": [("gotogeo",) + tuple(tgt)]},
                                {"trig": ("telem",), "nth": k, "acts": [("gotogeo",) + tgt2]}],
                               [{"trig": ("init",), "nth": None, "acts": [("gotogeo",) + tgt3]}]])
        b = dict(base, script=[[{"trig": ("init",), "nth": None, "acts": [("goto",) + conv]},
                                {"trig": ("telem",), "nth": k, "acts": [("goto",) + conv2]}],
                               [{"trig": ("init",), "nth": None, "acts": [("goto",) + conv3]}]])
        scs_geo.append(a)
        scs_xyz.append(b)
        # the same geographic waypoints once more in the same process, under another reference
        ref2 = (ref[0] + R.choice([0.004, -0.003]), ref[1] + R.choice([0.005, -0.002]), ref[2] + R.choice([0.0, 30.0]))
        c2 = [tuple(geo_to_cartesian(ref2, t)) for t in (tuple(tgt), tgt2, tgt3)]
        scs_geo.append(dict(a, mob=(base["mob"][0], base["mob"][1], ref2)))
        scs_xyz.append(dict(base, mob=(base["mob"][0], base["mob"][1], ref2),
                            script=[[{"trig": ("init",), "nth": None, "acts": [("goto",) + c2[0]]},
                                     {"trig": ("telem",), "nth": k, "acts": [("goto",) + c2[1]]}],
                                    [{"trig": ("init",), "nth": None, "acts": [("goto",) + c2[2]]}]]))
    ra, rb = corr.corr_sims(scs_geo), corr.corr_sims(scs_xyz)
    for x, y in zip(ra, rb):
        chk.record("goto-geo-vs-goto", _brief(x["sc"]), True)
        chk.validated += 2
        for r in (x, y):
            if r["diff"] is not None:
                chk.corr_break("goto-geo-vs-goto", r["sc"], r["diff"], extra={"impl": r["impl"][:40], "model": r["model"][:40]})
        ta = [l for l in x["impl"] if " telem " in l]
        tb = [l for l in y["impl"] if " telem " in l]
        if ta != tb:
            d = corr.first_diff(ta, tb)
            chk.violation("goto-geo-vs-goto", {"geo": x["sc"], "xyz": y["sc"]},
                          ["C20: a goto in geographic coordinates and a goto to the converted point move the node differently: %r vs %r" % (d[1], d[2])])


def gen_interop_case(R, with_cancel=False):
    nid = R.randrange(4)
    acts_pool = ["settimer", "send", "bcast", "goto", "gotogeo", "speed", "range", "flag"] + (["cancel"] if with_cancel else [])
    rules = []
    for _ in range(R.randint(1, 5)):
        trig = R.choice([("init",), ("timer", None), ("timer", R.randrange(3)), ("packet", None), ("telem",), ("finish",)])
        acts = [gen_sim.gen_action(R, {"acts": acts_pool, "bad_send": 0.3}, 4, nid) for _ in range(R.randint(1, 5))]
        rules.append({"trig": trig, "nth": R.choice([None, None, 0, 1]), "acts": acts})
    cbs = [{"t": 0.0, "kind": "init", "arg": None}]
    t = R.choice([0.0, 0.0, 0.0, 1e7, 9.3e6, 1e12])
    if R.random() < 0.3:
        rules.append({"trig": ("timer", None), "nth": None, "acts": [("settimer", 1, "abs", R.choice([1e7, 9223372.5, 1e13, 2.0 ** 70]))]})
    for _ in range(R.randint(2, 12)):
        t += R.choice([0.0, 0.1, 0.25, 0.7000000000000001 - 0.7, 1.0 / 3, R.uniform(0, 1), 1e6])
        k = R.choice(["timer", "packet", "telem", "telem"])
        arg = R.randrange(3) if k == "timer" else (R.randrange(20) if k == "packet" else gen_sim.gen_pos(R, 10))
        cbs.append({"t": t, "kind": k, "arg": arg})
    cbs.append({"t": t, "kind": "finish", "arg": None})
    for cb in cbs:
        if R.random() < 0.3:
            cb["tracks"] = [(R.randrange(5), R.randrange(100) if R.random() < 0.6 else 1000 + R.randrange(12)) for _ in range(R.randint(1, 3))]
    case = {"nid": nid, "ty": R.choice([0, 1, 2]), "rules": rules, "cbs": cbs, "id_first": R.random() < 0.5}
    if R.random() < 0.4:
        case["reuse"] = True             # the protocol keeps one command object per kind and re-fills it for every request
    if R.random() < 0.5:
        case["real_mobility"] = True     # on the python side the requests reach the real mobility handler (which records them first)
        if case.get("reuse"):
            # ... several geographic and cartesian gotos from the one re-filled command object
            rules.append({"trig": R.choice([("timer", None), ("telem",), ("packet", None)]), "nth": None,
                          "acts": [gen_sim.gen_action(R, {"acts": ["gotogeo", "gotogeo", "goto"]}, 4, nid) for _ in range(R.randint(2, 3))]})
    if R.random() < 0.35:
        # a plugin switched on in the middle of the session (from inside a callback, after callbacks of the kind it
        # hooks were already delivered): from then on its handler issues one more request per callback of that kind
        for _ in range(R.choice([1, 1, 2])):
            j = R.randrange(len(cbs) - 1)
            if "install" not in cbs[j]:
                cbs[j]["install"] = (R.choice(["timer", "packet", "telem", "telem"]),
                                     R.choice([("send", 900 + j, (nid + 1) % 4), ("bcast", 900 + j), ("speed", 2.5)]))
    return case


def check_C14(chk, R, S):
    import interop_h as I
    chk.rule = ("the same scripted protocol (requests incl. tracked variables, malformed destinations, controller "
                "extension) fed identical callback sequences with identical times and ids under InteropEncapsulator and "
                "under PythonEncapsulator with recording handlers; several encapsulators alive in one process; the "
                "extension x provider matrix exhaustively; one probe of cancel_timer (known finding)")
    cases = [item["case"] for item in corpus("C14")] + [gen_interop_case(R) for _ in range(S["sims"] * 3)]
    for c in cases:
        # (json turns the tuples of a stored case into lists)
        for r in c["rules"]:
            r["trig"] = tuple(r["trig"])
            r["acts"] = [tuple(a) for a in r["acts"]]
    run_plugin_class(chk, "interop-sessions", cases, I.run_interop_impl, I.interop_to_text, I.mon_C14, guard=False)
    # protocols that host one of the library's follow-mobility plugins (not modelled): the two wrappers compared with each other
    for _ in range(max(40, S["sims"] // 6)):
        c = gen_interop_case(R)
        c["host_plugin"] = R.choice(["leader", "follower"])
        c.pop("real_mobility", None)
        for cb in c["cbs"]:
            cb.pop("install", None)
        # the plugin's own timers are delivered too (before and after the first telemetry)
        tag = "FollowMobilityPlugin__leader_broadcast_timer" if c["host_plugin"] == "leader" else "FollowMobilityPlugin__follower_timer"
        for at in sorted({1, R.randint(1, len(c["cbs"]) - 1), R.randint(1, len(c["cbs"]) - 1)}, reverse=True):
            c["cbs"].insert(at, {"t": c["cbs"][at - 1]["t"], "kind": "timer", "arg": tag})
        lines = I.run_interop_impl(c)
        chk.record("interop-plugin-hosts", {"host": c["host_plugin"], "callbacks": len(c["cbs"])}, True)
        chk.validated += 1
        vs = [x for x in I.mon_C14(c, lines) if "NotImplementedError" not in x]
        if vs:
            chk.violation("interop-plugin-hosts", c, vs[:3])
    # protocols that keep state in their tracked variables and read it back (the read-back is not modelled: the two wrappers
    # are compared with each other)
    for _ in range(max(40, S["sims"] // 6)):
        c = gen_interop_case(R)
        c["readback"] = True
        for cb in c["cbs"]:
            cb.pop("install", None)
            cb.pop("tracks", None)
        lines = I.run_interop_impl(c)
        chk.record("interop-tracked-readback", {"callbacks": len(c["cbs"])}, True)
        chk.validated += 1
        vs = [x for x in I.mon_C14(c, lines) if "NotImplementedError" not in x]
        if vs:
            chk.violation("interop-tracked-readback", c, vs[:3])
    # the known limitation is probed on every run
    probe = {"nid": 0, "ty": 0, "rules": [{"trig": ("init",), "nth": None, "acts": [("settimer", 0, "abs", 1.0), ("cancel", 0)]}],
             "cbs": [{"t": 0.0, "kind": "init", "arg": None}]}
    lines = I.run_interop_impl(probe)
    chk.record("interop-cancel-probe", probe, True)
    for x in I.mon_C14(probe, lines):
        chk.violation("interop-cancel-probe", {"probe": "cancel_timer", "site": "InteropProvider.cancel_timer",
                                               "exception": "NotImplementedError"}, [x])
    # extensions
    for pname, ext, j, r in I.extension_matrix():
        chk.record("extension-matrix", {"provider": pname, "extension": ext, "method": j}, True)
        want = "ValueError" if j == "negative" else "ok"
        if r != want:
            chk.violation("extension-matrix", {"provider": pname, "extension": ext, "method": j},
                          ["C14: %s extension, method %s under provider %s: %s (expected %s)" % (ext, j, pname, r, want)])
    chk.exhaustive = True


CHECKS = {"C01": check_C01, "C02": check_C02, "C03": check_C03, "C04": check_C04, "C05": check_C05, "C06": check_C06,
          "C07": check_C07, "C08": check_C08, "C09": check_C09, "C10": check_C10, "C11": check_C11, "C12": check_C12,
          "C13": check_C13, "C14": check_C14, "C15": check_C15, "C16": check_C16, "C17": check_C17, "C18": check_C18,
          "C19": check_C19, "C20": check_C20}


def main():
    ap = argparse.ArgumentParser()
    ap.add_argument("prop")
    ap.add_argument("--tier", default=os.environ.get("VERIF_TIER", "quick"))
    ap.add_argument("--replay")
    args = ap.parse_args()
    seed = int(os.environ.get("VERIF_SEED", "20260930"))
    tier = "thorough" if args.tier == "thorough" else "quick"
    chk = Check(args.prop, tier, seed)
    ok, log = engine.ensure_built(clean=False)
    if not ok:
        chk.proof = {"file": "coq (build)", "theorems": [], "axioms": {}, "ok": False, "log": log}
        sys.exit(chk.finish())
    chk.proof = engine.check_props(args.prop, thorough=(tier == "thorough"))
    bad = engine.forbidden_tokens()
    if bad:
        chk.proof["ok"] = False
        chk.proof["log"] += "\nforbidden tokens: %s" % bad
    parts = TRANSLATED.get(args.prop)
    if parts:
        import translate
        t_ok, t_msgs = translate.translate_and_check(parts)
        chk.extra["source_translation"] = t_msgs
        chk.notes.append("floating-point kernels re-translated from /repo's source on this run and proved equal to the model: %s" % ", ".join(parts))
        if not t_ok:
            chk.corr_break("source-translation", {"parts": parts}, ("translation", [m for m in t_msgs if "proved equal" not in m], ""))
    if args.replay:
        sys.exit(replay(chk, args.replay))
    R = random.Random(seed * 1000003 + int(args.prop[1:]))
    try:
        CHECKS[args.prop](chk, R, sizes(tier))
    except Exception:      # noqa: BLE001  a crash of the machinery is reported as such, never as a pass
        import traceback
        traceback.print_exc()
        chk.notes.append("the check's own machinery raised an exception on this run")
        rc = chk.finish()
        print("HARNESS-ERROR property=%s (the check machinery crashed; see traceback above)" % args.prop)
        sys.exit(rc if rc != 0 else 3)
    sys.exit(chk.finish())


def replay(chk, path):
    item = json.load(open(path))
    case = item["case"]
    print("replaying %s (%s)" % (path, item.get("kind")))
    if isinstance(case, dict) and "ops" in case:
        run_el_class(chk, "replay", [[tuple(o) for o in case["ops"]]])
    elif isinstance(case, dict) and "script" in case:
        json.dump({"kind": "sim", "sc": case}, open(os.path.join(tempfile.gettempdir(), "replay_case.json"), "w"))
        chk2 = chk
        d = {"kind": "sim", "sc": case}
        sc = d["sc"]
        sc["nodes"] = [{"pos": tuple(n["pos"]), "ty": n["ty"]} for n in sc["nodes"]]
        sc["drv"] = tuple(sc["drv"]); sc["med"] = tuple(sc["med"])
        sc["mob"] = (sc["mob"][0], sc["mob"][1], tuple(sc["mob"][2]))
        sc["asserts"] = [tuple(a) for a in sc["asserts"]]
        for rules in sc["script"]:
            for r in rules:
                r["trig"] = tuple(r["trig"]); r["acts"] = [tuple(a) for a in r["acts"]]
        run_sim_class(chk2, "replay", [sc], ALL_SIM_MONS.get(chk.prop, []))
    else:
        print("replay of this kind of case is done by re-running the check: %s" % item.get("theorem_or_correspondence"))
    return chk.finish()


# properties whose arithmetic kernels are additionally tied to the source by translation
TRANSLATED = {"C09": ["communication", "position"], "C11": ["mobility"], "C16": ["position"], "C17": ["position"],
              "C19": ["camera"], "C20": ["position"]}

ALL_SIM_MONS = {"C01": [M.mon_C01], "C02": [M.mon_C02], "C03": [M.mon_C03], "C07": [M.mon_C07], "C08": [M.mon_C08],
                "C09": [M.mon_C09], "C10": [M.mon_C10], "C11": [M.mon_C11], "C12": [M.mon_C12], "C18": [M.mon_C18], "C04": [M.mon_C04_bounds], "C05": [M.mon_C05]}

if __name__ == "__main__":
    main()
