#!/bin/sh
# usage: trycand.sh <candidate dir> [tier]   -- applies the change to /repo, runs the property's check, restores /repo
d=$1; tier=${2:-quick}; n=$(basename $d); p=${n%%_*}
git -C /repo apply $d/patch.diff || { echo "$n: patch fails"; exit 2; }
out=$(cd /verif && timeout 2400 ./check $p --tier $tier 2>&1 | grep -E "^VIOLATION|^KNOWN|HARNESS|^  |$tier:" | head -4 | cut -c1-260)
git -C /repo checkout -- . ; git -C /repo clean -fdq
echo "== $n [$tier]"; echo "$out"
