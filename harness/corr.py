"""Correspondence runs: implementation vs. extracted model on batches of scenarios."""
import traceback

from common import run_driver, first_diff, digest
from scripted import run_sim_impl, sim_to_text, model_stream, run_el_impl, el_to_text


def corr_sims(scs, variant=None, show_exec=False):
    """Returns a list of dicts {sc, impl, model, diff, draws}; diff is None when traces agree.
    With show_exec the model trace additionally contains 'exec' lines (ignored by the diff)."""
    impl, texts = [], []
    for i, sc in enumerate(scs):
        try:
            tr, draws = run_sim_impl(sc, variant)
        except Exception as e:  # an exception escaping the implementation is itself an observation
            tr, draws = ["impl-exception %s %s" % (type(e).__name__, str(e)[:120])], 0
            tr += ["tb " + l.strip()[:160] for l in traceback.format_exc().splitlines()[-6:]]
        impl.append((list(tr), draws))
        texts.append(sim_to_text("s%d" % i, sc, model_stream(sc, draws), show_exec=show_exec))
    out = run_driver("".join(texts))
    res = []
    for i, sc in enumerate(scs):
        m = out.get("s%d" % i, ["<no model output>"])
        mcmp = [l for l in m if not l.startswith(("exec ", "sched "))] if show_exec else m
        res.append({"sc": sc, "impl": impl[i][0], "model": m, "draws": impl[i][1],
                    "diff": first_diff(impl[i][0], mcmp)})
    return res


def corr_els(histories):
    texts, impl = [], []
    for i, ops in enumerate(histories):
        impl.append(run_el_impl(ops))
        texts.append(el_to_text("e%d" % i, ops))
    out = run_driver("".join(texts))
    res = []
    for i, ops in enumerate(histories):
        m = out.get("e%d" % i, ["<no model output>"])
        res.append({"ops": ops, "impl": impl[i], "model": m, "diff": first_diff(impl[i], m)})
    return res
