"""Implementation side for C14: the same scripted protocol under InteropEncapsulator and under
PythonEncapsulator (with recording handlers), fed the same callbacks at the same times."""
import warnings

from common import fhex
import scripted as S

from gradysim.encapsulator.interop import InteropEncapsulator, ConsequenceType
from gradysim.encapsulator.python import PythonEncapsulator
from gradysim.protocol.messages.communication import CommunicationCommandType
from gradysim.protocol.messages.mobility import MobilityCommandType
from gradysim.protocol.messages.telemetry import Telemetry
from gradysim.simulator.node import Node


def _comm(c):
    return "comm %s %s %s" % ("bcast" if c.command_type == CommunicationCommandType.BROADCAST else "send", c.message,
                              S.canon_dst(c.destination))


def _mob(c):
    if c.command_type == MobilityCommandType.GOTO_COORDS:
        return "mob goto %s %s %s" % (fhex(c.param_1), fhex(c.param_2), fhex(c.param_3))
    if c.command_type == MobilityCommandType.GOTO_GEO_COORDS:
        return "mob gotogeo %s %s %s" % (fhex(c.param_1), fhex(c.param_2), fhex(c.param_3))
    if c.command_type == MobilityCommandType.SET_SPEED:
        return "mob speed %s" % fhex(c.param_1)
    return "mob other"


# tracked values that are not plain numbers: written for the model as 1000 + their index in this table; what comes back in
# the consequence must be THAT value, type for type (a tuple stays a tuple, an int key stays an int)
TRACK_VALUES = [(3.0, 4.0, 0.0), {0: 1, 2: 3}, [1, 2, 3], "text", (1, (2, 3)), {"a": (1, 2)}, 2.5, None, True, (), [(0, 0)], {1: "one", "1": "uno"}]


def _same(a, b):
    if type(a) is not type(b):
        return False
    if isinstance(a, (tuple, list)):
        return len(a) == len(b) and all(_same(x, y) for x, y in zip(a, b))
    if isinstance(a, dict):
        return len(a) == len(b) and all(any(_same(k, k2) and _same(v, b[k2]) for k2 in b) for k, v in a.items())
    return a == b


def _track_value(v):
    return TRACK_VALUES[v - 1000] if isinstance(v, int) and v >= 1000 else v


def _track_code(x):
    if isinstance(x, int) and not isinstance(x, bool):
        return str(x)
    for i, v in enumerate(TRACK_VALUES):
        if _same(x, v):
            return str(1000 + i)
    return "altered:" + repr(x).replace(" ", "")


def _conseq(c):
    ty, payload = c
    if ty == ConsequenceType.COMMUNICATION:
        return _comm(payload)
    if ty == ConsequenceType.MOBILITY:
        return _mob(payload)
    if ty == ConsequenceType.TIMER:
        return "timer %s %s" % (payload[0], fhex(payload[1]))
    if ty == ConsequenceType.TRACK_VARIABLE:
        return "track %s %s" % (payload[0], _track_code(payload[1]))
    return "unknown"


def _deliver(enc, cb):
    kind = cb["kind"]
    if kind == "init":
        return enc.initialize()
    if kind == "finish":
        return enc.finish()
    if kind == "timer":
        return enc.handle_timer(str(cb["arg"]))
    if kind == "packet":
        return enc.handle_packet(str(cb["arg"]))
    if kind == "telem":
        return enc.handle_telemetry(Telemetry(tuple(cb["arg"])))
    raise ValueError(kind)


def _setup(case):
    S.CTX.scenario = {"script": [[] for _ in range(case["nid"])] + [case["rules"]], "reuse_commands": bool(case.get("reuse")),
                      "host_plugin": case.get("host_plugin"), "readback": bool(case.get("readback"))}
    S.CTX.trace = []


_REG = {"timer": "register_handle_timer", "packet": "register_handle_packet", "telem": "register_handle_telemetry"}


def _install(proto, ins):
    """a plugin switched on in the middle of a session: the protocol asks for its dispatcher from inside a callback
    and registers a handler for one callback kind; from then on that handler issues one more request, before the
    protocol's own method runs"""
    from gradysim.protocol.plugin.dispatcher import create_dispatcher, DispatchReturn
    kind, act = ins

    def handler(instance, *args):
        try:
            instance._do(act)
            res = "ok"
        except ValueError:
            res = "errvalue"
        S.CTX.trace.append("act %d %s %s" % (instance.provider.get_id(), S._act_str(act), res))
        return DispatchReturn.CONTINUE
    getattr(create_dispatcher(proto), _REG[kind])(handler)


def model_rules(case):
    """the same session for the model: a handler installed during callback j is one more rule (first in the list: handlers
    run before the protocol's method, newest first) for every later occurrence of that callback kind"""
    extra = []
    for j, cb in enumerate(case["cbs"]):
        ins = cb.get("install")
        if ins:
            kind, act = ins
            m0 = sum(1 for c in case["cbs"][:j + 1] if c["kind"] == kind)
            total = sum(1 for c in case["cbs"] if c["kind"] == kind)
            extra = [{"trig": (kind, None), "nth": m, "acts": [act]} for m in range(m0, total)] + extra
    return extra + list(case["rules"])


def run_interop_impl(case):
    """returns one line per callback: 'ret | conseq ... ; outcome ...'"""
    _setup(case)
    out = []
    kept = []          # (line index, the returned list object, what it held when it was returned)
    import logging
    logging.disable(logging.CRITICAL)
    with warnings.catch_warnings():
        warnings.simplefilter("ignore")
        enc = InteropEncapsulator()
        if case.get("id_first"):
            # both orders are legal: the identifier may be configured before the protocol is wrapped
            enc.set_id(case["nid"])
            enc.encapsulate(S.PROTO[case.get("ty", 0)])
        else:
            enc.encapsulate(S.PROTO[case.get("ty", 0)])
            enc.set_id(case["nid"])
        try:
            for cb in case["cbs"]:
                enc.set_timestamp(cb["t"])
                mark = len(S.CTX.trace)
                tracks = cb.get("tracks", [])

                def hook(proto, tracks=tracks, ins=cb.get("install")):
                    for k, v in tracks:
                        proto.provider.tracked_variables[str(k)] = _track_value(v)
                    if ins:
                        _install(proto, ins)
                S.CTX.after_fire = hook
                try:
                    cons = _deliver(enc, cb)
                except NotImplementedError:
                    out.append("ret-exc NotImplementedError")
                    continue
                except Exception as e:  # noqa: BLE001
                    out.append("ret-exc %s" % type(e).__name__)
                    continue
                outs = [l.split()[-1] for l in S.CTX.trace[mark:] if l.startswith("act ")] + ["ok"] * len(tracks)
                if cons is not None:
                    kept.append((len(out), cons, [_conseq(c) for c in cons]))
                out.append("ret" + "".join(" | " + _conseq(c) for c in (cons or [])) + " ;" + "".join(" " + o for o in outs))
            # the caller keeps what every callback returned (a trace recorder does): a returned list is that callback's
            # requests for good, whatever the protocol does later
            # (not when the protocol re-fills its own command objects: the lists hold those very objects)
            for idx, cons, then in ([] if case.get("reuse") else kept):
                now = [_conseq(c) for c in cons]
                if now != then:
                    out[idx] += " ; LATER " + " | ".join(now)
        finally:
            S.CTX.after_fire = None
            logging.disable(logging.NOTSET)
    return out


class _Rec:
    def __init__(self, log):
        self.log = log
        self.now = 0.0
        self.transmission_ranges = {}

    # timer handler interface used by PythonProvider
    def set_timer(self, timer, timestamp, node):
        self.log.append("timer %s %s" % (timer, fhex(timestamp)))

    def cancel_timer(self, timer, node):
        self.log.append("cancel %s" % timer)

    def get_current_time(self):
        return self.now


class _RecComm(_Rec):
    def handle_command(self, command, node):
        self.log.append(_comm(command))


class _RecMob(_Rec):
    def handle_command(self, command, node):
        self.log.append(_mob(command))


def _real_mobility(log):
    """the python simulator's real mobility handler, recording what it is handed before acting on it"""
    from gradysim.simulator.event import EventLoop
    from gradysim.simulator.handler.mobility import MobilityHandler, MobilityConfiguration

    class _RecMobReal(MobilityHandler):
        now = 0.0
        transmission_ranges = {}

        def handle_command(self, command, node):
            log.append(_mob(command))
            super().handle_command(command, node)
    h = _RecMobReal(MobilityConfiguration(update_rate=1.0))
    h.inject(EventLoop())
    return h


def run_python_wrapper(case):
    """the requests the python wrapper forwards to its handlers, per callback"""
    _setup(case)
    log = []
    timer, comm, mob = _Rec(log), _RecComm(log), _RecMob(log)
    node = Node()
    node.id = case["nid"]
    node.position = (0.0, 0.0, 0.0) if not case.get("host_plugin") else (10.0, 20.0, 5.0)
    if case.get("real_mobility"):
        mob = _real_mobility(log)
        mob.register_node(node)
    out = []
    import logging
    logging.disable(logging.CRITICAL)
    with warnings.catch_warnings():
        warnings.simplefilter("ignore")
        enc = PythonEncapsulator(node, timer=timer, communication=comm, mobility=mob)
        enc.encapsulate(S.PROTO[case.get("ty", 0)])
        node.protocol_encapsulator = enc
        S.CTX.after_fire = None
        for cb in case["cbs"]:
            timer.now = cb["t"]
            del log[:]
            S.CTX.after_fire = (lambda proto, ins=cb.get("install"): _install(proto, ins)) if cb.get("install") else None
            try:
                _deliver(enc, cb)
                out.append(list(log))
            except Exception as e:  # noqa: BLE001
                out.append(["exc %s" % type(e).__name__])
    S.CTX.after_fire = None
    logging.disable(logging.NOTSET)
    return out


def interop_to_text(sid, case):
    rules = model_rules(case)
    p = ["BEGIN %s interop %d %d" % (sid, case["nid"], len(rules))]
    for r in rules:
        t = r["trig"]
        p.append("%s %s" % (t[0], "any" if t[1] is None else str(t[1])) if t[0] in ("timer", "packet") else t[0])
        p.append("any" if r["nth"] is None else str(r["nth"]))
        p.append("%d" % len(r["acts"]))
        for a in r["acts"]:
            p.append(S._sact_text(a))
    p.append("%d" % len(case["cbs"]))
    for cb in case["cbs"]:
        p.append(fhex(cb["t"]))
        if cb["kind"] in ("timer", "packet"):
            p.append("%s %d" % (cb["kind"], cb["arg"]))
        elif cb["kind"] == "telem":
            p.append("telem %s %s %s" % tuple(fhex(x) for x in cb["arg"]))
        else:
            p.append(cb["kind"])
        tr = cb.get("tracks", [])
        p.append("%d %s" % (len(tr), " ".join("%d %d" % (k, v) for k, v in tr)))
    p.append("END")
    return " ".join(p) + "\n"


def mon_C14(case, lines):
    v = []
    py = run_python_wrapper(case)
    for i, (cb, line) in enumerate(zip(case["cbs"], lines)):
        if line.startswith("ret-exc"):
            v.append("C14: callback %d (%s) raised %s under the interop wrapper site=InteropProvider.%s"
                     % (i, cb["kind"], line.split()[1], "cancel_timer" if "NotImplementedError" in line else "?"))
            continue
        if " ; LATER " in line:
            line, _, later = line.partition(" ; LATER ")
            v.append("C14: the list returned by callback %d (%s) changed after it was returned: it now holds [%s]" % (i, cb["kind"], later))
        body, _, outs = line.partition(";")
        cons = [x.strip() for x in body.split("|")][1:]
        for x in cons:
            if x.startswith("track") and "altered:" in x and not case.get("readback"):   # (read-back sessions track values of their own)
                v.append("C14: callback %d (%s): a tracked value came back altered in the returned request: %s" % (i, cb["kind"], x))
        if not case.get("readback") and not case.get("host_plugin"):
            # every assignment to a tracked variable made during the callback is one returned consequence, in the order made
            wrote = [str(k) for k, _ in cb.get("tracks", [])]
            came = [x.split()[1] for x in cons if x.startswith("track") and len(x.split()) > 1]
            if wrote != came:
                v.append("C14: callback %d (%s at %r): the protocol assigned tracked variables %s in this order, the interop wrapper returned "
                         "assignments to %s" % (i, cb["kind"], cb["t"], wrote, came))
        fwd = [x for x in cons if not x.startswith("track")]
        want = [x for x in py[i] if not x.startswith("cancel")]
        if fwd != want:
            v.append("C14: callback %d (%s at %r): interop returned %s, the python wrapper forwarded %s" % (i, cb["kind"], cb["t"], fwd, want))
        if any(o not in ("ok", "errvalue") for o in outs.split()):
            v.append("C14: callback %d: request outcomes under interop: %s" % (i, outs))
    return v


def extension_matrix():
    """every extension x provider kind x method: must return normally; no-op outside python.  Run twice, with one
    protocol class used under every provider each time: interop first, and python first."""
    return _extension_matrix(False) + [("rev:" + a, b, c, d) for a, b, c, d in _extension_matrix(True)]


def _extension_matrix(python_first):
    import logging
    from gradysim.simulator.extension.camera import CameraHardware, CameraConfiguration
    from gradysim.simulator.extension.communication_controller import CommunicationController
    from gradysim.simulator.extension.visualization_controller import VisualizationController
    from gradysim.simulator.handler.communication import CommunicationHandler
    from gradysim.simulator.handler.mobility import MobilityHandler
    from gradysim.simulator.handler.timer import TimerHandler
    from gradysim.simulator.simulation import SimulationBuilder, SimulationConfiguration
    from gradysim.protocol.interface import IProtocol
    res = []

    class P(IProtocol):
        def initialize(self):
            pass

        def handle_timer(self, t):
            pass

        def handle_packet(self, m):
            pass

        def handle_telemetry(self, t):
            pass

        def finish(self):
            pass
    calls = {
        "comm": lambda p: [lambda: CommunicationController(p).set_transmission_range(5.0),
                           lambda: CommunicationController(p).set_transmission_range(0.0)],
        "camera": lambda p: [lambda: CameraHardware(p, CameraConfiguration(10.0, 30.0, 0.0, 0.0)).take_picture(),
                             lambda: CameraHardware(p, CameraConfiguration(10.0, 30.0, 0.0, 0.0)).change_facing(10.0, 20.0)],
        "visual": lambda p: [lambda: VisualizationController(p).paint_node(0, (1.0, 0.0, 0.0)),
                             lambda: VisualizationController(p).paint_environment((1.0, 0.0, 0.0)),
                             lambda: VisualizationController(p).resize_nodes(2.0),
                             lambda: VisualizationController(p).show_node_id(0, True)],
    }
    with S._Quiet(), warnings.catch_warnings():
        warnings.simplefilter("ignore")
        logging.disable(logging.CRITICAL)
        try:
            provs = {}
            e = InteropEncapsulator()
            e.encapsulate(P)
            provs["interop"] = e.protocol
            for name, hs in (("python-no-handlers", []), ("python-timer-only", [TimerHandler()]),
                             ("python-all", [TimerHandler(), CommunicationHandler(), MobilityHandler()])):
                b = SimulationBuilder(SimulationConfiguration(execution_logging=False))
                for h in hs:
                    b.add_handler(h)
                b.add_node(P, (0.0, 0.0, 0.0))
                b.add_node(P, (1.0, 0.0, 0.0))
                sim = b.build()
                provs[name] = sim.get_node(0).protocol_encapsulator.protocol
            order = list(provs.items())
            if python_first:
                order = order[1:][::-1] + order[:1]
            for pname, proto in order:
                for ext, mk in calls.items():
                    for j, f in enumerate(mk(proto)):
                        try:
                            f()
                            res.append((pname, ext, j, "ok"))
                        except Exception as ex:  # noqa: BLE001
                            res.append((pname, ext, j, type(ex).__name__))
                try:
                    CommunicationController(proto).set_transmission_range(-1.0)
                    res.append((pname, "comm", "negative", "ok"))
                except ValueError:
                    res.append((pname, "comm", "negative", "ValueError"))
                except Exception as ex:  # noqa: BLE001
                    res.append((pname, "comm", "negative", type(ex).__name__))
        finally:
            logging.disable(logging.NOTSET)
    return res
