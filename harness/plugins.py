"""Implementation side + serialisation for the protocol plugins: dispatcher (C15), mission
mobility (C16), random mobility (C17).  The plugins are driven through their public API with a
recording provider; telemetry is delivered by calling the protocol's (wrapped) method."""
import os
import random

from common import fhex

from gradysim.protocol.interface import IProtocol
from gradysim.protocol.messages.mobility import MobilityCommandType
from gradysim.protocol.messages.telemetry import Telemetry
from gradysim.protocol.plugin.dispatcher import create_dispatcher, DispatchReturn
from gradysim.protocol.plugin.mission_mobility import (MissionMobilityPlugin, MissionMobilityConfiguration,
                                                       LoopMission, MissionMobilityPluginException)
from gradysim.protocol.plugin.random_mobility import RandomMobilityPlugin, RandomMobilityConfig


class Provider:
    def __init__(self):
        self.cmds = []

    def send_mobility_command(self, c):
        self.cmds.append(c)

    def send_communication_command(self, c):
        pass

    def schedule_timer(self, *a):
        pass

    def cancel_timer(self, *a):
        pass

    def current_time(self):
        return 0.0

    def get_id(self):
        return 0


class Plain(IProtocol):
    def initialize(self):
        pass

    def handle_timer(self, timer):
        pass

    def handle_packet(self, message):
        pass

    _inner = None

    def handle_telemetry(self, telemetry):
        if self._inner is not None:
            self._inner(telemetry)

    def finish(self):
        pass


def _cmds(cmds):
    out = []
    for c in cmds:
        if c.command_type == MobilityCommandType.GOTO_COORDS:
            out.append("goto %s %s %s" % (fhex(c.param_1), fhex(c.param_2), fhex(c.param_3)))
        elif c.command_type == MobilityCommandType.SET_SPEED:
            out.append("speed %s" % fhex(c.param_1))
        else:
            out.append("other %s" % c.command_type)
    return "".join(" | " + x for x in out)


# ---------------------------------------------------------------------------------------------
# mission
# ---------------------------------------------------------------------------------------------
MODES = {"no": LoopMission.NO, "restart": LoopMission.RESTART, "reverse": LoopMission.REVERSE}


_MISSION_DIR = []


def _mission_file():
    import atexit, shutil, tempfile
    if not _MISSION_DIR:
        d = tempfile.mkdtemp(prefix="gsverif-mission")
        _MISSION_DIR.append(d)
        atexit.register(shutil.rmtree, d, True)
    return os.path.join(_MISSION_DIR[0], "mission.txt")


_REL_NAME = "_gsverif_mission.txt"


def _staged_relative():
    import atexit
    _mission_file()
    decoy = os.path.join(os.path.dirname(os.path.abspath(__file__)), _REL_NAME)
    if not os.path.exists(decoy):
        with open(decoy, "w") as f:
            f.write("999.0,999.0,999.0\n")
        atexit.register(lambda: os.path.exists(decoy) and os.unlink(decoy))
    return os.path.join(_MISSION_DIR[0], _REL_NAME)


def run_mission_impl(case):
    proto = Plain()
    proto.provider = Provider()
    plugin = MissionMobilityPlugin(proto, MissionMobilityConfiguration(speed=case["speed"], loop_mission=MODES[case["mode"]],
                                                                       tolerance=case["tol"]))
    if case.get("decoy"):
        # the protocol owns a second mission plugin (own configuration), created later and never started: it stays
        # idle and must not get in the way of the first
        decoy = MissionMobilityPlugin(proto, MissionMobilityConfiguration(speed=1.0, loop_mission=MODES["restart"], tolerance=50.0))  # noqa: F841
    out = []
    deliver = proto.handle_telemetry if case.get("kept_ref") else (lambda t: proto.handle_telemetry(t))
    for op in case["ops"]:
        proto.provider.cmds = []
        res = "ok"
        try:
            if op[0] == "start" and case.get("via_file"):
                # the same mission handed over as a waypoint file (one "x,y,z" line per waypoint); ONE path per
                # process, rewritten for every mission, as a planner that keeps updating "mission.txt" does
                path = _mission_file()
                if case.get("file_rel"):
                    # named by a path relative to the working directory, while a file of the same name with another mission
                    # lies next to the source file of the protocol class: the file that was named is the one in the
                    # working directory
                    path = _staged_relative()
                named = path
                if case.get("file_link") and not case.get("file_rel"):
                    # named through a symbolic link to a directory followed by "..": the operating system resolves the link
                    # first ("current/.." is the parent of the link's TARGET), while a file of the same name with another
                    # mission lies where the path would lead if ".." were cancelled textually
                    root = _MISSION_DIR[0]
                    os.makedirs(os.path.join(root, "deploy", "v2", "cfg"), exist_ok=True)
                    link = os.path.join(root, "current")
                    if not os.path.islink(link):
                        os.symlink(os.path.join(root, "deploy", "v2", "cfg"), link)
                    with open(os.path.join(root, "mission.txt"), "w") as f:
                        f.write("999.0,999.0,999.0\n")
                    path = os.path.join(root, "deploy", "v2", "mission.txt")
                    named = os.path.join(link, "..", "mission.txt")
                with open(path, "w") as f:
                    fmt = {"e": "%.17e,%.17e,%.17e\n", "sp": " %r , %r ,%r \n", "plus": "%+.17g,%+.17g,%+.17g\n"}.get(case.get("file_fmt"), "%r,%r,%r\n")
                    for q in op[1]:
                        f.write(fmt % (float(q[0]), float(q[1]), float(q[2])))
                if case.get("file_rel"):
                    here = os.getcwd()
                    os.chdir(_MISSION_DIR[0])
                    try:
                        plugin.start_mission_with_waypoint_file(os.path.basename(path))
                    finally:
                        os.chdir(here)
                else:
                    plugin.start_mission_with_waypoint_file(named)
            elif op[0] == "start":
                plugin.start_mission([tuple(p) for p in op[1]])
            elif op[0] == "stop":
                plugin.stop_mission()
            elif op[0] == "setwp":
                plugin.set_current_waypoint(op[1])
            elif op[0] == "setrev":
                plugin.set_reversed(bool(op[1]))
            elif op[0] == "telem":
                deliver(Telemetry(tuple(op[1])))
        except MissionMobilityPluginException:
            res = "err"
        except IndexError:
            res = "indexerror"
        except Exception as e:  # noqa: BLE001
            res = "exc:" + type(e).__name__
        try:
            cur = plugin.current_waypoint
            st = "cur %s rev %d idle %d" % ("none" if cur is None else cur, int(bool(plugin.is_reversed)), int(bool(plugin.is_idle)))
        except Exception as e:  # noqa: BLE001
            st = "status-exc:" + type(e).__name__
        out.append("%s %s%s" % (res, st, _cmds(proto.provider.cmds)))
    return out


def mission_to_text(sid, case):
    p = ["BEGIN %s mission %s %s %s %d" % (sid, fhex(case["speed"]), case["mode"], fhex(case["tol"]), len(case["ops"]))]
    for op in case["ops"]:
        if op[0] == "start":
            p.append("start %d %s" % (len(op[1]), " ".join("%s %s %s" % tuple(fhex(x) for x in q) for q in op[1])))
        elif op[0] == "stop":
            p.append("stop")
        elif op[0] == "setwp":
            p.append("setwp %d" % op[1])
        elif op[0] == "setrev":
            p.append("setrev %d" % int(op[1]))
        elif op[0] == "telem":
            p.append("telem %s %s %s" % tuple(fhex(x) for x in op[1]))
    p.append("END")
    return " ".join(p) + "\n"


# ---------------------------------------------------------------------------------------------
# dispatcher
# ---------------------------------------------------------------------------------------------
KINDS = ["init", "timer", "telem", "packet", "finish"]
REG = {"init": "register_initialize", "timer": "register_handle_timer", "telem": "register_handle_telemetry",
       "packet": "register_handle_packet", "finish": "register_finish"}
UNREG = {"init": "unregister_initialize", "timer": "unregister_handle_timer", "telem": "unregister_handle_telemetry",
         "packet": "unregister_handle_packet", "finish": "unregister_finish"}
RES = {"continue": DispatchReturn.CONTINUE, "interrupt": DispatchReturn.INTERRUPT, "none": None}


class Runaway(Exception):
    pass


import enum as _enum


class _OtherStatus(_enum.Enum):
    """a plugin's own status enumeration; its first member has the value of DispatchReturn.INTERRUPT"""
    READY = 1
    BUSY = 2


def run_disp_impl(case):
    """case: ninst, beh (per handler: list of (res, [reop])), ops"""
    log = []
    ninst = case["ninst"]

    def make_proto(i):
        class P(IProtocol):
            def initialize(self):
                log.append("proto %d init" % i)

            def handle_timer(self, timer):
                log.append("proto %d timer" % i)

            def handle_telemetry(self, telemetry):
                log.append("proto %d telem" % i)

            def handle_packet(self, message):
                log.append("proto %d packet" % i)

            def finish(self):
                log.append("proto %d finish" % i)
        if case.get("shape") == "decorated":
            # callbacks wrapped by a hand-written decorator (no functools.wraps): the function objects are all called "wrapper"
            def traced(f):
                def wrapper(self, *a):
                    return f(self, *a)
                return wrapper
            for nm in ("initialize", "handle_timer", "handle_telemetry", "handle_packet", "finish"):
                setattr(P, nm, traced(getattr(P, nm)))
        elif case.get("shape") == "aliased":
            # callbacks defined under another name and bound to the callback names in the class body
            def _any_timer(self, timer):
                log.append("proto %d timer" % i)

            def _any_telem(self, telemetry):
                log.append("proto %d telem" % i)
            P.handle_timer = _any_timer
            P.handle_telemetry = _any_telem
            P.finish = lambda self: log.append("proto %d finish" % i)
        if case.get("via") == "simulator":
            return P
        p = P()
        p.provider = Provider()
        return p
    encs = None
    if case.get("via") == "simulator":
        # the protocol instances live inside a real simulation; callbacks are delivered the way the simulator
        # delivers them: through each node's encapsulator
        from gradysim.simulator.simulation import SimulationBuilder, SimulationConfiguration
        b = SimulationBuilder(SimulationConfiguration(execution_logging=False))
        ids = [b.add_node(make_proto(i), (float(i), 0.0, 0.0)) for i in range(ninst)]
        sim = b.build()
        encs = [sim.get_node(k).protocol_encapsulator for k in ids]
        protos = [e.protocol for e in encs]
    else:
        protos = [make_proto(i) for i in range(ninst)]
    wrappers = {}
    counts = [0] * len(case["beh"])
    total = [0]

    def deliver(i, k):
        p = protos[i] if encs is None else encs[i]
        if k == "init":
            p.initialize()
        elif k == "timer":
            p.handle_timer("t")
        elif k == "telem":
            p.handle_telemetry(Telemetry((0.0, 0.0, 0.0)))
        elif k == "packet":
            p.handle_packet("m")
        elif k == "finish":
            p.finish()

    def reop(o):
        kind_, i, k, h = o
        if kind_ == "ndisp":
            # the running handler delivers a callback itself: a dispatch nested in the current one
            log.append("enter %d %s" % (i, k))
            deliver(i, k)
            log.append("exit")
            return
        if i not in wrappers:
            log.append("nowrapper")
            return
        # ask for the dispatcher again every time (no reference is kept): it must be the same chain
        w = create_dispatcher(protos[i])
        try:
            getattr(w, REG[k] if kind_ == "reg" else UNREG[k])(handlers[h][k])
        except ValueError:
            log.append("valueerror")

    def make_handler(h, k):
        def handler(instance, *args):
            total[0] += 1
            if total[0] > 400:
                raise Runaway()
            i = next((x for x, p in enumerate(protos) if p is instance), -1)
            log.append("call %d %s %d" % (i, k, h))
            table = case["beh"][h]
            n = counts[h]
            counts[h] += 1
            if not table:
                return DispatchReturn.CONTINUE
            res, ops = table[min(n, len(table) - 1)]
            for o in ops:
                reop(o)
            if res == "none" and case.get("odd_results"):
                # "anything but INTERRUPT lets the call go on": members of other enumerations (one of them valued like
                # INTERRUPT), numbers, booleans and strings are not INTERRUPT
                return [None, _OtherStatus.READY, 1, True, "INTERRUPT", _OtherStatus.BUSY, 1.0, DispatchReturn.CONTINUE][total[0] % 8]
            return RES[res]
        return handler
    # one function object per (handler, kind): the same handler id may be registered for several kinds
    handlers = [{k: make_handler(h, k) for k in KINDS} for h in range(len(case["beh"]))]
    if case.get("bound"):
        # handlers given as bound methods: every access to `obj.call` makes a new (equal, not identical) object
        class _H:
            def __init__(self, fn):
                self.fn = fn

            def call(self, instance, *args):
                return self.fn(instance, *args)

        class _Fresh(dict):
            def __getitem__(self, k):
                return dict.__getitem__(self, k).call
        handlers = [_Fresh({k: _H(fn) for k, fn in d.items()}) for d in handlers]
    elif case.get("partials"):
        # handlers given as functools.partial objects of ONE function, each binding its own (empty, hence equal) list:
        # they are different handlers all the same
        import functools
        ident, boxes = {}, []

        def _common(box, instance, *args):
            return ident[id(box)](instance, *args)
        shaped = []
        for d in handlers:
            nd = {}
            for k, fn in d.items():
                box = []
                boxes.append(box)
                ident[id(box)] = fn
                nd[k] = functools.partial(_common, box)
            shaped.append(nd)
        handlers = shaped
    out = []
    simrun = []
    for op in case["ops"]:
        del log[:]
        total[0] = 0
        try:
            if op[0] == "create":
                before = dict(protos[op[1]].__dict__)
                create_dispatcher(protos[op[1]])
                if wrappers.get(op[1]):
                    after = protos[op[1]].__dict__
                    if any(after.get(k) is not before.get(k) for k in ("initialize", "handle_timer", "handle_telemetry", "handle_packet", "finish")):
                        log.append("rewrapped")
                wrappers[op[1]] = True
            elif op[0] in ("reg", "unreg"):
                reop(op)
            elif op[0] == "disp" and len(op) > 3 and op[3] == "SIMRUN":
                # the simulation the protocols live in is run to its end here (it has no events): every protocol is
                # initialised, then finished, through whatever chains exist; the later operations find a finished simulation
                import logging
                logging.disable(logging.CRITICAL)
                try:
                    sim.start_simulation()
                finally:
                    logging.disable(logging.NOTSET)
                chunks, cur = [], []
                for x in list(log):
                    cur.append(x)
                    if x.startswith("proto ") and x.split()[2] in ("init", "finish"):
                        chunks.append(cur)
                        cur = []
                simrun.extend(chunks[1:] + ([cur] if cur else []))
                del log[:]
                log.extend(chunks[0] if chunks else cur)
            elif op[0] == "disp" and len(op) > 3 and op[3] == "SIMRUN-cont":
                log.extend(simrun.pop(0) if simrun else ["missing"])
            elif op[0] == "disp":
                deliver(op[1], op[2])
        except Runaway:
            log.append("runaway")
        except Exception as e:  # noqa: BLE001
            log.append("exc:" + type(e).__name__)
        out.append("op" + "".join(" | " + x for x in log))
    return out


def disp_to_text(sid, case):
    p = ["BEGIN %s disp %d %d BEH" % (sid, case["ninst"], len(case["beh"]))]
    for table in case["beh"]:
        p.append("%d" % len(table))
        for res, ops in table:
            p.append("%s %d" % (res, len(ops)))
            for o in ops:
                if o[0] == "ndisp":
                    p.append("ndisp %d %s" % (o[1], o[2]))
                else:
                    p.append("%s %d %s %d" % (o[0], o[1], o[2], o[3]))
    p.append("OPS %d" % len(case["ops"]))
    for op in case["ops"]:
        if op[0] == "create":
            p.append("create %d" % op[1])
        elif op[0] in ("reg", "unreg"):
            p.append("%s %d %s %d" % (op[0], op[1], op[2], op[3]))
        else:
            p.append("disp %d %s" % (op[1], op[2]))
    p.append("END")
    return " ".join(p) + "\n"


# ---------------------------------------------------------------------------------------------
# random trip
# ---------------------------------------------------------------------------------------------

def run_trip_impl(case):
    """case: box ((xa,xb),(ya,yb),(za,zb)), tol, ops, and either seed or stream (scripted draws)"""
    proto = Plain()
    proto.provider = Provider()
    cfg = RandomMobilityConfig(x_range=tuple(case["box"][0]), y_range=tuple(case["box"][1]), z_range=tuple(case["box"][2]),
                               tolerance=case["tol"])
    draws = [0]
    inst = random._inst
    if case.get("stream") is not None:
        it = iter(case["stream"])

        def scripted():
            draws[0] += 1
            return next(it, 0.0)
        inst.random = scripted
    else:
        random.seed(case["seed"])
        orig = type(inst).random

        def counting():
            draws[0] += 1
            return orig(inst)
        inst.random = counting
    out = []
    try:
        plugin = RandomMobilityPlugin(proto, cfg)
        if case.get("decoy"):
            # the protocol also owns an (idle) mission plugin and a second random-trip plugin that never starts a trip
            decoys = (MissionMobilityPlugin(proto, MissionMobilityConfiguration(speed=1.0, tolerance=50.0)),  # noqa: F841
                      RandomMobilityPlugin(proto, RandomMobilityConfig(x_range=(0, 0), y_range=(0, 0), z_range=(0, 0), tolerance=1e9)))
        noops = []
        muted = []
        # the embedding code may look the callback up once and keep it (a subscriber list): taken after the plugins exist
        deliver = proto.handle_telemetry if case.get("kept_ref") else (lambda t: proto.handle_telemetry(t))
        for op in case["ops"]:
            proto.provider.cmds = []
            note = ""
            try:
                if op[0] == "init":
                    if case.get("decoy") and noops and not plugin.trip_ongoing:
                        create_dispatcher(proto).unregister_handle_telemetry(noops.pop(0))
                    plugin.initiate_random_trip()
                    if case.get("mute") == "during" and not muted:
                        # a foreign INTERRUPTing telemetry handler appears while the first trip is under way; the very next
                        # operation starts the trip again, which puts the trip's own hook in front of it
                        muted.append(lambda instance, telemetry: DispatchReturn.INTERRUPT)
                        create_dispatcher(proto).register_handle_telemetry(muted[-1])
                elif op[0] == "finish":
                    was = plugin.trip_ongoing
                    plugin.finish_random_trip()
                    if case.get("decoy") and was:
                        # somebody else on this protocol starts listening to telemetry when the trip ends (and stops
                        # when the next one begins): the chain keeps its length while its content changes
                        noops.append(lambda instance, telemetry: DispatchReturn.CONTINUE)
                        create_dispatcher(proto).register_handle_telemetry(noops[-1])
                    if case.get("mute") is True and was and not muted:
                        # ... or a filter that stays for good and keeps telemetry from the protocol's own method (INTERRUPT):
                        # the hook of a LATER trip is registered after it, hence runs before it
                        muted.append(lambda instance, telemetry: DispatchReturn.INTERRUPT)
                        create_dispatcher(proto).register_handle_telemetry(muted[-1])
                elif op[0] == "travel":
                    r = plugin.travel_to_random_waypoint()
                    c = proto.provider.cmds
                    if not c or (c[-1].param_1, c[-1].param_2, c[-1].param_3) != tuple(r):
                        note = " returned-differs-from-goto"
                elif op[0] == "telem":
                    deliver(Telemetry(tuple(op[1])))
                elif op[0] == "init+telem":
                    # a foreign telemetry handler that was registered while the trip is under way (so it runs BEFORE the trip's
                    # own hook) starts the trip again from inside the dispatch -- the documented way to restart
                    def restarter(instance, telemetry):
                        plugin.initiate_random_trip()
                        tg = plugin.current_target
                        out.append("ongoing %d target %s draws %d" % (int(bool(plugin.trip_ongoing)),
                                   "none" if tg is None else "%s %s %s" % tuple(fhex(x) for x in tg), draws[0])
                                   + _cmds(proto.provider.cmds))
                        proto.provider.cmds = []
                        return DispatchReturn.CONTINUE
                    create_dispatcher(proto).register_handle_telemetry(restarter)
                    try:
                        deliver(Telemetry(tuple(op[1])))
                    finally:
                        create_dispatcher(proto).unregister_handle_telemetry(restarter)
                elif op[0] in ("telem+finish", "telem+init"):
                    # the protocol's own handle_telemetry (last in the chain) calls the plugin
                    def inner(_t, which=op[0]):
                        tg = plugin.current_target
                        out.append("ongoing %d target %s draws %d" % (int(bool(plugin.trip_ongoing)),
                                   "none" if tg is None else "%s %s %s" % tuple(fhex(x) for x in tg), draws[0])
                                   + _cmds(proto.provider.cmds))
                        proto.provider.cmds = []
                        if which == "telem+finish":
                            plugin.finish_random_trip()
                        else:
                            plugin.initiate_random_trip()
                    proto._inner = inner
                    try:
                        deliver(Telemetry(tuple(op[1])))
                    finally:
                        proto._inner = None
                ongoing = plugin.trip_ongoing
                tgt = plugin.current_target
                st = "ongoing %d target %s draws %d" % (int(bool(ongoing)),
                                                          "none" if tgt is None else "%s %s %s" % tuple(fhex(x) for x in tgt), draws[0])
            except Exception as e:  # noqa: BLE001
                st = "exc:%s" % type(e).__name__
            out.append(st + _cmds(proto.provider.cmds) + note)
    finally:
        if "random" in inst.__dict__:
            del inst.__dict__["random"]
    return out, draws[0]


def trip_to_text(sid, case, stream):
    b = case["box"]
    p = ["BEGIN %s trip %s %s %s %s %s %s %s" % (sid, fhex(b[0][0]), fhex(b[0][1]), fhex(b[1][0]), fhex(b[1][1]),
                                                fhex(b[2][0]), fhex(b[2][1]), fhex(case["tol"]))]
    p.append("%d %s" % (len(stream), " ".join(fhex(u) for u in stream)))
    p.append("%d" % len(case["ops"]))
    n = 0
    body = []
    for op in case["ops"]:
        if op[0] == "telem":
            body.append("telem %s %s %s" % tuple(fhex(x) for x in op[1]))
            n += 1
        elif op[0] in ("telem+finish", "telem+init"):
            body.append("telem %s %s %s" % tuple(fhex(x) for x in op[1]))
            body.append("finish" if op[0] == "telem+finish" else "init")
            n += 2
        elif op[0] == "init+telem":
            body.append("init")
            body.append("telem %s %s %s" % tuple(fhex(x) for x in op[1]))
            n += 2
        else:
            body.append(op[0])
            n += 1
    p[-1] = "%d" % n
    p += body
    p.append("END")
    return " ".join(p) + "\n"


def trip_stream(case, draws):
    if case.get("stream") is not None:
        return list(case["stream"])
    r = random.Random(case["seed"])
    return [r.random() for _ in range(draws)]
