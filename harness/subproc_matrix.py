"""Thorough tier of C06: the same scenarios in fresh interpreters with different hash seeds and
in different orders within one process (A.B.A / B.A)."""
import json
import os
import subprocess
import sys

from common import VERIF

CHILD = r"""
import sys, json
sys.path.insert(0, %r)
import scripted
scs = json.load(open(sys.argv[1]))
order = json.loads(sys.argv[2])
out = []
for i in order:
    sc = scs[i]
    sc['nodes'] = [{'pos': tuple(n['pos']), 'ty': n['ty']} for n in sc['nodes']]
    sc['drv'] = tuple(sc['drv']); sc['med'] = tuple(sc['med']); sc['mob'] = (sc['mob'][0], sc['mob'][1], tuple(sc['mob'][2]))
    sc['asserts'] = [tuple(a) for a in sc['asserts']]
    for rules in sc['script']:
        for r in rules:
            r['trig'] = tuple(r['trig']); r['acts'] = [tuple(a) for a in r['acts']]
    tr, _ = scripted.run_sim_impl(sc)
    out.append([i, list(tr)])
print(json.dumps(out))
""" % os.path.join(VERIF, "harness")


def run(chk, scs, R, light=False, hashseeds=None, env_extra=None, what="PYTHONHASHSEED"):
    import tempfile
    from scripted import run_sim_impl
    base = [list(run_sim_impl(sc)[0]) for sc in scs]
    fd, path = tempfile.mkstemp(suffix=".json")
    os.close(fd)
    try:
        json.dump(scs, open(path, "w"))
        n = len(scs)
        orders = [list(range(n)), list(reversed(range(n))), [0, 1, 0, 2, 1, 0][:max(1, min(6, n))]]
        if light:
            orders = orders[:1]
        for hs in (hashseeds or (("1", "random") if light else ("0", "1", "4242", "random"))):
            for order in orders:
                env = dict(os.environ, PYTHONHASHSEED=hs, **(env_extra or {}))
                p = subprocess.run([sys.executable, "-c", CHILD, path, json.dumps(order)], capture_output=True, text=True,
                                   env=env, timeout=900)
                if p.returncode != 0:
                    chk.corr_break("subprocess", {"hashseed": hs, "order": order}, ("child failed", p.stderr[-500:], ""))
                    continue
                for i, tr in json.loads(p.stdout.strip().splitlines()[-1]):
                    chk.record("subprocess:hashseed=%s" % hs, {"scenario": i, "order": order[:6]}, False)
                    chk.validated += 1
                    if tr != base[i]:
                        d = next((k for k in range(min(len(tr), len(base[i]))) if tr[k] != base[i][k]), min(len(tr), len(base[i])))
                        chk.violation("subprocess", {"hashseed": hs, "order": order, "scenario": scs[i]},
                                      ["%s: scenario %d differs under %s=%s%s / order %s at line %d: %r vs %r"
                                       % (chk.prop, i, what, hs, " " + str(env_extra) if env_extra else "", order[:6], d,
                                          (tr[d:d + 1] or ["<end>"])[0], (base[i][d:d + 1] or ["<end>"])[0])])
    finally:
        os.unlink(path)
