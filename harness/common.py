"""Shared plumbing of the correspondence harness: locating /repo, running the extracted model,
canonical float formatting, evidence files, VIOLATION / KNOWN-FINDING reporting."""
import hashlib
import json
import os
import subprocess
import sys
import time

VERIF = os.path.dirname(os.path.dirname(os.path.abspath(__file__)))
REPO = os.environ.get("GRADYSIM_REPO", "/repo")
BUILD = os.path.join(VERIF, "build")
DRIVER = os.path.join(BUILD, "driver")

# the implementation is always imported from /repo's working tree
sys.path.insert(0, REPO)
sys.dont_write_bytecode = True


def fhex(x) -> str:
    """Canonical text of a Python number used as a float."""
    return float(x).hex()


def canon_tok(tok: str) -> str:
    """Canonicalise one token of a model trace line: hex floats printed by OCaml's %h are
    re-printed the way Python prints them; everything else is left alone."""
    if tok.startswith(("0x", "-0x")) or tok in ("nan", "-nan", "inf", "-inf", "infinity", "-infinity"):
        try:
            return float.fromhex(tok).hex()
        except ValueError:
            return tok
    return tok


def canon_line(line: str) -> str:
    return " ".join(canon_tok(t) for t in line.split())


def run_driver(text: str, timeout: int = 600) -> dict:
    """Feeds scenario text to the extracted model; returns {scenario id: [canonical lines]}."""
    def _big_stack():
        import resource
        try:
            resource.setrlimit(resource.RLIMIT_STACK, (resource.RLIM_INFINITY, resource.RLIM_INFINITY))
        except (ValueError, OSError):
            pass
    p = subprocess.run([DRIVER], input=text, capture_output=True, text=True, timeout=timeout, preexec_fn=_big_stack)
    if p.returncode != 0:
        raise RuntimeError("model driver failed: rc=%s stderr=%s" % (p.returncode, p.stderr[-2000:]))
    res, cur, cid = {}, None, None
    for line in p.stdout.splitlines():
        if line.startswith("BEGIN "):
            cid, cur = line.split()[1], []
        elif line.startswith("END "):
            res[cid] = cur
            cur = None
        elif cur is not None:
            cur.append(canon_line(line))
    return res


def first_diff(a, b):
    """Index and pair of the first differing line of two traces (None if equal)."""
    for i in range(max(len(a), len(b))):
        x = a[i] if i < len(a) else "<end of trace>"
        y = b[i] if i < len(b) else "<end of trace>"
        if x != y:
            return i, x, y
    return None


def digest(obj) -> str:
    return hashlib.sha1(json.dumps(obj, sort_keys=True, default=str).encode()).hexdigest()[:12]


def load_known():
    with open(os.path.join(VERIF, "known_findings.json")) as f:
        return json.load(f)


class Clock:
    def __init__(self):
        self.t0 = time.time()

    def wall(self):
        return round(time.time() - self.t0, 3)
