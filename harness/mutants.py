"""Runs checks against seeded changes: applies seeded/<dir>/patch.diff to /repo, runs the demo
and the named checks, and ALWAYS restores /repo (git checkout) afterwards.
usage: mutants.py <candidate dir name> [Cxx ...]"""
import json, os, subprocess, sys, time
VERIF = os.path.dirname(os.path.dirname(os.path.abspath(__file__)))

def sh(cmd, timeout=1800, cwd=None):
    p = subprocess.run(cmd, shell=True, capture_output=True, text=True, timeout=timeout, cwd=cwd)
    return p.returncode, (p.stdout + p.stderr)

def find(name):
    for base in ("seeded", "seeded/_candidates"):
        d = os.path.join(VERIF, base, name)
        if os.path.isdir(d):
            return d
    raise SystemExit("no such seeded change: " + name)

def main():
    name = sys.argv[1]
    props = sys.argv[2:] or [name.split("_")[0]]
    d = find(name)
    rc, out = sh("git -C /repo status --porcelain")
    if out.strip():
        raise SystemExit("/repo is not clean: " + out)
    res = {"name": name, "checks": {}}
    try:
        rc, out = sh("git -C /repo apply %s/patch.diff" % d)
        if rc != 0:
            raise SystemExit("patch does not apply: " + out)
        rc, out = sh("PYTHONPATH=/repo timeout 120 /venv/bin/python %s/demo.py" % d)
        res["demo_rc_with_patch"] = rc
        for p in props:
            t = time.time()
            rc, out = sh("cd %s && timeout 1500 ./check %s --tier quick" % (VERIF, p))
            lines = [l for l in out.splitlines() if l.startswith(("VIOLATION", "KNOWN", "  ")) or " quick: " in l]
            res["checks"][p] = {"rc": rc, "lines": lines[:6], "s": round(time.time() - t, 1)}
    finally:
        sh("git -C /repo checkout -- . && git -C /repo clean -fdq -- gradysim")
    rc, out = sh("PYTHONPATH=/repo timeout 120 /venv/bin/python %s/demo.py" % d)
    res["demo_rc_clean"] = rc
    print(json.dumps(res, indent=1))

if __name__ == "__main__":
    main()
