"""Implementation side of the correspondence check for whole simulations and event-loop
histories: runs /repo's gradysim on a scenario through public extension points only
(IProtocol subclasses, INodeHandler subclasses, SimulationBuilder) and returns the canonical
trace; also serialises the scenario for the extracted model (ocaml/driver.ml)."""
import io
import logging
import os
import random
import time
import re
import sys

from common import fhex

import gradysim  # noqa: F401  (from /repo, see common.py)
from gradysim.protocol.interface import IProtocol
from gradysim.protocol.messages.communication import (SendMessageCommand, BroadcastMessageCommand,
                                                      CommunicationCommand, CommunicationCommandType)
from gradysim.protocol.messages.mobility import (GotoCoordsMobilityCommand, GotoGeoCoordsMobilityCommand,
                                                 SetSpeedMobilityCommand)
from gradysim.protocol.messages.telemetry import Telemetry
from gradysim.simulator.event import EventLoop, EventLoopException
from gradysim.simulator.extension.communication_controller import CommunicationController
from gradysim.simulator.handler.assertion import (AssertionHandler, FailedAssertionException,
                                                  assert_always_true_for_protocol,
                                                  assert_always_true_for_simulation,
                                                  assert_eventually_true_for_protocol,
                                                  assert_eventually_true_for_simulation)
from gradysim.simulator.handler.communication import (CommunicationHandler, CommunicationMedium,
                                                      CommunicationException)
from gradysim.simulator.handler.interface import INodeHandler
from gradysim.simulator.handler.mobility import MobilityHandler, MobilityConfiguration
from gradysim.simulator.handler.timer import TimerHandler, TimerException
from gradysim.simulator.simulation import SimulationBuilder, SimulationConfiguration

# --------------------------------------------------------------------------------------------
# event-loop histories
# --------------------------------------------------------------------------------------------

class _Job:
    """a short-lived object whose bound method is handed over as the callback"""
    def __init__(self, tag):
        self.tag = tag

    def run(self):
        return self.tag

    def __call__(self):
        return self.tag


def _tagged(tag):
    def cb():
        return tag
    return cb


class _Shared:
    """ONE callable handed over for many requests (a handler that queues its own method for several instants); which
    request an event belongs to is told by the event's context string"""
    def run(self):
        return -7


_SHARED = _Shared()


def _el_callback(tag, keeper):
    """callables of every kind a caller may legitimately pass: lambda, closure, partial, bound method of a
    temporary object, bound method of a long-lived object, callable instance, one and the same bound method every time"""
    import functools
    k = tag % 7
    if k == 6:
        return _SHARED.run                       # equal (==, same hash) to every other callback of this kind
    if k == 0:
        return lambda tag=tag: tag
    if k == 1:
        return _tagged(tag)
    if k == 2:
        return functools.partial(int, tag)
    if k == 3:
        return _Job(tag).run                     # nobody else keeps the object alive
    if k == 4:
        j = _Job(tag)
        keeper.append(j)
        return j.run
    return _Job(tag)


def _el_tag(e):
    r = _el_result(e.callback())
    if r == -7:
        try:
            return int(str(e.context).split()[1])
        except Exception:  # noqa: BLE001
            return -8
    return r


def _el_result(x):
    return x if isinstance(x, int) and not isinstance(x, bool) else -1


def run_el_impl(ops):
    """ops: list of ('sched', ts, tag) | ('pop',) | ('peek',) | ('clear',) | ('len',) | ('now',)"""
    el = EventLoop()
    out = []
    keeper = []
    for op in ops:
        k = op[0]
        try:
            if k == "sched":
                tag = op[2]
                el.schedule_event(op[1], _el_callback(tag, keeper), "ctx %d" % tag)
                out.append("ok")
            elif k == "pop":
                e = el.pop_event()
                out.append("popped %s %d" % (fhex(e.timestamp), _el_tag(e)))
            elif k == "peek":
                e = el.peek_event()
                out.append("peeked none" if e is None else "peeked %s %d" % (fhex(e.timestamp), _el_tag(e)))
            elif k == "clear":
                el.clear()
                out.append("cleared")
            elif k == "len":
                out.append("len %d" % len(el))
            elif k == "now":
                out.append("now %s" % fhex(el.current_time))
        except EventLoopException:
            out.append("refused")
    return out


def el_to_text(sid, ops):
    parts = ["BEGIN %s el %d" % (sid, len(ops))]
    for op in ops:
        if op[0] == "sched":
            parts.append("sched %s %d" % (fhex(op[1]), op[2]))
        else:
            parts.append(op[0])
    parts.append("END")
    return " ".join(parts) + "\n"


# --------------------------------------------------------------------------------------------
# whole simulations
# --------------------------------------------------------------------------------------------

class _Ctx:
    scenario = None
    trace = None
    draws = 0
    limit = 60000


class Runaway(BaseException):
    """The implementation did not stop (trace limit or wall-clock limit hit)."""


def _guard():
    if len(CTX.trace) > max(CTX.limit, (CTX.scenario or {}).get("trace_limit", 0)):
        raise Runaway("trace limit")


def _alarm(signum, frame):
    raise Runaway("time limit")


CTX = _Ctx()


def canon_dst(d):
    """how a destination is written for the model, whose identifiers are naturals: a negative one names no node
    (5000 + |d|), neither does something that is not an integer at all (1.5, "1": 5999)"""
    if d is None:
        return "none"
    if isinstance(d, bool) or not isinstance(d, int):
        return "5999"
    return str(d if d >= 0 else 5000 - d)


_LONG = 700
_DEEP = 3000


_JUNK = "{0} %s \\ \" ' \n\t\x00 \u00e9 \U0001F680 \ud83d [*]?"      # format characters, quotes, NUL, an emoji, a LONE surrogate, glob characters


_QUOTE = 'FollowMobilityPlugin__leader:{"id": 7, "position": [1, 2, 3]}'


def _payload(m):
    """the text of message m: its number; (long_payloads) padded with zeros to _LONG characters; (odd_payloads) followed
    by a bar and characters that mean something to formatters, encoders and parsers -- a payload is opaque text"""
    if CTX.scenario.get("quote_plugin"):
        return "%s|%s" % (m, _QUOTE)       # an ordinary message that quotes a packet of the follow-mobility plugins
    if CTX.scenario.get("json_payloads"):
        # a text that happens to be a document in some notation (here JSON, deeply nested): still opaque text to the simulator
        return "[" * _DEEP + str(m) + "]" * _DEEP
    if CTX.scenario.get("odd_payloads"):
        return "%s|%s" % (m, _JUNK)
    return str(m).zfill(_LONG) if CTX.scenario.get("long_payloads") else str(m)


def _act_str(a):
    k = a[0]
    if k == "settimer":
        return "settimer %d %s" % (a[1], fhex(a[2]))
    if k == "cancel":
        return "cancel %d" % a[1]
    if k == "send":
        # a negative destination names no node; the model's identifiers are naturals: written as 5000 + |d|
        return "send %d %s" % (a[1], canon_dst(a[2]))
    if k == "bcast":
        return "bcast %d" % a[1]
    if k == "bcastdst":
        return "bcastdst %d %d" % (a[1], a[2])
    if k in ("goto", "gotogeo"):
        return "%s %s %s %s" % (k, fhex(a[1]), fhex(a[2]), fhex(a[3]))
    if k in ("speed", "range"):
        return "%s %s" % (k, fhex(a[1]))
    if k == "flag":
        return "flag %d" % (1 if a[1] else 0)
    raise ValueError(a)


# timer names that contain pattern characters (a name is just a string): 0, 1, 2 -> these
ODD_NAMES = ["slot[1]", "slot1", "s*", "done?", "done!", "a.b", "a+b"]
# different strings that a normalisation (Unicode NFC / NFKC, case folding, stripping) would make equal: different names
LOOKALIKE_NAMES = ["caf\u00e9", "cafe\u0301", "Caf\u00e9", "\u00c5", "\u212b", "t", "t ", "T", "\uff54"]


def _odd_list():
    return LOOKALIKE_NAMES if CTX.scenario.get("odd_names") == 2 else ODD_NAMES


def _num(x):
    """in the `int_numbers` mode whole numbers are handed over as Python ints (1 instead of 1.0): legal everywhere
    a number is expected, and the same number"""
    if CTX.scenario is not None and CTX.scenario.get("int_numbers") and isinstance(x, float) and x.is_integer() and abs(x) < 2.0 ** 24:
        # (below 2^24: sums of three squares of such numbers are exact in doubles too; Python's integer arithmetic is exact at
        # any size, doubles are not, and the model computes in doubles)
        return int(x)
    return x


import enum


class TimerNames(str, enum.Enum):
    """timer names given as members of a str-Enum (a common way to avoid typos in names)"""
    HEARTBEAT = "heartbeat"
    RETRY = "retry"
    TIMEOUT = "timeout"
    T3 = "t3"
    T4 = "t4"
    T5 = "t5"
    T6 = "t6"


_ENUM_NAMES = list(TimerNames)


_TAG_NAMES = ["timer", "FollowMobilityPlugin__leader_broadcast_timer/watchdog", "broadcast", "FollowMobilityPlugin__follower_timer.x",
              "leader", "", "_", "FollowMobilityPlugin__leader"]


def _tname(i):
    if CTX.scenario.get("tag_names"):
        # names made of pieces of (or beginning with) the timer tags of the library's follow-mobility plugins
        return _TAG_NAMES[i] if i < len(_TAG_NAMES) else "n%d#" % i
    if CTX.scenario.get("enum_names"):
        return _ENUM_NAMES[i] if i < len(_ENUM_NAMES) else "n%d#" % i
    if CTX.scenario.get("odd_names"):
        return _odd_list()[i] if i < len(_odd_list()) else "n%d#" % i
    return str(i)


def _tnum(name):
    if CTX.scenario.get("tag_names"):
        name = str(name)
        if name in _TAG_NAMES:
            return _TAG_NAMES.index(name)
        m = re.fullmatch(r"n(\d+)#", name)
        return int(m.group(1)) if m else -1
    if CTX.scenario.get("enum_names"):
        # what comes back must BE the name that was set: the member itself (or at least something equal to it)
        for i, m in enumerate(_ENUM_NAMES):
            if name is m or (type(name) is type(m) and name == m):
                return i
        m2 = re.fullmatch(r"n(\d+)#", str(name))
        return int(m2.group(1)) if m2 else -1
    if CTX.scenario.get("odd_names"):
        name = str(name)
        if name in _odd_list():
            return _odd_list().index(name)
        m = re.fullmatch(r"n(\d+)#", name)
        return int(m.group(1)) if m else -1
    return int(name) if re.fullmatch(r"\d+", str(name)) else -1


class _PluginStatus(enum.Enum):
    READY = 1
    BUSY = 2


class _HelperMixin:
    """a plain helper base class of a user's protocol (no callbacks of its own)"""
    helper_range = 12.5

    def describe(self):
        return "helper"


_TV_NAMES = ["count", "name", "message", "state", "args", "process", "msg", "levelname", "thread", "created"]


class ScriptedProtocol(IProtocol):
    """Interprets the rule scripts of coq/Script.v."""

    @classmethod
    def instantiate(cls, provider):
        protocol = super().instantiate(provider)
        if (CTX.scenario or {}).get("early_controller"):
            # a protocol class that overrides instantiate() builds its helpers there, right after it is given its provider
            try:
                protocol._controller = CommunicationController(protocol)
            except Exception:  # noqa: BLE001
                protocol._controller = None       # (a library that refuses extensions this early is within its rights)
        return protocol

    def __init__(self):
        self.flag = False
        self.counts = {"init": 0, "timer": 0, "packet": 0, "telem": 0, "finish": 0}
        self._controller = None

    def _fire(self, kind, value, desc):
        _guard()
        nid = self.provider.get_id()
        now = self.provider.current_time()
        CTX.trace.append("cb %d %s %s" % (nid, fhex(now), desc))
        CTX.ncb = getattr(CTX, "ncb", 0) + 1
        if CTX.scenario.get("slow_cb") == CTX.ncb:
            time.sleep(0.12)                   # a callback that does real work: wall-clock time is not simulation time
        tv = getattr(self.provider, "tracked_variables", None)
        if tv is not None and getattr(CTX, "sim", None) is not None:
            # what a protocol tracks is its own business, whatever the variables are called
            tv[_TV_NAMES[(nid + self.counts[kind]) % len(_TV_NAMES)]] = self.counts[kind]
        if CTX.scenario.get("poll_inside") and getattr(CTX, "sim", None) is not None and kind != "finish":
            CTX.sim.is_simulation_done()       # asking whether the run is over does not end it
        if CTX.scenario.get("interloper"):
            CTX.fired = getattr(CTX, "fired", 0) + 1
            if CTX.fired in (2, 5):
                _interloper()
        k = self.counts[kind]
        self.counts[kind] += 1
        rules = CTX.scenario["script"][nid] if nid < len(CTX.scenario["script"]) else []
        todo = []
        for r in rules:
            t = r["trig"]
            if t[0] != kind:
                continue
            if kind in ("timer", "packet") and t[1] is not None and t[1] != value:
                continue
            if r["nth"] is not None and r["nth"] != k:
                continue
            for a in r["acts"]:
                if a[0] == "settimer":
                    ts = a[3] if a[2] == "abs" else now + a[3]
                    todo.append(("settimer", a[1], ts))
                elif a[0] == "gotohere":
                    if kind == "telem":
                        todo.append(("goto",) + tuple(value))
                else:
                    todo.append(a)
        for a in todo:
            try:
                self._do(a)
                res = "ok"
            except TimerException:
                res = "errtimer"
            except CommunicationException:
                res = "errcomm"
            except ValueError:
                res = "errvalue"
            CTX.trace.append("act %d %s %s" % (nid, _act_str(a), res))
        ins = getattr(CTX, "inside", None)
        if ins is not None and kind in ("timer", "packet") and getattr(CTX, "sim", None) is not None and not CTX.sim.is_simulation_done():
            # (not when this callback is the last thing the run does: requests made after the end are not requests made before it)
            # a coordinator: from inside its own callback (as the last thing it does) this protocol makes requests through
            # ANOTHER node's provider -- for that node they are requests made outside its callbacks, at this instant
            CTX.inside = None
            real, CTX.trace = CTX.trace, []
            try:
                CTX.sim.get_node(ins[0]).protocol_encapsulator.protocol.external(ins[1])
            finally:
                CTX.inside_lines, CTX.trace = CTX.trace, real
        if CTX.scenario.get("readback"):
            # the protocol keeps part of its state in its tracked variables and reads it back: get-or-create, counters,
            # pop / update / iteration -- and what it reads decides its next request
            tv = self.provider.tracked_variables
            seen = tv.setdefault("seen", [])
            seen.append(kind)
            n = tv.get("rounds", 0) + 1
            tv.update(rounds=n)
            last = tv.pop("last", "none")
            tv["last"] = kind
            self.provider.schedule_timer("seen%d-%d-%s-%d-%s" % (len(seen), n, last, len(tv), "+".join(sorted(str(x) for x in tv))),
                                         now + 1.0)
        hook = getattr(CTX, "after_fire", None)
        if hook is not None:
            hook(self)

    def external(self, acts):
        """requests made from outside any callback (driver code between two steps)"""
        _guard()
        nid = self.provider.get_id()
        now = self.provider.current_time()
        CTX.trace.append("cb %d %s ext" % (nid, fhex(now)))
        for a in acts:
            try:
                self._do(a)
                res = "ok"
            except TimerException:
                res = "errtimer"
            except CommunicationException:
                res = "errcomm"
            except ValueError:
                res = "errvalue"
            CTX.trace.append("act %d %s %s" % (nid, _act_str(a), res))

    def _do(self, a):
        k = a[0]
        p = self.provider
        if k == "settimer":
            p.schedule_timer(_tname(a[1]), _num(a[2]))
        elif k == "cancel":
            p.cancel_timer(_tname(a[1]))
        elif k == "send" and CTX.scenario.get("raw_commands"):
            p.send_communication_command(CommunicationCommand(0, _payload(a[1]), a[2]))
        elif k == "bcast" and CTX.scenario.get("raw_commands"):
            p.send_communication_command(CommunicationCommand(1, _payload(a[1])))
        elif k == "send":
            if CTX.scenario.get("reuse_commands"):
                # one command object used as a template and re-filled for every send
                if getattr(self, "_send_tmpl", None) is None:
                    self._send_tmpl = SendMessageCommand("", None)
                self._send_tmpl.message, self._send_tmpl.destination = _payload(a[1]), a[2]
                p.send_communication_command(self._send_tmpl)
            else:
                p.send_communication_command(SendMessageCommand(_payload(a[1]), a[2]))
        elif k == "bcast":
            if CTX.scenario.get("reuse_commands"):
                if getattr(self, "_bcast_tmpl", None) is None:
                    self._bcast_tmpl = BroadcastMessageCommand("")
                self._bcast_tmpl.message = _payload(a[1])
                p.send_communication_command(self._bcast_tmpl)
            else:
                p.send_communication_command(BroadcastMessageCommand(_payload(a[1])))
        elif k == "bcastdst":
            p.send_communication_command(CommunicationCommand(CommunicationCommandType.BROADCAST, _payload(a[1]), a[2]))
        elif k in ("goto", "gotogeo", "speed") and CTX.scenario.get("raw_commands"):
            # the generic command classes with the command type given as a plain int (e.g. rebuilt from JSON)
            from gradysim.protocol.messages.mobility import MobilityCommand
            if k == "speed":
                p.send_mobility_command(MobilityCommand(3, a[1]))
            else:
                p.send_mobility_command(MobilityCommand(1 if k == "goto" else 2, a[1], a[2], a[3]))
        elif k in ("goto", "gotogeo", "speed") and CTX.scenario.get("reuse_commands"):
            # one long-lived command object per kind, its fields rewritten for every request
            tm = getattr(self, "_mob_tmpl", None)
            if tm is None:
                tm = self._mob_tmpl = {"goto": GotoCoordsMobilityCommand(0.0, 0.0, 0.0),
                                       "gotogeo": GotoGeoCoordsMobilityCommand(0.0, 0.0, 0.0),
                                       "speed": SetSpeedMobilityCommand(0.0)}
            c = tm[k]
            if k == "speed":
                c.param_1 = a[1]
            else:
                c.param_1, c.param_2, c.param_3 = a[1], a[2], a[3]
            p.send_mobility_command(c)
        elif k == "goto":
            p.send_mobility_command(GotoCoordsMobilityCommand(_num(a[1]), _num(a[2]), _num(a[3])))
        elif k == "gotogeo":
            p.send_mobility_command(GotoGeoCoordsMobilityCommand(a[1], a[2], a[3]))
        elif k == "speed":
            p.send_mobility_command(SetSpeedMobilityCommand(_num(a[1])))
        elif k == "range":
            if CTX.scenario.get("two_controllers") and not CTX.scenario.get("early_controller"):
                # the protocol's own controller and a helper's: two kept objects, used alternately
                pair = self.__dict__.setdefault("_controllers", [CommunicationController(self), CommunicationController(self)])
                self._turn = getattr(self, "_turn", 0) + 1
                pair[self._turn % 2].set_transmission_range(_num(a[1]))
                return
            if CTX.scenario.get("early_controller") and self._controller is not None:
                self._controller.set_transmission_range(_num(a[1]))
                return
            if self._controller is None or CTX.scenario.get("fresh_controllers"):
                # (in that mode) a new controller object for every request, as code that builds one on the spot does
                self._controller = CommunicationController(self)
            self._controller.set_transmission_range(_num(a[1]))
        elif k == "flag":
            sim = getattr(CTX, "sim", None)
            if CTX.scenario.get("cross_flags") and sim is not None:
                # what the assertions read about node (me + 1) is written here, by another node's callback
                # (the next node of the same protocol type, cyclically: per type, the set of flags is what it would be)
                nodes = CTX.scenario["nodes"]
                me = p.get_id()
                same = [i for i, nd in enumerate(nodes) if nd["ty"] == nodes[me]["ty"]]
                holder = same[(same.index(me) + 1) % len(same)]
                sim.get_node(holder).protocol_encapsulator.protocol.flag = bool(a[1])
            else:
                self.flag = bool(a[1])
        else:
            raise AssertionError(a)

    def initialize(self):
        host = CTX.scenario.get("host_plugin")
        if host == "random_trip":
            from gradysim.protocol.plugin.random_mobility import RandomMobilityPlugin
            self._hosted = RandomMobilityPlugin(self)
        elif host:
            # the protocol hosts one of the library's follow-mobility plugins, which runs timers of its own
            from gradysim.protocol.plugin.follow_mobility import MobilityLeaderPlugin, MobilityFollowerPlugin
            self._hosted = (MobilityLeaderPlugin if host == "leader" else MobilityFollowerPlugin)(self)
            # ... and a small observing plugin of its own whose handlers answer with members of ITS status enumeration
            # (anything but DispatchReturn.INTERRUPT lets the call go on to the protocol)
            from gradysim.protocol.plugin.dispatcher import create_dispatcher
            d = create_dispatcher(self)
            d.register_handle_telemetry(lambda instance, telemetry: _PluginStatus.READY)
            d.register_handle_timer(lambda instance, timer: _PluginStatus.READY)
            d.register_handle_packet(lambda instance, message: _PluginStatus.BUSY)
        self._fire("init", None, "init")
        return self._result()

    def _result(self):
        """what the callback returns: nothing, as the interface says -- or, for code written the way `return is_new` or
        `return len(inbox)` is, a value nobody asked for (the library gives callbacks' results no meaning)"""
        if not CTX.scenario.get("cb_returns"):
            return None
        n = sum(self.counts.values())
        return [True, 1, 0.5, 2.0, "again", n, [n], False][n % 8]

    def handle_timer(self, timer):
        n = _tnum(timer)
        if CTX.scenario.get("host_plugin") == "random_trip" and self.provider.get_id() == 0:
            self._hosted.initiate_random_trip()        # the node re-plans its random trip on every round
        self._fire("timer", n, "timer %s" % (n if n >= 0 else "corrupt:" + repr(timer)))
        return self._result()

    def handle_packet(self, message):
        if (CTX.scenario.get("odd_payloads") or CTX.scenario.get("quote_plugin")) and isinstance(message, str) and "|" in message:
            head, rest = message.split("|", 1)
            message = head if rest == (_QUOTE if CTX.scenario.get("quote_plugin") else _JUNK) else "altered:" + message
        if CTX.scenario.get("json_payloads") and isinstance(message, str) and message.startswith("["):
            inner = message[_DEEP:-_DEEP]
            message = inner if message == "[" * _DEEP + inner + "]" * _DEEP else "altered:" + message[:40]
        n = int(message) if re.fullmatch(r"\d+", str(message)) else -1
        if n >= 0 and CTX.scenario.get("long_payloads") and not CTX.scenario.get("json_payloads") and not CTX.scenario.get("odd_payloads") and len(str(message)) != _LONG:
            n = -1            # what arrives is not what was sent
        self._fire("packet", n, "packet %s" % (n if n >= 0 else "corrupt:" + repr(message)[:60]))
        return self._result()

    def handle_telemetry(self, telemetry: Telemetry):
        p = telemetry.current_position
        kept = getattr(CTX, "kept_telemetry", None)
        if kept is not None and len(kept) < 4000:
            # the protocol keeps the message it was given (to compare it with the next one, say): it is that update's
            # report for good
            kept.append((self.provider.get_id(), self.provider.current_time(), telemetry, (float(p[0]), float(p[1]), float(p[2]))))
        sim = getattr(CTX, "sim", None)
        if sim is not None:
            # the telemetry of an update carries the node's position right after that update; nothing moves a node
            # between the update and the delivery of its telemetry (same instant), so this is the node's position now
            try:
                actual = tuple(float(x) for x in sim.get_node(self.provider.get_id()).position)
            except Exception:  # noqa: BLE001
                actual = None
            if actual is not None and actual != (float(p[0]), float(p[1]), float(p[2])):
                CTX.trace.append("stale %d telemetry carries %s %s %s , the node is at %s %s %s"
                                 % ((self.provider.get_id(),) + tuple(fhex(x) for x in p) + tuple(fhex(x) for x in actual)))
        self._fire("telem", (float(p[0]), float(p[1]), float(p[2])), "telem %s %s %s" % (fhex(p[0]), fhex(p[1]), fhex(p[2])))
        return self._result()

    def finish(self):
        self._fire("finish", None, "finish")
        return self._result()


class _Idle(IProtocol):
    def initialize(self):
        self.provider.schedule_timer("idle", 0.5)

    def handle_timer(self, timer):
        pass

    def handle_packet(self, message):
        pass

    def handle_telemetry(self, telemetry):
        pass

    def finish(self):
        pass


def _interloper():
    """an unrelated simulation (own builder, own handlers, one idle node) assembled and run to its end while the scenario
    under test is in the middle of its run: simulations of one process do not share anything"""
    b = SimulationBuilder(SimulationConfiguration(execution_logging=False, duration=1.0))
    b.add_handler(TimerHandler())
    b.add_node(_Idle, (0.0, 0.0, 0.0))
    sim = b.build()
    keep = (CTX.sim,)
    sim.start_simulation()
    CTX.sim = keep[0]


class CommunicationAgentProtocol(ScriptedProtocol):
    """(the three scripted protocol classes are named like pieces of the library: labels, contexts and log lines are built
    from class names, and nothing may depend on what a user's class is called)"""
    pass


ProtoA = CommunicationAgentProtocol


class VisualizationRelayProtocol(ScriptedProtocol):
    """instances are falsy: a protocol that exposes its (empty) buffer through len() is a protocol all the same; and the
    class is called like a piece of the library (labels and contexts are built from class names)"""
    def __len__(self):
        return 0


ProtoB = VisualizationRelayProtocol


class MobilityAwareProtocol(ProtoA):
    pass


ProtoA2 = MobilityAwareProtocol


PROTO = {0: ProtoA, 1: ProtoB, 2: ProtoA2}


class RecorderBase(INodeHandler):
    """Recording handler whose hooks are inherited by the concrete class (odd-numbered recorders)."""
    J = -1

    @staticmethod
    def get_label():
        return "recbase"

    def inject(self, event_loop):
        pass

    def register_node(self, node):
        pass

    def initialize(self):
        CTX.trace.append("hinit %d" % self.J)

    def after_simulation_step(self, iteration, timestamp):
        _guard()
        CTX.trace.append("hafter %d %d %s" % (self.J, iteration, fhex(timestamp)))

    def finalize(self):
        CTX.trace.append("hfinal %d" % self.J)


def make_recorder(j, label=None):
    """`label`: the label the handler registers under (default: its own, rec<j>)"""
    if label is None:
        label = "rec%d" % j
    if j % 2 == 1:
        class Middle(RecorderBase):
            pass

        class Inherited(Middle):
            J = j

            @staticmethod
            def get_label():
                return label
        return Inherited()

    class Recorder(INodeHandler):
        @staticmethod
        def get_label():
            return label

        def inject(self, event_loop):
            pass

        def register_node(self, node):
            pass

        def initialize(self):
            CTX.trace.append("hinit %d" % j)

        # the interface fixes the order of the two arguments, not what an override calls them
        if j % 4 == 0:
            def after_simulation_step(self, step, now):
                _guard()
                CTX.trace.append("hafter %d %d %s" % (j, step, fhex(now)))
        else:
            def after_simulation_step(self, *args):
                _guard()
                CTX.trace.append("hafter %d %d %s" % (j, args[0], fhex(args[1])))

        def finalize(self):
            CTX.trace.append("hfinal %d" % j)

    return Recorder()


def _flag(node):
    return bool(node.protocol_encapsulator.protocol.flag)


def _truthy(b, idx):
    """the same truth value as a non-bool object (legal for a predicate: Python truthiness)"""
    if not CTX.scenario.get("truthy_preds"):
        return b
    return ([1, ["x"], "yes", 2.5] if b else [0, [], "", None])[idx % 4]


_ASSERTIONS = {}


def make_assertion(idx, spec):
    """one decorated assertion object per (position, kind, argument), used by every simulation of the process
    that asks for it -- as a module-level decorated function is"""
    names = (CTX.scenario or {}).get("assert_names")
    key = (idx, tuple(spec), names[idx] if names else None)
    if key not in _ASSERTIONS:
        _ASSERTIONS[key] = _make_assertion(idx, spec, names[idx] if names else None)
    return _ASSERTIONS[key]


def _make_assertion(idx, spec, given=None):
    kind, arg = spec
    # a label is free text: every second one carries characters that mean something to str.format / % / logging
    name = "a%d" % idx if idx % 2 == 0 else ("a%d" % idx) + " {IDLE, BUSY} {} %s %d {0}"
    if given is not None:
        name = given
    if kind == "AP":
        return assert_always_true_for_protocol(PROTO[arg], name)(lambda node: _truthy(_flag(node), idx))
    if kind == "EP":
        return assert_eventually_true_for_protocol(PROTO[arg], name)(lambda node: _truthy(_flag(node), idx + 1))
    q = all if arg == "all" else any
    if kind == "ASIM":
        return assert_always_true_for_simulation(name)(lambda nodes: _truthy(q(_flag(n) for n in nodes), idx + 2))
    if kind == "ESIM":
        return assert_eventually_true_for_simulation(name)(lambda nodes: _truthy(q(_flag(n) for n in nodes), idx + 3))
    raise ValueError(spec)


class _Quiet:
    """Silences the simulator's logging (a StreamHandler on stderr is added to the root logger by
    every Simulator) and removes the handlers afterwards."""

    def __enter__(self):
        self._err = sys.stderr
        self._devnull = open(os.devnull, "w")
        sys.stderr = self._devnull
        return self

    def __exit__(self, *a):
        sys.stderr = self._err
        self._devnull.close()
        root = logging.getLogger()
        for h in list(root.handlers):
            root.removeHandler(h)
        root.setLevel(logging.WARNING)


_CONFIGS = {}


def _shared_config(key, make):
    """One configuration object per distinct parameter set, handed to every simulation of this process that uses
    these parameters (what a user does who builds several simulations from one configuration): a handler must
    treat the configuration it is given as read-only."""
    if key not in _CONFIGS:
        if len(_CONFIGS) > 5000:
            _CONFIGS.clear()
        _CONFIGS[key] = make()
    return _CONFIGS[key]


def run_sim_impl(sc, variant=None):
    """Runs the implementation on scenario `sc`; returns (trace lines, draws consumed)."""
    variant = variant or sc.get("variant") or {}
    CTX.scenario, CTX.trace, CTX.draws = sc, [], 0
    CTX.sim = None
    CTX.fired = 0
    CTX.ncb = 0
    CTX.inside = None
    CTX.kept_telemetry = []
    orig_random = random.random
    stream = sc.get("stream")
    box = {}

    def reset_random():
        if stream is not None:
            box["it"] = iter(stream)
        else:
            random.seed(sc.get("seed", 0))
    if stream is not None:
        def scripted():
            CTX.draws += 1
            return next(box["it"], 0.0)
        random.random = scripted
    else:
        def counting():
            CTX.draws += 1
            return orig_random()
        random.random = counting
    reset_random()
    import signal
    old_handler = signal.signal(signal.SIGALRM, _alarm)
    signal.setitimer(signal.ITIMER_REAL, sc.get("time_limit", 20.0))
    try:
        with _Quiet():
            cfg = SimulationConfiguration(duration=_num(sc["dur"]) if sc["dur"] is not None else None, max_iterations=sc["maxit"],
                                          execution_logging=variant.get("execution_logging", False),
                                          debug=variant.get("debug", False),
                                          profile=variant.get("profile", False),
                                          real_time=variant.get("real_time", False),
                                          log_file=variant.get("log_file"))
            late = []
            if sc.get("late_config"):
                # the configuration objects are handed over first and filled in afterwards (before the simulation is
                # built): they are plain mutable dataclasses, and what counts is what they say when the run starts
                want = (cfg.duration, cfg.max_iterations)
                cfg.duration, cfg.max_iterations = 1e-3, 1
                late.append(lambda: (setattr(cfg, "duration", want[0]), setattr(cfg, "max_iterations", want[1])))
            b = SimulationBuilder(cfg)

            def add_nodes():
                ids = []
                for nd in sc["nodes"]:
                    cls = PROTO[nd["ty"]]
                    if sc.get("late_classes"):
                        # the concrete protocol class is defined in the scenario script, long after the module that states
                        # the assertions about its base class was imported
                        # (every second one with a helper mixin listed before the protocol base)
                        cls = type(cls.__name__, (_HelperMixin, cls) if len(ids) % 2 else (cls,), {})
                    ids.append(b.add_node(cls, tuple(_num(float(v)) for v in nd["pos"])))
                if ids != list(range(len(ids))):
                    CTX.trace.append("ids %s" % ids)
            if sc.get("nodes_first"):
                add_nodes()       # the order of add_node / add_handler calls is the user's choice
            rng, delay, fail = sc["med"]
            rate, speed, ref = sc["mob"]
            for h in sc["handlers"]:
                if sc.get("replaced_handlers") and h in ("T", "C", "M"):
                    # a helper prepared the builder with default handlers; the scenario's own handlers, added next under the
                    # same labels, replace them: only the last registered handler of a label is part of the simulation
                    b.add_handler({"T": TimerHandler, "C": CommunicationHandler, "M": MobilityHandler}[h]())
                if h == "T":
                    b.add_handler(TimerHandler())
                elif h == "C" and sc.get("late_config"):
                    med = CommunicationMedium(transmission_range=1e-6, delay=7.0, failure_rate=0.5 if _num(fail) in (0, 1) else 1)
                    b.add_handler(CommunicationHandler(med))
                    late.append(lambda med=med: (setattr(med, "transmission_range", _num(rng)), setattr(med, "delay", _num(delay)),
                                                 setattr(med, "failure_rate", _num(fail))))
                elif h == "M" and sc.get("late_config"):
                    mc = MobilityConfiguration(update_rate=977.0, default_speed=1e-3, reference_coordinates=(10.0, 10.0, 10.0))
                    b.add_handler(MobilityHandler(mc))
                    late.append(lambda mc=mc: (setattr(mc, "update_rate", _num(rate)), setattr(mc, "default_speed", _num(speed)),
                                               setattr(mc, "reference_coordinates", tuple(ref))))
                elif h == "C":
                    b.add_handler(CommunicationHandler(_shared_config(("med", rng, delay, fail, bool(sc.get("int_numbers")), bool(sc.get("positional_config"))),
                        (lambda: CommunicationMedium(_num(rng), _num(delay), _num(fail))) if sc.get("positional_config") else
                        (lambda: CommunicationMedium(transmission_range=_num(rng), delay=_num(delay), failure_rate=_num(fail))))))
                elif h == "M":
                    b.add_handler(MobilityHandler(_shared_config(("mob", rate, speed, tuple(ref), bool(sc.get("int_numbers")), bool(sc.get("positional_config"))),
                        (lambda: MobilityConfiguration(_num(rate), _num(speed), tuple(ref))) if sc.get("positional_config") else
                        (lambda: MobilityConfiguration(update_rate=_num(rate), default_speed=_num(speed), reference_coordinates=tuple(ref))))))
                elif h == "A":
                    b.add_handler(AssertionHandler([make_assertion(i, s) for i, s in enumerate(sc["asserts"])]))
                elif h.startswith("R"):
                    b.add_handler(make_recorder(int(h[1:])))
                else:
                    raise ValueError(h)
            if not sc.get("nodes_first"):
                add_nodes()
            for f in late:
                f()
            if sc.get("rerun") and sc["drv"][0] == "run":
                # the scenario is first run once to its end from the same builder (same handler objects); what is
                # recorded is the SECOND run, which must be what a fresh run is
                first = b.build()
                CTX.sim = first
                try:
                    first.start_simulation()
                except FailedAssertionException:
                    pass
                del CTX.trace[:]
                CTX.draws = 0
                reset_random()
            if sc.get("build_twice"):
                b.build()                   # "build the scenario again": the first simulator is simply dropped
            sim = b.build()
            if sc.get("builder_reused"):
                # the builder goes on to prepare ANOTHER simulation -- fresh handler objects with other settings under the same
                # labels, one more node -- and builds it; the simulator built first is the one that runs ("nodes and handlers
                # added after this call will not affect the instance returned by this method")
                for h in sc["handlers"]:
                    if h == "T":
                        b.add_handler(TimerHandler())
                    elif h == "C":
                        b.add_handler(CommunicationHandler(CommunicationMedium(transmission_range=1e9, delay=3.0)))
                    elif h == "M":
                        b.add_handler(MobilityHandler(MobilityConfiguration(update_rate=0.37, default_speed=99.0)))
                    elif h == "A":
                        b.add_handler(AssertionHandler([]))
                    elif h.startswith("R"):
                        b.add_handler(make_recorder(int(h[1:]) + 90, label="rec%d" % int(h[1:])))
                b.add_node(PROTO[0], (1.0, 1.0, 1.0))
                b.build()
            if sc.get("forked"):
                # a prepared simulation is forked with copy.deepcopy before it starts, and the copy is the one that runs
                import copy as _copy
                try:
                    sim = _copy.deepcopy(sim)
                except Exception:  # noqa: BLE001
                    pass            # (a simulator that cannot be copied is no finding: copying is not part of the library's interface)
            CTX.sim = sim
            if sc.get("poll_done"):
                sim.is_simulation_done()    # a read-only query, asked before anything has run
            status = "done"
            drv = sc["drv"]
            if drv[0] in ("run", "runrun"):
                try:
                    if sc.get("worker_thread"):
                        # built here, run in another thread (joined at once: nothing runs concurrently)
                        import threading
                        boxed = []

                        def work():
                            try:
                                sim.start_simulation()
                                if drv[0] == "runrun":
                                    sim.start_simulation()
                            except BaseException as e:  # noqa: BLE001
                                boxed.append(e)
                        th = threading.Thread(target=work)
                        th.start()
                        th.join()
                        if boxed:
                            raise boxed[0]
                    else:
                        sim.start_simulation()
                        if drv[0] == "runrun":
                            sim.start_simulation()
                except FailedAssertionException as e:
                    CTX.trace.append(_assert_line(e))
                    status = "aborted"
            elif drv[0] != "drive":
                status = "running"
                for _ in range(drv[1]):
                    try:
                        r = sim.step_simulation()
                    except FailedAssertionException as e:
                        CTX.trace.append(_assert_line(e))
                        CTX.trace.append("ret raised")
                        status = "aborted"
                        break
                    CTX.trace.append("ret %s" % ("true" if r else "false"))
                    if sc.get("poll_done"):
                        sim.is_simulation_done()
                    if not r:
                        status = "done"
                if drv[0] == "mixed" and status != "aborted":
                    try:
                        sim.start_simulation()
                        status = "done"
                    except FailedAssertionException as e:
                        CTX.trace.append(_assert_line(e))
                        status = "aborted"
            if drv[0] == "drive":
                status = "running"
                ops_, skip = drv[1], False
                for j, op in enumerate(ops_):
                    if skip:
                        skip = False
                        continue
                    if op[0] == "ext":
                        sim.get_node(op[1]).protocol_encapsulator.protocol.external(op[2])
                        continue
                    CTX.inside = None
                    if sc.get("ext_inside") and j + 1 < len(ops_) and ops_[j + 1][0] == "ext" and "M" not in sc["handlers"]:
                        # the requests that follow this step are made from INSIDE the callback this step runs (if it runs a
                        # timer or packet callback), by the node being called back, through the other node's provider
                        CTX.inside = (ops_[j + 1][1], ops_[j + 1][2])
                    try:
                        r = sim.step_simulation()
                    except FailedAssertionException as e:
                        CTX.trace.append(_assert_line(e))
                        CTX.trace.append("ret raised")
                        status = "aborted"
                        break
                    CTX.trace.append("ret %s" % ("true" if r else "false"))
                    if sc.get("ext_inside") and j + 1 < len(ops_) and ops_[j + 1][0] == "ext" and "M" not in sc["handlers"] and CTX.inside is None:
                        CTX.trace.extend(CTX.inside_lines)
                        skip = True
                    CTX.inside = None
                    if not r:
                        status = "done"
            it_count = getattr(sim, "_iteration", "?")
            for nid, when, tel, then in CTX.kept_telemetry:
                try:
                    q = tel.current_position
                    now_ = (float(q[0]), float(q[1]), float(q[2]))
                except Exception:  # noqa: BLE001
                    now_ = None
                if now_ != then:
                    CTX.trace.insert(len(CTX.trace), "stale %d telemetry kept from time %s reported %s and reports %s now" % (nid, fhex(when), then, now_))
                    break
            CTX.trace.append("end %s iter %s draws %d" % (status, it_count, CTX.draws))
    except Runaway as e:
        del CTX.trace[3000:]
        CTX.trace.append("runaway %s" % e)
    finally:
        signal.setitimer(signal.ITIMER_REAL, 0)
        signal.signal(signal.SIGALRM, old_handler)
        random.random = orig_random
        CTX.sim = None
        CTX.kept_telemetry = None
    return CTX.trace, CTX.draws


def _assert_line(e):
    m = re.search(r'Assertion "a(\d+)[ "]', str(e))
    return "assertfail %s" % (m.group(1) if m else "?")


# --------------------------------------------------------------------------------------------
# serialisation for ocaml/driver.ml
# --------------------------------------------------------------------------------------------

def _sact_text(a):
    if a[0] == "settimer":
        return "settimer %d %s %s" % (a[1], a[2], fhex(a[3]))
    if a[0] == "gotohere":
        return "gotohere"
    return _act_str(a)


def sim_to_text(sid, sc, stream, fuel=80000, show_exec=False):
    fuel = max(fuel, sc.get("fuel", 0))
    p = ["BEGIN %s sim" % sid]
    p.append("H %d" % len(sc["handlers"]))
    for h in sc["handlers"]:
        p.append("R %s" % h[1:] if h.startswith("R") else h)
    p.append("N %d" % len(sc["nodes"]))
    for nd in sc["nodes"]:
        p.append("%s %s %s %d" % (fhex(nd["pos"][0]), fhex(nd["pos"][1]), fhex(nd["pos"][2]), nd["ty"]))
    p.append("MED %s %s %s" % tuple(fhex(x) for x in sc["med"]))
    rate, speed, ref = sc["mob"]
    p.append("MOB %s %s %s %s %s" % (fhex(rate), fhex(speed), fhex(ref[0]), fhex(ref[1]), fhex(ref[2])))
    p.append("AS %d" % len(sc["asserts"]))
    for k, arg in sc["asserts"]:
        p.append("%s %s" % (k, arg))
    p.append("RNG %d %s" % (len(stream), " ".join(fhex(u) for u in stream)))
    p.append("DUR %s" % ("none" if sc["dur"] is None else "some " + fhex(sc["dur"])))
    p.append("MAXIT %s" % ("none" if sc["maxit"] is None else "some %d" % max(0, sc["maxit"])))     # a negative limit allows no event, like 0
    if sc["drv"][0] == "run":
        p.append("DRV run %d" % fuel)
    elif sc["drv"][0] == "runrun":
        p.append("DRV runrun %d" % fuel)
    elif sc["drv"][0] == "mixed":
        p.append("DRV mixed %d %d" % (sc["drv"][1], fuel))
    elif sc["drv"][0] == "drive":
        p.append("DRV drive %d" % len(sc["drv"][1]))
        for op in sc["drv"][1]:
            if op[0] == "step":
                p.append("step")
            else:
                p.append("ext %d %d %s" % (op[1], len(op[2]), " ".join(_act_str(a) for a in op[2])))
    else:
        p.append("DRV steps %d" % sc["drv"][1])
    if show_exec:
        p.append("SHOWEXEC")
    p.append("SCRIPT")
    for rules in sc["script"]:
        p.append("%d" % len(rules))
        for r in rules:
            t = r["trig"]
            if t[0] in ("timer", "packet"):
                p.append("%s %s" % (t[0], "any" if t[1] is None else str(t[1])))
            else:
                p.append(t[0])
            p.append("any" if r["nth"] is None else str(r["nth"]))
            p.append("%d" % len(r["acts"]))
            for a in r["acts"]:
                p.append(_sact_text(a))
    p.append("END")
    return " ".join(p) + "\n"


def model_stream(sc, draws):
    """The oracle stream handed to the model: the scripted one, or the first `draws` outputs of
    random.Random(seed) (the implementation ran under random.seed(seed))."""
    if sc.get("stream") is not None:
        return list(sc["stream"])
    r = random.Random(sc.get("seed", 0))
    return [r.random() for _ in range(draws)]
