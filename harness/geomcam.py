"""Implementation side, serialisation, generators and monitors for the camera extension (C19)
and the geographic conversion (C20)."""
import math

from common import fhex
import scripted as S

from gradysim.protocol.interface import IProtocol
from gradysim.protocol.position import geo_to_cartesian
from gradysim.simulator.extension.camera import CameraHardware, CameraConfiguration
from gradysim.simulator.handler.mobility import MobilityHandler
from gradysim.simulator.simulation import SimulationBuilder, SimulationConfiguration


class _P(IProtocol):
    def initialize(self):
        pass

    def handle_timer(self, timer):
        pass

    def handle_packet(self, message):
        pass

    def handle_telemetry(self, telemetry):
        pass

    def finish(self):
        pass


def run_camera_impl(case):
    """case: reach, theta, el, rot, me, nodes [(x,y,z)], optional first (el0, rot0) then change_facing"""
    with S._Quiet():
        b = SimulationBuilder(SimulationConfiguration(execution_logging=False))
        b.add_handler(MobilityHandler())
        for p in case["nodes"]:
            b.add_node(_P, tuple(p))
        sim = b.build()
        proto = sim.get_node(case["me"]).protocol_encapsulator.protocol
        try:
            if case.get("shared"):
                # two cameras built from ONE configuration object, both turned to the same new facing
                cfg = CameraConfiguration(case["reach"], case["theta"], case["first"][0], case["first"][1])
                cam_a = CameraHardware(proto, cfg)
                cam = CameraHardware(proto, cfg)
                cam_a.change_facing(case["el"], case["rot"])
                cam.change_facing(case["el"], case["rot"])
            elif case.get("first") is not None:
                cam = CameraHardware(proto, CameraConfiguration(case["reach"], case["theta"], case["first"][0], case["first"][1]))
                cam.change_facing(case["el"], case["rot"])
            else:
                cam = CameraHardware(proto, CameraConfiguration(case["reach"], case["theta"], case["el"], case["rot"]))
            if case.get("before"):
                # the same camera has taken a picture before, of the scene as it was: a picture is a function of the scene
                # at the moment it is taken
                for i, q in enumerate(case["before"]):
                    sim.get_node(i).position = tuple(q)
                cam.take_picture()
                for i, q in enumerate(case["nodes"]):
                    sim.get_node(i).position = tuple(q)
            pic = cam.take_picture()
        except Exception as e:  # noqa: BLE001
            return ["error"], type(e).__name__
    # recover node indices: the picture keeps node order
    out, k = [], 0
    nodes = [tuple(p) for p in case["nodes"]]
    for d in pic:
        pos = tuple(d["position"])
        while k < len(nodes) and (k == case["me"] or nodes[k] != pos):
            k += 1
        idx = k if k < len(nodes) else -1
        k += 1
        out.append("%d %s %s %s" % (idx, fhex(pos[0]), fhex(pos[1]), fhex(pos[2])))
    return ["picture" + "".join(" | " + x for x in out)], None


def camera_to_text(sid, case):
    p = ["BEGIN %s camera %s %s %s %s %d %d" % (sid, fhex(case["reach"]), fhex(case["theta"]), fhex(case["el"]), fhex(case["rot"]),
                                              case["me"], len(case["nodes"]))]
    for q in case["nodes"]:
        p.append("%s %s %s" % tuple(fhex(x) for x in q))
    p.append("END")
    return " ".join(p) + "\n"


def cam_vec(el, rot):
    e, r = math.radians(el), math.radians(rot)
    return (math.sin(e) * math.cos(r), math.sin(e) * math.sin(r), math.cos(e))


def gen_camera_case(R, integer=False):
    el = R.choice([0.0, 90.0, 180.0, 45.0, R.uniform(0, 180), R.uniform(0, 180)])
    rot = R.choice([0.0, 90.0, 180.0, 270.0, R.uniform(0, 360), R.uniform(0, 360)])
    if R.random() < 0.25:
        # angles outside the usual ranges are legal (the axis is a trigonometric function of them)
        el = R.choice([-90.0, -45.0, 225.0, 270.0, 360.0, 405.0, R.uniform(-360, 720)])
        rot = R.choice([rot, -90.0, 450.0, 720.0, R.uniform(-720, 720)])
    theta = R.choice([5.0, 15.0, 30.0, 45.0, 60.0, 90.0, 120.0, 180.0, 200.0, 270.0, R.uniform(1, 179)])
    reach = R.choice([5.0, 10.0, 20.0, R.uniform(1, 30)])
    if R.random() < 0.12:
        # legal boundary values: a cone of angle 0 still contains its axis, a reach of 0 still contains the camera's own spot
        theta = R.choice([0.0, theta])
        reach = R.choice([0.0, reach, reach])
    n = R.randint(1, 7)
    if integer:
        cam = (float(R.randint(-5, 5)), float(R.randint(-5, 5)), float(R.randint(0, 5)))
    else:
        cam = (R.uniform(-5, 5), R.uniform(-5, 5), R.uniform(0, 5))
    v = cam_vec(el, rot)
    nodes = []
    for _ in range(n):
        x = R.random()
        if integer:
            nodes.append((float(R.randint(-12, 12)), float(R.randint(-12, 12)), float(R.randint(-3, 12))))
        elif x < 0.3:       # exactly collinear with the axis (in front)
            d = R.choice([R.uniform(0.1, reach), reach, reach * 0.5, R.uniform(0.01, 3 * reach)])
            nodes.append((cam[0] + v[0] * d, cam[1] + v[1] * d, cam[2] + v[2] * d))
        elif x < 0.4:       # exactly opposite
            d = R.uniform(0.1, reach)
            nodes.append((cam[0] - v[0] * d, cam[1] - v[1] * d, cam[2] - v[2] * d))
        elif x < 0.47:      # at the camera's own position
            nodes.append(cam)
        else:
            nodes.append((cam[0] + R.uniform(-reach, reach), cam[1] + R.uniform(-reach, reach), cam[2] + R.uniform(-reach, reach)))
    me = R.randrange(n + 1)
    nodes.insert(me, cam)
    case = {"reach": reach, "theta": theta, "el": el, "rot": rot, "me": me, "nodes": nodes}
    if R.random() < 0.2:
        case["first"] = (R.choice([R.uniform(0, 180), 225.0, -90.0]), R.uniform(0, 360))
        if R.random() < 0.5:
            case["shared"] = True
    return case


def gen_two_pictures_case(R):
    """a small integer scene photographed twice by the same camera, every node (the camera's too, sometimes) having moved by
    one unit along one axis in between; short reaches, so that one unit matters"""
    cam = (float(R.randint(-3, 3)), float(R.randint(-3, 3)), float(R.randint(-3, 3)))
    n = R.randint(1, 5)
    nodes = [(cam[0] + R.randint(-3, 3), cam[1] + R.randint(-3, 3), cam[2] + R.randint(-3, 3)) for _ in range(n)]
    me = R.randrange(n + 1)
    nodes.insert(me, cam)
    before = []
    for i, q in enumerate(nodes):
        q = list(q)
        if i != me or R.random() < 0.3:
            k = R.randrange(3)
            q[k] += R.choice([-1.0, 1.0])
        before.append(tuple(q))
    return {"reach": R.choice([1.5, 2.5, 3.5, 10.0]), "theta": R.choice([30.0, 60.0, 90.0, 200.0]),
            "el": R.choice([0.0, 90.0, 180.0, 90.0]), "rot": R.choice([0.0, 90.0, 180.0, 270.0]), "me": me,
            "nodes": [tuple(float(x) for x in q) for q in nodes], "before": before}


def mon_C19(case, lines, exc=None):
    v = []
    if lines and lines[0] == "error":
        return ["C19: take_picture raised %s (reach %r theta %r elevation %r rotation %r)" % (exc, case["reach"], case["theta"], case["el"], case["rot"])]
    items = [x.strip() for x in lines[0].split("|")][1:]
    got = set()
    for it in items:
        t = it.split()
        got.add(int(t[0]))
    me = case["me"]
    if me in got:
        v.append("C19: the camera's own node is in its picture")
    if -1 in got:
        v.append("C19: the picture contains a position that is no other node's current position")
    cam = case["nodes"][me]
    cv = cam_vec(case["el"], case["rot"])
    theta = math.radians(case["theta"])
    band = 1e-4
    for i, p in enumerate(case["nodes"]):
        if i == me:
            continue
        rel = (p[0] - cam[0], p[1] - cam[1], p[2] - cam[2])
        d = math.sqrt(rel[0] ** 2 + rel[1] ** 2 + rel[2] ** 2)
        if d > case["reach"] * (1 + 1e-9) + 1e-9:
            if i in got:
                v.append("C19: node %d at distance %r is reported, the reach is %r" % (i, d, case["reach"]))
            continue
        if d < case["reach"] * (1 - 1e-9) - 1e-9:
            if d == 0:
                if i not in got:
                    v.append("C19: node %d at the camera's own position is not reported" % i)
                continue
            cr = (cv[1] * rel[2] - cv[2] * rel[1], cv[2] * rel[0] - cv[0] * rel[2], cv[0] * rel[1] - cv[1] * rel[0])
            ang = math.atan2(math.sqrt(cr[0] ** 2 + cr[1] ** 2 + cr[2] ** 2), cv[0] * rel[0] + cv[1] * rel[1] + cv[2] * rel[2])
            if ang < theta - band and i not in got:
                v.append("C19: node %d at distance %r, %r rad off the axis (cone angle %r rad) is not reported" % (i, d, ang, theta))
            if ang > theta + band and i in got:
                v.append("C19: node %d, %r rad off the axis (cone angle %r rad), is reported" % (i, ang, theta))
    return v


# ---------------------------------------------------------------------------------------------
def run_geo_impl(case):
    out = []
    for p in case["pts"]:
        try:
            x, y, z = geo_to_cartesian(tuple(case["ref"]), tuple(p))
            out.append("%s %s %s" % (fhex(x), fhex(y), fhex(z)))
        except Exception as e:  # noqa: BLE001
            out.append("exc:" + type(e).__name__)
    return out


def geo_to_text(sid, case):
    p = ["BEGIN %s geo %s %s %s %d" % (sid, fhex(case["ref"][0]), fhex(case["ref"][1]), fhex(case["ref"][2]), len(case["pts"]))]
    for q in case["pts"]:
        p.append("%s %s %s" % tuple(fhex(x) for x in q))
    p.append("END")
    return " ".join(p) + "\n"


def gen_geo_case(R):
    ref = (R.choice([0.0, R.uniform(-60, 60), R.uniform(-60, 60), -22.9, 51.5]), R.choice([0.0, R.uniform(-179, 179), R.uniform(-179, 179), -43.2, 0.001]),
           R.choice([0.0, 10.0, R.uniform(0, 500)]))
    pts = []
    for _ in range(R.randint(2, 8)):
        m = R.random()
        dl = R.choice([0.0, 1.0, -1.0]) if m < 0.15 else R.uniform(-1, 1)
        dm = R.choice([0.0, 1.0, -1.0]) if m < 0.15 else R.uniform(-1, 1)
        scale = R.choice([0.012, 0.005, 0.0001, 0.001])          # degrees: up to ~1.3 km per axis
        alt = R.choice([ref[2], ref[2] + R.uniform(-50, 50), 0.0, 100.0])          # incl. round flight levels and exactly 0
        pts.append((ref[0] + dl * scale, ref[1] + dm * scale, alt))
    return {"ref": ref, "pts": pts}


def gen_geo_seam_case(R):
    """references within a couple of kilometres of the equator and / or the prime meridian (either side, and exactly on
    them), targets on both sides: the seams where a signed quantity changes sign"""
    near = lambda: R.choice([R.uniform(0.0005, 0.02), -R.uniform(0.0005, 0.02), 0.0, R.uniform(-0.004, 0.004)])   # noqa: E731
    ref = (near() if R.random() < 0.8 else R.uniform(-60, 60), near() if R.random() < 0.6 else R.uniform(-179, 179),
           R.choice([0.0, 100.0]))
    pts = []
    for _ in range(R.randint(3, 8)):
        pts.append((ref[0] + R.choice([-1, 1]) * R.uniform(0.002, 0.03), ref[1] + R.choice([-1, 1]) * R.uniform(0.002, 0.03),
                    R.choice([ref[2], 0.0, 50.0])))
    return {"ref": ref, "pts": pts}


def gen_geo_highlat_case(R):
    """sites at high latitudes (still 18 degrees and more from the poles) with targets several kilometres due east / west and
    a couple of kilometres north / south: the degree of longitude is short there, so a few kilometres are tenths of a degree"""
    lat = R.choice([-1, 1]) * R.uniform(62.0, 72.0)
    ref = (lat, R.uniform(-179, 179), R.choice([0.0, 50.0]))
    pts = []
    for _ in range(R.randint(3, 7)):
        dlon = R.choice([-1, 1]) * R.uniform(0.02, 0.2)           # up to ~10 km at 62 degrees, ~7 km at 72
        dlat = R.choice([0.0, 0.0, R.uniform(-0.015, 0.015)])     # up to ~1.7 km
        pts.append((ref[0] + dlat, ref[1] + dlon, R.choice([ref[2], 0.0, 120.0])))
    return {"ref": ref, "pts": pts}


def great_circle(a, b):
    la1, lo1, la2, lo2 = map(math.radians, (a[0], a[1], b[0], b[1]))
    h = math.sin((la2 - la1) / 2) ** 2 + math.cos(la1) * math.cos(la2) * math.sin((lo2 - lo1) / 2) ** 2
    return 2 * 6371000 * math.asin(min(1.0, math.sqrt(h)))


def mon_C20(case, lines):
    v = []
    ref = case["ref"]
    conv = []
    for p, l in zip(case["pts"], lines):
        if l.startswith("exc:"):
            return ["C20: geo_to_cartesian raised %s for %s" % (l[4:], p)]
        conv.append(tuple(float.fromhex(t) for t in l.split()))
    for p, c in zip(case["pts"], conv):
        if p[1] > ref[1] and c[0] < 0 or p[1] < ref[1] and c[0] > 0:
            v.append("C20: target east/west of the reference (lon %r vs %r) got x = %r" % (p[1], ref[1], c[0]))
        if p[0] > ref[0] and c[1] < 0 or p[0] < ref[0] and c[1] > 0:
            v.append("C20: target north/south of the reference (lat %r vs %r) got y = %r" % (p[0], ref[0], c[1]))
        if c[2] != p[2] - ref[2]:
            v.append("C20: altitude difference %r converted to z = %r" % (p[2] - ref[2], c[2]))
    pts = [ref] + list(case["pts"])
    cs = [(0.0, 0.0, 0.0)] + conv
    for i in range(len(pts)):
        for j in range(i + 1, len(pts)):
            gc = great_circle(pts[i], pts[j])
            want = math.sqrt(gc ** 2 + (pts[i][2] - pts[j][2]) ** 2)
            got = math.dist(cs[i], cs[j])
            if want > 1.0 and abs(got - want) / want > 0.005:
                v.append("C20: points %s and %s are %.2f m apart (great circle + altitude), their converted images %.2f m (%.2f%%)"
                         % (pts[i], pts[j], want, got, 100 * abs(got - want) / want))
    return v
