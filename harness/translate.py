"""Fail-closed translator for the floating-point kernels of /repo (second tie between model and
code, next to the behavioural correspondence): the arithmetic of
  protocol/position.py        (_haversine_distance, geo_to_cartesian, squared_distance)
  handler/communication.py    (can_transmit: squared distance and range test)
  handler/mobility.py         (_update_movement: one node's step)
  extension/camera.py         (_camera_direction_unit_vector, the cone test of take_picture)
is translated from the Python AST into Gallina over `ArithOps F`, written to build/gen/Gen.v and
compiled together with lemmas stating that each generated definition IS the hand-written model's
(proved by `reflexivity`: the two terms must be convertible).  Any construct the translator does
not know makes it fail (never guess).  A harmless rewrite of the source can break the equality
too; that is reported as a broken correspondence, not as a property violation."""
import ast
import os
import subprocess

from common import VERIF, REPO, BUILD


class Unsupported(Exception):
    pass


CONSTS = {0: "(f0 A)", 1: "(f1 A)", 2: "(f2 A)", 6371000: "(fearth A)", 1e-6: "(f1em6 A)", 1.0: "(f1 A)", -1.0: "(fneg A (f1 A))"}
MATH = {"radians": "frad", "sin": "fsin", "cos": "fcos", "acos": "facos", "sqrt": "fsqrt"}


class Tr:
    """expression translator; env maps Python names to Coq terms, tuples to ('tuple', [terms])"""

    def __init__(self, env, funcs=None, subs=None):
        self.env = dict(env)
        self.funcs = funcs or {}
        self.subs = subs or {}            # textual source of special sub-expressions -> Coq term

    def expr(self, e):
        src = ast.unparse(e)
        if src in self.subs:
            return self.subs[src]
        if isinstance(e, ast.Constant) and isinstance(e.value, (int, float)) and not isinstance(e.value, bool):
            if e.value in CONSTS:
                return CONSTS[e.value]
            raise Unsupported("constant %r" % (e.value,))
        if isinstance(e, ast.Name):
            if e.id in self.env:
                v = self.env[e.id]
                if isinstance(v, tuple):
                    return "(%s)" % ", ".join(v[1])
                return v
            raise Unsupported("name %s" % e.id)
        if isinstance(e, ast.Tuple):
            return "(%s)" % ", ".join(self.expr(x) for x in e.elts)
        if isinstance(e, ast.Subscript):
            idx = e.slice
            if isinstance(idx, ast.Constant) and isinstance(idx.value, int) and isinstance(e.value, ast.Name) and e.value.id in self.env:
                v = self.env[e.value.id]
                if isinstance(v, tuple):
                    return v[1][idx.value]
                raise Unsupported("subscript of non-tuple %s" % e.value.id)
            raise Unsupported("subscript %s" % src)
        if isinstance(e, ast.UnaryOp) and isinstance(e.op, ast.USub):
            return "(fneg A %s)" % self.expr(e.operand)
        if isinstance(e, ast.BinOp):
            if isinstance(e.op, ast.Pow):
                if isinstance(e.right, ast.Constant) and e.right.value == 2:
                    return "(fsq A %s)" % self.expr(e.left)
                raise Unsupported("power %s" % src)
            ops = {ast.Add: "fadd", ast.Sub: "fsub", ast.Mult: "fmul", ast.Div: "fdiv"}
            for k, f in ops.items():
                if isinstance(e.op, k):
                    return "(%s A %s %s)" % (f, self.expr(e.left), self.expr(e.right))
            raise Unsupported("operator %s" % src)
        if isinstance(e, ast.Compare) and len(e.ops) == 1:
            a, b = self.expr(e.left), self.expr(e.comparators[0])
            op = e.ops[0]
            if isinstance(op, ast.LtE):
                return "(fleb A %s %s)" % (a, b)
            if isinstance(op, ast.GtE):
                return "(fleb A %s %s)" % (b, a)
            if isinstance(op, ast.Lt):
                return "(fltb A %s %s)" % (a, b)
            if isinstance(op, ast.Gt):
                return "(fltb A %s %s)" % (b, a)
            raise Unsupported("comparison %s" % src)
        if isinstance(e, ast.IfExp):
            return "(if %s then %s else %s)" % (self.expr(e.test), self.expr(e.body), self.expr(e.orelse))
        if isinstance(e, ast.Call):
            f = e.func
            if isinstance(f, ast.Attribute) and isinstance(f.value, ast.Name) and f.value.id == "math":
                if f.attr in MATH and len(e.args) == 1:
                    return "(%s A %s)" % (MATH[f.attr], self.expr(e.args[0]))
                if f.attr == "atan2" and len(e.args) == 2:
                    return "(fatan2 A %s %s)" % (self.expr(e.args[0]), self.expr(e.args[1]))
                raise Unsupported("math.%s" % f.attr)
            if isinstance(f, ast.Name) and f.id in self.funcs:
                return "(%s A %s)" % (self.funcs[f.id], " ".join(self.expr(a) for a in e.args))
            if isinstance(f, ast.Name) and f.id in ("min", "max") and len(e.args) == 2:
                a, b = self.expr(e.args[0]), self.expr(e.args[1])
                # Python: min(a, b) = b if b < a else a ; max(a, b) = b if b > a else a
                if f.id == "min":
                    return "(if fltb A %s %s then %s else %s)" % (b, a, b, a)
                return "(if fltb A %s %s then %s else %s)" % (a, b, b, a)
            raise Unsupported("call %s" % src)
        raise Unsupported("%s: %s" % (type(e).__name__, src))

    def bind(self, target, value):
        """Assign: returns the Coq 'let' text and extends the environment"""
        if isinstance(target, ast.Name):
            if isinstance(value, ast.Tuple):
                terms = [self.expr(x) for x in value.elts]
                names = ["%s_%d" % (target.id, i) for i in range(len(terms))]
                self.env[target.id] = ("tuple", names)
                return "".join("let %s := %s in\n  " % (n, t) for n, t in zip(names, terms))
            t = self.expr(value)
            self.env[target.id] = target.id
            return "let %s := %s in\n  " % (target.id, t)
        if isinstance(target, ast.Tuple) and isinstance(value, ast.Tuple) and len(target.elts) == len(value.elts):
            terms = [self.expr(x) for x in value.elts]           # evaluated before any name is rebound
            out = ""
            for t_, term in zip(target.elts, terms):
                if not isinstance(t_, ast.Name):
                    raise Unsupported("assignment target")
                self.env[t_.id] = t_.id
                out += "let %s := %s in\n  " % (t_.id, term)
            return out
        raise Unsupported("assignment %s" % ast.unparse(target))


def find_func(tree, name, cls=None):
    for node in ast.walk(tree):
        if cls is not None and isinstance(node, ast.ClassDef) and node.name == cls:
            for sub in node.body:
                if isinstance(sub, ast.FunctionDef) and sub.name == name:
                    return sub
        if cls is None and isinstance(node, ast.FunctionDef) and node.name == name:
            return node
    raise Unsupported("function %s not found" % name)


def body_stmts(fn):
    return [s for s in fn.body if not (isinstance(s, ast.Expr) and isinstance(s.value, ast.Constant))]


def straight_line(fn, env, funcs=None, subs=None):
    """function whose body is assignments followed by a return"""
    tr = Tr(env, funcs, subs)
    out = ""
    stmts = body_stmts(fn)
    for s in stmts[:-1]:
        if isinstance(s, ast.Assign) and len(s.targets) == 1:
            out += tr.bind(s.targets[0], s.value)
        else:
            raise Unsupported("statement %s" % ast.unparse(s)[:60])
    last = stmts[-1]
    if not isinstance(last, ast.Return):
        raise Unsupported("last statement is not a return")
    return out + tr.expr(last.value)


def gen_position(src):
    tree = ast.parse(src)
    hav = straight_line(find_func(tree, "_haversine_distance"),
                        {"coord1": ("tuple", ["lat1d", "lon1d"]), "coord2": ("tuple", ["lat2d", "lon2d"])})
    geo = straight_line(find_func(tree, "geo_to_cartesian"),
                        {"ref_coord": ("tuple", ["(vx ref)", "(vy ref)", "(vz ref)"]),
                         "target_coord": ("tuple", ["(vx tgt)", "(vy tgt)", "(vz tgt)"])},
                        funcs={"_haversine_distance": "gen_haversine_pair"})
    sqd = straight_line(find_func(tree, "squared_distance"),
                        {"start": ("tuple", ["(vx s)", "(vy s)", "(vz s)"]), "end": ("tuple", ["(vx e)", "(vy e)", "(vz e)"])})
    return """
Definition gen_haversine {F} (A : ArithOps F) (lat1d lon1d lat2d lon2d : F) : F :=
  %s.
Definition gen_haversine_pair {F} (A : ArithOps F) (c1 c2 : F * F) : F :=
  gen_haversine A (fst c1) (snd c1) (fst c2) (snd c2).
Definition gen_geo_to_cartesian {F} (A : ArithOps F) (ref tgt : vec3 F) : vec3 F :=
  %s.
Definition gen_squared_distance {F} (A : ArithOps F) (s e : vec3 F) : F :=
  %s.
Lemma gen_haversine_is_model : forall F (A : ArithOps F) a b c d, gen_haversine A a b c d = haversine A a b c d.
Proof. reflexivity. Qed.
Lemma gen_geo_is_model : forall F (A : ArithOps F) ref tgt, gen_geo_to_cartesian A ref tgt = geo_to_cartesian A ref tgt.
Proof. reflexivity. Qed.
Lemma gen_sqdist_is_model : forall F (A : ArithOps F) s e, gen_squared_distance A s e = sqdist A s e.
Proof. reflexivity. Qed.
""" % (hav, geo, sqd)


def find_assign(fn, name):
    for node in ast.walk(fn):
        if isinstance(node, ast.Assign) and len(node.targets) == 1 and isinstance(node.targets[0], ast.Name) and node.targets[0].id == name:
            return node
        if isinstance(node, ast.AnnAssign) and isinstance(node.target, ast.Name) and node.target.id == name and node.value is not None:
            a = ast.Assign(targets=[node.target], value=node.value)
            a.lineno = node.lineno
            return a
    raise Unsupported("assignment to %s not found in %s" % (name, fn.name))


def gen_communication(src):
    fn = find_func(ast.parse(src), "can_transmit", "CommunicationHandler")
    env = {"source_position": ("tuple", ["(vx s)", "(vy s)", "(vz s)"]),
           "destination_position": ("tuple", ["(vx d)", "(vy d)", "(vz d)"])}
    tr = Tr(env, subs={"self.transmission_ranges[node.id]": "r"})
    sq = tr.bind(find_assign(fn, "squared_distance").targets[0], find_assign(fn, "squared_distance").value)
    inr = tr.expr(find_assign(fn, "in_range").value)
    return """
Definition gen_in_range {F} (A : ArithOps F) (s d : vec3 F) (r : F) : bool :=
  %s%s.
Lemma gen_in_range_is_model : forall F (A : ArithOps F) s d r, gen_in_range A s d r = fleb A (sqdist A s d) (fsq A r).
Proof. reflexivity. Qed.
""" % (sq, inr)


def gen_mobility(src):
    fn = find_func(ast.parse(src), "_update_movement", "MobilityHandler")
    env = {"target": ("tuple", ["(vx tgt)", "(vy tgt)", "(vz tgt)"]),
           "current_position": ("tuple", ["(vx cur)", "(vy cur)", "(vz cur)"]), "speed": "speed"}
    tr = Tr(env, subs={"self._configuration.update_rate": "rate"})
    out = ""
    for name in ("target_vector", "movement_multiplier", "distance_delta"):
        a = find_assign(fn, name)
        out += tr.bind(a.targets[0], a.value)
    # the if / else that assigns node.position
    branch = None
    for node in ast.walk(fn):
        if isinstance(node, ast.If) and isinstance(node.test, ast.Compare) and "movement_multiplier" in ast.unparse(node.test):
            branch = node
    if branch is None or len(branch.body) != 1 or not branch.orelse:
        raise Unsupported("movement branch not found")
    test = tr.expr(branch.test)
    then_ = tr.expr(branch.body[0].value)
    els = ""
    tr2 = tr
    for s in branch.orelse[:-1]:
        els += tr2.bind(s.targets[0], s.value)
    els += tr2.expr(branch.orelse[-1].value)
    return """
Definition gen_move {F} (A : ArithOps F) (rate : F) (cur tgt : vec3 F) (speed : F) : vec3 F :=
  %sif %s then %s else
  %s.
Lemma gen_move_is_model : forall F (A : ArithOps F) (cfg : scfg F) cur tgt speed,
  gen_move A (c_rate cfg) cur tgt speed = move A cfg cur tgt speed.
Proof. intros F A cfg cur [[t0 t1] t2] speed. reflexivity. Qed.   (* the code rebuilds the target tuple *)
""" % (out, test, then_, els)


def gen_camera(src):
    tree = ast.parse(src)
    fn = find_func(tree, "_camera_direction_unit_vector", "CameraHardware")
    vec = straight_line(fn, {}, subs={"self._configuration.facing_elevation": "el", "self._configuration.facing_rotation": "rot"})
    tp = find_func(tree, "take_picture", "CameraHardware")
    env = {"other_node_position": ("tuple", ["(vx other)", "(vy other)", "(vz other)"]),
           "node_position": ("tuple", ["(vx cam)", "(vy cam)", "(vz cam)"])}
    tr = Tr(env, subs={"self._camera_vector[0]": "(vx cv)", "self._camera_vector[1]": "(vy cv)", "self._camera_vector[2]": "(vz cv)"})
    out = ""
    for name in ("relative_vector", "distance", "normalized_relative_vector"):
        a = find_assign(tp, name)
        out += tr.bind(a.targets[0], a.value)
    # dot_product is assigned twice: the sum, then the clamp
    dps = [n for n in ast.walk(tp) if isinstance(n, ast.Assign) and isinstance(n.targets[0], ast.Name) and n.targets[0].id == "dot_product"]
    if len(dps) != 2:
        raise Unsupported("expected the dot product and its clamp")
    dps.sort(key=lambda n: n.lineno)
    out += tr.bind(ast.Name("dp", ast.Store()), dps[0].value)
    tr.env["dot_product"] = "dp"
    clamp = tr.expr(dps[1].value)
    angle = find_assign(tp, "angle")
    tr.env["dot_product"] = "dpc"
    ang = Tr(tr.env, subs={"math.acos(dot_product)": "ac"}).expr(angle.value)
    return """
Definition gen_cam_vector {F} (A : ArithOps F) (el rot : F) : vec3 F :=
  %s.
Lemma gen_cam_vector_is_model : forall F (A : ArithOps F) c, gen_cam_vector A (cam_el c) (cam_rot c) = cam_vector A c.
Proof. reflexivity. Qed.
Definition gen_clamped_cosine {F} (A : ArithOps F) (cv cam other : vec3 F) : F :=
  %s%s.
Definition model_clamped_cosine {F} (A : ArithOps F) (cv cam other : vec3 F) : F :=
  let r0 := fsub A (vx other) (vx cam) in let r1 := fsub A (vy other) (vy cam) in let r2 := fsub A (vz other) (vz cam) in
  let d := fsqrt A (fadd A (fadd A (fsq A r0) (fsq A r1)) (fsq A r2)) in
  clamp1 A (fadd A (fadd A (fmul A (vx cv) (fdiv A r0 d)) (fmul A (vy cv) (fdiv A r1 d))) (fmul A (vz cv) (fdiv A r2 d))).
Lemma gen_clamped_cosine_is_model : forall F (A : ArithOps F) cv cam other,
  gen_clamped_cosine A cv cam other = model_clamped_cosine A cv cam other.
Proof. reflexivity. Qed.
Definition gen_angle {F} (A : ArithOps F) (ac : F) : F := %s.
Lemma gen_angle_is_model : forall F (A : ArithOps F) ac, gen_angle A ac = fsub A ac (f1em6 A).
Proof. reflexivity. Qed.
""" % (vec, out, clamp, ang)


PARTS = [("position", "gradysim/protocol/position.py", gen_position),
         ("communication", "gradysim/simulator/handler/communication.py", gen_communication),
         ("mobility", "gradysim/simulator/handler/mobility.py", gen_mobility),
         ("camera", "gradysim/simulator/extension/camera.py", gen_camera)]


def translate_and_check(which):
    """returns (ok, message); `which` = list of part names"""
    gen_dir = os.path.join(BUILD, "gen")
    os.makedirs(gen_dir, exist_ok=True)
    msgs, ok = [], True
    for name, path, fn in PARTS:
        if name not in which:
            continue
        try:
            body = fn(open(os.path.join(REPO, path)).read())
        except Unsupported as e:
            ok = False
            msgs.append("%s: translator does not understand the source any more (%s)" % (path, e))
            continue
        except SyntaxError as e:
            ok = False
            msgs.append("%s: syntax error %s" % (path, e))
            continue
        vfile = os.path.join(gen_dir, "Gen_%s_%d.v" % (name, os.getpid()))
        with open(vfile, "w") as f:
            f.write("(* generated from %s by harness/translate.py *)\nFrom Coq Require Import Bool.\n"
                    "From GS Require Import Num Geo Sim Camera.\n%s" % (path, body))
        p = subprocess.run("timeout 300 coqc -Q %s GS %s" % (os.path.join(VERIF, "coq"), vfile), shell=True, capture_output=True, text=True)
        for ext in (".v", ".vo", ".vok", ".vos", ".glob"):
            try:
                os.remove(vfile[:-2] + ext)
            except OSError:
                pass
        try:
            os.remove(os.path.join(gen_dir, ".Gen_%s_%d.aux" % (name, os.getpid())))
        except OSError:
            pass
        if p.returncode != 0:
            ok = False
            msgs.append("%s: the translated source is no longer the model's definition: %s" % (path, (p.stdout + p.stderr)[-600:]))
        else:
            msgs.append("%s: translated and proved equal to the model by reflexivity" % path)
    return ok, msgs
