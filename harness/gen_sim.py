"""Structured-random generator of whole-simulation scenarios (see coq/Script.v for the rule
language).  Every choice comes from the random.Random instance passed in, so a seed replays."""
import random

TIMES = [0.0, 0.25, 0.5, 0.75, 1.0, 1.5, 2.0, 2.5, 3.0, 4.0]
DELTAS = [0.0, 0.25, 0.5, 1.0, 1.0, 2.0, 0.1, 0.3]


def _pick(R, xs):
    return xs[R.randrange(len(xs))]


def gen_pos(R, spread):
    m = R.random()
    if m < 0.5:
        return (float(R.randint(-spread, spread)), float(R.randint(-spread, spread)), float(R.randint(0, max(1, spread // 2))))
    return (R.uniform(-spread, spread), R.uniform(-spread, spread), R.uniform(0, spread / 2))


def gen_action(R, prof, nn, me):
    kinds = prof.get("acts", ["settimer", "cancel", "send", "bcast", "goto", "speed", "range", "flag", "gotogeo"])
    w = prof.get("act_weights")
    k = R.choices(kinds, weights=w)[0] if w else _pick(R, kinds)
    if k == "settimer":
        name = R.randrange(3)
        m = R.random()
        if m < 0.55:
            return ("settimer", name, "rel", _pick(R, DELTAS) if R.random() < 0.8 else R.uniform(0, 2))
        if m < 0.9:
            return ("settimer", name, "abs", _pick(R, TIMES) if R.random() < 0.8 else R.uniform(0, 4))
        return ("settimer", name, "rel", -_pick(R, [0.25, 1.0, 1e-9]))          # malformed: in the past
    if k == "cancel":
        return ("cancel", R.randrange(3))
    if k == "send":
        m = R.random()
        msg = R.randrange(20)
        if m < prof.get("bad_send", 0.15):
            return ("send", msg, _pick(R, [me, nn, nn + 3, None, -1, -1, -2, 1000, 0.5, 1.5, "1", "0"]))   # malformed destinations
        others = [i for i in range(nn) if i != me]
        return ("send", msg, _pick(R, others) if others else me)
    if k == "bcast":
        if R.random() < prof.get("p_bcastdst", 0.1):
            return ("bcastdst", R.randrange(20), R.choice([me, me, R.randrange(nn), nn + 2]))
        return ("bcast", R.randrange(20))
    if k == "goto":
        p = gen_pos(R, prof.get("spread", 10))
        return ("goto",) + p
    if k == "gotogeo":
        ref = prof.get("ref", (0.0, 0.0, 0.0))
        return ("gotogeo", ref[0] + R.uniform(-2e-4, 2e-4), ref[1] + R.uniform(-2e-4, 2e-4), ref[2] + R.uniform(0, 5))
    if k == "speed":
        return ("speed", _pick(R, [0.0, 0.5, 1.0, 2.0, 5.0, 10.0, 100.0]) if R.random() < 0.8 else R.uniform(0, 20))
    if k == "range":
        m = R.random()
        if m < 0.12:
            return ("range", -_pick(R, [1.0, 0.5, 1e-9]))
        return ("range", _pick(R, [0.0, 1.0, 5.0, 10.0, 25.0, 100.0]) if R.random() < 0.8 else R.uniform(0, 30))
    if k == "flag":
        return ("flag", R.random() < 0.6)
    raise ValueError(k)


GENERATING = ("settimer", "send", "bcast", "bcastdst")


def gen_rule(R, prof, nn, me, bounded):
    trig_kinds = prof.get("trigs", ["init", "timer", "packet", "telem", "finish"])
    tw = prof.get("trig_weights")
    tk = R.choices(trig_kinds, weights=tw)[0] if tw else _pick(R, trig_kinds)
    if tk == "timer":
        trig = ("timer", None if R.random() < 0.4 else R.randrange(3))
    elif tk == "packet":
        trig = ("packet", None if R.random() < 0.7 else R.randrange(20))
    else:
        trig = (tk,)
    acts = [gen_action(R, prof, nn, me) for _ in range(R.randint(1, prof.get("max_acts", 4)))]
    if tk in ("init", "finish"):
        nth = None if R.random() < 0.8 else R.randrange(2)
    else:
        generating = any(a[0] in GENERATING for a in acts)
        if bounded and generating:
            nth = R.randrange(prof.get("max_nth", 4))
        else:
            nth = None if R.random() < 0.5 else R.randrange(prof.get("max_nth", 4))
    return {"trig": trig, "nth": nth, "acts": acts}


def gen_scenario(R, prof=None):
    prof = prof or {}
    nn = R.randint(prof.get("min_nodes", 1), prof.get("max_nodes", 4))
    hs = []
    for h, p in (("M", prof.get("p_mob", 0.5)), ("T", prof.get("p_timer", 0.9)), ("C", prof.get("p_comm", 0.85))):
        if R.random() < p:
            hs.append(h)
    nrec = R.choices([0, 1, 2], weights=prof.get("rec_weights", [5, 3, 1]))[0]
    for j in range(nrec):
        hs.append("R%d" % j)
    asserts = []
    if R.random() < prof.get("p_assert", 0.15):
        hs.append("A")
        for _ in range(R.randint(1, 3)):
            k = _pick(R, ["AP", "EP", "ASIM", "ESIM"])
            asserts.append((k, R.randrange(3)) if k in ("AP", "EP") else (k, _pick(R, ["all", "any"])))
    R.shuffle(hs)
    spread = prof.get("spread", 10)
    nodes = [{"pos": gen_pos(R, spread), "ty": R.choices([0, 1, 2], weights=[5, 3, 2])[0]} for _ in range(nn)]
    rng = prof.get("range") if "range" in prof else _pick(R, [5.0, 10.0, 15.0, 60.0, 1000.0])
    delay = _pick(R, prof.get("delays", [0.0, 0.0, 0.5, 1.0, 0.1, 0.25, -1.0]))
    fail = _pick(R, prof.get("fails", [0.0, 0.0, 0.0, 0.0, 0.3, 0.5, 1.0, 0.9, -0.5]))
    rate = _pick(R, prof.get("rates", [0.5, 1.0, 0.25, 0.1, 0.3]))
    speed = _pick(R, [1.0, 2.0, 5.0, 10.0, 0.0])
    ref = prof.get("ref", (0.0, 0.0, 0.0))
    bounded = R.random() < prof.get("p_bounded", 0.6)
    script = []
    for me in range(nn):
        nr = R.randint(0, prof.get("max_rules", 4))
        rules = [gen_rule(R, prof, nn, me, bounded) for _ in range(nr)]
        if me == 0 and not any(r["trig"] == ("init",) for r in rules):
            rules.insert(0, {"trig": ("init",), "nth": None,
                             "acts": [gen_action(R, prof, nn, me) for _ in range(R.randint(1, 4))]})
        script.append(rules)
    unbounded_loop = any(r["nth"] is None and r["trig"][0] in ("timer", "packet", "telem")
                         and any(a[0] in GENERATING for a in r["acts"]) for rules in script for r in rules)
    dur = None
    maxit = None
    m = R.random()
    if m < 0.55:
        dur = _pick(R, [0.0, 0.5, 1.0, 2.0, 3.0, 5.0]) if R.random() < 0.8 else R.uniform(0, 4)
    if R.random() < 0.3:
        maxit = _pick(R, [0, 1, 2, 5, 10, 30, 100])
    if unbounded_loop and maxit is None:
        maxit = R.randint(5, 150)
    if "M" in hs and dur is None and maxit is None:
        if R.random() < 0.5:
            dur = _pick(R, [1.0, 2.0, 3.0])
        else:
            maxit = R.randint(3, 120)
    if prof.get("force_dur") is not None and dur is None and "M" in hs:
        dur = prof["force_dur"]
    if R.random() < prof.get("p_steps", 0.3):
        drv = ("steps", R.randint(0, 40))
        # a stepped run of unbounded length is cut by the number of steps itself
    else:
        drv = ("run",)
    sc = {"handlers": hs, "nodes": nodes, "med": (rng, delay, fail), "mob": (rate, speed, ref),
          "asserts": asserts, "seed": R.randrange(1 << 30), "dur": dur, "maxit": maxit, "drv": drv,
          "script": script}
    return sc


def features(sc, trace):
    """Coarse classification of what a scenario/trace exercised (for the evidence file)."""
    f = set()
    for h in sc["handlers"]:
        f.add("handler:" + (h if not h.startswith("R") else "R"))
    f.add("nodes:%d" % len(sc["nodes"]))
    f.add("drv:" + sc["drv"][0])
    if sc["dur"] is not None:
        f.add("dur")
    if sc["maxit"] is not None:
        f.add("maxit")
    for l in trace:
        t = l.split()
        if t[0] == "cb":
            f.add("cb:" + t[3])
        elif t[0] == "act":
            f.add("act:%s:%s" % (t[2], t[-1]))
        elif t[0] in ("assertfail",):
            f.add("assertfail")
        elif t[0] == "end":
            f.add("end:" + t[1])
    return f
