"""Two simulations built in one process and stepped alternately (C06: a run must not depend on
other simulations existing or running in the same process)."""
import random

import scripted as S


def _build(sc):
    from gradysim.simulator.simulation import SimulationBuilder, SimulationConfiguration
    from gradysim.simulator.handler.timer import TimerHandler
    from gradysim.simulator.handler.communication import CommunicationHandler, CommunicationMedium
    from gradysim.simulator.handler.mobility import MobilityHandler, MobilityConfiguration
    from gradysim.simulator.handler.assertion import AssertionHandler
    cfg = SimulationConfiguration(duration=sc["dur"], max_iterations=sc["maxit"], execution_logging=False)
    b = SimulationBuilder(cfg)
    rng, delay, fail = sc["med"]
    rate, speed, ref = sc["mob"]
    for h in sc["handlers"]:
        if h == "T":
            b.add_handler(TimerHandler())
        elif h == "C":
            b.add_handler(CommunicationHandler(CommunicationMedium(transmission_range=rng, delay=delay, failure_rate=fail)))
        elif h == "M":
            b.add_handler(MobilityHandler(MobilityConfiguration(update_rate=rate, default_speed=speed,
                                                                reference_coordinates=tuple(ref))))
        elif h == "A":
            b.add_handler(AssertionHandler([S.make_assertion(i, s) for i, s in enumerate(sc["asserts"])]))
        elif h.startswith("R"):
            b.add_handler(S.make_recorder(int(h[1:])))
    for nd in sc["nodes"]:
        b.add_node(S.PROTO[nd["ty"]], tuple(nd["pos"]))
    return b.build()


def run_lockstep(a, b, cap=3000):
    """Returns the two callback traces (without ret/end lines).  Only loss-free scenarios use the
    global generator, so both are given the generator state their stand-alone run would see."""
    tr = {0: [], 1: []}
    sims = {}
    states = {}
    with S._Quiet():
        for k, sc in ((0, a), (1, b)):
            S.CTX.scenario, S.CTX.trace = sc, tr[k]
            sims[k] = _build(sc)
            random.seed(sc.get("seed", 0))
            states[k] = random.getstate()
        alive = {0: True, 1: True}
        n = 0
        while (alive[0] or alive[1]) and n < cap:
            for k, sc in ((0, a), (1, b)):
                if not alive[k]:
                    continue
                S.CTX.scenario, S.CTX.trace = sc, tr[k]
                random.setstate(states[k])
                try:
                    alive[k] = sims[k].step_simulation()
                except S.FailedAssertionException as e:
                    tr[k].append(S._assert_line(e))
                    alive[k] = False
                except Exception as e:
                    tr[k].append("exception %s" % type(e).__name__)
                    alive[k] = False
                states[k] = random.getstate()
                n += 1
    return tr[0], tr[1]
