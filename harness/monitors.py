"""Property monitors: decide, on a trace of the IMPLEMENTATION, whether a clause of a property
is visibly violated.  They are the search for a concrete failing input that runs whenever the
correspondence with the proved model is exercised.  Each returns a list of human-readable
violation strings (empty = nothing found).  They are deliberately conservative: a clause is
reported only when the trace itself contradicts the property text."""
from collections import defaultdict


def fh(tok):
    return float.fromhex(tok)


def parse(trace, keep_bcastdst=False):
    out = []
    for l in trace:
        t = l.split()
        if not t:
            continue
        if not keep_bcastdst and t[0] == "act" and t[2] == "bcastdst":
            t = [t[0], t[1], "bcast", t[3], t[-1]]      # a broadcast whatever its destination field says
        out.append(t)
    return out


def has(sc, h):
    return h in sc["handlers"]


def recs(sc):
    return [int(h[1:]) for h in sc["handlers"] if h.startswith("R")]


# ------------------------------------------------------------------------------------------------
# event-loop histories (C01, C02, C03)
# ------------------------------------------------------------------------------------------------

def mon_el(ops, res):
    """ops as given to the event loop, res the implementation's results. Tags are unique and
    increase in the order the schedule operations were issued."""
    v = []
    now = 0.0
    queued = {}      # tag -> ts
    order = {}       # tag -> index of its (accepted) schedule op
    popped = []
    last_pop = None
    if len(ops) != len(res):
        return ["C02: %d operations but %d results" % (len(ops), len(res))]
    for i, (op, r) in enumerate(zip(ops, res)):
        t = r.split()
        k = op[0]
        if k == "sched":
            ts, tag = op[1], op[2]
            if ts < now:
                if t[0] != "refused":
                    v.append("C01: op %d schedule at %r earlier than the clock %r was accepted" % (i, ts, now))
                    queued[tag] = ts
                    order[tag] = i
            else:
                if t[0] != "ok":
                    v.append("C01: op %d schedule at %r (clock %r) was refused" % (i, ts, now))
                else:
                    queued[tag] = ts
                    order[tag] = i
        elif k == "pop":
            if not queued:
                if t[0] != "refused":
                    v.append("C02: op %d pop on an empty queue returned %s" % (i, r))
            elif t[0] != "popped":
                v.append("C02: op %d pop on a non-empty queue gave %s" % (i, r))
            else:
                ts, tag = fh(t[1]), int(t[2])
                if tag not in queued:
                    v.append("C02: op %d popped event %d which is not queued (never accepted, already popped, or cleared)" % (i, tag))
                else:
                    if queued[tag] != ts:
                        v.append("C02: op %d popped event %d with timestamp %r, scheduled at %r" % (i, tag, ts, queued[tag]))
                    mn = min(queued.values())
                    if ts != mn:
                        v.append("C01: op %d popped timestamp %r while %r is queued" % (i, ts, mn))
                    same = [tg for tg, x in queued.items() if x == ts]
                    first = min(same, key=lambda tg: order[tg]) if same else tag
                    if tag != first and queued[tag] == ts:
                        v.append("C03: op %d popped event %d before event %d, both due at %r, %d was scheduled first"
                                 % (i, tag, first, ts, first))
                    del queued[tag]
                if ts < now:
                    v.append("C01: op %d pop moved the clock backwards from %r to %r" % (i, now, ts))
                now = ts
                popped.append(tag)
        elif k == "peek":
            if not queued:
                if r != "peeked none":
                    v.append("C02: op %d peek on an empty queue gave %s" % (i, r))
            elif t[0] != "peeked" or t[1] == "none":
                v.append("C02: op %d peek on a non-empty queue gave %s" % (i, r))
            else:
                ts, tag = fh(t[1]), int(t[2])
                mn = min(queued.values())
                first = min((tg for tg, x in queued.items() if x == mn), key=lambda tg: order[tg])
                if tag != first:
                    v.append("C02: op %d peek shows event %d but the next pop must return %d" % (i, tag, first))
        elif k == "clear":
            queued.clear()
        elif k == "len":
            if t[0] != "len" or int(t[1]) != len(queued):
                v.append("C02: op %d len gave %s, accepted-minus-removed is %d" % (i, r, len(queued)))
        elif k == "now":
            if t[0] != "now" or fh(t[1]) != now:
                v.append("C01: op %d current_time gave %s, last popped timestamp is %r" % (i, r, now))
        if t[0] == "refused" and k not in ("sched", "pop"):
            v.append("C02: op %d %s was refused" % (i, k))
    return v


# ------------------------------------------------------------------------------------------------
# whole simulations
# ------------------------------------------------------------------------------------------------

def tick_times(rate, upto):
    ts, t = set(), 0.0
    for _ in range(100000):
        t = t + rate
        ts.add(t)
        if t > upto or rate <= 0:
            break
    return ts


def mon_C01(sc, trace):
    v = []
    T, C, M = has(sc, "T"), has(sc, "C"), has(sc, "M")
    rng, delay, fail = sc["med"]
    rate = sc["mob"][0]
    last = None
    cur = None                       # (node, time) of the callback in progress
    timers = defaultdict(list)       # (node, name) -> [requested ts of accepted, not yet fired]
    sends = defaultdict(list)        # (dst, msg) -> [send times of accepted transmissions]
    maxt = 0.0
    for t in parse(trace):
        if t[0] == "cb":
            n, tm, kind = int(t[1]), fh(t[2]), t[3]
            maxt = max(maxt, tm)
            if not T:
                if tm != 0.0:
                    v.append("C01: without a timer handler current_time() must be 0, node %d saw %r" % (n, tm))
            else:
                if last is not None and tm < last:
                    v.append("C01: time went backwards between callbacks: %r then %r (node %d %s)" % (last, tm, n, kind))
                last = tm
                if kind == "init" and tm != 0.0:
                    v.append("C01: initialize of node %d saw time %r" % (n, tm))
                if kind == "timer":
                    name = int(t[4]) if t[4].isdigit() else None
                    lst = timers[(n, name)]
                    if tm in lst:
                        lst.remove(tm)
                    else:
                        v.append("C01: node %d timer %s fired at %r but no pending request for that time (requested: %s)"
                                 % (n, t[4], tm, sorted(lst)))
                if kind == "packet" and C:
                    msg = int(t[4]) if t[4].isdigit() else None
                    lst = sends[(n, msg)]
                    ok = [s for s in lst if (s + delay if delay > 0 else s) == tm]
                    if ok:
                        lst.remove(ok[0])
                    else:
                        v.append("C01: node %d received %s at %r, not at send time + delay for any transmission (sent at %s, delay %r)"
                                 % (n, t[4], tm, sorted(lst), delay))
            cur = (n, tm)
        elif t[0] == "act" and cur is not None:
            n = int(t[1])
            now = cur[1]
            if t[2] == "settimer":
                name, ts, res = int(t[3]), fh(t[4]), t[5]
                if T:
                    if ts < now and res != "errtimer":
                        v.append("C01: node %d set timer %d for %r in the past of %r and it was accepted" % (n, name, ts, now))
                    if ts >= now and res != "ok":
                        v.append("C01: node %d set timer %d for %r (now %r) and it was refused" % (n, name, ts, now))
                    if res == "ok":
                        timers[(n, name)].append(ts)
            elif t[2] == "cancel" and T and t[-1] == "ok":
                timers[(n, int(t[3]))] = []
            elif t[2] == "send" and t[-1] == "ok" and C and t[4] != "none":
                sends[(int(t[4]), int(t[3]))].append(now)
            elif t[2] == "bcast" and t[-1] == "ok" and C:
                for d in range(len(sc["nodes"])):
                    if d != n:
                        sends[(d, int(t[3]))].append(now)
    if T and M and rate > 0:
        ticks = tick_times(rate, maxt)
        for t in parse(trace):
            if t[0] == "cb" and t[3] == "telem" and fh(t[2]) not in ticks:
                v.append("C01/C12: telemetry of node %s at %r is not a mobility tick (interval %r)" % (t[1], fh(t[2]), rate))
                break
    return v


def mon_C04_bounds(sc, trace):
    """clauses checkable on one trace: no callback later than the duration, no iteration number
    at or above the limit."""
    v = []
    T = has(sc, "T")
    dur, maxit = sc["dur"], sc["maxit"]
    for t in parse(trace):
        if t[0] == "cb" and T and dur is not None and fh(t[2]) > dur:
            v.append("C04: node %s %s callback observed time %r, later than the duration %r" % (t[1], t[3], fh(t[2]), dur))
        if t[0] == "hafter":
            if maxit is not None and int(t[2]) >= maxit:
                v.append("C04: iteration %s executed with max_iterations=%d" % (t[2], maxit))
            if dur is not None and fh(t[3]) > dur:
                v.append("C04: event at %r executed, later than the duration %r" % (fh(t[3]), dur))
    return v


def executed(trace, j=None):
    """(iteration, timestamp) of every executed event as seen by the first recording handler."""
    out = []
    for t in parse(trace):
        if t[0] == "hafter" and (j is None or int(t[1]) == j):
            out.append((int(t[2]), fh(t[3])))
    return out


def mon_C04_prefix(sc, trace, ref_trace, cap):
    """The bounded run must execute exactly the longest eligible prefix of the events the
    unbounded run (same scenario, bounds removed, capped at `cap` iterations) executes."""
    v = []
    rr = recs(sc)
    if not rr:
        return v
    j = rr[0]
    got = executed(trace, j)
    ref = executed(ref_trace, j)
    dur, maxit = sc["dur"], sc["maxit"]
    want = []
    for (i, ts) in ref:
        if dur is not None and ts > dur:
            break
        if maxit is not None and i >= maxit:
            break
        want.append((i, ts))
    if len(want) >= cap:
        return v                     # reference itself was cut: nothing can be concluded
    if parse(trace)[-1][1] not in ("done",):
        want = want[:len(got)]       # stepped run that was not driven to completion
        if got != want:
            v.append("C04: executed events %s are not a prefix of the eligible events %s" % (got[:6], want[:6]))
        return v
    if got != want:
        k = next((x for x in range(min(len(got), len(want))) if got[x] != want[x]), min(len(got), len(want)))
        v.append("C04: with duration=%r max_iterations=%r the run executed %d events, the eligible prefix has %d "
                 "(first difference at ordinal %d: got %s, eligible %s)"
                 % (dur, maxit, len(got), len(want), k, got[k:k + 1], want[k:k + 1]))
    return v


def mon_C05(sc, trace):
    v = []
    rr = recs(sc)
    nn = len(sc["nodes"])
    P = parse(trace)
    status = P[-1][1] if P and P[-1][0] == "end" else "?"
    i = 0

    def skip_acts(i):
        while i < len(B) and B[i][0] == "act":
            i += 1
        return i
    # steps mode with zero steps: nothing at all may have happened
    body = [t for t in P if t[0] not in ("ret", "end")]
    if not body:
        if status not in ("running",) and (nn > 0 or rr):
            v.append("C05: run ended %s without any lifecycle callback" % status)
        return v
    B = [t for t in P if t[0] != "ret"]
    # phase 1: handler initialisation, in order
    for j in rr:
        if i < len(B) and B[i][0] == "hinit" and int(B[i][1]) == j:
            i += 1
        else:
            v.append("C05: expected initialize of handler %d at trace position %d, found %s" % (j, i, B[i] if i < len(B) else None))
            return v
    # phase 2: protocol initialize, node order, time 0
    for n in range(nn):
        if i < len(B) and B[i][0] == "cb" and int(B[i][1]) == n and B[i][3] == "init":
            if fh(B[i][2]) != 0.0:
                v.append("C05: initialize of node %d at time %r" % (n, fh(B[i][2])))
            i = skip_acts(i + 1)
        else:
            v.append("C05: expected initialize of node %d at trace position %d, found %s" % (n, i, B[i] if i < len(B) else None))
            return v
    # phase 3: events
    it = 0
    aborted = False
    ev_time, last_hook_time, hook_times = None, 0.0, []
    while i < len(B):
        t = B[i]
        if t[0] == "cb" and t[3] in ("timer", "packet", "telem"):
            ev_time = fh(t[2]) if has(sc, "T") else None        # the time of the event being executed, as its callback saw it
            i = skip_acts(i + 1)
            continue
        if t[0] == "hafter":
            for j in rr:
                if i < len(B) and B[i][0] == "hafter" and int(B[i][1]) == j:
                    if int(B[i][2]) != it:
                        v.append("C05: after-step hook of handler %d got iteration %s, expected %d" % (j, B[i][2], it))
                    ht = fh(B[i][3])
                    if ev_time is not None and ht != ev_time:
                        v.append("C05: after-step hook of handler %d (iteration %d) got timestamp %r, the executed event's time is %r"
                                 % (j, it, ht, ev_time))
                    if ht < last_hook_time:
                        v.append("C05: after-step hook of handler %d (iteration %d) got timestamp %r after %r" % (j, it, ht, last_hook_time))
                    hook_times.append(ht)
                    i += 1
                elif i < len(B) and B[i][0] == "assertfail":
                    break
                else:
                    v.append("C05: after-step hook of handler %d missing for iteration %d" % (j, it))
                    return v
            it += 1
            ev_time = None
            last_hook_time = max([last_hook_time] + hook_times)
            del hook_times[:]
            continue
        if t[0] == "assertfail":
            aborted = True
            i += 1
            continue
        break
    if aborted:
        return v
    # phase 4/5: finish + finalize
    rest = B[i:]
    if rest and rest[0][0] == "end":
        if status == "done":
            if nn > 0 or rr:
                v.append("C05: run reported completion without finish/finalize callbacks")
        return v
    for n in range(nn):
        if i < len(B) and B[i][0] == "cb" and int(B[i][1]) == n and B[i][3] == "finish":
            i = skip_acts(i + 1)
        else:
            v.append("C05: expected finish of node %d at trace position %d, found %s" % (n, i, B[i] if i < len(B) else None))
            return v
    for j in rr:
        if i < len(B) and B[i][0] == "hfinal" and int(B[i][1]) == j:
            i += 1
        elif i < len(B) and B[i][0] == "assertfail":
            return v
        else:
            v.append("C05: expected finalize of handler %d at trace position %d, found %s" % (j, i, B[i] if i < len(B) else None))
            return v
    if i < len(B) and B[i][0] == "assertfail":
        i += 1
    if i < len(B) and B[i][0] != "end":
        v.append("C05: callback after finalisation: %s" % " ".join(B[i]))
    # stepping: after the first False every further step returns False
    rets = [t[1] for t in P if t[0] == "ret"]
    if "false" in rets:
        k = rets.index("false")
        if any(r != "false" for r in rets[k:]):
            v.append("C05: step_simulation returned %s after it had returned False" % rets[k:])
    return v


def mon_C02(sc, trace):
    """Whole runs: nothing fires that was not requested, nothing twice; in a run that ended by
    exhaustion every accepted, uncancelled timer fired and (loss-free, everybody in range) every
    transmitted copy arrived."""
    v = []
    T, C = has(sc, "T"), has(sc, "C")
    rng, delay, fail = sc["med"]
    P = parse(trace)
    timers = defaultdict(list)
    sends = defaultdict(int)
    cur = None
    for t in P:
        if t[0] == "cb":
            n, tm, kind = int(t[1]), fh(t[2]), t[3]
            cur = (n, tm)
            if kind == "timer" and T:
                name = int(t[4]) if t[4].isdigit() else None
                if tm in timers[(n, name)]:
                    timers[(n, name)].remove(tm)
                else:
                    v.append("C02: node %d timer %s fired at %r without a pending request (lost, duplicated or invented)" % (n, t[4], tm))
            if kind == "packet" and C:
                msg = int(t[4]) if t[4].isdigit() else None
                if sends[(n, msg)] > 0:
                    sends[(n, msg)] -= 1
                else:
                    v.append("C02: node %d received %s which nobody sent to it (or more often than it was sent)" % (n, t[4]))
        elif t[0] == "act" and cur is not None and t[-1] == "ok":
            n = int(t[1])
            if t[2] == "settimer" and T:
                timers[(n, int(t[3]))].append(fh(t[4]))
            elif t[2] == "cancel" and T:
                timers[(n, int(t[3]))] = []
            elif t[2] == "send" and C and t[4] != "none":
                sends[(int(t[4]), int(t[3]))] += 1
            elif t[2] == "bcast" and C:
                for d in range(len(sc["nodes"])):
                    if d != n:
                        sends[(d, int(t[3]))] += 1
    exhausted = (P and P[-1][0] == "end" and P[-1][1] == "done" and sc["dur"] is None and sc["maxit"] is None
                 and sc["drv"][0] == "run")
    if exhausted:
        # requests issued inside finish() are never executed by design: ignore what finish scheduled
        # (the finish phase is the final block of finish callbacks: a finish followed by further callbacks is no end of the run)
        cbs = [i for i, t in enumerate(P) if t[0] == "cb"]
        fin_idx = len(P)
        for i in reversed(cbs):
            if P[i][3] == "finish":
                fin_idx = i
            else:
                break
        timers2 = defaultdict(list)
        sends2 = defaultdict(int)
        cur = None
        for t in P[:fin_idx]:
            if t[0] == "cb":
                n, tm, kind = int(t[1]), fh(t[2]), t[3]
                if kind == "timer" and T and t[4].isdigit() and tm in timers2[(n, int(t[4]))]:
                    timers2[(n, int(t[4]))].remove(tm)
                if kind == "packet" and C and t[4].isdigit() and sends2[(n, int(t[4]))] > 0:
                    sends2[(n, int(t[4]))] -= 1
            elif t[0] == "act" and t[-1] == "ok":
                n = int(t[1])
                if t[2] == "settimer" and T:
                    timers2[(n, int(t[3]))].append(fh(t[4]))
                elif t[2] == "cancel" and T:
                    timers2[(n, int(t[3]))] = []
                elif t[2] == "send" and C and t[4] != "none":
                    sends2[(int(t[4]), int(t[3]))] += 1
                elif t[2] == "bcast" and C:
                    for d in range(len(sc["nodes"])):
                        if d != n:
                            sends2[(d, int(t[3]))] += 1
        for k, lst in timers2.items():
            if lst:
                v.append("C02: run ended by exhaustion but node %d timer %d set for %s never fired" % (k[0], k[1], lst))
        if fail <= 0 and rng >= 1000.0 and not any(a[0] == "range" for rules in sc["script"] for r in rules for a in r["acts"]):
            for k, c in sends2.items():
                if c:
                    v.append("C02: run ended by exhaustion but %d cop(ies) of message %d for node %d never arrived" % (c, k[1], k[0]))
    return v


def mon_C03(sc, trace):
    """FIFO per link (payloads are unique in these scenarios) and among same-instant timers of a node."""
    v = []
    P = parse(trace)
    sent_by = {}          # msg -> (src, index)
    k = 0
    timers_set = defaultdict(list)      # (node, ts) -> names in set order
    cancelled = set()
    for t in P:
        if t[0] == "act" and t[-1] == "ok":
            n = int(t[1])
            if t[2] in ("send", "bcast"):
                sent_by[int(t[3])] = (n, k)
                k += 1
            elif t[2] == "settimer":
                timers_set[(n, fh(t[4]))].append(int(t[3]))
            elif t[2] == "cancel":
                cancelled.add((n, int(t[3])))
    last = {}             # (src, dst) -> last index received
    for t in P:
        if t[0] == "cb" and t[3] == "packet" and t[4].isdigit():
            dst, msg = int(t[1]), int(t[4])
            if msg in sent_by:
                src, idx = sent_by[msg]
                if (src, dst) in last and idx < last[(src, dst)]:
                    v.append("C03: node %d received message %d from node %d after a message sent later on the same link"
                             % (dst, msg, src))
                last[(src, dst)] = max(last.get((src, dst), -1), idx)
    # same-instant events of ANY nodes and kinds (timers, deliveries) run in the order they were requested.
    # Needs the times (timer handler present) and unambiguous origins: every message payload sent once.
    if has(sc, "T"):
        sends = defaultdict(list)          # msg -> [index of the accepted send / broadcast request]
        tsets = defaultdict(list)          # (node, name, ts) -> [indices of accepted set-timer requests], oldest first
        for idx, t in enumerate(P):
            if t[0] == "act" and t[-1] == "ok":
                if t[2] in ("send", "bcast"):
                    sends[int(t[3])].append(idx)
                elif t[2] == "settimer":
                    tsets[(int(t[1]), int(t[3]), fh(t[4]))].append(idx)
        if all(len(l) == 1 for l in sends.values()):
            prev = None                    # (time, origin key, description) of the previous timer / packet callback
            cancelled_upto = {}            # (node, name) -> index of the last cancel seen so far
            for idx, t in enumerate(P):
                if t[0] == "act" and t[-1] == "ok" and t[2] == "cancel":
                    cancelled_upto[(int(t[1]), int(t[3]))] = idx
                if t[0] != "cb" or t[3] not in ("timer", "packet") or not t[4].isdigit():
                    continue
                n, tm = int(t[1]), fh(t[2])
                if t[3] == "packet":
                    org = sends.get(int(t[4]))
                    key = (org[0], n) if org else None       # copies of one broadcast are requested in node order
                else:
                    lst = tsets.get((n, int(t[4]), tm), [])
                    # the oldest request for (node, name, time) that was made before this callback and not cancelled since
                    lst = [i for i in lst if i < idx and cancelled_upto.get((n, int(t[4])), -1) < i]
                    key = (lst[0], -1) if lst else None
                    if lst:
                        tsets[(n, int(t[4]), tm)].remove(lst[0])
                if key is not None and prev is not None and prev[0] == tm and key < prev[1]:
                    v.append("C03: at time %r, %s ran after %s although it was requested earlier (trace lines %d < %d)"
                             % (tm, " ".join(t[:5]), prev[2], key[0], prev[1][0]))
                    break
                if key is not None:
                    prev = (tm, key, " ".join(t[:5]))
    # same-instant timers of a node fire in the order they were set (cancellations removed)
    if has(sc, "T"):
        pend = defaultdict(list)     # node -> [(ts, order, name)] still pending
        order = 0
        for t in P:
            if t[0] == "act" and t[-1] == "ok" and t[2] == "settimer":
                pend[int(t[1])].append((fh(t[4]), order, int(t[3])))
                order += 1
            elif t[0] == "act" and t[-1] == "ok" and t[2] == "cancel":
                n, name = int(t[1]), int(t[3])
                pend[n] = [e for e in pend[n] if e[2] != name]
            elif t[0] == "cb" and t[3] == "timer" and t[4].isdigit():
                n, tm, name = int(t[1]), fh(t[2]), int(t[4])
                cands = [e for e in pend[n] if e[2] == name]
                if cands:
                    # the request this callback answers: the one for exactly this time, else (a timer that fired
                    # off its requested time, which C01/C07 report) the one requested for the nearest time
                    hit = min(cands, key=lambda e: (e[0] != tm, abs(e[0] - tm), e[1]))
                    earlier = sorted(e for e in pend[n] if e[0] == hit[0] and e[1] < hit[1])
                    if earlier:
                        v.append("C03: node %d timer %d fired at %r before timer %d which was set earlier for the same instant %r"
                                 % (n, name, tm, earlier[0][2], hit[0]))
                    pend[n].remove(hit)
    return v


# ------------------------------------------------------------------------------------------------
# C07 .. C13, C18 (whole simulations)
# ------------------------------------------------------------------------------------------------

def mon_C07(sc, trace):
    v = []
    if not has(sc, "T"):
        return v
    P = parse(trace)
    pend = defaultdict(list)        # node -> [(name, ts)] pending, in set order
    cur = None
    for t in P:
        if t[0] == "cb":
            n, tm, kind = int(t[1]), fh(t[2]), t[3]
            cur = (n, tm)
            if kind == "timer":
                name = int(t[4]) if t[4].isdigit() else None
                if (name, tm) in pend[n]:
                    pend[n].remove((name, tm))
                else:
                    others = [m for m in pend if (name, tm) in pend[m]]
                    if others:
                        v.append("C07: timer %s set by node %d for %r fired on node %d" % (t[4], others[0], tm, n))
                    elif any(nm == name for nm, _ in pend[n]):
                        v.append("C07: node %d timer %s fired at %r, its pending requests are for %s"
                                 % (n, t[4], tm, sorted(ts for nm, ts in pend[n] if nm == name)))
                    else:
                        v.append("C07: node %d timer %s fired at %r although no such timer is pending (cancelled, already fired, or never set)"
                                 % (n, t[4], tm))
        elif t[0] == "act" and cur is not None:
            n, now = int(t[1]), cur[1]
            if t[2] == "settimer":
                name, ts, res = int(t[3]), fh(t[4]), t[5]
                if ts < now and res != "errtimer":
                    v.append("C07: node %d timer %d for %r in the past of %r was not refused (%s)" % (n, name, ts, now, res))
                if ts >= now and res != "ok":
                    v.append("C07: node %d timer %d for %r (now %r) was refused (%s)" % (n, name, ts, now, res))
                if res == "ok":
                    pend[n].append((name, ts))
            elif t[2] == "cancel":
                if t[-1] != "ok":
                    v.append("C07: node %d cancel_timer(%s) raised %s" % (n, t[3], t[-1]))
                pend[n] = [e for e in pend[n] if e[0] != int(t[3])]
    exhausted = (P and P[-1][0] == "end" and P[-1][1] == "done" and sc["dur"] is None and sc["maxit"] is None
                 and sc["drv"][0] in ("run", "drive"))
    if exhausted:
        fin = next((i for i, t in enumerate(P) if t[0] == "cb" and t[3] == "finish"), len(P))
        pend2 = defaultdict(list)
        for t in P[:fin]:
            if t[0] == "cb" and t[3] == "timer" and t[4].isdigit():
                e = (int(t[4]), fh(t[2]))
                if e in pend2[int(t[1])]:
                    pend2[int(t[1])].remove(e)
            elif t[0] == "act" and t[2] == "settimer" and t[-1] == "ok":
                pend2[int(t[1])].append((int(t[3]), fh(t[4])))
            elif t[0] == "act" and t[2] == "cancel":
                pend2[int(t[1])] = [e for e in pend2[int(t[1])] if e[0] != int(t[3])]
        for n, lst in pend2.items():
            if lst:
                v.append("C07: run ended by exhaustion but node %d timers %s (name, time) never fired" % (n, lst))
    return v


def _expected_packets(sc, P, receivers):
    """receivers(sender, now, k) -> list of destination ids for the k-th transmission attempt block"""
    raise NotImplementedError


def mon_C08(sc, trace):
    """loss-free medium, everybody in range"""
    v = []
    if not has(sc, "C"):
        return v
    rng, delay, fail = sc["med"]
    nn = len(sc["nodes"])
    T = has(sc, "T")
    P = parse(trace, keep_bcastdst=True)
    exp = defaultdict(list)       # (dst, msg) -> [delivery times expected]
    cur = None
    for t in P:
        if t[0] == "cb":
            n, tm, kind = int(t[1]), fh(t[2]), t[3]
            cur = (n, tm)
            if kind == "packet":
                if not t[4].isdigit():
                    v.append("C08: node %d received a corrupted payload %s" % (n, t[4]))
                    continue
                key = (n, int(t[4]))
                if T:
                    if tm in exp[key]:
                        exp[key].remove(tm)
                    elif exp[key]:
                        v.append("C08: node %d received message %s at %r, expected at %s (send time + delay)" % (n, t[4], tm, exp[key]))
                        exp[key].pop(0)
                    else:
                        v.append("C08: node %d received message %s that was not addressed to it (or once too often)" % (n, t[4]))
                else:
                    if exp[key]:
                        exp[key].pop(0)
                    else:
                        v.append("C08: node %d received message %s that was not addressed to it (or once too often)" % (n, t[4]))
        elif t[0] == "act" and cur is not None and t[2] == "bcastdst":
            n, now = int(t[1]), cur[1]
            due = now + delay if delay > 0 else now
            if int(t[4]) == n:
                if t[-1] != "errcomm":
                    v.append("C08: node %d broadcast naming itself as destination did not raise (%s)" % (n, t[-1]))
            elif t[-1] != "ok":
                v.append("C08: node %d broadcast (destination field %s) raised %s" % (n, t[4], t[-1]))
            else:
                for d in range(nn):
                    if d != n:
                        exp[(d, int(t[3]))].append(due)
        elif t[0] == "act" and cur is not None and t[2] in ("send", "bcast"):
            n, now = int(t[1]), cur[1]
            due = now + delay if delay > 0 else now
            if t[2] == "send":
                dst = None if t[4] == "none" else int(t[4])
                bad = dst is None or dst == n or dst >= nn
                if bad and t[-1] != "errcomm":
                    v.append("C08: node %d send to %s did not raise CommunicationException (%s)" % (n, t[4], t[-1]))
                if not bad and t[-1] != "ok":
                    v.append("C08: node %d send to node %d raised %s" % (n, dst, t[-1]))
                if t[-1] == "ok" and not bad:
                    exp[(dst, int(t[3]))].append(due)
            else:
                if t[-1] != "ok":
                    v.append("C08: node %d broadcast raised %s" % (n, t[-1]))
                else:
                    for d in range(nn):
                        if d != n:
                            exp[(d, int(t[3]))].append(due)
    exhausted = (P and P[-1][0] == "end" and P[-1][1] == "done" and sc["dur"] is None and sc["maxit"] is None
                 and sc["drv"][0] in ("run", "drive"))
    if exhausted:
        fin = next((i for i, t in enumerate(P) if t[0] == "cb" and t[3] == "finish"), len(P))
        # copies requested from inside finish() are never delivered by design
        late = defaultdict(int)
        cur = None
        for t in P[fin:]:
            if t[0] == "cb":
                cur = int(t[1])
            elif t[0] == "act" and t[-1] == "ok" and t[2] == "send" and t[4] != "none":
                late[(int(t[4]), int(t[3]))] += 1
            elif t[0] == "act" and t[-1] == "ok" and t[2] in ("bcast", "bcastdst"):
                for d in range(nn):
                    if d != int(t[1]):
                        late[(d, int(t[3]))] += 1
        for key, lst in exp.items():
            missing = len(lst) - late.get(key, 0)
            if missing > 0:
                v.append("C08: %d cop(ies) of message %d for node %d were never delivered" % (missing, key[1], key[0]))
    return v


def _py_sq(a, b):
    return (b[0] - a[0]) ** 2 + (b[1] - a[1]) ** 2 + (b[2] - a[2]) ** 2


def _positions_timeline(sc, P):
    """per node: list of telemetry positions in order"""
    tl = defaultdict(list)
    for t in P:
        if t[0] == "cb" and t[3] == "telem":
            tl[int(t[1])].append((fh(t[4]), fh(t[5]), fh(t[6])))
    return tl


def mon_C09(sc, trace, draws_pass=None):
    """delivery iff within the sender's current range at the positions of the send instant;
    `draws_pass(k)` tells whether the k-th attempted copy survives the loss draw (None = loss-free).
    Positions change when a mobility update executes, which the trace shows only through the
    telemetry delivered afterwards: a send made at the very time of an update whose telemetry has
    not been seen yet may have happened before or after the move; it is judged only when both
    readings agree."""
    v = []
    if not has(sc, "C"):
        return v
    rng0, delay, fail = sc["med"]
    if fail > 0 and draws_pass is None:
        return v
    M_, T = has(sc, "M"), has(sc, "T")
    if M_ and not T:
        return v
    nn = len(sc["nodes"])
    rate = sc["mob"][0]
    P = parse(trace)
    tl = _positions_timeline(sc, P)
    pos = [tuple(nd["pos"]) for nd in sc["nodes"]]
    seen = [0] * nn
    learned = 0                      # number of mobility updates whose positions are known
    next_tick = 0.0 + rate
    rng = [rng0] * nn
    exp = defaultdict(int)
    maybe = defaultdict(int)
    cur = None
    k = 0
    dur = sc["dur"]
    for t in P:
        if t[0] == "cb":
            n, tm, kind = int(t[1]), fh(t[2]), t[3]
            cur = (n, tm)
            if kind == "telem":
                seen[n] += 1
                if seen[n] > learned:
                    learned = seen[n]
                    next_tick = tm + rate
                    for m in range(nn):
                        if len(tl[m]) >= learned:
                            pos[m] = tl[m][learned - 1]
            elif kind == "packet" and t[4].isdigit():
                key = (n, int(t[4]))
                if exp[key] > 0:
                    exp[key] -= 1
                elif maybe[key] > 0:
                    maybe[key] -= 1
                else:
                    v.append("C09: node %d received message %s although it was out of the sender's range at send time "
                             "(or was never sent to it)" % (n, t[4]))
        elif t[0] == "act" and cur is not None and t[-1] == "ok":
            n, now = int(t[1]), cur[1]
            if t[2] == "range":
                rng[n] = fh(t[3])
            elif t[2] in ("send", "bcast"):
                dsts = [int(t[4])] if t[2] == "send" else [d for d in range(nn) if d != n]
                ambiguous = M_ and now == next_tick
                for d in dsts:
                    survives = True if fail <= 0 else draws_pass(k)
                    k += 1
                    due = now + delay if delay > 0 else now
                    inr = _py_sq(pos[n], pos[d]) <= rng[n] ** 2
                    if ambiguous:
                        if len(tl[n]) > learned and len(tl[d]) > learned:
                            inr2 = _py_sq(tl[n][learned], tl[d][learned]) <= rng[n] ** 2
                        else:
                            inr2 = None
                        if inr2 is None or inr2 != inr:
                            maybe[(d, int(t[3]))] += 1
                            continue
                    if inr and survives and (dur is None or due <= dur):
                        exp[(d, int(t[3]))] += 1
    done = P and P[-1][0] == "end" and P[-1][1] == "done" and sc["maxit"] is None and sc["drv"][0] == "run"
    if done and T:
        fin = next((i for i, t in enumerate(P) if t[0] == "cb" and t[3] == "finish"), len(P))
        late = defaultdict(int)
        for t in P[fin:]:
            if t[0] == "act" and t[-1] == "ok" and t[2] == "send" and t[4] != "none":
                late[(int(t[4]), int(t[3]))] += 1
            elif t[0] == "act" and t[-1] == "ok" and t[2] == "bcast":
                for d in range(nn):
                    if d != int(t[1]):
                        late[(d, int(t[3]))] += 1
        for key, c in exp.items():
            if c - late.get(key, 0) > 0:
                v.append("C09: message %d from a sender within range of node %d at send time was not delivered" % (key[1], key[0]))
    return v


def mon_C10(sc, trace):
    """scripted draws: the k-th attempted copy is delivered iff in range and stream[k] > rate"""
    stream = sc.get("stream")
    if stream is None:
        return []
    rng, delay, fail = sc["med"]

    def passes(k):
        u = stream[k] if k < len(stream) else 0.0
        return u > fail
    out = [x.replace("C09:", "C10:") for x in mon_C09(sc, trace, draws_pass=passes)]
    P = parse(trace)
    attempts = 0
    nn = len(sc["nodes"])
    for t in P:
        if t[0] == "act" and t[-1] == "ok" and t[2] == "send" and has(sc, "C"):
            attempts += 1
        elif t[0] == "act" and t[-1] == "ok" and t[2] == "bcast" and has(sc, "C"):
            attempts += nn - 1
    if P and P[-1][0] == "end":
        drawn = int(P[-1][5])
        want = attempts if fail > 0 else 0
        if drawn != want:
            out.append("C10: %d draws consumed for %d attempted copies at failure rate %r" % (drawn, attempts, fail))
    return out


def _dist(a, b):
    return ((b[0] - a[0]) ** 2 + (b[1] - a[1]) ** 2 + (b[2] - a[2]) ** 2) ** 0.5


def mon_C11(sc, trace):
    v = []
    if not has(sc, "M"):
        return v
    rate, speed0, ref = sc["mob"]
    nn = len(sc["nodes"])
    P = parse(trace)
    pos = [tuple(nd["pos"]) for nd in sc["nodes"]]
    tgt = [None] * nn
    spd = [speed0] * nn
    changed_at = [None] * nn          # time of the node's last goto / speed command
    now = 0.0
    T = has(sc, "T")
    for t in P:
        if t[0] == "cb":
            now = fh(t[2])
        if t[0] == "act" and t[-1] == "ok":
            n = int(t[1])
            if t[2] == "goto":
                tgt[n] = (fh(t[3]), fh(t[4]), fh(t[5]))
                changed_at[n] = now
            elif t[2] == "gotogeo":
                tgt[n] = "geo"
                changed_at[n] = now
            elif t[2] == "speed":
                spd[n] = fh(t[3])
                changed_at[n] = now
        elif t[0] == "cb" and t[3] == "telem":
            n = int(t[1])
            new = (fh(t[4]), fh(t[5]), fh(t[6]))
            old = pos[n]
            scale = 1.0 + max(abs(x) for x in old + new)
            eps = 1e-9 * scale
            if (not T) or (changed_at[n] is not None and changed_at[n] == fh(t[2])):
                # a command issued at the very instant of this update may have come just before or
                # just after the update ran (the telemetry is delivered later): ambiguous, skip
                pos[n] = new
                changed_at[n] = None if T else changed_at[n]
                continue
            if tgt[n] is None:
                if new != old:
                    v.append("C11: node %d has no target but moved from %s to %s" % (n, old, new))
            elif tgt[n] != "geo" and spd[n] >= 0 and rate >= 0:
                g = tgt[n]
                step = spd[n] * rate
                rem = _dist(old, g)
                moved = _dist(old, new)
                if moved > step + eps + 1e-9 * step:
                    v.append("C11: node %d moved %r in one update, more than speed*interval = %r" % (n, moved, step))
                if rem <= step - eps and new != g:
                    v.append("C11: node %d was within one step (%r <= %r) of its target %s but is at %s" % (n, rem, step, g, new))
                if old == g and new != g:
                    v.append("C11: node %d left its target %s (now at %s)" % (n, g, new))
                if rem > step + eps:
                    if abs(moved - step) > eps + 1e-9 * step:
                        v.append("C11: node %d advanced %r, expected speed*interval = %r (remaining %r)" % (n, moved, step, rem))
                    after = _dist(new, g)
                    if abs(after - (rem - step)) > eps + 1e-9 * rem:
                        v.append("C11: node %d is %r from its target after the update, expected %r (not on the straight segment)"
                                 % (n, after, rem - step))
            pos[n] = new
            if tgt[n] == "geo":
                pass
    return v


def mon_C12(sc, trace):
    v = []
    if not has(sc, "M"):
        return v
    rate = sc["mob"][0]
    nn = len(sc["nodes"])
    P = parse(trace)
    T = has(sc, "T")
    times = defaultdict(list)
    for t in P:
        if t[0] == "cb" and t[3] == "telem":
            times[int(t[1])].append(fh(t[2]))
    if T and rate > 0:
        want = []
        x = 0.0
        mx = max((len(l) for l in times.values()), default=0)
        for _ in range(mx):
            x = x + rate
            want.append(x)
        for n in range(nn):
            got = times[n]
            if got != want[:len(got)]:
                k = next(i for i in range(len(got)) if got[i] != want[i])
                v.append("C12: node %d telemetry #%d at %r, the mobility updates are at %s (consecutive multiples of %r)"
                         % (n, k, got[k], want[max(0, k - 1):k + 2], rate))
    for l in trace:
        if l.startswith("stale "):
            v.append("C12: node %s" % l[len("stale "):])
            break
    counts = [len(times[n]) for n in range(nn)]
    # a run that ended by reaching its duration has executed every update due by then (0 + i, (0 + i) + i, ...):
    # each node got exactly that many telemetry callbacks
    if (P and P[-1][0] == "end" and P[-1][1] == "done" and sc["dur"] is not None and sc["maxit"] is None
            and sc["drv"][0] == "run" and rate > 0 and nn > 0 and not has(sc, "A")):
        want_n, x = 0, 0.0
        while want_n < 100000:
            x = x + rate
            if x > sc["dur"]:
                break
            want_n += 1
        for n in range(nn):
            if counts[n] != want_n:
                v.append("C12: node %d got %d telemetry callbacks, the run lasted until %r with an update every %r: %d updates"
                         % (n, counts[n], sc["dur"], rate, want_n))
                break
    if counts and max(counts) - min(counts) > 1:
        v.append("C12: telemetry counts per node differ by more than one update: %s" % counts)
    done = P and P[-1][0] == "end" and P[-1][1] == "done" and sc["maxit"] is None
    if done and counts and max(counts) != min(counts) and sc["dur"] is not None:
        v.append("C12: the run ended by duration but nodes got different numbers of telemetry: %s" % counts)
    # own position right after the update: the update on which a node lands puts it ON its target, and that
    # is what the telemetry of that very update must carry (positions are observable only through telemetry)
    for m in mon_C11(sc, trace):
        if "was within one step" in m:
            v.append("C12: telemetry of a landing update does not carry the node's position right after that update (its target): "
                     + m[len("C11: "):])
            break
    # own position: a node that never got a target reports its initial position for ever
    moved = set()
    for t in P:
        if t[0] == "act" and t[2] in ("goto", "gotogeo") and t[-1] == "ok":
            moved.add(int(t[1]))
    for t in P:
        if t[0] == "cb" and t[3] == "telem" and int(t[1]) not in moved:
            n = int(t[1])
            p = (fh(t[4]), fh(t[5]), fh(t[6]))
            if p != tuple(float(x) for x in sc["nodes"][n]["pos"]):
                v.append("C12: node %d never moved but its telemetry carries %s instead of its own position %s"
                         % (n, p, tuple(sc["nodes"][n]["pos"])))
                break
    return v


def project_others(trace, x):
    """what the nodes other than x observe: their callbacks and the outcomes of their requests"""
    out = []
    for l in trace:
        t = l.split()
        if t[0] in ("cb", "act") and int(t[1]) != x:
            out.append(l)
    return out


def mask_finish_time(lines):
    out = []
    in_finish = False
    for l in lines:
        t = l.split()
        if t[0] == "cb":
            in_finish = t[3] == "finish"
            if in_finish:
                t[2] = "<end-of-run>"
                l = " ".join(t)
        elif t[0] == "act" and in_finish and t[2] == "settimer":
            t[4] = "<relative-to-end-of-run>"
            t[5] = "<depends-on-end-of-run>"
            l = " ".join(t)
        out.append(l)
    return out


def mon_C18(sc, trace):
    """needs a recording handler placed before the assertion handler (marks the end of each step)"""
    v = []
    if not has(sc, "A") or not recs(sc):
        return v
    hs = sc["handlers"]
    r0 = "R%d" % recs(sc)[0]
    if hs.index(r0) > hs.index("A"):
        return v
    nn = len(sc["nodes"])
    types = [nd["ty"] for nd in sc["nodes"]]
    flag = [False] * nn
    P = parse(trace)
    asserts = sc["asserts"]

    def inst(ty, at):
        return ty == at or (ty == 2 and at == 0)

    def pred(kind, arg):
        if kind in ("AP", "EP"):
            return [flag[n] for n in range(nn) if inst(types[n], arg)]
        return all(flag) if arg == "all" else any(flag)
    ev_state = {}
    for i, (k, a) in enumerate(asserts):
        if k == "EP":
            ev_state[i] = {n: False for n in range(nn) if inst(types[n], a)}
        elif k == "ESIM":
            ev_state[i] = False
    expected_fail = None
    j = recs(sc)[0]
    got_fail = None
    steps = 0
    finishing = False
    for idx, t in enumerate(P):
        if t[0] == "cb" and t[3] == "finish":
            finishing = True              # no event is executed from here on: nothing below may count as "after an executed event"
        if t[0] == "act" and t[2] == "flag" and t[-1] == "ok":
            flag[int(t[1])] = t[3] == "1"
        elif t[0] == "hafter" and int(t[1]) == j and finishing:
            continue
        elif t[0] == "hafter" and int(t[1]) == j:
            steps += 1
            if expected_fail is not None:
                v.append("C18: an event was executed (iteration %s) after always-assertion %d had been violated" % (t[2], expected_fail))
                return v
            for i, (k, a) in enumerate(asserts):
                if k == "AP" and not all(pred(k, a)):
                    expected_fail = i
                    break
                if k == "ASIM" and not pred(k, a):
                    expected_fail = i
                    break
                if k == "EP":
                    for n in ev_state[i]:
                        if flag[n]:
                            ev_state[i][n] = True
                if k == "ESIM" and pred(k, a):
                    ev_state[i] = True
            if expected_fail is not None:
                nxt = next((u for u in P[idx + 1:] if u[0] in ("assertfail", "hafter", "cb")), None)
                rest = [u for u in P[idx + 1:] if u[0] in ("assertfail",)]
                # the assertion handler runs right after this recorder
                k2 = idx + 1
                while k2 < len(P) and P[k2][0] == "hafter" and int(P[k2][2]) == int(t[2]):
                    k2 += 1
                if k2 >= len(P) or P[k2][0] != "assertfail":
                    v.append("C18: always-assertion %d is violated after iteration %s but the run was not interrupted there"
                             % (expected_fail, t[2]))
                    return v
                if P[k2][1] != str(expected_fail):
                    v.append("C18: assertion %s reported, the first violated one in list order is %d" % (P[k2][1], expected_fail))
                return v
        elif t[0] == "assertfail":
            got_fail = (idx, t[1])
            break
    status = P[-1][1] if P and P[-1][0] == "end" else "?"
    if got_fail is not None:
        # a failure that the timeline does not justify as an always-violation: it must be an eventually-failure at finalisation
        i = int(got_fail[1]) if got_fail[1].isdigit() else -1
        fin_seen = any(t[0] == "cb" and t[3] == "finish" for t in P[:got_fail[0]])
        if not fin_seen and nn > 0:
            v.append("C18: assertion %s failed although no always-assertion is violated at that point" % got_fail[1])
            return v
        if 0 <= i < len(asserts) and asserts[i][0] in ("AP", "ASIM"):
            v.append("C18: always-assertion %d failed during finalisation although its predicate held after every executed event" % i)
            return v
        want = None
        for i2, (k, a) in enumerate(asserts):
            if k == "EP" and not all(ev_state[i2].values()):
                want = i2
                break
            if k == "ESIM" and not ev_state[i2]:
                want = i2
                break
        if want is None:
            v.append("C18: eventually-assertion %s failed at the end although its predicate had been true after an executed event" % got_fail[1])
        elif str(want) != got_fail[1]:
            v.append("C18: assertion %s reported at the end, the first failing one in list order is %d" % (got_fail[1], want))
        return v
    if status == "done":
        for i2, (k, a) in enumerate(asserts):
            if (k == "EP" and not all(ev_state[i2].values())) or (k == "ESIM" and not ev_state[i2]):
                v.append("C18: eventually-assertion %d never held after any executed event but the run ended without a failure" % i2)
                break
    return v


# ------------------------------------------------------------------------------------------------
# plugins
# ------------------------------------------------------------------------------------------------

def _items(line):
    return [x.strip() for x in line.split("|")][1:]


def mon_C15(case, lines):
    """replays the registrations and checks each dispatch against the chain as it was when the
    dispatch started"""
    v = []
    chains = {}            # (inst, kind) -> [handler ids], newest first
    wrapped = set()
    counts = [0] * len(case["beh"])

    def beh(h):
        table = case["beh"][h]
        n = counts[h]
        counts[h] += 1
        if not table:
            return "continue", []
        return table[min(n, len(table) - 1)]

    def apply(o, got, pos):
        kind_, i, k, h = o
        if i not in wrapped:
            return
        ch = chains.setdefault((i, k), [])
        if kind_ == "reg":
            ch.insert(0, h)
        else:
            if h in ch:
                ch.remove(h)
    for op, line in zip(case["ops"], lines):
        items = _items(line)
        if any(x.startswith(("exc:", "runaway")) for x in items):
            v.append("C15: %s raised / did not terminate: %s" % (op, items[-1]))
            return v
        if op[0] == "create":
            if "rewrapped" in items:
                v.append("C15: asking for the dispatcher of instance %d again wrapped its methods a second time" % op[1])
            wrapped.add(op[1])
        elif op[0] in ("reg", "unreg"):
            if op[1] in wrapped:
                ch = chains.setdefault((op[1], op[2]), [])
                if op[0] == "unreg":
                    if (op[3] in ch) != ("valueerror" not in items):
                        v.append("C15: unregister of handler %d (registered: %s) gave %s" % (op[3], op[3] in ch, items))
                apply(op, items, 0)
        elif op[0] == "disp":
            i, k = op[1], op[2]
            if i not in wrapped:
                if items != ["proto %d %s" % (i, k)]:
                    v.append("C15: dispatch on an instance without dispatcher gave %s" % items)
                continue
            snap = list(chains.get((i, k), []))
            budget = [0]

            def dispatch(i, k, want):
                """what one dispatch must do, appended to want; recursive for dispatches started inside a handler"""
                budget[0] += 1
                if budget[0] > 300:
                    raise RecursionError
                if i not in wrapped:
                    want.append("proto %d %s" % (i, k))
                    return
                for h in list(chains.get((i, k), [])):
                    want.append("call %d %s %d" % (i, k, h))
                    res, ops = beh(h)
                    for o in ops:
                        if o[0] == "ndisp":
                            want.append("enter %d %s" % (o[1], o[2]))
                            dispatch(o[1], o[2], want)
                            want.append("exit")
                        elif o[1] in wrapped:
                            ch = chains.setdefault((o[1], o[2]), [])
                            if o[0] == "unreg" and o[3] not in ch:
                                want.append("valueerror")
                            apply(o, None, 0)
                        else:
                            want.append("nowrapper")
                    if res == "interrupt" and k in ("timer", "telem", "packet"):
                        return
                want.append("proto %d %s" % (i, k))
            want = []
            try:
                dispatch(i, k, want)
            except RecursionError:
                return v          # handlers dispatching each other without end: no expectation
            if "outoffuel" in items:
                return v
            if items != want:
                gc = [x for x in items if x.startswith(("call", "proto", "enter", "exit"))]
                wc = [x for x in want if x.startswith(("call", "proto", "enter", "exit"))]
                if gc != wc:
                    v.append("C15: dispatch %d/%s with chain (newest first) %s invoked %s, expected %s" % (i, k, snap, gc, wc))
                    return v
    return v


def mon_C16(case, lines):
    v = []
    mission = None
    cur, rev, idle = None, False, True
    last_goto = None
    mode, tol = case["mode"], case["tol"]
    for op, line in zip(case["ops"], lines):
        head = line.split("|")[0].split()
        items = _items(line)
        if head[0].startswith(("exc:", "status-exc")) or len(head) < 7:
            v.append("C16: %s raised %s" % (op[0], head[0]))
            return v
        res = head[0]
        ncur = None if head[2] == "none" else int(head[2])
        nrev, nidle = head[4] == "1", head[6] == "1"
        gotos = [tuple(fh(x) for x in it.split()[1:4]) for it in items if it.startswith("goto")]
        if gotos:
            last_goto = gotos[-1]
        # expected error behaviour
        if op[0] == "start":
            mission = [tuple(p) for p in op[1]]
        elif op[0] == "stop":
            mission = None
        want_err = False
        if op[0] == "setwp":
            want_err = mission is None or op[1] < 0 or op[1] >= len(mission)
        if op[0] == "setrev":
            want_err = mission is None or mode != "reverse"
        if want_err != (res == "err"):
            v.append("C16: %s %s -> %s, expected %s" % (op[0], op[1:] if len(op) > 1 else "", res, "the plugin's exception" if want_err else "success"))
        if res == "err":
            if (ncur, nrev, nidle) != (cur, rev, idle) or items:
                v.append("C16: a refused %s changed the status from %s to %s or issued commands %s" % (op[0], (cur, rev, idle), (ncur, nrev, nidle), items))
        # mission may have stopped by itself (NO loop at the end)
        if nidle and op[0] not in ("start",):
            mission = None if ncur is None else mission
        # consistency
        if nidle != (ncur is None):
            v.append("C16: after %s: idle=%s but current waypoint=%s" % (op[0], nidle, ncur))
        if nidle and nrev:
            v.append("C16: after %s: reversed while idle" % op[0])
        if nrev and mode != "reverse":
            v.append("C16: after %s: reversed in loop mode %s" % (op[0], mode))
        if not nidle and mission is not None and ncur is not None:
            if not (0 <= ncur < len(mission)):
                v.append("C16: after %s: current waypoint %d is not a valid index into a mission of %d waypoints" % (op[0], ncur, len(mission)))
            elif last_goto != mission[ncur]:
                v.append("C16: after %s: current waypoint is %d = %s but the last goto issued is to %s" % (op[0], ncur, mission[ncur], last_goto))
        # order
        if op[0] == "telem" and mission is not None and cur is not None and 0 <= cur < len(mission) and res == "ok":
            reached = _py_sq(tuple(op[1]), mission[cur]) <= tol ** 2
            n = len(mission)
            if not reached:
                want = (cur, rev, idle)
            elif rev:
                want = (cur - 1, True, False) if cur > 0 else ((None, False, True) if mode == "no" else (0, False if mode == "reverse" else rev, False))
            elif cur + 1 < n:
                want = (cur + 1, False, False)
            else:
                want = {"no": (None, False, True), "restart": (0, False, False), "reverse": (max(n - 2, 0), True, False)}[mode]
            if (ncur, nrev, nidle) != want:
                v.append("C16: telemetry %s waypoint %d (%s, reversed=%s): status became %s, the loop mode %s implies %s"
                         % ("reached" if reached else "did not reach", cur, mission[cur], rev, (ncur, nrev, nidle), mode, want))
            if not reached and items:
                v.append("C16: telemetry outside the tolerance issued %s" % items)
        if nidle:
            mission = None
        cur, rev, idle = ncur, nrev, nidle
    return v


def mon_C17(case, lines):
    v = []
    box, tol = case["box"], case["tol"]
    ongoing, target = False, None
    ops = []
    for op in case["ops"]:
        if op[0] in ("telem+finish", "telem+init"):
            ops += [("telem", op[1]), ("finish",) if op[0] == "telem+finish" else ("init",)]
        elif op[0] == "init+telem":
            ops += [("init",), ("telem", op[1])]
        else:
            ops.append(op)
    for op, line in zip(ops, lines):
        head = line.split("|")[0].split()
        items = _items(line)
        if head[0].startswith("exc:"):
            v.append("C17: %s raised %s" % (op[0], head[0][4:]))
            return v
        if "returned-differs-from-goto" in line:
            v.append("C17: travel_to_random_waypoint returned a waypoint different from the goto it sent")
        n_ong = head[1] == "1"
        n_tgt = None if head[3] == "none" else tuple(fh(x) for x in head[3:6])
        gotos = [tuple(fh(x) for x in it.split()[1:4]) for it in items if it.startswith("goto")]
        for g in gotos:
            for k in range(3):
                a, b = box[k]
                eps = 1e-9 * (1 + abs(a) + abs(b))
                if not (min(a, b) - eps <= g[k] <= max(a, b) + eps):
                    v.append("C17: waypoint %s outside the configured box %s" % (g, box))
        if op[0] == "init":
            if len(gotos) != 1 or not n_ong or n_tgt != gotos[-1]:
                v.append("C17: initiate: ongoing=%s target=%s gotos=%s" % (n_ong, n_tgt, gotos))
        elif op[0] == "finish":
            if gotos or n_ong:
                v.append("C17: finish: ongoing=%s, commands %s" % (n_ong, gotos))
        elif op[0] == "travel":
            if len(gotos) != 1 or n_ong != ongoing:
                v.append("C17: travel: ongoing %s -> %s, gotos %s" % (ongoing, n_ong, gotos))
        elif op[0] == "telem":
            if not ongoing:
                if gotos:
                    v.append("C17: no trip is ongoing but telemetry produced movement commands %s" % gotos)
            elif target is not None:
                arrived = _py_sq(tuple(op[1]), target) <= tol * tol
                if arrived and (len(gotos) != 1 or n_tgt != gotos[-1]):
                    v.append("C17: arrived at the target %s (telemetry %s) but %d waypoint(s) drawn, target now %s" % (target, op[1], len(gotos), n_tgt))
                if not arrived and gotos:
                    v.append("C17: telemetry %s is not within %r of the target %s but a new waypoint was drawn" % (op[1], tol, target))
        ongoing, target = n_ong, n_tgt
    return v
