"""Regenerates MANIFEST.json from the table below (kept next to the checks it describes)."""
import json, os
VERIF = os.path.dirname(os.path.dirname(os.path.abspath(__file__)))
CLAIMED = {
 "C01": ("proof", "Theorems (all F with OrderLaws, all payloads, all histories, all hooks/protocols): queued events never precede the clock; pops and the clock are monotone; a request is refused iff it is in the past and then nothing changes; executed-event times are non-decreasing in every kernel run; the callback of an event reports that event's time/node/payload; requests issued by callbacks are never in the past. Tied to the code by bit-exact trace correspondence of the extracted model against /repo on exhaustive small event-loop histories, random histories and scripted whole simulations, with a monitor on the implementation's traces as the failing-input search.",
         "proof + correspondence; doubles assumed to satisfy OrderLaws (non-NaN); heapq assumed to return a minimum; NaN timestamps and exceptions escaping protocol code are outside the model", "§6 C01"),
 "C02": ("proof", "Theorems: multiset conservation over every API history (queued+accepted = popped+cleared+queued), len = accepted-popped-cleared, popped/cleared/queued events pairwise distinct and every popped event was queued or accepted, refusals leave the state equal and occur only for past timestamps / empty pops, peek = next pop; for whole runs with arbitrary hooks: initially queued + accepted requests = executed + still queued at every prefix, iteration counter = number executed. Correspondence on exhaustive/random histories and simulations run to exhaustion; conservation monitor on implementation traces.",
         "proof + correspondence; same assumptions as C01", "§6 C02"),
 "C03": ("proof", "Theorems: accepted requests get increasing sequence numbers; in pop order, equal-timestamp events appear in increasing sequence number for every history (FIFO); the heap contract determines the popped element uniquely, so the result holds for any correct heap. Correspondence on all insertion orders of tied timestamps interleaved with pops (small scope, exhaustive), random histories, and simulations with bursts of sends over a fixed delay and same-instant timers (unique payloads), with a per-link / per-node FIFO monitor.",
         "proof + correspondence; link/timer FIFO in whole simulations follows from the queue theorem plus monotone addition of the delay (OrderLaws.add_mono_l) and is exercised, not separately stated", "§6 C03"),
 "C04": ("proof", "Theorems (all hooks, all bounds): every executed event has timestamp <= duration and ordinal < max_iterations; is_simulation_done is false iff the queue is non-empty, its earliest event is within the duration and the limit is not reached; step returns True iff the run is not finished; the blocking run is initialise; loop-while-not-done; finalise; the clock never exceeds the duration. Correspondence on timelines x {duration in None/0/event time/between/past} x {max_iterations in None/0/1/k/>total}, blocking and stepped; monitor recomputes the eligible prefix of the unbounded run from recorder traces.",
         "proof + correspondence", "§6 C04"),
 "C05": ("proof", "Theorems: a run from a fresh simulator is exactly init-phase once; loop of (event, its callbacks, after-step hooks) with consecutive iteration numbers; finish-phase once; the init phase is handler-initialize in order then protocol initialize per node in order at time 0; the after-step phase reaches every recording handler in order with (iteration, timestamp); the finish phase is finish per node then handler finalize; events never produce initialize/finish; stepping a completed run returns False and changes nothing for any number of extra steps. Correspondence with 1-3 recording handlers, 0-4 nodes, all termination causes and drivers; phase-shape monitor.",
         "proof + correspondence; runs aborted by an exception escaping a protocol are outside the quantifier", "§6 C05"),
 "C06": ("proof", "Theorem: if the blocking call terminates, manual stepping reaches the same state and trace after n steps (True..True,False) and further steps change nothing. Independence from logging/debug/profiling/log file/real-time pacing/hash seed/other simulations is structural in the model (none is an input) and is transferred to the code by correspondence: every variant's implementation trace must equal the one model trace (quick: option variants, stepped driving, two simulations interleaved step by step in one process; thorough adds fresh interpreters with PYTHONHASHSEED in {0,1,4242,random} and orderings A.B.A / B.A). PARTIAL: process-global and hash-order effects cannot be exhibited by an executable model; they are exercised, not proved.",
         "proof for driver equivalence; correspondence (differential) for observation/process independence", "§6 C06"),
}
TECH = "Coq 8.16 theorems over an executable Gallina model (induction/invariants), tied to /repo by extracted-OCaml vs CPython trace correspondence + property monitors"
def main():
    props = [json.loads(l) for l in open(os.path.join(VERIF, "properties.jsonl"))]
    checks, na = [], []
    for p in props:
        pid = p["id"]
        if pid in CLAIMED:
            cat, text, note, ref = CLAIMED[pid]
            checks.append({"property_id": pid, "quick_cmd": "./check %s --tier quick" % pid,
                           "thorough_cmd": "./check %s --tier thorough" % pid,
                           "evidence_file": "/verif/evidence/%s.json" % pid,
                           "replay_cmd_template": "./check %s --replay {path}" % pid,
                           "engine": "coq-model+correspondence",
                           "level_claimed": {"category": cat, "text": text, "design_ref": ref},
                           "level_note": note, "technique": TECH})
        else:
            na.append({"property_id": pid, "reason": "check not yet built in this commit (work in progress; the technique applies, see DESIGN.md §6)"})
    m = {"version": 1, "setup_cmd": "./build.sh",
         "hooks": {"guard": "GRADYSIM_VERIF", "enable": "no source hooks: checks observe /repo through public extension points only (IProtocol / INodeHandler subclasses, SimulationBuilder); the guard variable is unused",
                   "baseline_off_cmd": "cd /repo && /venv/bin/python -m pytest -ra -q -p no:cacheprovider --timeout=900 --continue-on-collection-errors",
                   "source_commits": [], "add_only": True},
         "engines": [{"name": "coq-model+correspondence", "path": "/verif/coq, /verif/ocaml, /verif/harness",
                      "serves_properties": sorted(CLAIMED), "kind_free_text": "machine-checked proofs (Coq 8.16.1) about a hand-written executable model; model extracted to OCaml and compared bit-for-bit with /repo's implementation on generated scenarios; property monitors on implementation traces"}],
         "checks": checks, "not_applicable": na,
         "notes": "Genuine defects repaired in /repo by 'fix:' commits are listed in known_findings.json (fixed entries suppress nothing)."}
    json.dump(m, open(os.path.join(VERIF, "MANIFEST.json"), "w"), indent=1)
if __name__ == "__main__":
    main()
