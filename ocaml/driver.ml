(* driver.ml — runs the extracted Gallina model (model.ml) on scenarios written by the
   Python harness and prints canonical traces.  Hand-written and trusted: token reader,
   nat/N conversion, the float instance of ArithOps, printers.  No model logic lives here. *)
open Model

(* ---- numbers ------------------------------------------------------------------------- *)
let rec nat_of_int n = if n <= 0 then O else S (nat_of_int (n - 1))
let rec int_of_nat = function O -> 0 | S n -> 1 + int_of_nat n
let rec int_of_pos = function
  | XH -> 1
  | XO p -> 2 * int_of_pos p
  | XI p -> 2 * int_of_pos p + 1
let int_of_n = function N0 -> 0 | Npos p -> int_of_pos p

let fl : float arithOps = {
  f0 = 0.0; f1 = 1.0; f2 = 2.0;
  fadd = (fun x y -> x +. y); fsub = (fun x y -> x -. y);
  fmul = (fun x y -> x *. y); fdiv = (fun x y -> x /. y);
  fneg = (fun x -> -. x);
  fsq = (fun x -> x ** 2.0);            (* CPython: float ** 2 -> libm pow(x, 2.0) *)
  fsqrt = sqrt;
  fleb = (fun (x : float) y -> x <= y);
  fltb = (fun (x : float) y -> x < y);
  feqb = (fun (x : float) y -> x = y);
  fsin = sin; fcos = cos; facos = acos;
  fatan2 = (fun y x -> atan2 y x);
  frad = (fun x -> x *. (Float.pi /. 180.0));  (* math.radians: x * (Py_MATH_PI / 180.0) *)
  f1em6 = 1e-6; fearth = 6371000.0 }

(* ---- token reader ---------------------------------------------------------------------- *)
let toks : string array ref = ref [||]
let pos = ref 0
let load ic =
  let b = Buffer.create 65536 in
  (try while true do Buffer.add_channel b ic 1 done with End_of_file -> ());
  let s = Buffer.contents b in
  toks := Array.of_list (List.filter (fun x -> x <> "")
            (String.split_on_char ' ' (String.map (fun c -> if c = '\n' || c = '\t' || c = '\r' then ' ' else c) s)))
let eof () = !pos >= Array.length !toks
let next () = let t = (!toks).(!pos) in incr pos; t
let peek () = (!toks).(!pos)
let nint () = int_of_string (next ())
let nnat () = nat_of_int (nint ())
let nflt () = float_of_string (next ())
let nvec () = let x = nflt () in let y = nflt () in let z = nflt () in ((x, y), z)
let expect s = let t = next () in if t <> s then failwith (Printf.sprintf "expected %s got %s at %d" s t !pos)
let rec ntimes n f = if n <= 0 then [] else let x = f () in x :: ntimes (n - 1) f
let nopt f = match next () with "none" -> None | "some" -> Some (f ()) | t -> failwith ("option: " ^ t)

(* ---- printers ---------------------------------------------------------------------------- *)
let out = Buffer.create 65536
let pf fmt = Printf.bprintf out fmt
let hx (x : float) = Printf.sprintf "%h" x
let vec ((x, y), z) = Printf.sprintf "%s %s %s" (hx x) (hx y) (hx z)

(* ---- event loop histories ---------------------------------------------------------------- *)
let run_el () =
  let n = nint () in
  let ops = ntimes n (fun () ->
    match next () with
    | "sched" -> let ts = nflt () in let tag = nint () in OpSchedule (ts, tag)
    | "pop" -> OpPop | "peek" -> OpPeek | "clear" -> OpClear | "len" -> OpLen | "now" -> OpNow
    | t -> failwith ("el op: " ^ t)) in
  let (_, res) = el_run fl (el_init fl) ops in
  List.iter (fun r ->
    match r with
    | RScheduled -> pf "ok\n"
    | RRefused -> pf "refused\n"
    | RPopped (ts, tag) -> pf "popped %s %d\n" (hx ts) tag
    | RPeeked None -> pf "peeked none\n"
    | RPeeked (Some (ts, tag)) -> pf "peeked %s %d\n" (hx ts) tag
    | RCleared -> pf "cleared\n"
    | RLen k -> pf "len %d\n" (int_of_nat k)
    | RNow t -> pf "now %s\n" (hx t)) res

(* ---- full simulations -------------------------------------------------------------------- *)
let str_cb = function
  | CbInit -> "init"
  | CbTimer n -> Printf.sprintf "timer %d" (int_of_nat n)
  | CbPacket m -> Printf.sprintf "packet %d" (int_of_nat m)
  | CbTelemetry p -> "telem " ^ vec p
  | CbFinish -> "finish"
let str_act = function
  | ASetTimer (n, ts) -> Printf.sprintf "settimer %d %s" (int_of_nat n) (hx ts)
  | ACancel n -> Printf.sprintf "cancel %d" (int_of_nat n)
  | ASend (m, None) -> Printf.sprintf "send %d none" (int_of_nat m)
  | ASend (m, Some d) -> Printf.sprintf "send %d %d" (int_of_nat m) (int_of_nat d)
  | ABroadcast m -> Printf.sprintf "bcast %d" (int_of_nat m)
  | ABcastDst (m, d) -> Printf.sprintf "bcastdst %d %d" (int_of_nat m) (int_of_nat d)
  | AGoto p -> "goto " ^ vec p
  | AGotoGeo p -> "gotogeo " ^ vec p
  | ASetSpeed s -> "speed " ^ hx s
  | ASetRange r -> "range " ^ hx r
  | ASetFlag b -> if b then "flag 1" else "flag 0"
let str_out = function Ok -> "ok" | ErrTimer -> "errtimer" | ErrComm -> "errcomm" | ErrValue -> "errvalue"
let str_pl = function
  | EvTimer (n, nm, id) -> Printf.sprintf "timer %d %d %d" (int_of_nat n) (int_of_nat nm) (int_of_n id)
  | EvDeliver (s, d, m) -> Printf.sprintf "deliver %d %d %d" (int_of_nat s) (int_of_nat d) (int_of_nat m)
  | EvTick -> "tick"
  | EvTelemetry (n, p) -> Printf.sprintf "telemetry %d %s" (int_of_nat n) (vec p)

let print_item show_exec = function
  | KUser (TCb (n, t, c)) -> pf "cb %d %s %s\n" (int_of_nat n) (hx t) (str_cb c)
  | KUser (TAct (n, a, o)) -> pf "act %d %s %s\n" (int_of_nat n) (str_act a) (str_out o)
  | KUser (THInit j) -> pf "hinit %d\n" (int_of_nat j)
  | KUser (THAfter (j, i, ts)) -> pf "hafter %d %d %s\n" (int_of_nat j) (int_of_nat i) (hx ts)
  | KUser (THFinal j) -> pf "hfinal %d\n" (int_of_nat j)
  | KUser (TAssertFail i) -> pf "assertfail %d\n" (int_of_nat i)
  | KExec (i, ts, sq, p) -> if show_exec then pf "exec %d %s %d %s\n" (int_of_nat i) (hx ts) (int_of_n sq) (str_pl p)
  | KRefused (ts, p) -> pf "refused %s %s\n" (hx ts) (str_pl p)
  | KSched (ts, sq, p) -> if show_exec then pf "sched %s %d %s\n" (hx ts) (int_of_n sq) (str_pl p)

let read_action () : float action =
  match next () with
  | "settimer" -> let name = nnat () in ASetTimer (name, nflt ())
  | "cancel" -> ACancel (nnat ())
  | "send" -> let m = nnat () in ASend (m, (match next () with "none" -> None | d -> Some (nat_of_int (int_of_string d))))
  | "bcast" -> ABroadcast (nnat ())
  | "bcastdst" -> let m = nnat () in let d = nnat () in ABcastDst (m, d)
  | "goto" -> AGoto (nvec ())
  | "gotogeo" -> AGotoGeo (nvec ())
  | "speed" -> ASetSpeed (nflt ())
  | "range" -> ASetRange (nflt ())
  | "flag" -> ASetFlag (nint () <> 0)
  | t -> failwith ("action: " ^ t)

let read_sact () : float sact =
  match peek () with
  | "settimer" ->
      ignore (next ());
      let name = nnat () in
      (match next () with
       | "abs" -> SSetTimer (name, TAbs (nflt ()))
       | "rel" -> SSetTimer (name, TRel (nflt ()))
       | t -> failwith ("tspec: " ^ t))
  | "gotohere" -> ignore (next ()); SGotoHere
  | _ -> SAct (read_action ())

let read_rule () : float rule =
  let trig = match next () with
    | "init" -> OnInit
    | "timer" -> OnTimer (match next () with "any" -> None | n -> Some (nat_of_int (int_of_string n)))
    | "packet" -> OnPacket (match next () with "any" -> None | n -> Some (nat_of_int (int_of_string n)))
    | "telem" -> OnTelemetry
    | "finish" -> OnFinish
    | t -> failwith ("trigger: " ^ t) in
  let nth = match next () with "any" -> None | k -> Some (nat_of_int (int_of_string k)) in
  let na = nint () in
  let acts = ntimes na read_sact in
  { r_trig = trig; r_nth = nth; r_acts = acts }

let run_sim () =
  expect "H";
  let nh = nint () in
  let handlers = ntimes nh (fun () ->
    match next () with
    | "T" -> HTimer | "C" -> HComm | "M" -> HMob | "A" -> HAssert
    | "R" -> HRec (nnat ())
    | t -> failwith ("handler: " ^ t)) in
  expect "N";
  let nn = nint () in
  let nodes = ntimes nn (fun () -> let p = nvec () in let ty = nnat () in (p, ty)) in
  expect "MED";
  let range = nflt () in let delay = nflt () in let fail = nflt () in
  expect "MOB";
  let rate = nflt () in let speed = nflt () in let rf = nvec () in
  expect "AS";
  let na = nint () in
  let asserts = ntimes na (fun () ->
    match next () with
    | "AP" -> AAlwaysProto (nnat ())
    | "EP" -> AEventuallyProto (nnat ())
    | "ASIM" -> AAlwaysSim (match next () with "all" -> QAll | _ -> QAny)
    | "ESIM" -> AEventuallySim (match next () with "all" -> QAll | _ -> QAny)
    | t -> failwith ("assertion: " ^ t)) in
  expect "RNG";
  let nr = nint () in
  let stream = ntimes nr nflt in
  expect "DUR"; let dur = nopt nflt in
  expect "MAXIT"; let maxit = nopt nnat in
  expect "DRV";
  let drv = match next () with
    | "run" -> `Run (nint ())
    | "steps" -> `Steps (nint ())
    | "mixed" -> let n = nint () in let fuel = nint () in `Mixed (n, fuel)
    | "runrun" -> `RunRun (nint ())
    | "drive" ->
        let n = nint () in
        `Drive (ntimes n (fun () ->
          match next () with
          | "step" -> DStep
          | "ext" -> let nd = nnat () in let k = nint () in DExt (nd, ntimes k read_action)
          | t -> failwith ("drive op: " ^ t)))
    | t -> failwith ("driver: " ^ t) in
  let show_exec = (match peek () with "SHOWEXEC" -> ignore (next ()); true | _ -> false) in
  expect "SCRIPT";
  let script = ntimes nn (fun () -> let nrules = nint () in ntimes nrules read_rule) in
  let cfg = { c_handlers = handlers; c_nnodes = nat_of_int nn;
              c_pos0 = List.map fst nodes; c_types = List.map snd nodes;
              c_range = range; c_delay = delay; c_fail = fail;
              c_rate = rate; c_speed = speed; c_ref = rf;
              c_asserts = asserts; c_stream = stream } in
  let react = script_react fl script in
  let hk = sim_hooks fl cfg react in
  let kc = { k_duration = dur; k_maxit = maxit } in
  let (s0, i0) = sim_start fl cfg (fun _ -> counters0) in
  List.iter (print_item show_exec) i0;
  (match drv with
   | `Run fuel ->
       let ((s1, items), fin) = k_run fl hk kc (nat_of_int fuel) s0 in
       List.iter (print_item show_exec) items;
       pf "end %s iter %d draws %d\n" (if fin then (if s1.k_aborted then "aborted" else "done") else "outoffuel")
         (int_of_nat s1.k_iter) (int_of_nat s1.k_h.s_cursor)
   | `RunRun fuel ->
       let ((s1, items), fin) = k_run fl hk kc (nat_of_int fuel) s0 in
       List.iter (print_item show_exec) items;
       let ((s2, items2), fin2) = if s1.k_aborted then ((s1, []), true) else k_run fl hk kc (nat_of_int fuel) s1 in
       List.iter (print_item show_exec) items2;
       pf "end %s iter %d draws %d\n" (if fin && fin2 then (if s2.k_aborted then "aborted" else "done") else "outoffuel")
         (int_of_nat s2.k_iter) (int_of_nat s2.k_h.s_cursor)
   | `Mixed (n, fuel) ->
       let s = ref s0 in
       let k = ref 0 in
       while !k < n && not !s.k_aborted do
         incr k;
         let ((s1, items), r) = k_step fl hk kc !s in
         List.iter (print_item show_exec) items;
         pf "ret %s\n" (if s1.k_aborted then "raised" else if r then "true" else "false");
         s := s1
       done;
       if !s.k_aborted then
         pf "end aborted iter %d draws %d\n" (int_of_nat !s.k_iter) (int_of_nat !s.k_h.s_cursor)
       else begin
         let ((s1, items), fin) = k_run fl hk kc (nat_of_int fuel) !s in
         List.iter (print_item show_exec) items;
         pf "end %s iter %d draws %d\n" (if fin then (if s1.k_aborted then "aborted" else "done") else "outoffuel")
           (int_of_nat s1.k_iter) (int_of_nat s1.k_h.s_cursor)
       end
   | `Drive ops ->
       let s = ref s0 in
       List.iter (fun o ->
         (match o with
          | DExt (nd, _) ->
              (* the marker line is glue: node, and the time its provider reports (the clock, or 0 without a timer handler) *)
              pf "cb %d %s ext\n" (int_of_nat nd) (hx (if has_timer cfg then !s.k_el.el_now else 0.0))
          | DStep -> ());
         let ((s1, items), r) = sim_drive1 fl cfg react kc !s o in
         List.iter (print_item show_exec) items;
         (match r with
          | Some b -> pf "ret %s\n" (if s1.k_aborted then "raised" else if b then "true" else "false")
          | None -> ());
         s := s1) ops;
       pf "end %s iter %d draws %d\n" (if !s.k_aborted then "aborted" else if !s.k_final then "done" else "running")
         (int_of_nat !s.k_iter) (int_of_nat !s.k_h.s_cursor)
   | `Steps n ->
       let s = ref s0 in
       let k = ref 0 in
       while !k < n && not !s.k_aborted do
         incr k;
         let ((s1, items), r) = k_step fl hk kc !s in
         List.iter (print_item show_exec) items;
         pf "ret %s\n" (if s1.k_aborted then "raised" else if r then "true" else "false");
         s := s1
       done;
       pf "end %s iter %d draws %d\n" (if !s.k_aborted then "aborted" else if !s.k_final then "done" else "running")
         (int_of_nat !s.k_iter) (int_of_nat !s.k_h.s_cursor))


(* ---- plugins: mission, dispatcher, random trip ------------------------------------------------- *)
let rec pos_of_int n = if n <= 1 then XH else if n land 1 = 0 then XO (pos_of_int (n lsr 1)) else XI (pos_of_int (n lsr 1))
let z_of_int n = if n = 0 then Z0 else if n > 0 then Zpos (pos_of_int n) else Zneg (pos_of_int (- n))

let run_mission () =
  let speed = nflt () in
  let mode = (match next () with "no" -> LoopNo | "restart" -> LoopRestart | "reverse" -> LoopReverse | t -> failwith ("mode: " ^ t)) in
  let tol = nflt () in
  let n = nint () in
  let ops = ntimes n (fun () ->
    match next () with
    | "start" -> let k = nint () in MStart (ntimes k nvec)
    | "stop" -> MStop
    | "setwp" -> MSetWaypoint (z_of_int (nint ()))
    | "setrev" -> MSetReversed (nint () <> 0)
    | "telem" -> MTelemetry (nvec ())
    | t -> failwith ("mission op: " ^ t)) in
  let cfg = { mc_speed = speed; mc_loop = mode; mc_tol = tol } in
  let (_, out) = m_run fl cfg m_init ops in
  List.iter (fun ((cmds, res), ((cur, rev), idle)) ->
    pf "%s cur %s rev %d idle %d" (match res with MOk -> "ok" | MErr -> "err" | MIndexError -> "indexerror")
      (match cur with None -> "none" | Some i -> string_of_int (int_of_nat i)) (if rev then 1 else 0) (if idle then 1 else 0);
    List.iter (fun c -> match c with MGoto p -> pf " | goto %s" (vec p) | MSetSpeed v -> pf " | speed %s" (hx v)) cmds;
    pf "\n") out

let kind_of_string = function
  | "init" -> KInit | "timer" -> KTimer | "telem" -> KTelem | "packet" -> KPacket | "finish" -> KFinish
  | t -> failwith ("kind: " ^ t)
let string_of_kind = function
  | KInit -> "init" | KTimer -> "timer" | KTelem -> "telem" | KPacket -> "packet" | KFinish -> "finish"

let run_disp () =
  let ninst = nint () in
  let nh = nint () in
  expect "BEH";
  let table = Array.of_list (ntimes nh (fun () ->
    let ne = nint () in
    Array.of_list (ntimes ne (fun () ->
      let res = (match next () with "continue" -> RContinue | "interrupt" -> RInterrupt | "none" -> RNone | t -> failwith ("res: " ^ t)) in
      let no = nint () in
      let ops = ntimes no (fun () ->
        match next () with
        | "reg" -> let i = nnat () in let k = kind_of_string (next ()) in let h = nnat () in ReReg (i, k, h)
        | "unreg" -> let i = nnat () in let k = kind_of_string (next ()) in let h = nnat () in ReUnreg (i, k, h)
        | "ndisp" -> let i = nnat () in let k = kind_of_string (next ()) in ReDisp (i, k)
        | t -> failwith ("reop: " ^ t)) in
      (res, ops))))) in
  let beh h n =
    let h = int_of_nat h and n = int_of_nat n in
    if h >= Array.length table || Array.length table.(h) = 0 then (RContinue, [])
    else table.(h).(min n (Array.length table.(h) - 1)) in
  expect "OPS";
  let n = nint () in
  let ops = ntimes n (fun () ->
    match next () with
    | "create" -> DCreate (nnat ())
    | "reg" -> let i = nnat () in let k = kind_of_string (next ()) in let h = nnat () in DRegister (i, k, h)
    | "unreg" -> let i = nnat () in let k = kind_of_string (next ()) in let h = nnat () in DUnregister (i, k, h)
    | "disp" -> let i = nnat () in let k = kind_of_string (next ()) in DDispatch (i, k)
    | t -> failwith ("disp op: " ^ t)) in
  let (_, out) = d_run beh (nat_of_int 60) (d_init (nat_of_int ninst) (nat_of_int nh)) ops in
  let rec pitems items =
    List.iter (fun it -> match it with
      | DCall (i, k, h) -> pf " | call %d %s %d" (int_of_nat i) (string_of_kind k) (int_of_nat h)
      | DProto (i, k) -> pf " | proto %d %s" (int_of_nat i) (string_of_kind k)
      | DValueError -> pf " | valueerror"
      | DNoWrapper -> pf " | nowrapper"
      | DNest (i, k, sub) -> pf " | enter %d %s" (int_of_nat i) (string_of_kind k); pitems sub; pf " | exit"
      | DOutOfFuel -> pf " | outoffuel") items in
  List.iter (fun items ->
    pf "op";
    pitems items;
    pf "\n") out

let run_trip () =
  let xa = nflt () in let xb = nflt () in let ya = nflt () in let yb = nflt () in let za = nflt () in let zb = nflt () in
  let tol = nflt () in
  let ns = nint () in
  let stream = ntimes ns nflt in
  let n = nint () in
  let ops = ntimes n (fun () ->
    match next () with
    | "init" -> TInitiate | "finish" -> TFinish | "travel" -> TTravel
    | "telem" -> TTelemetry (nvec ())
    | t -> failwith ("trip op: " ^ t)) in
  let cfg = { tc_x = (xa, xb); tc_y = (ya, yb); tc_z = (za, zb); tc_tol = tol } in
  let (_, out) = t_run fl cfg stream t_init ops in
  List.iter (fun (cmds, ((ongoing, target), cursor)) ->
    pf "ongoing %d target %s draws %d" (if ongoing then 1 else 0)
      (match target with None -> "none" | Some p -> vec p) (int_of_nat cursor);
    List.iter (fun p -> pf " | goto %s" (vec p)) cmds;
    pf "\n") out


let run_camera () =
  let reach = nflt () in let theta = nflt () in let el = nflt () in let rot = nflt () in
  let me = nint () in
  let n = nint () in
  let nodes = ntimes n nvec in
  let cfg = { cam_reach = reach; cam_theta = theta; cam_el = el; cam_rot = rot } in
  (match take_picture fl cfg (nat_of_int me) nodes with
   | None -> pf "error\n"
   | Some l -> pf "picture"; List.iter (fun (i, p) -> pf " | %d %s" (int_of_nat i) (vec p)) l; pf "\n")

let run_geo () =
  let rf = nvec () in
  let n = nint () in
  let pts = ntimes n nvec in
  List.iter (fun p -> pf "%s\n" (vec (geo_to_cartesian fl rf p))) pts


(* interop: per callback the resolved requests of the protocol (resolved by the harness-independent
   script interpreter of the model: kinds + times), printed as consequences + outcomes *)
let str_conseq = function
  | CComm (b, m, d) -> Printf.sprintf "comm %s %d %s" (if b then "bcast" else "send") (int_of_nat m)
                         (match d with None -> "none" | Some x -> string_of_int (int_of_nat x))
  | CGoto p -> "mob goto " ^ vec p
  | CGotoGeo p -> "mob gotogeo " ^ vec p
  | CSetSpeed v -> "mob speed " ^ hx v
  | CTimer (n, ts) -> Printf.sprintf "timer %d %s" (int_of_nat n) (hx ts)
  | CTrack (k, v) -> Printf.sprintf "track %d %d" (int_of_nat k) (int_of_nat v)

let run_interop () =
  (* node id, number of rules + rules (script language), then callbacks: kind [arg] time *)
  let nid = nint () in
  let nr = nint () in
  let rules = ntimes nr read_rule in
  let ncb = nint () in
  let cbs = ntimes ncb (fun () ->
    let t = nflt () in
    let c = (match next () with
      | "init" -> CbInit | "finish" -> CbFinish
      | "timer" -> CbTimer (nnat ()) | "packet" -> CbPacket (nnat ())
      | "telem" -> CbTelemetry (nvec ())
      | x -> failwith ("cb: " ^ x)) in
    let ntr = nint () in
    let tracks = ntimes ntr (fun () -> let k = nnat () in let v = nnat () in RTrack (k, v)) in
    (t, c, tracks)) in
  let script = List.init (nid + 1) (fun i -> if i = nid then rules else []) in
  let ps = ref counters0 in
  let reqs = List.map (fun (t, c, tracks) ->
    let (ps2, acts) = script_react fl script (nat_of_int nid) !ps t c in
    ps := ps2;
    List.map (fun a -> RAct a) acts @ tracks) cbs in
  List.iter (fun (ret, outs) ->
    pf "ret";
    List.iter (fun c -> pf " | %s" (str_conseq c)) ret;
    pf " ;";
    List.iter (fun o -> pf " %s" (match o with IOk -> "ok" | INotImplemented -> "notimplemented" | IValueError -> "errvalue")) outs;
    pf "\n") (interop_session fl [] reqs)

(* ---- main ----------------------------------------------------------------------------------- *)
let dispatch : (string * (unit -> unit)) list ref =
  ref [ ("el", run_el); ("sim", run_sim); ("mission", run_mission); ("disp", run_disp); ("trip", run_trip);
        ("camera", run_camera); ("geo", run_geo); ("interop", run_interop) ]

let () =
  load stdin;
  while not (eof ()) do
    expect "BEGIN";
    let id = next () in
    let kind = next () in
    pf "BEGIN %s\n" id;
    (match List.assoc_opt kind !dispatch with
     | Some f -> (try f () with
                  | Failure m -> pf "driver-error %s\n" m
                  | Stack_overflow -> pf "driver-error stack-overflow\n")
     | None -> failwith ("unknown scenario kind " ^ kind));
    expect "END";
    pf "END %s\n" id;
    if Buffer.length out > 1_000_000 then (print_string (Buffer.contents out); Buffer.clear out)
  done;
  print_string (Buffer.contents out)
