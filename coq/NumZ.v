(** A computable instance (integers) used for [Example]s: concrete runs that show the
    hypotheses of the theorems are satisfiable, evaluated by [vm_compute]. *)
From Coq Require Import ZArith Lia Bool.
From GS Require Import Num.
Local Open Scope Z_scope.

Definition Z_ops : ArithOps Z :=
  mkArith Z 0 1 2 Z.add Z.sub Z.mul Z.div Z.opp (fun x => x * x) Z.sqrt Z.leb Z.ltb Z.eqb
          (fun _ => 0) (fun _ => 1) (fun _ => 0) (fun _ _ => 0) (fun x => x) 0 6371000.

Lemma Z_order_laws : OrderLaws Z_ops.
Proof.
  constructor; simpl; intros; try lia.
Qed.

Lemma Z_zero_laws : ZeroLaws Z_ops.
Proof. constructor; simpl; intros; try lia; reflexivity. Qed.
