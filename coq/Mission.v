(** * Mission: model of gradysim/protocol/plugin/mission_mobility.py

    The plugin's state machine, driven by its public API and by telemetry (its telemetry hook
    sits in the dispatcher chain, see Dispatcher.v).  Commands sent to the provider are
    returned as data. *)
From Coq Require Import List Arith ZArith Bool.
Import ListNotations.
From GS Require Import Num.

Section Mission.
Context {F : Type} (A : ArithOps F).

Inductive loop_mode : Type := LoopNo | LoopRestart | LoopReverse.

Record mconfig : Type := mkMCfg { mc_speed : F; mc_loop : loop_mode; mc_tol : F }.

Inductive mcmd : Type := MGoto (p : vec3 F) | MSetSpeed (s : F).

Record mstate : Type := mkM {
  m_mission : option (list (vec3 F));
  m_reversed : bool;
  m_idle : bool;
  m_cur : option nat;
  m_last_goto : option (vec3 F)       (* ghost: last goto command the plugin issued *)
}.

Definition m_init : mstate := mkM None false true None None.

Inductive mop : Type :=
| MStart (mission : list (vec3 F))
| MStop
| MSetWaypoint (w : Z)
| MSetReversed (b : bool)
| MTelemetry (pos : vec3 F).

Inductive mres : Type := MOk | MErr | MIndexError.

Variable cfg : mconfig.

(** _travel_to_current_waypoint *)
Definition travel (s : mstate) : mstate * list mcmd :=
  match m_cur s, m_mission s with
  | Some i, Some m =>
      match nth_error m i with
      | Some p => (mkM (m_mission s) (m_reversed s) (m_idle s) (m_cur s) (Some p), [MGoto p])
      | None => (s, [])
      end
  | _, _ => (s, [])
  end.

(** stop_mission *)
Definition stop (s : mstate) : mstate := mkM None false true None (m_last_goto s).

(** _progress_current_waypoint (with _has_overran_bounds in-lined) *)
Definition progress (s : mstate) : mstate :=
  match m_mission s, m_cur s with
  | Some m, Some i =>
      let n := length m in
      if m_reversed s then
        match i with
        | S j => mkM (m_mission s) (m_reversed s) (m_idle s) (Some j) (m_last_goto s)
        | O => (* i - 1 < 0: overran *)
            match mc_loop cfg with
            | LoopNo => stop s
            | LoopRestart => mkM (m_mission s) (m_reversed s) (m_idle s) (Some 0) (m_last_goto s)
            | LoopReverse => mkM (m_mission s) false (m_idle s) (Some 0) (m_last_goto s)
            end
        end
      else if Nat.leb n (S i) then (* i + 1 >= len: overran *)
        match mc_loop cfg with
        | LoopNo => stop s
        | LoopRestart => mkM (m_mission s) (m_reversed s) (m_idle s) (Some 0) (m_last_goto s)
        | LoopReverse => mkM (m_mission s) true (m_idle s) (Some (n - 2)) (m_last_goto s)   (* max(len-2, 0) *)
        end
      else mkM (m_mission s) (m_reversed s) (m_idle s) (Some (S i)) (m_last_goto s)
  | _, _ => s
  end.

(** _has_reached_target *)
Definition reached (s : mstate) (pos : vec3 F) : bool :=
  match m_cur s, m_mission s with
  | Some i, Some m =>
      match nth_error m i with
      | Some tgt => fleb A (sqdist A pos tgt) (fsq A (mc_tol cfg))
      | None => false
      end
  | _, _ => false
  end.

Definition m_step (s : mstate) (o : mop) : mstate * list mcmd * mres :=
  match o with
  | MStart mission =>
      let s1 := mkM (Some mission) false false (Some 0) (m_last_goto s) in
      match mission with
      | [] => (s1, [], MIndexError)          (* mission[0] raises after the state was changed *)
      | _ => let '(s2, c) := travel s1 in (s2, c ++ [MSetSpeed (mc_speed cfg)], MOk)
      end
  | MStop => (stop s, [], MOk)
  | MSetWaypoint w =>
      match m_mission s with
      | None => (s, [], MErr)
      | Some m =>
          if (w <? 0)%Z || (Z.of_nat (length m) <=? w)%Z then (s, [], MErr)
          else let '(s2, c) := travel (mkM (m_mission s) (m_reversed s) (m_idle s) (Some (Z.to_nat w)) (m_last_goto s)) in
               (s2, c, MOk)
      end
  | MSetReversed b =>
      match m_mission s with
      | None => (s, [], MErr)
      | Some _ =>
          match mc_loop cfg with
          | LoopReverse =>
              let s1 := mkM (m_mission s) b (m_idle s) (m_cur s) (m_last_goto s) in
              if Bool.eqb (m_reversed s) b then (s1, [], MOk)
              else let '(s2, c) := travel (progress s1) in (s2, c, MOk)
          | _ => (s, [], MErr)
          end
      end
  | MTelemetry pos =>
      match m_mission s with
      | None => (s, [], MOk)
      | Some _ =>
          if reached s pos then let '(s2, c) := travel (progress s) in (s2, c, MOk)
          else (s, [], MOk)
      end
  end.

Fixpoint m_run (s : mstate) (ops : list mop) : mstate * list (list mcmd * mres * (option nat * bool * bool)) :=
  match ops with
  | [] => (s, [])
  | o :: r =>
      let '(s1, c, res) := m_step s o in
      let '(s2, out) := m_run s1 r in
      (s2, (c, res, (m_cur s1, m_reversed s1, m_idle s1)) :: out)
  end.

End Mission.

Arguments mstate : clear implicits.
Arguments mop : clear implicits.
Arguments mcmd : clear implicits.
Arguments mconfig : clear implicits.
