(** * Heap: Gallina transcription of CPython's [heapq] ([Lib/heapq.py]: [heappush], [heappop],
    [_siftdown], [_siftup]), the priority queue [gradysim/simulator/event.py] keeps its events in.

    The array is a list; the loops run on fuel (the length of the array always suffices: the
    position strictly decreases in [_siftdown] and strictly increases in [_siftup]).  As in
    CPython the item being placed is carried in a variable and the array has a "hole" at [pos]
    that is written last.  The layout of the array after every operation is compared with
    CPython's on random histories ordered by the repo's own [Event.__lt__] (correspondence class
    [heapq-layout]); the theorems are in [Proofs/HeapP.v]. *)
From Coq Require Import List Arith Bool.
Import ListNotations.

Section Heap.
Context {E : Type} (lt : E -> E -> bool).

(** heap[i] = x (no effect outside the array) *)
Fixpoint upd (i : nat) (x : E) (l : list E) : list E :=
  match l, i with
  | [], _ => []
  | _ :: r, 0 => x :: r
  | y :: r, S j => y :: upd j x r
  end.

(** _siftdown(heap, startpos, pos), [x] = newitem *)
Fixpoint siftdown (fuel : nat) (h : list E) (startpos pos : nat) (x : E) : list E :=
  match fuel with
  | 0 => upd pos x h
  | S f =>
    if startpos <? pos then
      let pp := (pos - 1) / 2 in
      let p := nth pp h x in
      if lt x p then siftdown f (upd pos p h) startpos pp x
      else upd pos x h
    else upd pos x h
  end.

(** the first loop of _siftup: the smaller child moves up until a leaf is reached;
    returns the array and the position of the leaf (the hole) *)
Fixpoint descend (fuel : nat) (h : list E) (pos : nat) (d : E) : list E * nat :=
  match fuel with
  | 0 => (h, pos)
  | S f =>
    let c := 2 * pos + 1 in
    if c <? length h then
      let r := c + 1 in
      let c' := if (r <? length h) && negb (lt (nth c h d) (nth r h d)) then r else c in
      descend f (upd pos (nth c' h d) h) c' d
    else (h, pos)
  end.

(** _siftup(heap, pos) *)
Definition siftup (h : list E) (pos : nat) : list E :=
  match nth_error h pos with
  | None => h
  | Some x =>
    let '(h', leaf) := descend (length h) h pos x in
    siftdown (length h) h' pos leaf x
  end.

(** heapq.heappush *)
Definition heappush (h : list E) (x : E) : list E :=
  siftdown (S (length h)) (h ++ [x]) 0 (length h) x.

(** heapq.heappop; [None] is IndexError (empty heap) *)
Definition heappop (h : list E) : option (E * list E) :=
  match h with
  | [] => None
  | top :: _ =>
    let lastelt := last h top in
    match removelast h with
    | [] => Some (lastelt, [])
    | ret :: t => Some (ret, siftup (lastelt :: t) 0)
    end
  end.

(** the heap condition, as a computable check: no element is [lt] its parent *)
Fixpoint heap_from (h : list E) (i n : nat) (d : E) : bool :=
  match n with
  | 0 => true
  | S n' => negb (lt (nth i h d) (nth ((i - 1) / 2) h d)) && heap_from h (S i) n' d
  end.
Definition heap_invb (h : list E) : bool :=
  match h with [] => true | d :: _ => heap_from h 1 (length h - 1) d end.

End Heap.
