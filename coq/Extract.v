(** Extraction of the executable model.  Only [ExtrOcamlBasic]'s directives are used
    (bool, option, list, prod, unit, sumbool -> native OCaml); nat / Z stay inductive;
    there is no [Extract Constant].  The number type is a type parameter: the driver
    supplies OCaml floats. *)
From Coq Require Import ExtrOcamlBasic.
From GS Require Import Num EventLoop Kernel Geo Sim Script Mission Dispatcher RandomTrip Camera Interop.
Extraction Language OCaml.
Extraction "model.ml"
  mkArith sqdist
  el_init el_step el_run
  k_start k_step k_run k_steps
  haversine geo_to_cartesian
  sim_hooks sim_start sim_drive1 has_timer
  script_react counters0
  m_init m_run d_init d_run t_init t_run take_picture interop_session ext_behaviour.
