(** * Trace specifications that also account for every scheduling item

    As [TraceSpec], but the acceptor additionally keeps the list of scheduling requests that the
    items seen so far call for ("owed") and must see exactly those, in order, as the accepted /
    refused scheduling items that follow; and its state may depend on the event loop's clock.
    If every hook's items lead the acceptor from the abstraction of the state before to the
    abstraction of the state after WITH the hook's own request list owed, then every run is
    accepted: each scheduling item of a run is justified by the visible history. *)
From Coq Require Import List Arith NArith Bool.
Import ListNotations.
From GS Require Import Num EventLoop Kernel.
From GS.Proofs Require Import TraceSpec.

Section TraceSpecQ.
Context {F : Type} (A : ArithOps F) {P H T X : Type}.
Variable hk : hooks F P H T.
Variable c : kcfg F.

Notation kstate := (kstate F P H).
Notation kitem := (kitem F P T).
Implicit Types (s : kstate) (x : X).

Variable nxt : X -> kitem -> X.
Variable ok : X -> kitem -> Prop.
Variable absn : F -> H -> X.                   (* clock, handler state *)
Variable owe : X -> list (F * P) -> X.          (* the same acceptor state with this list owed *)
Variable Inv : H -> Prop.

Notation sound := (sound nxt ok).

Hypothesis owe_nil : forall now h, owe (absn now h) [] = absn now h.
Hypothesis sched_consumes : forall now h ts p r sq,
  nxt (owe (absn now h) ((ts, p) :: r)) (KSched ts sq p) = owe (absn now h) r /\ ok (owe (absn now h) ((ts, p) :: r)) (KSched ts sq p).
Hypothesis refused_consumes : forall now h ts p r,
  nxt (owe (absn now h) ((ts, p) :: r)) (KRefused ts p) = owe (absn now h) r /\ ok (owe (absn now h) ((ts, p) :: r)) (KRefused ts p).

(* initialisation happens before any event was executed: the clock still reads 0 *)
Hypothesis init_sound : forall h, Inv h ->
  let '(h1, reqs, items) := hk_init hk h in
  Inv h1 /\ sound (absn (f0 A) h) (map (@KUser F P T) items) (owe (absn (f0 A) h1) reqs).
Hypothesis exec_sound : forall h now0 ts p i sq, Inv h ->
  let '(h2, reqs, items) := hk_exec hk h ts p in
  Inv h2 /\ sound (absn now0 h) (KExec i ts sq p :: map (@KUser F P T) items) (owe (absn ts h2) reqs).
Hypothesis after_sound : forall h now i, Inv h ->
  let '(h3, aitems, raised) := hk_after hk h i now in
  Inv h3 /\ sound (absn now h) (map (@KUser F P T) aitems) (absn now h3).
Hypothesis finish_sound : forall h now, Inv h ->
  let '(h1, reqs, items, raised) := hk_finish hk h now in
  Inv h1 /\ sound (absn now h) (map (@KUser F P T) items) (owe (absn now h1) reqs).

Definition K s : X := absn (el_now (k_el s)) (k_h s).

Lemma sched_all_clock (l : eloop F P) reqs : el_now (fst (sched_all A (T:=T) l reqs)) = el_now l.
Proof.
  revert l. induction reqs as [|[ts p] r IH]; intros l; simpl; [reflexivity|].
  destruct (el_schedule A l ts p) as [l'|] eqn:E.
  - specialize (IH l'). destruct (sched_all A l' r). simpl in *. rewrite IH.
    unfold el_schedule in E. destruct (fltb A ts (el_now l)); [discriminate|]. injection E as <-. reflexivity.
  - specialize (IH l). destruct (sched_all A l r). simpl in *. exact IH.
Qed.

Lemma sched_all_sound (l : eloop F P) reqs now h :
  sound (owe (absn now h) reqs) (snd (sched_all A (T:=T) l reqs)) (absn now h).
Proof.
  revert l. induction reqs as [|[ts p] r IH]; intros l; simpl.
  - rewrite owe_nil. apply sound_nil.
  - destruct (el_schedule A l ts p) as [l'|].
    + specialize (IH l'). destruct (sched_all A l' r) as [l2 its]. simpl in *.
      destruct (sched_consumes now h ts p r (el_seq l)) as [Hn Hok]. destruct IH as [Ha Hf].
      split; [simpl; rewrite Hn; split; assumption|]. unfold after in *. simpl. rewrite Hn. exact Hf.
    + specialize (IH l). destruct (sched_all A l r) as [l2 its]. simpl in *.
      destruct (refused_consumes now h ts p r) as [Hn Hok]. destruct IH as [Ha Hf].
      split; [simpl; rewrite Hn; split; assumption|]. unfold after in *. simpl. rewrite Hn. exact Hf.
Qed.

Lemma k_start_sound (h0 : H) reqs0 :
  sound (owe (absn (f0 A) h0) reqs0) (snd (k_start A (T:=T) h0 reqs0)) (K (fst (k_start A (T:=T) h0 reqs0))).
Proof.
  unfold k_start, K. pose proof (sched_all_sound (el_init A) reqs0 (f0 A) h0) as Hs.
  pose proof (sched_all_clock (el_init A) reqs0) as Hc.
  destruct (sched_all A (el_init A) reqs0) as [l its]. simpl in *. rewrite Hc. exact Hs.
Qed.

Lemma k_initialize_sound s :
  Inv (k_h s) -> el_now (k_el s) = f0 A ->
  Inv (k_h (fst (k_initialize A hk s))) /\ sound (K s) (snd (k_initialize A hk s)) (K (fst (k_initialize A hk s))).
Proof.
  intros Hi Hz. unfold k_initialize, K. rewrite Hz. pose proof (init_sound (k_h s) Hi) as Hs.
  destruct (hk_init hk (k_h s)) as [[h1 reqs] items]. destruct Hs as [Hi1 Hs].
  pose proof (sched_all_sound (k_el s) reqs (f0 A) h1) as Hr. pose proof (sched_all_clock (k_el s) reqs) as Hc.
  destruct (sched_all A (k_el s) reqs) as [l1 ref]. simpl in *. split; [exact Hi1|].
  rewrite Hc, Hz. eapply sound_app; eassumption.
Qed.

Lemma k_finalize_sound s :
  Inv (k_h s) ->
  Inv (k_h (fst (k_finalize A hk s))) /\ sound (K s) (snd (k_finalize A hk s)) (K (fst (k_finalize A hk s))).
Proof.
  intros Hi. unfold k_finalize, K. destruct (k_final s); [split; [exact Hi|apply sound_nil]|].
  pose proof (finish_sound (k_h s) (el_now (k_el s)) Hi) as Hs.
  destruct (hk_finish hk (k_h s) (el_now (k_el s))) as [[[h1 reqs] items] raised]. destruct Hs as [Hi1 Hs].
  pose proof (sched_all_sound (k_el s) reqs (el_now (k_el s)) h1) as Hr. pose proof (sched_all_clock (k_el s) reqs) as Hc.
  destruct (sched_all A (k_el s) reqs) as [l1 ref]. simpl in *. split; [exact Hi1|].
  rewrite Hc. eapply sound_app; eassumption.
Qed.

Lemma pop_clock (l : eloop F P) e l1 : el_pop A l = Some (e, l1) -> el_now l1 = ev_ts e.
Proof. unfold el_pop. destruct (el_peek A l); [|discriminate]. intros [= <- <-]. reflexivity. Qed.

(** before initialisation the clock reads 0 (nothing was popped yet) *)
Definition fresh_clock s : Prop := k_inited s = false -> el_now (k_el s) = f0 A.

Lemma k_step_sound s :
  Inv (k_h s) -> fresh_clock s ->
  let '(s', it, b) := k_step A hk c s in
  Inv (k_h s') /\ fresh_clock s' /\ sound (K s) it (K s').
Proof.
  intros Hi Hfc. unfold k_step. destruct (k_final s || k_aborted s); [split; [exact Hi|split; [exact Hfc|apply sound_nil]]|].
  assert (Hinit : let '(s1, i1) := (if k_inited s then (s, []) else k_initialize A hk s) in
                  Inv (k_h s1) /\ k_inited s1 = true /\ sound (K s) i1 (K s1)).
  { destruct (k_inited s) eqn:Ein; [split; [exact Hi|split; [exact Ein|apply sound_nil]]|].
    pose proof (k_initialize_sound s Hi (Hfc Ein)) as Hs.
    assert (Hin : k_inited (fst (k_initialize A hk s)) = true).
    { unfold k_initialize. destruct (hk_init hk (k_h s)) as [[? ?] ?]. destruct (sched_all A (k_el s) l). reflexivity. }
    destruct (k_initialize A hk s) as [s1 i1]. simpl in *. destruct Hs. auto. }
  destruct (if k_inited s then (s, []) else k_initialize A hk s) as [s1 i1]. destruct Hinit as (Hi1 & Hin1 & Hs1).
  assert (Hfin_inited : forall s0, k_inited s0 = true -> k_inited (fst (k_finalize A hk s0)) = true).
  { intros s0 H0. unfold k_finalize. destruct (k_final s0); [exact H0|].
    destruct (hk_finish hk (k_h s0) (el_now (k_el s0))) as [[[? ?] ?] ?]. destruct (sched_all A (k_el s0) l). exact H0. }
  assert (Hfc_of : forall s0, k_inited s0 = true -> fresh_clock s0) by (intros s0 H0 H1; congruence).
  destruct (k_done A c s1).
  - pose proof (k_finalize_sound s1 Hi1) as Hf. pose proof (Hfin_inited s1 Hin1) as Hin2.
    destruct (k_finalize A hk s1) as [s2 i2]. simpl in Hf, Hin2.
    destruct Hf as [Hi2 Hs2]. split; [exact Hi2|]. split; [apply Hfc_of; exact Hin2|]. eapply sound_app; eassumption.
  - destruct (el_pop A (k_el s1)) as [[e l1]|] eqn:Ep; [|split; [assumption|split; [apply Hfc_of; assumption|assumption]]].
    pose proof (pop_clock _ _ _ Ep) as Hnow1.
    pose proof (exec_sound (k_h s1) (el_now (k_el s1)) (ev_ts e) (ev_pl e) (k_iter s1) (ev_seq e) Hi1) as He.
    destruct (hk_exec hk (k_h s1) (ev_ts e) (ev_pl e)) as [[h2 reqs] items]. destruct He as [Hi2 He].
    pose proof (sched_all_sound l1 reqs (ev_ts e) h2) as Hr. pose proof (sched_all_clock l1 reqs) as Hc.
    destruct (sched_all A l1 reqs) as [l2 ref]. simpl in Hr, Hc.
    pose proof (after_sound h2 (ev_ts e) (k_iter s1) Hi2) as Ha.
    destruct (hk_after hk h2 (k_iter s1) (ev_ts e)) as [[h3 aitems] raised]. destruct Ha as [Hi3 Ha].
    assert (Hbody : sound (K s1)
              (KExec (k_iter s1) (ev_ts e) (ev_seq e) (ev_pl e) :: map (@KUser F P T) items ++ ref ++ map (@KUser F P T) aitems)
              (absn (ev_ts e) h3)).
    { change (KExec (k_iter s1) (ev_ts e) (ev_seq e) (ev_pl e) :: map (@KUser F P T) items ++ ref ++ map (@KUser F P T) aitems)
        with ((KExec (k_iter s1) (ev_ts e) (ev_seq e) (ev_pl e) :: map (@KUser F P T) items) ++ ref ++ map (@KUser F P T) aitems).
      eapply sound_app; [exact He|]. eapply sound_app; eassumption. }
    assert (Hclk : el_now l2 = ev_ts e) by congruence.
    destruct raised.
    + simpl. split; [exact Hi3|]. split; [apply Hfc_of; reflexivity|]. unfold K at 2. simpl. rewrite Hclk. eapply sound_app; eassumption.
    + destruct (k_done A c (mkK l2 h3 (S (k_iter s1)) true false false)).
      * pose proof (k_finalize_sound (mkK l2 h3 (S (k_iter s1)) true false false) Hi3) as Hf.
        pose proof (Hfin_inited (mkK l2 h3 (S (k_iter s1)) true false false) eq_refl) as Hin4.
        destruct (k_finalize A hk (mkK l2 h3 (S (k_iter s1)) true false false)) as [s3 i3]. simpl in Hf, Hin4.
        destruct Hf as [Hi4 Hf]. split; [exact Hi4|]. split; [apply Hfc_of; exact Hin4|]. unfold K at 1 in Hf. simpl in Hf. rewrite Hclk in Hf.
        eapply sound_app; [exact Hs1|]. rewrite app_comm_cons. eapply sound_app; eassumption.
      * simpl. split; [exact Hi3|]. split; [apply Hfc_of; reflexivity|]. unfold K at 2. simpl. rewrite Hclk. eapply sound_app; eassumption.
Qed.

Theorem k_run_sound fuel s :
  Inv (k_h s) -> fresh_clock s ->
  let '(s', items, fin) := k_run A hk c fuel s in
  Inv (k_h s') /\ sound (K s) items (K s').
Proof.
  revert s. induction fuel as [|f IH]; intros s Hi Hfc; simpl; [split; [exact Hi|apply sound_nil]|].
  pose proof (k_step_sound s Hi Hfc) as Hs. destruct (k_step A hk c s) as [[s1 it] cont]. destruct Hs as (Hi1 & Hfc1 & Hs).
  destruct cont; [|split; assumption].
  specialize (IH s1 Hi1 Hfc1). destruct (k_run A hk c f s1) as [[s2 its] fin]. destruct IH as [Hi2 IH].
  split; [exact Hi2|]. eapply sound_app; eassumption.
Qed.

End TraceSpecQ.
