(** The computable heap check [heap_invb] is sound for the heap condition [heap_inv]. *)
From Coq Require Import List Arith Bool Lia.
Import ListNotations.
From GS Require Import Heap.
From GS.Proofs Require Import HeapP.

Section HeapB.
Context {E : Type} (lt : E -> E -> bool).

Lemma heap_from_sound (h : list E) (d : E) n : forall i,
  heap_from lt h i n d = true ->
  forall j, i <= j < i + n -> lt (nth j h d) (nth ((j - 1) / 2) h d) = false.
Proof.
  induction n as [|n IH]; intros i H j Hj; [lia|].
  cbn [heap_from] in H. apply andb_true_iff in H. destruct H as [H1 H2].
  destruct (Nat.eq_dec j i) as [->|Hne].
  - apply negb_true_iff in H1. exact H1.
  - apply (IH (S i) H2). lia.
Qed.

Theorem heap_invb_sound (h : list E) : heap_invb lt h = true -> heap_inv lt h.
Proof.
  unfold heap_invb. destruct h as [|d t] eqn:Eh; intros H i a p Hi Ha Hp.
  - destruct i; discriminate.
  - rewrite <- Eh in *.
    assert (Hil : i < length h) by (apply nth_error_Some; congruence).
    pose proof (heap_from_sound h d (length h - 1) 1 H i ltac:(lia)) as Hlt.
    rewrite (nth_error_nth h i d Ha), (nth_error_nth h _ d Hp) in Hlt. exact Hlt.
Qed.

End HeapB.
