(** * Two event queues that agree on the events of interest

    For the run-level non-interference theorem (C13): two event loops whose queues, restricted
    to the events that are NOT owned by some party, carry pairwise related events (equal
    timestamps, related payloads) in the same scheduling order.  Sequence numbers differ between
    the two loops; what is preserved is their ORDER, and that is all the heap looks at:

    - if the earliest event of each loop is of interest, the two are at the same position of the
      restricted queues (hence related), and removing them leaves related queues;
    - popping an owned event leaves the restricted queue unchanged;
    - scheduling appends to the restricted queue iff the payload is of interest. *)
From Coq Require Import List Arith NArith Bool Lia Sorting.Sorted Permutation.
Import ListNotations.
From GS Require Import Num EventLoop Kernel.
From GS.Proofs Require Import Aux EventLoopP.

Section QueueRel.
Context {F : Type} (A : ArithOps F) (OL : OrderLaws A) {P : Type}.
Variable owned : P -> bool.

Notation event := (event F P).
Notation eloop := (eloop F P).
Implicit Types (e m : event) (q : list event) (l : eloop).

Definition other e : bool := negb (owned (ev_pl e)).
Definition oq l : list event := filter other (el_q l).

Definition seq_lt e1 e2 : Prop := (ev_seq e1 < ev_seq e2)%N.
Definition ssorted q : Prop := StronglySorted seq_lt q.

(** invariant: the queue is in scheduling order (increasing sequence numbers) *)
Definition q_ok l : Prop := el_inv A l /\ ssorted (el_q l).

Lemma ssorted_app_one q e : ssorted q -> (forall a, In a q -> seq_lt a e) -> ssorted (q ++ [e]).
Proof.
  induction q as [|a r IH]; intros Hs Hlt; simpl.
  - constructor; constructor.
  - inversion Hs as [|? ? Hr Ha]; subst. constructor.
    + apply IH; [exact Hr|]. intros b Hb. apply Hlt. right. exact Hb.
    + apply Forall_app. split; [exact Ha|]. constructor; [|constructor]. apply Hlt. left. reflexivity.
Qed.

Lemma ssorted_filter (f : event -> bool) q : ssorted q -> ssorted (filter f q).
Proof.
  induction q as [|a r IH]; intros Hs; simpl; [constructor|].
  inversion Hs as [|? ? Hr Ha]; subst. destruct (f a); [|apply IH; exact Hr].
  constructor; [apply IH; exact Hr|]. rewrite Forall_forall in *. intros b Hb. apply filter_In in Hb. apply Ha. tauto.
Qed.

Lemma ssorted_remove s q : ssorted q -> ssorted (q_remove s q).
Proof.
  induction q as [|a r IH]; intros Hs; simpl; [constructor|].
  inversion Hs as [|? ? Hr Ha]; subst. destruct (N.eqb (ev_seq a) s); [exact Hr|].
  constructor; [apply IH; exact Hr|]. rewrite Forall_forall in *. intros b Hb. apply Ha.
  clear - Hb. induction r as [|c r' IHr]; simpl in Hb; [exact Hb|].
  destruct (N.eqb (ev_seq c) s); [right; exact Hb|]. destruct Hb as [<-|Hb]; [left; reflexivity|right; apply IHr; exact Hb].
Qed.

Lemma q_ok_init : q_ok (el_init A).
Proof. split; [apply el_init_inv|constructor]. Qed.

Lemma q_ok_schedule l ts p l' : q_ok l -> el_schedule A l ts p = Some l' -> q_ok l'.
Proof.
  intros [Hinv Hs] E. split; [eapply el_schedule_inv; eassumption|].
  unfold el_schedule in E. destruct (fltb A ts (el_now l)); [discriminate|]. injection E as <-. simpl.
  apply ssorted_app_one; [exact Hs|]. intros a Ha. unfold seq_lt. simpl. apply (inv_seq_lt A l Hinv). exact Ha.
Qed.

Lemma q_ok_pop l e l' : q_ok l -> el_pop A l = Some (e, l') -> q_ok l'.
Proof.
  intros [Hinv Hs] E. split; [eapply el_pop_inv; eassumption|].
  unfold el_pop in E. destruct (el_peek A l) as [m|]; [|discriminate]. injection E as <- <-. simpl.
  apply ssorted_remove. exact Hs.
Qed.

(* ---- the restricted queue under schedule and pop -------------------------------------------------- *)

Lemma oq_schedule l ts p l' :
  el_schedule A l ts p = Some l' ->
  oq l' = oq l ++ (if owned p then [] else [mkEv ts (el_seq l) p]).
Proof.
  unfold el_schedule, oq. destruct (fltb A ts (el_now l)); [discriminate|]. intros [= <-]. simpl.
  rewrite filter_app. simpl. unfold other at 2. simpl. destruct (owned p); reflexivity.
Qed.

Lemma ssorted_seq_notin a q : ssorted (a :: q) -> ~ In (ev_seq a) (map (@ev_seq F P) q).
Proof.
  intros Hs Hin. inversion Hs as [|? ? _ Ha]; subst. rewrite Forall_forall in Ha.
  apply in_map_iff in Hin. destruct Hin as [b [Hb Hin]]. specialize (Ha b Hin). unfold seq_lt in Ha. lia.
Qed.

Lemma q_remove_split a m b : ssorted (a ++ m :: b) -> q_remove (ev_seq m) (a ++ m :: b) = a ++ b.
Proof.
  induction a as [|c r IH]; intros Hs; simpl.
  - rewrite N.eqb_refl. reflexivity.
  - destruct (N.eqb (ev_seq c) (ev_seq m)) eqn:E.
    + exfalso. apply N.eqb_eq in E. apply (ssorted_seq_notin c (r ++ m :: b) Hs).
      rewrite E. apply in_map. apply in_or_app. right. left. reflexivity.
    + f_equal. apply IH. inversion Hs; assumption.
Qed.

Lemma filter_q_remove (f : event -> bool) m q :
  ssorted q -> In m q ->
  filter f (q_remove (ev_seq m) q) = if f m then q_remove (ev_seq m) (filter f q) else filter f q.
Proof.
  induction q as [|c r IH]; intros Hs Hin; [destruct Hin|].
  simpl. destruct (N.eqb (ev_seq c) (ev_seq m)) eqn:E.
  - apply N.eqb_eq in E.
    assert (c = m) as ->.
    { destruct Hin as [H|H]; [exact H|]. exfalso. apply (ssorted_seq_notin c r Hs). rewrite E. apply in_map. exact H. }
    destruct (f m); simpl; [rewrite N.eqb_refl|]; reflexivity.
  - assert (Hin' : In m r).
    { destruct Hin as [->|H]; [rewrite N.eqb_refl in E; discriminate|exact H]. }
    assert (Hs' : ssorted r) by (inversion Hs; assumption).
    specialize (IH Hs' Hin'). simpl. destruct (f c); simpl; rewrite ?E, IH; destruct (f m); reflexivity.
Qed.

Lemma oq_pop l m l' :
  q_ok l -> el_pop A l = Some (m, l') ->
  In m (el_q l) /\ (forall e, In e (el_q l) -> ev_lt A e m = false) /\ el_now l' = ev_ts m /\ el_seq l' = el_seq l /\
  oq l' = if other m then q_remove (ev_seq m) (oq l) else oq l.
Proof.
  intros [Hinv Hs] E. destruct (el_pop_spec A OL l m l' Hinv E) as (Hin & Hmin & _ & Hnow & Hseq & _).
  split; [exact Hin|]. split; [exact Hmin|]. split; [exact Hnow|]. split; [exact Hseq|].
  unfold el_pop in E. destruct (el_peek A l) as [m'|]; [|discriminate]. injection E as -> <-.
  unfold oq. simpl. apply filter_q_remove; assumption.
Qed.

(* ---- a batch of scheduling requests ------------------------------------------------------------------ *)

Definition ekey e : F * P := (ev_ts e, ev_pl e).
Definition acceptable l (r : F * P) : bool := negb (fltb A (fst r) (el_now l)).
Definition interesting (reqs : list (F * P)) : list (F * P) := filter (fun r => negb (owned (snd r))) reqs.

Lemma sched_all_oq_gen {T : Type} l reqs :
  q_ok l ->
  let l' := fst (sched_all A (T:=T) l reqs) in
  q_ok l' /\ el_now l' = el_now l /\
  exists evs, oq l' = oq l ++ evs /\ map ekey evs = filter (acceptable l) (interesting reqs).
Proof.
  revert l. induction reqs as [|[ts p] r IH]; intros l Hok; simpl.
  - split; [exact Hok|]. split; [reflexivity|]. exists []. rewrite app_nil_r. split; reflexivity.
  - destruct (el_schedule A l ts p) as [l1|] eqn:E.
    + pose proof (q_ok_schedule l ts p l1 Hok E) as Hok1. pose proof (oq_schedule l ts p l1 E) as Hq1.
      assert (Hnow1 : el_now l1 = el_now l).
      { unfold el_schedule in E. destruct (fltb A ts (el_now l)); [discriminate|]. injection E as <-. reflexivity. }
      assert (Hacc : fltb A ts (el_now l) = false).
      { unfold el_schedule in E. destruct (fltb A ts (el_now l)); [discriminate|reflexivity]. }
      specialize (IH l1 Hok1). destruct (sched_all A l1 r) as [l2 its]. simpl in *.
      destruct IH as (Hok2 & Hnow2 & evs & Hq2 & Hk2).
      split; [exact Hok2|]. split; [congruence|].
      unfold interesting. simpl. destruct (owned p) eqn:Eo; simpl.
      * exists evs. rewrite Hq2, Hq1, app_nil_r. split; [reflexivity|].
        rewrite Hk2. unfold interesting, acceptable. rewrite Hnow1. reflexivity.
      * exists (mkEv ts (el_seq l) p :: evs). rewrite Hq2, Hq1, <- app_assoc. split; [reflexivity|].
        simpl. unfold acceptable at 1. simpl. rewrite Hacc. simpl. f_equal.
        rewrite Hk2. unfold interesting, acceptable. rewrite Hnow1. reflexivity.
    + assert (Hrej : fltb A ts (el_now l) = true).
      { unfold el_schedule in E. destruct (fltb A ts (el_now l)); [reflexivity|discriminate]. }
      specialize (IH l Hok). destruct (sched_all A l r) as [l2 its]. simpl in *.
      destruct IH as (Hok2 & Hnow2 & evs & Hq2 & Hk2).
      split; [exact Hok2|]. split; [exact Hnow2|]. exists evs. split; [exact Hq2|].
      unfold interesting. simpl. destruct (owned p); simpl; [exact Hk2|].
      unfold acceptable at 1. simpl. rewrite Hrej. simpl. exact Hk2.
Qed.

(* ---- the position of the earliest event ------------------------------------------------------------- *)

Variable R : P -> P -> Prop.

Definition erel e1 e2 : Prop := ev_ts e1 = ev_ts e2 /\ R (ev_pl e1) (ev_pl e2).
Definition qrel q1 q2 : Prop := Forall2 erel q1 q2.

Definition minimal m q : Prop := forall e, In e q -> ev_lt A e m = false.

Lemma qrel_in_r q1 q2 e2 : qrel q1 q2 -> In e2 q2 -> exists e1, In e1 q1 /\ erel e1 e2.
Proof.
  intros H. induction H as [|a b r1 r2 Hab Hr IH]; intros Hin; [destruct Hin|].
  destruct Hin as [<-|Hin]; [exists a; split; [left; reflexivity|exact Hab]|].
  destruct (IH Hin) as [e1 [H1 H2]]. exists e1. split; [right; exact H1|exact H2].
Qed.

Lemma qrel_in_l q1 q2 e1 : qrel q1 q2 -> In e1 q1 -> exists e2, In e2 q2 /\ erel e1 e2.
Proof.
  intros H. induction H as [|a b r1 r2 Hab Hr IH]; intros Hin; [destruct Hin|].
  destruct Hin as [<-|Hin]; [exists b; split; [left; reflexivity|exact Hab]|].
  destruct (IH Hin) as [e2 [H1 H2]]. exists e2. split; [right; exact H1|exact H2].
Qed.

(** the head of one queue is its earliest event, the earliest of the other lies deeper: impossible *)
Lemma head_vs_tail a b r1 r2 m2 :
  ev_ts a = ev_ts b -> qrel r1 r2 -> ssorted (a :: r1) -> ssorted (b :: r2) ->
  minimal a (a :: r1) -> In m2 r2 -> minimal m2 (b :: r2) -> False.
Proof.
  intros Hts Hr Hs1 Hs2 Hmin1 Hin2 Hmin2.
  assert (Hb : seq_lt b m2).
  { inversion Hs2 as [|? ? _ Hall]; subst. rewrite Forall_forall in Hall. apply Hall. exact Hin2. }
  assert (H1 : ev_lt A b m2 = false) by (apply Hmin2; left; reflexivity).
  assert (Hnle : fleb A (ev_ts b) (ev_ts m2) = false).
  { destruct (fleb A (ev_ts b) (ev_ts m2)) eqn:E; [|reflexivity].
    rewrite (ev_lt_later A OL b m2 E Hb) in H1. discriminate. }
  destruct (qrel_in_r r1 r2 m2 Hr Hin2) as [e1 [He1 [Hts1 _]]].
  assert (H2 : ev_lt A e1 a = false) by (apply Hmin1; right; exact He1).
  rewrite (ev_lt_unfold A OL) in H2. rewrite Hts1, Hts, Hnle in H2. rewrite andb_false_r in H2. discriminate.
Qed.

Lemma minimal_tail m a q : minimal m (a :: q) -> minimal m q.
Proof. intros H e He. apply H. right. exact He. Qed.

(** The earliest events of two related queues in scheduling order sit at the same position. *)
Theorem same_position q1 q2 m1 m2 :
  qrel q1 q2 -> ssorted q1 -> ssorted q2 ->
  In m1 q1 -> In m2 q2 -> minimal m1 q1 -> minimal m2 q2 ->
  exists a1 b1 a2 b2, q1 = a1 ++ m1 :: b1 /\ q2 = a2 ++ m2 :: b2 /\ qrel a1 a2 /\ qrel b1 b2 /\ erel m1 m2.
Proof.
  intros H. induction H as [|a b r1 r2 Hab Hr IH]; intros Hs1 Hs2 Hin1 Hin2 Hmin1 Hmin2; [destruct Hin1|].
  assert (Hs1' : ssorted r1) by (inversion Hs1; assumption).
  assert (Hs2' : ssorted r2) by (inversion Hs2; assumption).
  destruct Hin1 as [<-|Hin1], Hin2 as [<-|Hin2].
  - exists [], r1, [], r2. split; [reflexivity|]. split; [reflexivity|]. split; [constructor|]. split; [exact Hr|exact Hab].
  - exfalso. exact (head_vs_tail a b r1 r2 m2 (proj1 Hab) Hr Hs1 Hs2 Hmin1 Hin2 Hmin2).
  - exfalso.
    assert (Hr' : Forall2 (fun e2 e1 => ev_ts e2 = ev_ts e1 /\ True) r2 r1).
    { clear - Hr. induction Hr as [|u v s t [Huv _] _ IHr]; constructor; [split; [symmetry; exact Huv|exact I]|exact IHr]. }
    (* the symmetric situation, with the roles of the two queues exchanged (payload relation irrelevant) *)
    assert (Hb : seq_lt a m1).
    { inversion Hs1 as [|? ? _ Hall]; subst. rewrite Forall_forall in Hall. apply Hall. exact Hin1. }
    assert (H1 : ev_lt A a m1 = false) by (apply Hmin1; left; reflexivity).
    assert (Hnle : fleb A (ev_ts a) (ev_ts m1) = false).
    { destruct (fleb A (ev_ts a) (ev_ts m1)) eqn:E; [|reflexivity].
      rewrite (ev_lt_later A OL a m1 E Hb) in H1. discriminate. }
    destruct (qrel_in_l r1 r2 m1 Hr Hin1) as [e2 [He2 [Hts2 _]]].
    assert (H2 : ev_lt A e2 b = false) by (apply Hmin2; right; exact He2).
    rewrite (ev_lt_unfold A OL) in H2. rewrite <- Hts2, <- (proj1 Hab), Hnle in H2. rewrite andb_false_r in H2. discriminate.
  - destruct (IH Hs1' Hs2' Hin1 Hin2 (minimal_tail _ _ _ Hmin1) (minimal_tail _ _ _ Hmin2))
      as (a1 & b1 & a2 & b2 & E1 & E2 & Ha & Hb & Hm).
    exists (a :: a1), b1, (b :: a2), b2. subst r1 r2. split; [reflexivity|]. split; [reflexivity|].
    split; [constructor; assumption|]. split; assumption.
Qed.

Lemma qrel_app a1 a2 b1 b2 : qrel a1 a2 -> qrel b1 b2 -> qrel (a1 ++ b1) (a2 ++ b2).
Proof. intros Ha Hb. unfold qrel. apply Forall2_app; assumption. Qed.

(** Both loops pop an event of interest: the two events are related and so are the queues left. *)
Theorem pop_both l1 l2 m1 m2 l1' l2' :
  q_ok l1 -> q_ok l2 -> qrel (oq l1) (oq l2) ->
  el_pop A l1 = Some (m1, l1') -> el_pop A l2 = Some (m2, l2') ->
  other m1 = true -> other m2 = true ->
  erel m1 m2 /\ qrel (oq l1') (oq l2').
Proof.
  intros Hok1 Hok2 Hq E1 E2 Ho1 Ho2.
  destruct (oq_pop l1 m1 l1' Hok1 E1) as (Hin1 & Hmin1 & _ & _ & Hq1).
  destruct (oq_pop l2 m2 l2' Hok2 E2) as (Hin2 & Hmin2 & _ & _ & Hq2).
  rewrite Ho1 in Hq1. rewrite Ho2 in Hq2.
  assert (Hs1 : ssorted (oq l1)) by (apply ssorted_filter; exact (proj2 Hok1)).
  assert (Hs2 : ssorted (oq l2)) by (apply ssorted_filter; exact (proj2 Hok2)).
  assert (Hi1 : In m1 (oq l1)) by (apply filter_In; split; assumption).
  assert (Hi2 : In m2 (oq l2)) by (apply filter_In; split; assumption).
  assert (Hm1 : minimal m1 (oq l1)) by (intros e He; apply Hmin1; apply filter_In in He; tauto).
  assert (Hm2 : minimal m2 (oq l2)) by (intros e He; apply Hmin2; apply filter_In in He; tauto).
  destruct (same_position _ _ m1 m2 Hq Hs1 Hs2 Hi1 Hi2 Hm1 Hm2) as (a1 & b1 & a2 & b2 & D1 & D2 & Ha & Hb & Hm).
  split; [exact Hm|]. rewrite Hq1, Hq2, D1, D2.
  rewrite D1 in Hs1. rewrite D2 in Hs2. rewrite (q_remove_split a1 m1 b1 Hs1), (q_remove_split a2 m2 b2 Hs2).
  apply qrel_app; assumption.
Qed.

(** An event of interest that is queued is not later than ... : the earliest event of a loop is not
    later than any queued event. *)
Lemma pop_not_later l m l' e :
  q_ok l -> el_pop A l = Some (m, l') -> In e (el_q l) -> fleb A (ev_ts m) (ev_ts e) = true.
Proof.
  intros Hok E Hin. destruct (oq_pop l m l' Hok E) as (_ & Hmin & _).
  specialize (Hmin e Hin). rewrite (ev_lt_unfold A OL) in Hmin.
  destruct (fleb A (ev_ts m) (ev_ts e)) eqn:E1; [reflexivity|].
  rewrite andb_false_r in Hmin. simpl in Hmin. discriminate.
Qed.

End QueueRel.
