(** The heap-based event loop ([HeapLoop.v]: CPython's heapq transcribed) answers every history of
    API calls exactly as the list-and-selection model ([EventLoop.v]).  Forward simulation: the
    array is a heap holding, in some order, the events the model keeps in scheduling order. *)
From Coq Require Import List Arith NArith Bool Lia Permutation.
Import ListNotations.
From GS Require Import Num EventLoop Heap HeapLoop.
From GS.Proofs Require Import Aux EventLoopP HeapP HeapInv HeapInv2 HeapEvP.

Section HeapLoopP.
Context {F : Type} (A : ArithOps F) (OL : OrderLaws A) {P : Type}.
Notation event := (event F P).
Notation eloop := (eloop F P).
Notation hloop := (@hloop F P).

Record hl_rel (hl : hloop) (l : eloop) : Prop := mkRel {
  rel_heap : heap_inv (ev_lt A) (hl_h hl);
  rel_perm : Permutation (el_q l) (hl_h hl);
  rel_now : hl_now hl = el_now l;
  rel_seq : hl_seq hl = el_seq l }.

Lemma hl_rel_init : hl_rel (hl_init A) (el_init A).
Proof. constructor; simpl; auto. intros i a p _ Ha. destruct i; discriminate. Qed.

Lemma root_is_selected (h : list event) (r x : event) (q : list event) :
  heap_inv (ev_lt A) h -> NoDup (map (@ev_seq F P) h) -> Permutation (x :: q) h ->
  nth_error h 0 = Some r -> r = q_min A x q.
Proof.
  intros Hinv Hnd Hperm H0. apply (min_unique A OL).
  - apply Permutation_NoDup with (l := map (@ev_seq F P) h); [|exact Hnd].
    apply Permutation_map, Permutation_sym, Hperm.
  - apply Permutation_in with (l := h); [apply Permutation_sym, Hperm|].
    eapply nth_error_In; exact H0.
  - intros e' He'. apply (heap_root_is_least A OL h r Hinv H0).
    apply Permutation_in with (l := x :: q); assumption.
Qed.

Lemma heappop_keeps_heap (h h' : list event) (m : event) :
  heap_inv (ev_lt A) h -> heappop (ev_lt A) h = Some (m, h') -> heap_inv (ev_lt A) h'.
Proof.
  apply heappop_inv.
  - apply (ev_lt_asym A OL).
  - intros a b c. apply (ev_nlt_trans A OL).
Qed.

Lemma hl_step_sim hl l o :
  el_inv A l -> hl_rel hl l ->
  snd (hl_step A hl o) = snd (el_step A l o) /\
  hl_rel (fst (hl_step A hl o)) (fst (el_step A l o)).
Proof.
  intros Hinv [Hh Hp Hn Hs].
  assert (Hnd : NoDup (map (@ev_seq F P) (hl_h hl))).
  { apply Permutation_NoDup with (l := map (@ev_seq F P) (el_q l)); [apply Permutation_map, Hp|].
    apply (inv_nodup A l Hinv). }
  destruct o as [ts p| | | | |]; cbn [hl_step el_step].
  - (* schedule *)
    unfold hl_schedule, el_schedule. rewrite Hn.
    destruct (fltb A ts (el_now l)); cbn [fst snd]; [split; [reflexivity|constructor; assumption]|].
    split; [reflexivity|]. rewrite Hs. constructor; cbn [hl_h hl_now hl_seq el_q el_now el_seq]; auto.
    + apply (heappush_keeps_heap A OL); exact Hh.
    + eapply perm_trans; [apply Permutation_sym, Permutation_cons_append|].
      eapply perm_trans; [apply perm_skip, Hp|]. apply Permutation_sym, heappush_perm.
  - (* pop *)
    unfold hl_pop.
    destruct (heappop (ev_lt A) (hl_h hl)) as [[m h']|] eqn:Epop.
    + destruct (el_q l) as [|x q] eqn:Eq.
      { apply Permutation_nil in Hp. rewrite Hp in Epop. discriminate. }
      destruct (el_pop A l) as [[e l']|] eqn:Elp.
      2:{ apply (el_pop_none A) in Elp. congruence. }
      pose proof (el_pop_spec A OL l e l' Hinv Elp) as (_ & _ & Hperm' & Hnow' & Hseq' & _).
      assert (He : e = q_min A x q).
      { unfold el_pop, el_peek in Elp. rewrite Eq in Elp. inversion Elp; reflexivity. }
      destruct (heappop_is_selected A OL _ _ _ _ _ Hh Hnd Hp Epop) as [Hm Hpm].
      rewrite <- He in Hm. subst m.
      cbn [fst snd]. split; [reflexivity|].
      constructor; cbn [hl_h hl_now hl_seq]; auto.
      * eapply heappop_keeps_heap; eassumption.
      * apply Permutation_cons_inv with (a := e).
        eapply perm_trans; [exact Hperm'|]. rewrite Eq. exact Hpm.
      * congruence.
    + apply (heappop_none (ev_lt A)) in Epop.
      rewrite Epop in Hp. apply Permutation_sym, Permutation_nil in Hp.
      destruct (el_pop A l) as [[e l']|] eqn:Elp.
      { assert (el_pop A l = None) as H by (apply (el_pop_none A); exact Hp). congruence. }
      cbn [fst snd]. split; [reflexivity|]. constructor; auto. rewrite Epop, Hp. apply perm_nil.
  - (* peek *)
    cbn [fst snd]. split; [|constructor; assumption].
    unfold hl_peek, el_peek. destruct (el_q l) as [|x q] eqn:Eq.
    + apply Permutation_nil in Hp. rewrite Hp. reflexivity.
    + destruct (nth_error (hl_h hl) 0) as [r|] eqn:E0.
      * rewrite (root_is_selected _ r x q Hh Hnd Hp E0). reflexivity.
      * apply nth_error_None in E0. apply Permutation_length in Hp. simpl in Hp. lia.
  - (* clear *)
    cbn [fst snd]. split; [reflexivity|]. constructor; simpl; auto.
    intros i a p _ Ha. destruct i; discriminate.
  - (* len *)
    cbn [fst snd]. split; [|constructor; assumption].
    unfold el_len. rewrite (Permutation_length Hp). reflexivity.
  - (* now *)
    cbn [fst snd]. split; [|constructor; assumption]. rewrite Hn. reflexivity.
Qed.

(** Every history: same answers, and the relation holds at the end. *)
Theorem hl_run_refines ops : forall hl l,
  el_inv A l -> hl_rel hl l ->
  snd (hl_run A hl ops) = snd (el_run A l ops) /\
  hl_rel (fst (hl_run A hl ops)) (fst (el_run A l ops)).
Proof.
  induction ops as [|o r IH]; intros hl l Hinv Hrel; cbn [hl_run el_run].
  - simpl. auto.
  - pose proof (hl_step_sim hl l o Hinv Hrel) as [Hres Hrel1].
    pose proof (el_step_inv A OL l o Hinv) as Hinv1.
    destruct (hl_step A hl o) as [hl1 x1]. destruct (el_step A l o) as [l1 x2].
    cbn [fst snd] in *. subst x2.
    specialize (IH hl1 l1 Hinv1 Hrel1).
    destruct (hl_run A hl1 r) as [hl2 xs1]. destruct (el_run A l1 r) as [l2 xs2].
    cbn [fst snd] in *. destruct IH as [-> Hrel2]. auto.
Qed.

Corollary hl_run_from_init (ops : list (el_op F P)) :
  snd (hl_run A (hl_init A) ops) = snd (el_run A (el_init A) ops).
Proof. apply hl_run_refines; [apply (el_init_inv A)|apply hl_rel_init]. Qed.

End HeapLoopP.
