(** Proofs about the dispatcher model (C15), for every handler behaviour. *)
From Coq Require Import List Arith Bool Lia.
Import ListNotations.
From GS Require Import Dispatcher.

Lemma chain_set_chain w k l k' :
  chain (set_chain w k l) k' = if match k, k' with
                                  | KInit, KInit | KTimer, KTimer | KTelem, KTelem | KPacket, KPacket | KFinish, KFinish => true
                                  | _, _ => false end then l else chain w k'.
Proof. destruct k, k'; reflexivity. Qed.

Lemma chain_set_same w k l : chain (set_chain w k l) k = l.
Proof. destruct k; reflexivity. Qed.

Lemma nth_error_upd_same {X : Type} (l : list X) n (x : X) : n < length l -> nth_error (upd n x l) n = Some x.
Proof. revert n. induction l as [|y r IH]; intros [|n] H; simpl in *; try lia; [reflexivity|apply IH; lia]. Qed.
Lemma nth_error_upd_other {X : Type} (l : list X) n m (x : X) : n <> m -> nth_error (upd n x l) m = nth_error l m.
Proof. revert n m. induction l as [|y r IH]; intros [|n] [|m] H; simpl; try reflexivity; try congruence. apply IH. congruence. Qed.

Lemma get_w_put_other s i j w : i <> j -> get_w (put_w s i w) j = get_w s j.
Proof. intros H. unfold get_w, put_w. simpl. rewrite nth_error_upd_other by exact H. reflexivity. Qed.

Lemma get_w_put_same s i w w0 : get_w s i = Some w0 -> get_w (put_w s i w) i = Some w.
Proof.
  unfold get_w, put_w. simpl. intros H.
  assert (i < length (d_wrappers s)).
  { apply nth_error_Some. destruct (nth_error (d_wrappers s) i); congruence. }
  rewrite nth_error_upd_same by assumption. reflexivity.
Qed.

(* ---- register / unregister / create --------------------------------------------------------- *)

(** registering puts the handler in front of its chain; other chains are untouched *)
Theorem register_spec s i k h w :
  get_w s i = Some w ->
  d_register s i k h = (put_w s i (set_chain w k (h :: chain w k)), []) /\
  (forall k', k' <> k -> chain (set_chain w k (h :: chain w k)) k' = chain w k').
Proof.
  intros Hw. unfold d_register. rewrite Hw. split; [reflexivity|].
  intros k' Hk. destruct k, k'; try reflexivity; congruence.
Qed.

Lemma remove_first_spec h l :
  match remove_first h l with
  | Some l' => exists pre suf, l = pre ++ h :: suf /\ ~ In h pre /\ l' = pre ++ suf
  | None => ~ In h l
  end.
Proof.
  induction l as [|x r IH]; simpl; [tauto|].
  destruct (Nat.eqb x h) eqn:E.
  - apply Nat.eqb_eq in E. subst x. exists [], r. simpl. auto.
  - apply Nat.eqb_neq in E. destruct (remove_first h r) as [r'|].
    + destruct IH as (pre & suf & -> & Hn & ->). exists (x :: pre), suf. simpl. split; [reflexivity|]. split; [|reflexivity].
      intros [H|H]; [congruence|contradiction].
    + intros [H|H]; [congruence|contradiction].
Qed.

(** unregistering removes exactly the newest registration of that handler — every other entry
    stays, in order; unregistering a handler that is not registered raises ValueError and changes
    nothing *)
Theorem unregister_spec s i k h w :
  get_w s i = Some w ->
  (In h (chain w k) ->
     exists pre suf, chain w k = pre ++ h :: suf /\ ~ In h pre /\
       d_unregister s i k h = (put_w s i (set_chain w k (pre ++ suf)), [])) /\
  (~ In h (chain w k) -> d_unregister s i k h = (s, [DValueError])).
Proof.
  intros Hw. unfold d_unregister. rewrite Hw. pose proof (remove_first_spec h (chain w k)) as Hr.
  destruct (remove_first h (chain w k)) as [l'|].
  - destruct Hr as (pre & suf & E & Hn & ->). split.
    + intros _. exists pre, suf. auto.
    + intros Hni. exfalso. apply Hni. rewrite E. apply in_or_app. right. left. reflexivity.
  - split; [intros Hin; contradiction|reflexivity].
Qed.

(** asking for a dispatcher twice yields the same wrapper: the second call changes nothing *)
Theorem create_idempotent s i : d_create (d_create s i) i = d_create s i.
Proof.
  unfold d_create. destruct (nth_error (d_wrappers s) i) as [[w|]|] eqn:E; rewrite ?E; try reflexivity.
  unfold put_w. simpl. rewrite nth_error_upd_same; [reflexivity|]. apply nth_error_Some. congruence.
Qed.

Theorem create_wrapped_noop s i w : get_w s i = Some w -> d_create s i = s.
Proof. unfold get_w, d_create. destruct (nth_error (d_wrappers s) i) as [[w0|]|]; congruence. Qed.

(** operations on one instance leave every other instance's wrapper untouched *)
Theorem instance_isolation s i j k h :
  i <> j ->
  get_w (fst (d_register s i k h)) j = get_w s j /\
  get_w (fst (d_unregister s i k h)) j = get_w s j /\
  get_w (d_create s i) j = get_w s j.
Proof.
  intros Hij. unfold d_register, d_unregister, d_create. repeat split.
  - destruct (get_w s i); simpl; [apply get_w_put_other; exact Hij|reflexivity].
  - destruct (get_w s i) as [w|]; simpl; [|reflexivity].
    destruct (remove_first h (chain w k)); simpl; [apply get_w_put_other; exact Hij|reflexivity].
  - destruct (nth_error (d_wrappers s) i) as [[w|]|]; try reflexivity. apply get_w_put_other. exact Hij.
Qed.

(* ---- dispatch ---------------------------------------------------------------------------------- *)

Definition call_of (it : ditem) : list nat := match it with DCall _ _ h => [h] | _ => [] end.
Definition calls (items : list ditem) : list nat := flat_map call_of items.
Definition proto_called (items : list ditem) : bool :=
  existsb (fun it => match it with DProto _ _ => true | _ => false end) items.

Lemma calls_app a b : calls (a ++ b) = calls a ++ calls b.
Proof. apply flat_map_app. Qed.

Section WithBeh.
Variable beh : nat -> nat -> dres * list reop.
(** whatever a dispatch started from inside a running handler does *)
Variable disp : dstate -> nat -> kind -> dstate * list ditem.

Lemma apply_reops_no_calls s ops : calls (snd (apply_reops disp s ops)) = [] /\ proto_called (snd (apply_reops disp s ops)) = false.
Proof.
  revert s. induction ops as [|o r IH]; intros s; simpl; [auto|].
  assert (Ho : calls (snd (apply_reop disp s o)) = [] /\ proto_called (snd (apply_reop disp s o)) = false).
  { destruct o as [i k h|i k h|i k]; simpl; [| |destruct (disp s i k); simpl; auto];
      unfold d_register, d_unregister; destruct (get_w s i) as [w|]; simpl; auto.
    destruct (remove_first h (chain w k)); simpl; auto. }
  destruct (apply_reop disp s o) as [s1 i1]. specialize (IH s1). destruct (apply_reops disp s1 r) as [s2 i2]. simpl in *.
  destruct Ho as [H1 H2]. destruct IH as [H3 H4]. rewrite calls_app, H1, H3. unfold proto_called in *. rewrite existsb_app, H2, H4. auto.
Qed.


(** One dispatch invokes the chain as it was when the dispatch started (a snapshot: whatever the
    running handlers register or unregister), newest first, each entry at most once: the calls
    made are a prefix of that snapshot. *)
Theorem dispatch_calls_prefix s snap inst k :
  exists suf, snap = calls (snd (run_chain beh disp s snap inst k)) ++ suf.
Proof.
  revert s. induction snap as [|h r IH]; intros s; simpl.
  - exists []. reflexivity.
  - destruct (beh h (nth h (d_calls s) 0)) as [res ops].
    pose proof (apply_reops_no_calls (bump s h) ops) as [Hc Hp].
    destruct (apply_reops disp (bump s h) ops) as [s1 i1]. simpl in Hc, Hp.
    destruct (interruptible k && match res with RInterrupt => true | _ => false end).
    + simpl. rewrite Hc. exists r. reflexivity.
    + specialize (IH s1). destruct (run_chain beh disp s1 r inst k) as [s2 i2]. simpl in *.
      destruct IH as (suf & E). exists suf. rewrite calls_app, Hc. simpl. f_equal. exact E.
Qed.

(** initialize and finish always run the whole chain and then the protocol's own method,
    whatever the handlers return. *)
Theorem dispatch_whole_chain_when_not_interruptible s snap inst k :
  interruptible k = false ->
  calls (snd (run_chain beh disp s snap inst k)) = snap /\ proto_called (snd (run_chain beh disp s snap inst k)) = true.
Proof.
  intros Hk. revert s. induction snap as [|h r IH]; intros s; simpl; [auto|].
  destruct (beh h (nth h (d_calls s) 0)) as [res ops].
  pose proof (apply_reops_no_calls (bump s h) ops) as [Hc Hp].
  destruct (apply_reops disp (bump s h) ops) as [s1 i1]. simpl in Hc, Hp. rewrite Hk. simpl.
  specialize (IH s1). destruct (run_chain beh disp s1 r inst k) as [s2 i2]. simpl in *. destruct IH as [I1 I2].
  rewrite calls_app, Hc, I1. split; [reflexivity|]. unfold proto_called in *. rewrite existsb_app, I2. apply orb_true_r.
Qed.

(** for timer / telemetry / packet: the protocol's own method runs iff no invoked handler
    returned INTERRUPT; the chain stops right after the first handler that did. *)
Theorem dispatch_interrupt s snap inst k :
  (proto_called (snd (run_chain beh disp s snap inst k)) = true -> calls (snd (run_chain beh disp s snap inst k)) = snap) /\
  (proto_called (snd (run_chain beh disp s snap inst k)) = false ->
     interruptible k = true /\ calls (snd (run_chain beh disp s snap inst k)) <> []).
Proof.
  revert s. induction snap as [|h r IH]; intros s; simpl; [split; [reflexivity|discriminate]|].
  destruct (beh h (nth h (d_calls s) 0)) as [res ops].
  pose proof (apply_reops_no_calls (bump s h) ops) as [Hc Hp].
  destruct (apply_reops disp (bump s h) ops) as [s1 i1]. simpl in Hc, Hp.
  destruct (interruptible k && match res with RInterrupt => true | _ => false end) eqn:Es.
  - simpl. rewrite Hc, Hp. split; [discriminate|]. intros _. apply andb_true_iff in Es. split; [tauto|discriminate].
  - specialize (IH s1). destruct (run_chain beh disp s1 r inst k) as [s2 i2]. simpl in *. destruct IH as [I1 I2].
    rewrite calls_app, Hc. unfold proto_called in *. simpl. rewrite existsb_app, Hp. simpl. split.
    + intros H. rewrite (I1 H). reflexivity.
    + intros H. destruct (I2 H) as [J1 _]. split; [exact J1|discriminate].
Qed.

(** a handler that returns CONTINUE or None never stops the chain *)
Theorem dispatch_no_interrupt s snap inst k :
  (forall h n, fst (beh h n) <> RInterrupt) ->
  calls (snd (run_chain beh disp s snap inst k)) = snap /\ proto_called (snd (run_chain beh disp s snap inst k)) = true.
Proof.
  intros Hn. revert s. induction snap as [|h r IH]; intros s; simpl; [auto|].
  pose proof (Hn h (nth h (d_calls s) 0)) as Hh.
  destruct (beh h (nth h (d_calls s) 0)) as [res ops]. simpl in Hh.
  pose proof (apply_reops_no_calls (bump s h) ops) as [Hc Hp].
  destruct (apply_reops disp (bump s h) ops) as [s1 i1]. simpl in Hc, Hp.
  assert (interruptible k && match res with RInterrupt => true | _ => false end = false) as ->.
  { destruct res; try congruence; apply andb_false_r. }
  specialize (IH s1). destruct (run_chain beh disp s1 r inst k) as [s2 i2]. simpl in *. destruct IH as [I1 I2].
  rewrite calls_app, Hc, I1. split; [reflexivity|]. unfold proto_called in *. rewrite existsb_app, I2. apply orb_true_r.
Qed.

(** all calls of one dispatch are for the dispatched instance and kind: handlers registered for
    one protocol instance never run for another *)
Theorem dispatch_only_own_instance s snap inst k :
  forall it, In it (snd (run_chain beh disp s snap inst k)) ->
    match it with DCall i k' _ => i = inst /\ k' = k | DProto i k' => i = inst /\ k' = k | _ => True end.
Proof.
  revert s. induction snap as [|h r IH]; intros s; simpl.
  - intros it [<-|[]]. auto.
  - destruct (beh h (nth h (d_calls s) 0)) as [res ops].
    assert (Hre : forall s0 it, In it (snd (apply_reops disp s0 ops)) -> match it with DCall _ _ _ | DProto _ _ => False | _ => True end).
    { clear - ops. induction ops as [|o r0 IH]; intros s0 it; simpl; [intros []|].
      assert (Ho : forall it, In it (snd (apply_reop disp s0 o)) -> match it with DCall _ _ _ | DProto _ _ => False | _ => True end).
      { destruct o as [i k h|i k h|i k]; simpl; [| |destruct (disp s0 i k); simpl; intros it0 [<-|[]]; exact I];
          unfold d_register, d_unregister; destruct (get_w s0 i) as [w|]; simpl;
          try (intros it0 [<-|[]]; exact I); try (intros it0 []).
        destruct (remove_first h (chain w k)); simpl; [intros it0 []|intros it0 [<-|[]]; exact I]. }
      destruct (apply_reop disp s0 o) as [s1 i1]. specialize (IH s1). destruct (apply_reops disp s1 r0) as [s2 i2]. simpl in *.
      intros Hin. apply in_app_or in Hin. destruct Hin; [apply Ho|eapply IH]; eassumption. }
    specialize (Hre (bump s h)). destruct (apply_reops disp (bump s h) ops) as [s1 i1]. simpl in Hre.
    destruct (interruptible k && match res with RInterrupt => true | _ => false end).
    + simpl. intros it [<-|Hin]; [auto|]. specialize (Hre it Hin). destruct it; auto; contradiction.
    + specialize (IH s1). destruct (run_chain beh disp s1 r inst k) as [s2 i2]. simpl in *.
      intros it [<-|Hin]; [auto|]. apply in_app_or in Hin. destruct Hin as [Hin|Hin]; [|apply IH; exact Hin].
      specialize (Hre it Hin). destruct it; auto; contradiction.
Qed.

(** an instance that was never given a dispatcher just runs its own method *)
Theorem dispatch_unwrapped s inst k : get_w s inst = None -> d_dispatch beh disp s inst k = (s, [DProto inst k]).
Proof. intros H. unfold d_dispatch. rewrite H. reflexivity. Qed.

End WithBeh.

(* ---- dispatches started from inside a running handler ------------------------------------------- *)

Lemma dispatchF_unfold beh f s inst k :
  dispatchF beh (S f) s inst k =
  match get_w s inst with
  | Some w => run_chain beh (dispatchF beh f) s (chain w k) inst k
  | None => (s, [DProto inst k])
  end.
Proof. reflexivity. Qed.

Lemma apply_reops_nested disp s ops i k sub :
  In (DNest i k sub) (snd (apply_reops disp s ops)) -> exists s', sub = snd (disp s' i k).
Proof.
  revert s. induction ops as [|o r IH]; intros s; simpl; [intros []|].
  assert (Ho : In (DNest i k sub) (snd (apply_reop disp s o)) -> exists s', sub = snd (disp s' i k)).
  { destruct o as [i0 k0 h|i0 k0 h|i0 k0]; simpl.
    - unfold d_register. destruct (get_w s i0); simpl; [intros []|intros [E|[]]; discriminate].
    - unfold d_unregister. destruct (get_w s i0) as [w|]; simpl; [|intros [E|[]]; discriminate].
      destruct (remove_first h (chain w k0)); simpl; [intros []|intros [E|[]]; discriminate].
    - destruct (disp s i0 k0) as [s1 sub0] eqn:E. simpl. intros [H|[]]. inversion H; subst. exists s. rewrite E. reflexivity. }
  destruct (apply_reop disp s o) as [s1 i1]. specialize (IH s1). destruct (apply_reops disp s1 r) as [s2 i2]. simpl in *.
  intros Hin. apply in_app_or in Hin. destruct Hin; auto.
Qed.

Lemma run_chain_nested beh disp s snap inst k0 i k sub :
  In (DNest i k sub) (snd (run_chain beh disp s snap inst k0)) -> exists s', sub = snd (disp s' i k).
Proof.
  revert s. induction snap as [|h r IH]; intros s; simpl; [intros [E|[]]; discriminate|].
  destruct (beh h (nth h (d_calls s) 0)) as [res ops].
  pose proof (apply_reops_nested disp (bump s h) ops i k sub) as Hn.
  destruct (apply_reops disp (bump s h) ops) as [s1 i1]. simpl in Hn.
  destruct (interruptible k0 && match res with RInterrupt => true | _ => false end); simpl.
  - intros [E|Hin]; [discriminate|auto].
  - specialize (IH s1). destruct (run_chain beh disp s1 r inst k0) as [s2 i2]. simpl in *.
    intros [E|Hin]; [discriminate|]. apply in_app_or in Hin. destruct Hin; auto.
Qed.

(** a dispatch recorded inside another one is itself a run of the dispatcher (one level of fuel down), so
    everything proved about a dispatch holds for it too, at every depth *)
Theorem nested_is_dispatch beh f s inst k0 i k sub :
  In (DNest i k sub) (snd (dispatchF beh (S f) s inst k0)) -> exists s', sub = snd (dispatchF beh f s' i k).
Proof.
  rewrite dispatchF_unfold. destruct (get_w s inst) as [w|]; [apply run_chain_nested|].
  simpl. intros [E|[]]; discriminate.
Qed.

(** the handlers a dispatch invokes, at its own level: the chain of the dispatched instance and kind as it
    was when THAT dispatch started, whatever the nested dispatches did in between *)
Theorem dispatchF_calls_prefix beh f s inst k w :
  get_w s inst = Some w -> exists suf, chain w k = calls (snd (dispatchF beh (S f) s inst k)) ++ suf.
Proof. intros H. rewrite dispatchF_unfold, H. apply dispatch_calls_prefix. Qed.


(* ---- the fuel is not a restriction ---------------------------------------------------------------- *)

(** no nesting ran out of fuel, at any depth *)
Fixpoint complete_item (it : ditem) : bool :=
  match it with
  | DOutOfFuel => false
  | DNest _ _ sub => forallb complete_item sub
  | _ => true
  end.
Definition complete (items : list ditem) : bool := forallb complete_item items.

Lemma complete_app a b : complete (a ++ b) = complete a && complete b.
Proof. apply forallb_app. Qed.

Section TwoDispatchers.
Variable beh : nat -> nat -> dres * list reop.
Variables disp1 disp2 : dstate -> nat -> kind -> dstate * list ditem.
Hypothesis agree : forall s i k, complete (snd (disp1 s i k)) = true -> disp2 s i k = disp1 s i k.

Lemma apply_reops_agree s ops :
  complete (snd (apply_reops disp1 s ops)) = true -> apply_reops disp2 s ops = apply_reops disp1 s ops.
Proof.
  revert s. induction ops as [|o r IH]; intros s; simpl; [reflexivity|].
  assert (Ho : complete (snd (apply_reop disp1 s o)) = true -> apply_reop disp2 s o = apply_reop disp1 s o).
  { destruct o as [i k h|i k h|i k]; simpl; try reflexivity.
    pose proof (agree s i k) as A. destruct (disp1 s i k) as [s1 sub]. simpl in *.
    rewrite andb_true_r. intros C. rewrite (A C). reflexivity. }
  destruct (apply_reop disp1 s o) as [s1 i1]. specialize (IH s1).
  destruct (apply_reops disp1 s1 r) as [s2 i2]. simpl in *.
  rewrite complete_app. intros C. apply andb_true_iff in C. destruct C as [C1 C2].
  rewrite (Ho C1), (IH C2). reflexivity.
Qed.

Lemma run_chain_agree s snap inst k :
  complete (snd (run_chain beh disp1 s snap inst k)) = true ->
  run_chain beh disp2 s snap inst k = run_chain beh disp1 s snap inst k.
Proof.
  revert s. induction snap as [|h r IH]; intros s; simpl; [reflexivity|].
  destruct (beh h (nth h (d_calls s) 0)) as [res ops].
  pose proof (apply_reops_agree (bump s h) ops) as A.
  destruct (apply_reops disp1 (bump s h) ops) as [s1 i1]. simpl in A.
  destruct (interruptible k && match res with RInterrupt => true | _ => false end).
  - simpl. intros C. change (complete i1 = true) in C. rewrite (A C). reflexivity.
  - specialize (IH s1). destruct (run_chain beh disp1 s1 r inst k) as [s2 i2]. simpl in *.
    intros C. change (complete (i1 ++ i2) = true) in C. rewrite complete_app in C. apply andb_true_iff in C. destruct C as [C1 C2].
    rewrite (A C1), (IH C2). reflexivity.
Qed.

End TwoDispatchers.

(** once no nesting ran out of fuel, more fuel gives the same result: what the dispatcher does is the value of
    [dispatchF] at any sufficient fuel *)
Theorem fuel_irrelevant beh f :
  forall s inst k, complete (snd (dispatchF beh f s inst k)) = true ->
    dispatchF beh (S f) s inst k = dispatchF beh f s inst k.
Proof.
  induction f as [|f IH]; intros s inst k C; [discriminate C|].
  rewrite (dispatchF_unfold beh (S f)), (dispatchF_unfold beh f) in *.
  destruct (get_w s inst) as [w|]; [|reflexivity].
  apply run_chain_agree; [exact IH|exact C].
Qed.

Theorem fuel_irrelevant_plus beh f n :
  forall s inst k, complete (snd (dispatchF beh f s inst k)) = true ->
    dispatchF beh (n + f) s inst k = dispatchF beh f s inst k.
Proof.
  induction n as [|n IH]; intros s inst k C; [reflexivity|].
  change (S n + f) with (S (n + f)). rewrite fuel_irrelevant; [apply IH; exact C|].
  rewrite IH; exact C.
Qed.
