(** Proofs about the interop wrapper model (C14). *)
From Coq Require Import List Arith Bool.
Import ListNotations.
From GS Require Import Num Sim Interop.
From GS.Proofs Require Import SimP.

Section InteropP.
Context {F : Type} (A : ArithOps F).

Lemma interop_reqs_spec pending rs :
  fst (interop_reqs A pending rs) = pending ++ flat_map (fun r => fst (interop_req A r)) rs /\
  snd (interop_reqs A pending rs) = map (fun r => snd (interop_req A r)) rs.
Proof.
  revert pending. induction rs as [|r rest IH]; intros pending; simpl; [rewrite app_nil_r; auto|].
  destruct (interop_req A r) as [c o] eqn:E. specialize (IH (pending ++ c)).
  destruct (interop_reqs A (pending ++ c) rest) as [p2 os]. simpl in *. destruct IH as [-> ->].
  rewrite <- app_assoc. auto.
Qed.

(** Every callback returns exactly the requests the protocol issued during that callback, in
    order, with unchanged content — nothing left over from earlier callbacks — and leaves the
    pending list empty. *)
Theorem interop_collect_exact rs :
  interop_callback A [] rs = (flat_map (fun r => fst (interop_req A r)) rs, [], map (fun r => snd (interop_req A r)) rs).
Proof.
  unfold interop_callback. pose proof (interop_reqs_spec [] rs) as [H1 H2].
  destruct (interop_reqs A [] rs) as [p2 os]. simpl in *. subst. reflexivity.
Qed.

Theorem interop_session_exact cbs :
  interop_session A [] cbs =
  map (fun rs => (flat_map (fun r => fst (interop_req A r)) rs, map (fun r => snd (interop_req A r)) rs)) cbs.
Proof.
  induction cbs as [|rs rest IH]; simpl; [reflexivity|].
  rewrite interop_collect_exact. simpl. rewrite IH. reflexivity.
Qed.

(** A protocol that does not cancel timers issues the same requests in both wrappers: what the
    interop wrapper returns for a callback is what the python wrapper forwards to its handlers,
    plus the tracked-variable updates (which the python provider keeps in a plain dict). *)
Definition no_cancel (r : ireq F) : bool := match r with RAct (ACancel _) => false | _ => true end.
Definition is_track (c : conseq F) : bool := match c with CTrack _ _ => true | _ => false end.

Theorem wrapper_equivalence rs :
  forallb no_cancel rs = true ->
  filter (fun c => negb (is_track c)) (flat_map (fun r => fst (interop_req A r)) rs)
  = flat_map (@python_forwarded F) rs.
Proof.
  induction rs as [|r rest IH]; simpl; [reflexivity|]. intros H. apply andb_true_iff in H. destruct H as [H1 H2].
  rewrite filter_app, (IH H2). f_equal.
  destruct r as [a|k v]; [|reflexivity]. destruct a; simpl in *; try reflexivity; try discriminate.
Qed.

(** every request that is not a cancel (and not a negative range) succeeds under interop *)
Theorem interop_outcomes r :
  snd (interop_req A r) =
  match r with
  | RAct (ACancel _) => INotImplemented
  | RAct (ASetRange x) => if fltb A x (f0 A) then IValueError else IOk
  | _ => IOk
  end.
Proof. destruct r as [a|k v]; [destruct a|]; reflexivity. Qed.

(** the known finding: cancel_timer raises under the interop wrapper *)
Theorem cancel_not_supported name : interop_req A (RAct (ACancel name)) = ([], INotImplemented).
Proof. reflexivity. Qed.

(** simulator-only extensions: outside the python simulator (and in it without the handler)
    every method returns normally and does nothing *)
Theorem extensions_noop_outside_python (c : ext_call F) :
  fst (ext_behaviour A InteropProv c) = EffNone /\
  fst (ext_behaviour A (PythonProv false) c) = EffNone /\
  (snd (ext_behaviour A InteropProv c) = IOk \/ exists r, c = ExtCommSetRange r /\ fltb A r (f0 A) = true).
Proof.
  destruct c; simpl; try (repeat split; auto; fail).
  destruct (fltb A r (f0 A)) eqn:E; simpl; repeat split; auto. right. exists r. auto.
Qed.

End InteropP.

(** the python wrapper forwards the protocol's requests in order: the request trace of a
    callback is exactly the list the protocol issued *)
Theorem python_requests_in_order {F PS : Type} (A : ArithOps F) (cfg : scfg F) (h : sstate F PS) now n acts :
  map (fun it => match it with TAct _ a _ => Some a | _ => None end) (snd (do_actions A cfg h now n acts))
  = map (@Some (action F)) acts.
Proof.
  revert h. induction acts as [|a r IH]; intros h; simpl; [reflexivity|].
  destruct (do_action A cfg h now n a) as [[h1 q1] o]. specialize (IH h1).
  destruct (do_actions A cfg h1 now n r) as [[h2 q2] t2]. simpl in *. rewrite IH. reflexivity.
Qed.
