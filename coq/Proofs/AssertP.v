(** Proofs about the assertion handler model (C18). *)
From Coq Require Import List Arith NArith Bool Lia.
Import ListNotations.
From GS Require Import Num EventLoop Kernel Sim.

Section AssertP.
Context {F : Type} {PS : Type}.
Variable cfg : scfg F.
Notation sstate := (sstate F PS).
Implicit Types (h : sstate).

Definition raises h (a : assertion) (st : astate) : bool := snd (assert_iter cfg h a st).

(** An always-assertion raises exactly when its predicate is false now: for some node of the
    stated protocol type (subclasses included), resp. for the node list as a whole. *)
Theorem always_proto_raises_iff h ty st :
  raises h (AAlwaysProto ty) st = true <-> exists n, In n (inst_nodes cfg ty) /\ flag_of h n = false.
Proof.
  unfold raises. simpl. rewrite negb_true_iff. split.
  - intros Hf. destruct (forallb (flag_of h) (inst_nodes cfg ty)) eqn:E; [discriminate|].
    clear Hf. induction (inst_nodes cfg ty) as [|n r IH]; simpl in E; [discriminate|].
    apply andb_false_iff in E. destruct E as [E|E].
    + exists n. split; [left; reflexivity|exact E].
    + destruct (IH E) as (m & Hm & Hfm). exists m. split; [right; exact Hm|exact Hfm].
  - intros (n & Hn & Hfn). destruct (forallb (flag_of h) (inst_nodes cfg ty)) eqn:E; [|reflexivity].
    rewrite forallb_forall in E. rewrite (E n Hn) in Hfn. discriminate.
Qed.

Theorem always_sim_raises_iff h q st : raises h (AAlwaysSim q) st = negb (qpred cfg h q).
Proof. reflexivity. Qed.

(** the nodes an assertion for a protocol type looks at: exactly those whose class is the type
    or its subclass *)
Theorem inst_nodes_spec ty n :
  In n (inst_nodes cfg ty) <-> n < c_nnodes cfg /\ is_inst (nth n (c_types cfg) 0) ty = true.
Proof. unfold inst_nodes. rewrite filter_In, in_seq. split; intros [H1 H2]; split; auto; lia. Qed.

(** eventually-assertions never raise during the run *)
Theorem eventually_never_raises_in_run h a st :
  match a with AEventuallyProto _ | AEventuallySim _ => raises h a st = false | _ => True end.
Proof. destruct a; simpl; auto. Qed.

(** Several assertions: the handler reports the first one, in list order, whose predicate is
    violated, and none if none is. *)
Theorem asserts_iter_first h k asl sts :
  length asl = length sts ->
  match snd (asserts_iter cfg h k asl sts) with
  | Some i => exists j, i = k + j /\ j < length asl /\
                raises h (nth j asl (AAlwaysSim QAll)) (nth j sts ASNone) = true /\
                forall j', j' < j -> raises h (nth j' asl (AAlwaysSim QAll)) (nth j' sts ASNone) = false
  | None => forall j, j < length asl -> raises h (nth j asl (AAlwaysSim QAll)) (nth j sts ASNone) = false
  end.
Proof.
  revert k sts. induction asl as [|a ar IH]; intros k sts Hl; destruct sts as [|st sr]; simpl in *; try discriminate.
  - intros j Hj. lia.
  - destruct (assert_iter cfg h a st) as [st1 r] eqn:E. destruct r.
    + simpl. exists 0. split; [lia|]. split; [lia|]. split; [unfold raises; rewrite E; reflexivity|]. intros j' Hj'. lia.
    + specialize (IH (S k) sr (eq_add_S _ _ Hl)). destruct (asserts_iter cfg h (S k) ar sr) as [sr1 res]. simpl in *.
      destruct res as [i|].
      * destruct IH as (j & -> & Hj & Hr & Hb). exists (S j). split; [lia|]. split; [lia|]. split; [exact Hr|].
        intros [|j'] Hj'; [unfold raises; rewrite E; reflexivity|]. apply Hb. lia.
      * intros [|j] Hj; [unfold raises; rewrite E; reflexivity|]. apply IH. lia.
Qed.

(** Eventually, simulation-scoped: over the states after each executed event, the bookkeeping
    remembers whether the predicate has held; at finalisation it fails iff it never held after
    any executed event — in particular when no event was executed at all. *)
Theorem eventually_sim_fold q (hs : list sstate) :
  fold_left (fun st h => fst (assert_iter cfg h (AEventuallySim q) st)) hs (ASSim false)
  = ASSim (existsb (fun h => qpred cfg h q) hs).
Proof.
  assert (G : forall b, fold_left (fun st h => fst (assert_iter cfg h (AEventuallySim q) st)) hs (ASSim b)
                        = ASSim (b || existsb (fun h => qpred cfg h q) hs)).
  { induction hs as [|h r IH]; intros b; simpl; [rewrite orb_false_r; reflexivity|].
    destruct (qpred cfg h q); simpl; rewrite IH; [rewrite orb_true_r|]; reflexivity. }
  apply (G false).
Qed.

Theorem eventually_sim_fails_iff q (hs : list sstate) :
  assert_final (AEventuallySim q)
    (fold_left (fun st h => fst (assert_iter cfg h (AEventuallySim q) st)) hs (assert_init cfg (AEventuallySim q)))
  = negb (existsb (fun h => qpred cfg h q) hs).
Proof. simpl assert_init. rewrite eventually_sim_fold. reflexivity. Qed.

(* ---- protocol-scoped eventually --------------------------------------------------------- *)

Fixpoint seen_get (n : nat) (l : list (nat * bool)) : option bool :=
  match l with
  | [] => None
  | (m, b) :: r => if Nat.eqb m n then Some b else seen_get n r
  end.

Lemma seen_setdefault_get n m l :
  seen_get m (seen_setdefault n l) =
  match seen_get m l with Some b => Some b | None => if Nat.eqb n m then Some false else None end.
Proof.
  induction l as [|[k b] r IH]; simpl.
  - destruct (Nat.eqb n m); reflexivity.
  - destruct (Nat.eqb k n) eqn:E1; simpl.
    + destruct (Nat.eqb k m) eqn:E2; [reflexivity|]. destruct (seen_get m r); [reflexivity|].
      apply Nat.eqb_eq in E1. subst k. rewrite E2. reflexivity.
    + destruct (Nat.eqb k m); [reflexivity|exact IH].
Qed.

Lemma seen_set_get n m l :
  seen_get n l <> None ->
  seen_get m (seen_set n l) = if Nat.eqb n m then Some true else seen_get m l.
Proof.
  induction l as [|[k b] r IH]; simpl; [congruence|].
  destruct (Nat.eqb k n) eqn:E1; simpl.
  - intros _. apply Nat.eqb_eq in E1. subst k. destruct (Nat.eqb n m); reflexivity.
  - intros Hn. destruct (Nat.eqb k m) eqn:E2.
    + apply Nat.eqb_eq in E2. subst k. rewrite Nat.eqb_sym, E1. reflexivity.
    + apply IH. exact Hn.
Qed.

Definition ep_step h (l : list (nat * bool)) (n : nat) : list (nat * bool) :=
  let l1 := seen_setdefault n l in if flag_of h n then seen_set n l1 else l1.

Lemma ep_step_get h l n m :
  seen_get m (ep_step h l n) =
  if Nat.eqb n m then Some (match seen_get m l with Some b => b | None => false end || flag_of h n)
  else seen_get m l.
Proof.
  unfold ep_step. destruct (flag_of h n) eqn:Ef.
  - rewrite seen_set_get.
    + destruct (Nat.eqb n m) eqn:E; [rewrite orb_true_r; reflexivity|]. rewrite seen_setdefault_get, E.
      destruct (seen_get m l); reflexivity.
    + rewrite seen_setdefault_get, Nat.eqb_refl. destruct (seen_get n l); discriminate.
  - rewrite seen_setdefault_get. destruct (Nat.eqb n m) eqn:E.
    + destruct (seen_get m l); rewrite orb_false_r; reflexivity.
    + destruct (seen_get m l); reflexivity.
Qed.

Lemma ep_fold_get h ns l m :
  NoDup ns ->
  seen_get m (fold_left (ep_step h) ns l) =
  if existsb (Nat.eqb m) ns then Some (match seen_get m l with Some b => b | None => false end || flag_of h m)
  else seen_get m l.
Proof.
  revert l. induction ns as [|n r IH]; intros l Hnd; simpl; [reflexivity|].
  inversion Hnd as [|? ? Hn Hr]; subst. rewrite (IH _ Hr). rewrite ep_step_get.
  destruct (Nat.eqb m n) eqn:E.
  - apply Nat.eqb_eq in E. subst m. rewrite Nat.eqb_refl. simpl.
    assert (existsb (Nat.eqb n) r = false) as ->.
    { destruct (existsb (Nat.eqb n) r) eqn:Ex; [|reflexivity]. apply existsb_exists in Ex. destruct Ex as (x & Hx & Hxe).
      apply Nat.eqb_eq in Hxe. subst x. contradiction. }
    reflexivity.
  - simpl. rewrite Nat.eqb_sym, E. reflexivity.
Qed.

(** One after-step evaluation of a protocol-scoped eventually-assertion: for every node of the
    type, "has been true" becomes "had been true or is true now"; other entries are untouched. *)
Theorem eventually_proto_iter h ty l m :
  match fst (assert_iter cfg h (AEventuallyProto ty) (ASProto l)) with
  | ASProto l' =>
      seen_get m l' =
      if existsb (Nat.eqb m) (inst_nodes cfg ty)
      then Some (match seen_get m l with Some b => b | None => false end || flag_of h m)
      else seen_get m l
  | _ => False
  end.
Proof.
  simpl. change (fun l0 n => let l1 := seen_setdefault n l0 in if flag_of h n then seen_set n l1 else l1) with (ep_step h).
  apply ep_fold_get. unfold inst_nodes. apply NoDup_filter, seq_NoDup.
Qed.

(** after initialisation every node of the type is tracked, with "not yet true" *)
Theorem eventually_proto_init ty m :
  match assert_init cfg (AEventuallyProto ty) with
  | ASProto l => seen_get m l = if existsb (Nat.eqb m) (inst_nodes cfg ty) then Some false else None
  | _ => False
  end.
Proof.
  simpl. set (ns := inst_nodes cfg ty).
  assert (G : forall l, seen_get m (fold_left (fun l n => seen_setdefault n l) ns l) =
                        match seen_get m l with Some b => Some b | None => if existsb (Nat.eqb m) ns then Some false else None end).
  { induction ns as [|n r IH]; intros l; simpl; [destruct (seen_get m l); reflexivity|].
    rewrite IH, seen_setdefault_get. destruct (seen_get m l); [reflexivity|].
    rewrite (Nat.eqb_sym m n). destruct (Nat.eqb n m); simpl; [reflexivity|reflexivity]. }
  rewrite G. reflexivity.
Qed.

(** finalisation fails iff some tracked node never had the predicate true *)
Theorem eventually_proto_final ty l :
  assert_final (AEventuallyProto ty) (ASProto l) = true <-> exists n, In (n, false) l.
Proof.
  simpl. rewrite negb_true_iff. split.
  - intros Hf. induction l as [|[n b] r IH]; simpl in Hf; [discriminate|].
    apply andb_false_iff in Hf. destruct Hf as [Hf|Hf].
    + simpl in Hf. subst b. exists n. left. reflexivity.
    + destruct (IH Hf) as (m & Hm). exists m. right. exact Hm.
  - intros (n & Hn). destruct (forallb snd l) eqn:E; [|reflexivity].
    rewrite forallb_forall in E. specialize (E _ Hn). discriminate.
Qed.

End AssertP.
