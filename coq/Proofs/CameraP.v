(** Proofs about the camera model (C19). *)
From Coq Require Import List Bool Arith Lia Reals Lra Psatz.
Import ListNotations.
From GS Require Import Num NumR Camera.

Section CameraP.
Context {F : Type} (A : ArithOps F) (OL : OrderLaws A).
Hypothesis neg1_le_1 : fleb A (fneg A (f1 A)) (f1 A) = true.

(** the clamped cosine is always inside acos' domain *)
Lemma clamp1_in_domain (x : F) :
  fltb A (clamp1 A x) (fneg A (f1 A)) = false /\ fltb A (f1 A) (clamp1 A x) = false.
Proof.
  unfold clamp1. rewrite !(ltb_leb A OL).
  destruct (fleb A (f1 A) x) eqn:E1; simpl.
  - (* m = 1 *) destruct (fleb A (f1 A) (fneg A (f1 A))) eqn:E2; simpl.
    + rewrite (leb_refl A OL). simpl. rewrite neg1_le_1. auto.
    + rewrite neg1_le_1, (leb_refl A OL). auto.
  - (* m = x, x < 1 *) destruct (fleb A x (fneg A (f1 A))) eqn:E2; simpl.
    + rewrite (leb_refl A OL). simpl. rewrite neg1_le_1. auto.
    + destruct (leb_total A OL x (fneg A (f1 A))) as [H|H]; [congruence|]. rewrite H. simpl.
      destruct (leb_total A OL x (f1 A)) as [H1|H1]; [rewrite H1; auto|congruence].
Qed.

Theorem acos_clamped_never_fails (x : F) : acos_checked A (clamp1 A x) <> None.
Proof. unfold acos_checked. destruct (clamp1_in_domain x) as [-> ->]. discriminate. Qed.

(** taking a picture never fails, for every geometry (on the axis, opposite, at the camera's
    own position, ...) *)
Theorem detects_never_fails cv th reach cam other : detects A cv th reach cam other <> None.
Proof.
  unfold detects.
  destruct (fltb A reach _); [discriminate|]. destruct (fltb A (f0 A) _); [|discriminate].
  match goal with |- context [acos_checked A (clamp1 A ?y)] =>
    pose proof (acos_clamped_never_fails y) as H; destruct (acos_checked A (clamp1 A y)); [discriminate|contradiction] end.
Qed.

Theorem picture_never_fails cv th reach cam me idx nodes : picture_from A cv th reach cam me idx nodes <> None.
Proof.
  revert idx. induction nodes as [|p r IH]; intros idx; simpl; [discriminate|].
  destruct (Nat.eqb idx me); [apply IH|].
  pose proof (detects_never_fails cv th reach cam p) as Hd. destruct (detects A cv th reach cam p) as [b|]; [|contradiction].
  specialize (IH (S idx)). destruct (picture_from A cv th reach cam me (S idx) r); [discriminate|contradiction].
Qed.

(** a picture has one entry per OTHER node that passes the test, in node order, carrying that
    node's position; the camera's own node never appears *)
Theorem picture_entries cv th reach cam me idx nodes l :
  picture_from A cv th reach cam me idx nodes = Some l ->
  forall i p, In (i, p) l <->
    exists k, nth_error nodes k = Some p /\ i = idx + k /\ i <> me /\ detects A cv th reach cam p = Some true.
Proof.
  revert idx l. induction nodes as [|q r IH]; intros idx l; simpl.
  - intros [= <-] i p. split; [intros []|]. intros (k & Hk & _). destruct k; discriminate.
  - destruct (Nat.eqb idx me) eqn:Em.
    + intros Hr i p. rewrite (IH _ _ Hr). apply Nat.eqb_eq in Em. split.
      * intros (k & Hk & -> & Hne & Hd). exists (S k). simpl. repeat split; auto; lia.
      * intros (k & Hk & -> & Hne & Hd). destruct k as [|k]; [exfalso; apply Hne; lia|]. exists k. simpl in Hk. repeat split; auto; lia.
    + apply Nat.eqb_neq in Em. destruct (detects A cv th reach cam q) as [b|] eqn:Ed; [|discriminate].
      destruct (picture_from A cv th reach cam me (S idx) r) as [rest|] eqn:Er; [|discriminate].
      intros [= <-] i p. specialize (IH _ _ Er i p). destruct b; simpl.
      * split.
        -- intros [[= <- <-]|Hin]; [exists 0; simpl; repeat split; auto; lia|].
           apply IH in Hin. destruct Hin as (k & Hk & -> & Hne & Hd). exists (S k). simpl. repeat split; auto; lia.
        -- intros (k & Hk & -> & Hne & Hd). destruct k as [|k]; simpl in Hk.
           ++ injection Hk as <-. left. f_equal. lia.
           ++ right. apply IH. exists k. repeat split; auto; lia.
      * rewrite IH. split.
        -- intros (k & Hk & -> & Hne & Hd). exists (S k). simpl. repeat split; auto; lia.
        -- intros (k & Hk & -> & Hne & Hd). destruct k as [|k]; simpl in Hk.
           ++ injection Hk as <-. congruence.
           ++ exists k. repeat split; auto; lia.
Qed.

End CameraP.

(* ---- the real-number reading --------------------------------------------------------------- *)
Local Open Scope R_scope.

Lemma R_neg1_le_1 : fleb R_ops (fneg R_ops (f1 R_ops)) (f1 R_ops) = true.
Proof. simpl. apply Rleb_true. lra. Qed.

(** the camera direction is a unit vector *)
Theorem cam_vector_unit (c : camcfg R) :
  let v := cam_vector R_ops c in vx v * vx v + vy v * vy v + vz v * vz v = 1.
Proof.
  unfold cam_vector, vx, vy, vz. simpl.
  set (i := cam_el c * (PI / 180)). set (r := cam_rot c * (PI / 180)).
  pose proof (sin2_cos2 i) as Hi. pose proof (sin2_cos2 r) as Hr. unfold Rsqr in *.
  replace (sin i * cos r * (sin i * cos r) + sin i * sin r * (sin i * sin r) + cos i * cos i)
    with (sin i * sin i * (sin r * sin r + cos r * cos r) + cos i * cos i) by ring.
  rewrite Hr. lra.
Qed.

(** over the reals the clamp is the identity on [-1, 1] *)
Lemma clamp1_id (x : R) : -1 <= x <= 1 -> clamp1 R_ops x = x.
Proof.
  intros [H1 H2]. unfold clamp1. simpl.
  destruct (Rltb x 1) eqn:E1.
  - destruct (Rltb (- (1)) x) eqn:E2; [reflexivity|]. apply Rltb_false in E2. lra.
  - apply Rltb_false in E1. assert (x = 1) by lra. subst.
    destruct (Rltb (- (1)) 1) eqn:E2; [reflexivity|]. apply Rltb_false in E2. lra.
Qed.

(** the answer is unchanged when the whole scene is translated *)
Theorem detects_translation_invariant cv th reach (cam other t : vec3 R) :
  detects R_ops cv th reach (vx cam + vx t, vy cam + vy t, vz cam + vz t) (vx other + vx t, vy other + vy t, vz other + vz t)
  = detects R_ops cv th reach cam other.
Proof.
  unfold detects, vx, vy, vz. simpl.
  replace (fst (fst other) + fst (fst t) - (fst (fst cam) + fst (fst t))) with (fst (fst other) - fst (fst cam)) by ring.
  replace (snd (fst other) + snd (fst t) - (snd (fst cam) + snd (fst t))) with (snd (fst other) - snd (fst cam)) by ring.
  replace (snd other + snd t - (snd cam + snd t)) with (snd other - snd cam) by ring.
  reflexivity.
Qed.

(** inside the reach and off the camera position, a node is reported iff the cosine of the angle
    between the camera axis and its direction is at least cos(theta + 1e-6), i.e. iff the angle is
    at most theta + 1e-6 (for 0 <= theta + 1e-6 <= pi and a cosine in [-1, 1]) *)
Theorem cone_test_R (dp theta : R) :
  -1 <= dp <= 1 -> 0 <= theta + 1 / 1000000 <= PI ->
  (negb (Rltb theta (acos dp - 1 / 1000000)) = true <-> cos (theta + 1 / 1000000) <= dp).
Proof.
  intros Hd Ht. rewrite negb_true_iff, Rltb_false.
  pose proof (acos_bound dp) as Hb. pose proof (cos_acos dp Hd) as Hc.
  split; intros H.
  - rewrite <- Hc. apply cos_decr_1; try lra.
  - assert (acos dp <= theta + 1 / 1000000) as Hle; [|lra].
    apply cos_decr_0; lra.
Qed.

(* ---- the cone characterisation of [detects] over the reals ------------------------------------ *)

Definition dot3 (a b : vec3 R) : R := vx a * vx b + vy a * vy b + vz a * vz b.
Definition rel3 (cam other : vec3 R) : vec3 R := (vx other - vx cam, vy other - vy cam, vz other - vz cam).

Lemma cauchy_schwarz3 (a b : vec3 R) : dot3 a b * dot3 a b <= dot3 a a * dot3 b b.
Proof.
  unfold dot3, vx, vy, vz. destruct a as [[a0 a1] a2], b as [[b0 b1] b2]. simpl.
  assert (H : (a0 * a0 + a1 * a1 + a2 * a2) * (b0 * b0 + b1 * b1 + b2 * b2) - (a0 * b0 + a1 * b1 + a2 * b2) * (a0 * b0 + a1 * b1 + a2 * b2)
              = (a0 * b1 - a1 * b0) * (a0 * b1 - a1 * b0) + (a0 * b2 - a2 * b0) * (a0 * b2 - a2 * b0) + (a1 * b2 - a2 * b1) * (a1 * b2 - a2 * b1)) by ring.
  pose proof (Rle_0_sqr (a0 * b1 - a1 * b0)). pose proof (Rle_0_sqr (a0 * b2 - a2 * b0)). pose proof (Rle_0_sqr (a1 * b2 - a2 * b1)).
  unfold Rsqr in *. lra.
Qed.

(** the cosine of the angle between a unit axis and the direction to a node is in [-1, 1] *)
Lemma unit_cosine_bounded (cv r : vec3 R) (d : R) :
  dot3 cv cv = 1 -> 0 < d -> d * d = dot3 r r -> -1 <= dot3 cv r / d <= 1.
Proof.
  intros Hu Hd Hdd. pose proof (cauchy_schwarz3 cv r) as Hcs. rewrite Hu, Rmult_1_l, <- Hdd in Hcs.
  set (q := dot3 cv r) in *.
  assert (Hq : (q / d) * (q / d) <= 1).
  { unfold Rdiv. replace (q * / d * (q * / d)) with ((q * q) * (/ d * / d)) by ring.
    rewrite <- Rinv_mult. apply Rmult_le_reg_r with (d * d); [apply Rmult_lt_0_compat; lra|].
    rewrite Rmult_assoc, Rinv_l by (apply Rgt_not_eq, Rmult_lt_0_compat; lra). lra. }
  split; [destruct (Rle_dec (-1) (q / d)) as [H|H]; [exact H|exfalso]|destruct (Rle_dec (q / d) 1) as [H|H]; [exact H|exfalso]].
  - apply Rnot_le_lt in H. set (u := q / d) in *. nra.
  - apply Rnot_le_lt in H. set (u := q / d) in *. nra.
Qed.

(** C19 over the reals, for the model's own [detects]: a node at distance 0 < d <= reach is
    reported iff the cosine of the angle between the (unit) camera axis and the direction to the
    node is at least cos(theta + 1e-6) — i.e. iff it deviates from the axis by at most the cone
    angle plus the code's 1e-6 tolerance; beyond the reach it is never reported; at the camera's
    own position it always is. *)
Theorem detects_cone_R (cv cam other : vec3 R) (theta reach : R) :
  dot3 cv cv = 1 -> 0 <= theta + 1 / 1000000 <= PI ->
  let r := rel3 cam other in
  let d := sqrt (dot3 r r) in
  detects R_ops cv theta reach cam other =
  Some (if Rltb reach d then false
        else if Rltb 0 d then (if Rle_dec (cos (theta + 1 / 1000000)) (dot3 cv r / d) then true else false)
        else true).
Proof.
  intros Hu Ht r d.
  assert (Hdd : 0 <= dot3 r r).
  { unfold dot3. pose proof (Rle_0_sqr (vx r)). pose proof (Rle_0_sqr (vy r)). pose proof (Rle_0_sqr (vz r)). unfold Rsqr in *. lra. }
  unfold detects. simpl.
  change (sqrt ((vx other - vx cam) * (vx other - vx cam) + (vy other - vy cam) * (vy other - vy cam) + (vz other - vz cam) * (vz other - vz cam)))
    with d.
  destruct (Rltb reach d); [reflexivity|]. destruct (Rltb 0 d) eqn:Ed; [|reflexivity].
  apply Rltb_true in Ed.
  set (dp := vx cv * ((vx other - vx cam) / d) + vy cv * ((vy other - vy cam) / d) + vz cv * ((vz other - vz cam) / d)).
  assert (Hdp : dp = dot3 cv r / d) by (unfold dp, dot3, r, rel3, vx, vy, vz; simpl; field; lra).
  assert (Hb : -1 <= dp <= 1).
  { rewrite Hdp. apply unit_cosine_bounded; [exact Hu|exact Ed|]. unfold d. rewrite sqrt_sqrt; [reflexivity|exact Hdd]. }
  rewrite (clamp1_id dp Hb). unfold acos_checked. simpl.
  assert (Rltb dp (- (1)) = false) as -> by (apply Rltb_false; lra).
  assert (Rltb 1 dp = false) as -> by (apply Rltb_false; lra). simpl.
  f_equal. pose proof (cone_test_R dp theta Hb Ht) as Hc. rewrite <- Hdp.
  destruct (Rle_dec (cos (theta + 1 / 1000000)) dp) as [H|H].
  - apply Hc. exact H.
  - destruct (negb (Rltb theta (acos dp - 1 / 1000000))) eqn:E; [|reflexivity]. exfalso. apply H. apply Hc. reflexivity.
Qed.
