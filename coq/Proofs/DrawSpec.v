(** * Random draws over whole runs, as a trace specification

    The number of values taken from random.random() is a function of the visible history:
    on a lossy medium (failure rate > 0) every accepted unicast takes one draw and every
    accepted broadcast takes one per other node; nothing else ever draws, and a loss-free
    medium never draws.  Proved for every run with the generic lemma of [TraceSpec]. *)
From Coq Require Import List Arith NArith Bool Lia.
Import ListNotations.
From GS Require Import Num EventLoop Kernel Geo Sim.
From GS.Proofs Require Import Aux EventLoopP KernelP SimP TraceSpec.

Section DrawSpec.
Context {F : Type} (A : ArithOps F) {PS : Type}.
Variable cfg : scfg F.
Variable react : nat -> PS -> F -> cb F -> PS * list (action F).

Notation sstate := (sstate F PS).
Notation kitem := (kitem F (payload F) (titem F)).
Implicit Types (h : sstate).

Definition lossy : bool := fltb A (f0 A) (c_fail cfg).

(** copies attempted by one accepted request of an existing node *)
Definition copies (a : action F) : nat :=
  if has_comm cfg && lossy then
    match a with
    | ASend _ (Some _) => 1
    | ABroadcast _ | ABcastDst _ _ => c_nnodes cfg - 1
    | _ => 0
    end
  else 0.

Definition d_next (x : nat) (it : kitem) : nat :=
  match it with
  | KUser (TAct n a Ok) => x + copies a
  | _ => x
  end.
Definition d_ok (x : nat) (it : kitem) : Prop := True.
Definition d_abs h : nat := s_cursor h.
Definition d_inv h : Prop := length (s_ps h) = c_nnodes cfg.

Notation sound := (sound d_next d_ok).

Lemma transmit_cursor h now src dst msg :
  s_cursor (fst (transmit A cfg h now src dst msg)) = s_cursor h + (if lossy then 1 else 0) /\
  s_ps (fst (transmit A cfg h now src dst msg)) = s_ps h.
Proof.
  unfold transmit, lossy. destruct (fltb A (f0 A) (c_fail cfg)); simpl;
  repeat match goal with |- context [if ?b then _ else _] => destruct b; simpl end; split; auto; lia.
Qed.

Lemma broadcast_cursor h now src msg dsts :
  s_cursor (fst (broadcast A cfg h now src msg dsts)) =
    s_cursor h + (if lossy then length (filter (fun d => negb (Nat.eqb d src)) dsts) else 0) /\
  s_ps (fst (broadcast A cfg h now src msg dsts)) = s_ps h.
Proof.
  revert h. induction dsts as [|d r IH]; intros h; simpl.
  - destruct lossy; split; auto.
  - destruct (Nat.eqb d src); simpl; [apply IH|].
    pose proof (transmit_cursor h now src d msg) as [Ht Hp].
    destruct (transmit A cfg h now src d msg) as [h1 q1]. simpl in Ht, Hp.
    specialize (IH h1). destruct (broadcast A cfg h1 now src msg r) as [h2 q2]. simpl in *.
    destruct IH as [IH1 IH2]. rewrite IH1, Ht, IH2, Hp. destruct lossy; split; auto; lia.
Qed.

Lemma others_count n : n < c_nnodes cfg ->
  length (filter (fun d => negb (Nat.eqb d n)) (seq 0 (c_nnodes cfg))) = c_nnodes cfg - 1.
Proof.
  intros Hn. generalize (c_nnodes cfg) Hn. clear Hn. intros m Hn.
  assert (H : forall a k, a <= n < a + k -> length (filter (fun d => negb (Nat.eqb d n)) (seq a k)) = k - 1).
  { intros a k. revert a. induction k as [|k IH]; intros a Hr; [lia|]. simpl.
    destruct (Nat.eqb a n) eqn:E; simpl.
    - apply Nat.eqb_eq in E. subst a.
      assert (Hall : forall b j, n < b -> length (filter (fun d => negb (Nat.eqb d n)) (seq b j)) = j).
      { intros b j. revert b. induction j as [|j IHj]; intros b Hb; [reflexivity|]. simpl.
        destruct (Nat.eqb b n) eqn:E2; [apply Nat.eqb_eq in E2; lia|]. simpl. rewrite IHj; [reflexivity|lia]. }
      rewrite Hall; lia.
    - apply Nat.eqb_neq in E. rewrite IH; lia. }
  apply H. lia.
Qed.

Ltac fin := unfold copies; try match goal with H : has_comm cfg = _ |- _ => rewrite H end; simpl; intuition (try lia); repeat match goal with |- context [if ?b then _ else _] => destruct b end; lia.

Lemma do_action_draws h now n a :
  n < c_nnodes cfg ->
  let '(h1, q, o) := do_action A cfg h now n a in
  d_inv h -> d_inv h1 /\ sound (d_abs h) [KUser (TAct n a o)] (d_abs h1).
Proof.
  intros Hn. unfold TraceSpec.sound, after, d_abs, d_inv, d_ok, copies.
  destruct a as [name ts|name|msg dst|msg|msg d|p|p|sp|r|b]; simpl.
  - destruct (negb (has_timer cfg)); simpl; [fin|]. destruct (fltb A ts now); simpl; fin.
  - destruct (negb (has_timer cfg)); simpl; fin.
  - destruct (has_comm cfg) eqn:Ec; simpl; [|destruct dst; fin].
    destruct dst as [d|]; simpl; [|fin].
    destruct (Nat.eqb d n); simpl; [fin|].
    destruct (Nat.ltb d (c_nnodes cfg)); simpl; [|fin].
    pose proof (transmit_cursor h now n d msg) as [Ht Hp].
    destruct (transmit A cfg h now n d msg) as [h1 q]. simpl in *. rewrite Ht, Hp. fin.
  - destruct (has_comm cfg) eqn:Ec; simpl; [|fin].
    pose proof (broadcast_cursor h now n msg (seq 0 (c_nnodes cfg))) as [Ht Hp].
    destruct (broadcast A cfg h now n msg (seq 0 (c_nnodes cfg))) as [h1 q]. simpl in *.
    rewrite Ht, Hp, (others_count n Hn). fin.
  - destruct (has_comm cfg) eqn:Ec; simpl; [|fin].
    destruct (Nat.eqb d n); simpl; [fin|].
    pose proof (broadcast_cursor h now n msg (seq 0 (c_nnodes cfg))) as [Ht Hp].
    destruct (broadcast A cfg h now n msg (seq 0 (c_nnodes cfg))) as [h1 q]. simpl in *.
    rewrite Ht, Hp, (others_count n Hn). fin.
  - destruct (negb (has_mob cfg)); simpl; fin.
  - destruct (negb (has_mob cfg)); simpl; fin.
  - destruct (negb (has_mob cfg)); simpl; fin.
  - destruct (fltb A r (f0 A)); simpl; [fin|]. destruct (negb (has_comm cfg)); simpl; fin.
  - fin.
Qed.

Lemma do_actions_draws h now n acts :
  n < c_nnodes cfg ->
  let '(h1, q, t) := do_actions A cfg h now n acts in
  d_inv h -> d_inv h1 /\ sound (d_abs h) (map (@KUser F (payload F) (titem F)) t) (d_abs h1).
Proof.
  intros Hn. revert h. induction acts as [|a r IH]; intros h; simpl.
  - intros Hi. split; [exact Hi|apply sound_nil].
  - pose proof (do_action_draws h now n a Hn) as Ha.
    destruct (do_action A cfg h now n a) as [[h1 q1] o].
    specialize (IH h1). destruct (do_actions A cfg h1 now n r) as [[h2 q2] t2]. simpl.
    intros Hi. destruct (Ha Hi) as [Hi1 Hs1]. destruct (IH Hi1) as [Hi2 Hs2]. split; [exact Hi2|].
    change (KUser (TAct n a o) :: map (@KUser F (payload F) (titem F)) t2)
      with ([KUser (TAct n a o)] ++ map (@KUser F (payload F) (titem F)) t2).
    eapply sound_app; eassumption.
Qed.

Lemma upd_length {X : Type} n (x : X) l : length (upd n x l) = length l.
Proof. revert n. induction l as [|y r IH]; intros [|m]; simpl; auto. Qed.

Lemma callback_draws h now n c :
  d_inv h ->
  let '(h1, q, t) := callback A cfg react h now n c in
  d_inv h1 /\ sound (d_abs h) (map (@KUser F (payload F) (titem F)) t) (d_abs h1).
Proof.
  intros Hi. unfold Sim.callback.
  destruct (nth_error (s_ps h) n) as [ps|] eqn:En; [|split; [exact Hi|apply sound_nil]].
  assert (Hn : n < c_nnodes cfg).
  { unfold d_inv in Hi. rewrite <- Hi. apply nth_error_Some. congruence. }
  destruct (react n ps (if has_timer cfg then now else f0 A) c) as [ps1 acts].
  pose proof (do_actions_draws (set_ps h (upd n ps1 (s_ps h))) now n acts Hn) as Hd.
  destruct (do_actions A cfg (set_ps h (upd n ps1 (s_ps h))) now n acts) as [[h2 q] t].
  assert (Hi' : d_inv (set_ps h (upd n ps1 (s_ps h)))) by (unfold d_inv in *; simpl; rewrite upd_length; exact Hi).
  destruct (Hd Hi') as [Hi2 Hs2]. split; [exact Hi2|].
  simpl map.
  change (KUser (TCb n (if has_timer cfg then now else f0 A) c) :: map (@KUser F (payload F) (titem F)) t)
    with ([KUser (TCb n (if has_timer cfg then now else f0 A) c)] ++ map (@KUser F (payload F) (titem F)) t).
  eapply sound_app; [|exact Hs2]. unfold TraceSpec.sound, after, d_abs, d_ok. simpl. auto.
Qed.

Lemma callbacks_draws h now ns c :
  d_inv h ->
  let '(h1, q, t) := callbacks A cfg react h now ns c in
  d_inv h1 /\ sound (d_abs h) (map (@KUser F (payload F) (titem F)) t) (d_abs h1).
Proof.
  revert h. induction ns as [|n r IH]; intros h Hi; simpl.
  - split; [exact Hi|apply sound_nil].
  - pose proof (callback_draws h now n c Hi) as H1.
    destruct (callback A cfg react h now n c) as [[h1 q1] t1]. destruct H1 as [Hi1 Hs1].
    specialize (IH h1 Hi1). destruct (callbacks A cfg react h1 now r c) as [[h2 q2] t2]. destruct IH as [Hi2 Hs2].
    split; [exact Hi2|]. rewrite map_app. eapply sound_app; eassumption.
Qed.

Lemma user_neutral (x : nat) (l : list (titem F)) :
  (forall it, In it l -> match it with TAct _ _ _ => False | _ => True end) ->
  sound x (map (@KUser F (payload F) (titem F)) l) x.
Proof.
  induction l as [|it r IH]; intros Hl; simpl; [apply sound_nil|].
  assert (Hr : sound x (map (@KUser F (payload F) (titem F)) r) x) by (apply IH; intros i Hi; apply Hl; right; exact Hi).
  specialize (Hl it (or_introl eq_refl)).
  destruct Hr as [Ha Hf]. unfold TraceSpec.sound, after, d_ok in *.
  destruct it; try contradiction; simpl; (split; [split; [exact I|exact Ha]|exact Hf]).
Qed.

Lemma handlers_init_draws h hs :
  let '(h1, t) := handlers_init cfg h hs in
  s_cursor h1 = s_cursor h /\ s_ps h1 = s_ps h /\
  forall it, In it t -> match it with TAct _ _ _ => False | _ => True end.
Proof.
  revert h. induction hs as [|k r IH]; intros h; simpl; [repeat split; auto; intros ? []|].
  destruct k; try apply IH.
  - specialize (IH h). destruct (handlers_init cfg h r) as [h1 t]. destruct IH as (I1 & I2 & I3).
    repeat split; auto. intros it [<-|Hin]; [exact I|apply I3; exact Hin].
  - specialize (IH (set_astate h (map (assert_init cfg) (c_asserts cfg)))).
    destruct (handlers_init cfg (set_astate h (map (assert_init cfg) (c_asserts cfg))) r) as [h1 t]. exact IH.
Qed.

Theorem sim_init_draws h :
  d_inv h ->
  let '(h1, reqs, items) := sim_init A cfg react h in
  d_inv h1 /\ sound (d_abs h) (map (@KUser F (payload F) (titem F)) items) (d_abs h1).
Proof.
  intros Hi. unfold sim_init. pose proof (handlers_init_draws h (c_handlers cfg)) as Hh.
  destruct (handlers_init cfg h (c_handlers cfg)) as [h1 t1]. destruct Hh as (H1 & H2 & H3).
  assert (Hi1 : d_inv h1) by (unfold d_inv in *; rewrite H2; exact Hi).
  pose proof (callbacks_draws h1 (f0 A) (nodes cfg) CbInit Hi1) as Hc.
  destruct (callbacks A cfg react h1 (f0 A) (nodes cfg) CbInit) as [[h2 q] t2]. destruct Hc as [Hi2 Hs2].
  split; [exact Hi2|]. rewrite map_app. eapply sound_app; [|exact Hs2].
  assert (d_abs h1 = d_abs h) as -> by (unfold d_abs; exact H1).
  apply user_neutral. exact H3.
Qed.

Lemma tick_nodes_draws h now ns :
  let '(h1, q) := tick_nodes A cfg h now ns in s_cursor h1 = s_cursor h /\ s_ps h1 = s_ps h.
Proof.
  revert h. induction ns as [|n r IH]; intros h; simpl; [auto|].
  match goal with |- context [tick_nodes A cfg ?hh now r] => specialize (IH hh); destruct (tick_nodes A cfg hh now r) as [h2 q] end.
  simpl in IH. exact IH.
Qed.

Theorem sim_exec_draws h ts p i sq :
  d_inv h ->
  let '(h2, reqs, items) := sim_exec A cfg react h ts p in
  d_inv h2 /\ sound (d_abs h) (KExec i ts sq p :: map (@KUser F (payload F) (titem F)) items) (d_abs h2).
Proof.
  intros Hi.
  assert (Hcons : forall (h' : sstate) hh (tt : list (titem F)), d_abs h' = d_abs h ->
            (d_inv hh /\ sound (d_abs h') (map (@KUser F (payload F) (titem F)) tt) (d_abs hh)) ->
            d_inv hh /\ sound (d_abs h) (KExec i ts sq p :: map (@KUser F (payload F) (titem F)) tt) (d_abs hh)).
  { intros h' hh tt Heq [Hih Hs]. split; [exact Hih|].
    change (KExec i ts sq p :: map (@KUser F (payload F) (titem F)) tt)
      with ([KExec i ts sq p] ++ map (@KUser F (payload F) (titem F)) tt).
    eapply sound_app; [|exact Hs]. unfold TraceSpec.sound, after, d_ok. simpl. rewrite Heq. auto. }
  destruct p as [n name id|src dst msg| |n pos]; simpl.
  - destruct (existsb (pend_id n name id) (s_pending h)).
    + set (h' := set_pending h (filter (fun e => negb (pend_id n name id e)) (s_pending h))).
      pose proof (callback_draws h' ts n (CbTimer name) Hi) as Hc.
      destruct (callback A cfg react h' ts n (CbTimer name)) as [[h2 q] t]. apply (Hcons h' h2 t eq_refl Hc).
    + split; [exact Hi|]. unfold TraceSpec.sound, after, d_ok. simpl. auto.
  - pose proof (callback_draws h ts dst (CbPacket msg) Hi) as Hc.
    destruct (callback A cfg react h ts dst (CbPacket msg)) as [[h2 q] t]. apply (Hcons h h2 t eq_refl Hc).
  - unfold tick. pose proof (tick_nodes_draws h ts (seq 0 (c_nnodes cfg))) as Ht.
    destruct (tick_nodes A cfg h ts (seq 0 (c_nnodes cfg))) as [h1 q]. destruct Ht as (T1 & T2). simpl.
    split; [unfold d_inv in *; rewrite T2; exact Hi|].
    unfold TraceSpec.sound, after, d_abs, d_ok. simpl. rewrite T1. auto.
  - pose proof (callback_draws h ts n (CbTelemetry pos) Hi) as Hc.
    destruct (callback A cfg react h ts n (CbTelemetry pos)) as [[h2 q] t]. apply (Hcons h h2 t eq_refl Hc).
Qed.

Lemma handlers_after_draws h iter ts hs :
  let '(h1, t, raised) := handlers_after cfg h iter ts hs in
  s_cursor h1 = s_cursor h /\ s_ps h1 = s_ps h /\
  forall it, In it t -> match it with TAct _ _ _ => False | _ => True end.
Proof.
  revert h. induction hs as [|k r IH]; intros h; simpl; [repeat split; auto; intros ? []|].
  destruct k; try apply IH.
  - specialize (IH h). destruct (handlers_after cfg h iter ts r) as [[h1 t] raised]. destruct IH as (I1 & I2 & I3).
    repeat split; auto. intros it [<-|Hin]; [exact I|apply I3; exact Hin].
  - destruct (asserts_iter cfg h 0 (c_asserts cfg) (s_astate h)) as [sts res].
    destruct res as [idx|].
    + simpl. repeat split; auto. intros it [<-|[]]. exact I.
    + specialize (IH (set_astate h sts)). destruct (handlers_after cfg (set_astate h sts) iter ts r) as [[h1 t] raised]. exact IH.
Qed.

Theorem sim_after_draws h i ts :
  d_inv h ->
  let '(h3, aitems, raised) := sim_after cfg h i ts in
  d_inv h3 /\ sound (d_abs h) (map (@KUser F (payload F) (titem F)) aitems) (d_abs h3).
Proof.
  intros Hi. unfold sim_after. pose proof (handlers_after_draws h i ts (c_handlers cfg)) as Hh.
  destruct (handlers_after cfg h i ts (c_handlers cfg)) as [[h1 t] raised]. destruct Hh as (H1 & H2 & H3).
  split; [unfold d_inv in *; rewrite H2; exact Hi|].
  assert (d_abs h1 = d_abs h) as -> by exact H1.
  apply user_neutral. exact H3.
Qed.

Lemma handlers_final_draws h hs :
  forall it, In it (fst (handlers_final cfg h hs)) -> match it with TAct _ _ _ => False | _ => True end.
Proof.
  induction hs as [|k r IH]; simpl; [intros ? []|].
  destruct k; try exact IH.
  - destruct (handlers_final cfg h r) as [t raised]. simpl in *. intros it [<-|Hin]; [exact I|apply IH; exact Hin].
  - destruct (asserts_final 0 (c_asserts cfg) (s_astate h)) as [idx|]; [|exact IH].
    simpl. intros it [<-|[]]. exact I.
Qed.

Theorem sim_finish_draws h now :
  d_inv h ->
  let '(h1, reqs, items, raised) := sim_finish A cfg react h now in
  d_inv h1 /\ sound (d_abs h) (map (@KUser F (payload F) (titem F)) items) (d_abs h1).
Proof.
  intros Hi. unfold sim_finish.
  pose proof (callbacks_draws h now (nodes cfg) CbFinish Hi) as Hc.
  destruct (callbacks A cfg react h now (nodes cfg) CbFinish) as [[h1 q] t1]. destruct Hc as [Hi1 Hs1].
  pose proof (handlers_final_draws h1 (c_handlers cfg)) as Hf.
  destruct (handlers_final cfg h1 (c_handlers cfg)) as [t2 raised]. simpl in Hf.
  split; [exact Hi1|]. rewrite map_app. eapply sound_app; [exact Hs1|].
  apply user_neutral. exact Hf.
Qed.

Notation hooks := (sim_hooks A cfg react).

Lemma d_sched_neutral h ts sq (p : payload F) : d_next (d_abs h) (KSched ts sq p) = d_abs h /\ d_ok (d_abs h) (KSched ts sq p).
Proof. split; [reflexivity|exact I]. Qed.
Lemma d_refused_neutral h ts (p : payload F) : d_next (d_abs h) (KRefused ts p) = d_abs h /\ d_ok (d_abs h) (KRefused ts p).
Proof. split; [reflexivity|exact I]. Qed.

(** copies attempted along a trace *)
Definition attempted (tr : list kitem) : nat := after d_next 0 tr.

Lemma after_shift tr x : after d_next x tr = x + after d_next 0 tr.
Proof.
  revert x. induction tr as [|it r IH]; intros x; unfold after in *; simpl; [lia|].
  rewrite (IH (d_next x it)), (IH (d_next 0 it)).
  destruct it as [[| n a o | | | |]| | |]; simpl; try lia. destruct o; simpl; lia.
Qed.

(** Whole runs from build(): the number of draws consumed is the number of copies attempted by the
    accepted send / broadcast requests in the trace, whatever else happened. *)
Theorem whole_run_draws (c : kcfg F) fuel ps0 :
  let '(s0, i0) := sim_start A cfg ps0 in
  let '(s', items, fin) := k_run A hooks c fuel s0 in
  s_cursor (k_h s') = attempted (i0 ++ items).
Proof.
  unfold sim_start, attempted.
  pose proof (k_start_sound A d_next d_ok d_abs d_sched_neutral d_refused_neutral (sim_state0 cfg ps0) (sim_reqs0 A cfg)) as H0.
  assert (Hh : k_h (fst (k_start A (T:=titem F) (sim_state0 cfg ps0) (sim_reqs0 A cfg))) = sim_state0 cfg ps0).
  { unfold k_start. destruct (sched_all A (el_init A) (sim_reqs0 A cfg)). reflexivity. }
  destruct (k_start A (T:=titem F) (sim_state0 cfg ps0) (sim_reqs0 A cfg)) as [s0 i0]. simpl in Hh, H0.
  assert (Hi0 : d_inv (k_h s0)).
  { rewrite Hh. unfold d_inv, sim_state0, nodes. simpl. rewrite map_length, seq_length. reflexivity. }
  pose proof (k_run_sound A hooks c d_next d_ok d_abs d_inv d_sched_neutral d_refused_neutral
                sim_init_draws sim_exec_draws sim_after_draws sim_finish_draws fuel s0 Hi0) as Hr.
  destruct (k_run A hooks c fuel s0) as [[s' items] fin]. destruct Hr as [_ [_ Hf]].
  destruct H0 as [_ Hf0]. rewrite Hh in *. change (d_abs (sim_state0 cfg ps0)) with 0 in *.
  rewrite after_app, Hf0. exact (eq_sym Hf).
Qed.

End DrawSpec.
