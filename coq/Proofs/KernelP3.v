(** Whole runs execute events in strictly increasing (timestamp, sequence number) order
    (C01 + C03 for every simulation, every protocol program). *)
From Coq Require Import List Arith NArith Bool Lia Permutation.
Import ListNotations.
From GS Require Import Num EventLoop Kernel.
From GS.Proofs Require Import Aux EventLoopP KernelP.

Section KernelP3.
Context {F : Type} (A : ArithOps F) (OL : OrderLaws A) {P H T : Type}.
Variable hk : hooks F P H T.
Variable c : kcfg F.
Notation kstate := (kstate F P H).
Notation kitem := (kitem F P T).
Notation event := (event F P).
Implicit Types (s : kstate) (l : eloop F P).

Definition exec_event (it : kitem) : list event :=
  match it with KExec _ ts sq p => [mkEv ts sq p] | _ => [] end.
Definition exec_events (items : list kitem) : list event := flat_map exec_event items.

(** the sequence number an accepted request was given, in trace order *)
Definition sched_seq (it : kitem) : list N := match it with KSched _ sq _ => [sq] | _ => [] end.
Definition sched_seqs (items : list kitem) : list N := flat_map sched_seq items.

Definition last_opt (lo : option event) (l : list event) : option event :=
  match rev l with x :: _ => Some x | [] => lo end.

Lemma exec_events_app a b : exec_events (a ++ b) = exec_events a ++ exec_events b.
Proof. apply flat_map_app. Qed.
Lemma exec_events_user (ts : list T) : exec_events (map (@KUser F P T) ts) = [].
Proof. induction ts; simpl; auto. Qed.

Lemma exec_events_sched l reqs : exec_events (snd (sched_all A (T:=T) l reqs)) = [].
Proof.
  pose proof (sched_all_only_refused A l reqs (T:=T)) as Hr.
  induction (snd (sched_all A l reqs)) as [|it r IH]; [reflexivity|].
  simpl. destruct (Hr it (or_introl eq_refl)) as [[ts [p ->]]|[ts [sq [p ->]]]]; simpl; apply IH;
  intros it' Hin; apply Hr; right; exact Hin.
Qed.

Lemma lb_sched_all l reqs e : lb A l e -> lb A (fst (sched_all A (T:=T) l reqs)) e.
Proof.
  revert l. induction reqs as [|[ts p] r IH]; intros l Hlb; simpl; [exact Hlb|].
  destruct (el_schedule A l ts p) as [l'|] eqn:E.
  - pose proof (lb_schedule A OL _ _ _ _ _ Hlb E) as Hlb'. specialize (IH l' Hlb').
    destruct (sched_all A l' r). exact IH.
  - specialize (IH l Hlb). destruct (sched_all A l r). exact IH.
Qed.

Lemma lb_opt_sched_all l reqs lo : lb_opt A l lo -> lb_opt A (fst (sched_all A (T:=T) l reqs)) lo.
Proof. destruct lo; [apply lb_sched_all|auto]. Qed.

Lemma lb_opt_initialize s lo : lb_opt A (k_el s) lo -> lb_opt A (k_el (fst (k_initialize A hk s))) lo.
Proof.
  unfold k_initialize. destruct (hk_init hk (k_h s)) as [[h1 reqs] items]. intros Hl.
  pose proof (lb_opt_sched_all (k_el s) reqs lo Hl) as H1. destruct (sched_all A (k_el s) reqs). exact H1.
Qed.

Lemma lb_opt_finalize s lo : lb_opt A (k_el s) lo -> lb_opt A (k_el (fst (k_finalize A hk s))) lo.
Proof.
  unfold k_finalize. destruct (k_final s); [auto|].
  destruct (hk_finish hk (k_h s) (el_now (k_el s))) as [[[h1 reqs] items] raised]. intros Hl.
  pose proof (lb_opt_sched_all (k_el s) reqs lo Hl) as H1. destruct (sched_all A (k_el s) reqs). exact H1.
Qed.

Lemma exec_events_initialize s : exec_events (snd (k_initialize A hk s)) = [].
Proof.
  unfold k_initialize. destruct (hk_init hk (k_h s)) as [[h1 reqs] items].
  pose proof (exec_events_sched (k_el s) reqs) as Hr. destruct (sched_all A (k_el s) reqs). simpl in *.
  rewrite exec_events_app, exec_events_user, Hr. reflexivity.
Qed.
Lemma exec_events_finalize s : exec_events (snd (k_finalize A hk s)) = [].
Proof.
  unfold k_finalize. destruct (k_final s); [reflexivity|].
  destruct (hk_finish hk (k_h s) (el_now (k_el s))) as [[[h1 reqs] items] raised].
  pose proof (exec_events_sched (k_el s) reqs) as Hr. destruct (sched_all A (k_el s) reqs). simpl in *.
  rewrite exec_events_app, exec_events_user, Hr. reflexivity.
Qed.

(** one step executes nothing or exactly one event which is strictly after the last one, and
    becomes the new lower bound *)
Lemma k_step_sorted s lo :
  k_inv A s -> lb_opt A (k_el s) lo ->
  let '(s', it, b) := k_step A hk c s in
  (exec_events it = [] /\ lb_opt A (k_el s') lo) \/
  (exists e, exec_events it = [e] /\ match lo with Some e0 => ev_lt A e0 e = true | None => True end /\ lb A (k_el s') e).
Proof.
  intros Hinv Hlb. pose proof (k_step_spec A hk c s) as Hs. destruct (k_step A hk c s) as [[s' it] b].
  inversion Hs as [Hf | s1 i1 s2 i2 Hf Hi Hd Hfin
                  | s1 i1 e l1 h2 reqs items l2 ref h3 aitems raised Hf Hi Hd Hpop Hexec Hsched Hafter s'' it'' b'' Heq]; subst.
  - left. auto.
  - left.
    assert (H1 : exec_events i1 = [] /\ lb_opt A (k_el s1) lo /\ k_inv A s1).
    { destruct (k_inited s); cbn iota in Hi.
      - injection Hi as -> ->. auto.
      - replace s1 with (fst (k_initialize A hk s)) by (rewrite <- Hi; reflexivity).
        replace i1 with (snd (k_initialize A hk s)) by (rewrite <- Hi; reflexivity).
        split; [apply exec_events_initialize|]. split; [apply lb_opt_initialize; exact Hlb|apply (k_initialize_inv A OL); exact Hinv]. }
    destruct H1 as (E1 & L1 & _).
    replace s' with (fst (k_finalize A hk s1)) by (rewrite <- Hfin; reflexivity).
    replace i2 with (snd (k_finalize A hk s1)) by (rewrite <- Hfin; reflexivity).
    rewrite exec_events_app, E1, exec_events_finalize. split; [reflexivity|apply lb_opt_finalize; exact L1].
  - assert (H1 : exec_events i1 = [] /\ lb_opt A (k_el s1) lo /\ k_inv A s1).
    { destruct (k_inited s); cbn iota in Hi.
      - injection Hi as -> ->. auto.
      - replace s1 with (fst (k_initialize A hk s)) by (rewrite <- Hi; reflexivity).
        replace i1 with (snd (k_initialize A hk s)) by (rewrite <- Hi; reflexivity).
        split; [apply exec_events_initialize|]. split; [apply lb_opt_initialize; exact Hlb|apply (k_initialize_inv A OL); exact Hinv]. }
    destruct H1 as (E1 & L1 & Hi1).
    destruct (el_pop_spec A OL _ _ _ Hi1 Hpop) as (Hin & _).
    pose proof (lb_after_pop A OL _ _ _ Hi1 Hpop) as Hlb1.
    pose proof (lb_sched_all l1 reqs e Hlb1) as Hlb2. rewrite Hsched in Hlb2. simpl in Hlb2.
    pose proof (exec_events_sched l1 reqs) as Hex. rewrite Hsched in Hex. simpl in Hex.
    assert (He : e = mkEv (ev_ts e) (ev_seq e) (ev_pl e)) by (destruct e; reflexivity).
    set (body := KExec (k_iter s1) (ev_ts e) (ev_seq e) (ev_pl e) :: map (@KUser F P T) items ++ ref ++ map (@KUser F P T) aitems) in *.
    assert (Hbody : exec_events (i1 ++ body) = [e]).
    { rewrite exec_events_app, E1. unfold body. simpl. rewrite !exec_events_app, !exec_events_user, Hex. simpl. rewrite <- He. reflexivity. }
    assert (Hprev : match lo with Some e0 => ev_lt A e0 e = true | None => True end).
    { destruct lo as [e0|]; [|exact I]. destruct L1 as (H1 & _). apply H1. exact Hin. }
    right. exists e. cbv zeta in Heq. fold body in Heq. destruct raised.
    + injection Heq as -> -> ->. auto.
    + set (s2 := mkK l2 h3 (S (k_iter s1)) true false false) in *.
      destruct (k_done A c s2).
      * destruct (k_finalize A hk s2) as [s3 i3] eqn:E3. injection Heq as -> -> ->.
        replace s3 with (fst (k_finalize A hk s2)) by (rewrite E3; reflexivity).
        replace i3 with (snd (k_finalize A hk s2)) by (rewrite E3; reflexivity).
        assert (Hall : exec_events (i1 ++ body ++ snd (k_finalize A hk s2)) = [e]).
        { rewrite app_assoc, exec_events_app, Hbody, exec_events_finalize. reflexivity. }
        split; [exact Hall|]. split; [exact Hprev|].
        apply (lb_opt_finalize s2 (Some e)). exact Hlb2.
      * injection Heq as -> -> ->. auto.
Qed.

Lemma chain_sorted_app lo a b :
  chain_sorted A lo a -> chain_sorted A (last_opt lo a) b -> chain_sorted A lo (a ++ b).
Proof.
  revert lo. induction a as [|x r IH]; intros lo Ha Hb; simpl; [exact Hb|].
  destruct Ha as [H1 H2]. split; [exact H1|]. apply IH; [exact H2|].
  unfold last_opt in *. simpl in Hb. destruct (rev r) as [|y ry] eqn:E; simpl in *; exact Hb.
Qed.

(** In every run — every handlers, every protocol program, every bounds — the executed events are
    strictly increasing in (timestamp, sequence number): time never runs backwards, and events
    due at the same instant run in the order their requests were accepted. *)
Theorem k_run_exec_sorted fuel s lo :
  k_inv A s -> lb_opt A (k_el s) lo ->
  let '(s', items, _) := k_run A hk c fuel s in
  chain_sorted A lo (exec_events items) /\ lb_opt A (k_el s') (last_opt lo (exec_events items)).
Proof.
  revert s lo. induction fuel as [|f IH]; intros s lo Hinv Hlb; simpl; [split; [exact I|exact Hlb]|].
  pose proof (k_step_sorted s lo Hinv Hlb) as Hs. pose proof (k_step_inv A OL hk c s Hinv) as Hinv1.
  destruct (k_step A hk c s) as [[s1 it] cont]. simpl in Hinv1.
  assert (Hone : chain_sorted A lo (exec_events it) /\ lb_opt A (k_el s1) (last_opt lo (exec_events it))).
  { destruct Hs as [[-> Hl]|(e & -> & Hp & Hl)]; simpl; [split; [exact I|exact Hl]|].
    split; [split; [exact Hp|exact I]|exact Hl]. }
  destruct Hone as [C1 L1]. destruct cont; [|split; assumption].
  specialize (IH s1 _ Hinv1 L1). destruct (k_run A hk c f s1) as [[s2 its] fin]. destruct IH as [C2 L2].
  rewrite exec_events_app. split; [apply chain_sorted_app; assumption|].
  unfold last_opt in *. rewrite rev_app_distr. destruct (rev (exec_events its)) as [|y ry]; simpl; [exact L2|exact L2].
Qed.

(** requests accepted later get larger sequence numbers: the sequence numbers of the accepted
    requests of a run, in trace order, are consecutive *)
Lemma sched_all_seqs l reqs :
  sched_seqs (snd (sched_all A (T:=T) l reqs)) =
  map N.of_nat (seq (N.to_nat (el_seq l)) (length (sched_seqs (snd (sched_all A (T:=T) l reqs))))) /\
  el_seq (fst (sched_all A (T:=T) l reqs)) = (el_seq l + N.of_nat (length (sched_seqs (snd (sched_all A (T:=T) l reqs)))))%N.
Proof.
  revert l. induction reqs as [|[ts p] r IH]; intros l; simpl; [split; [reflexivity|lia]|].
  destruct (el_schedule A l ts p) as [l'|] eqn:E.
  - specialize (IH l'). destruct (sched_all A l' r) as [l2 it]. simpl in *.
    unfold el_schedule in E. destruct (fltb A ts (el_now l)); [discriminate|]. injection E as <-. simpl in *.
    destruct IH as [I1 I2]. split.
    + rewrite N2Nat.id. f_equal. rewrite I1 at 1. rewrite N2Nat.inj_succ. reflexivity.
    + rewrite I2. lia.
  - specialize (IH l). destruct (sched_all A l r) as [l2 it]. simpl in *. exact IH.
Qed.

End KernelP3.
