(** [sim_drive] (steps interleaved with requests made from outside the callbacks) is an instance of
    the kernel's generic [k_drive]: the kernel theorems "under any driving" apply to it. *)
From Coq Require Import List Arith NArith Bool.
Import ListNotations.
From GS Require Import Num EventLoop Kernel Geo Sim.

Section SimDriveP.
Context {F : Type} (A : ArithOps F) {PS : Type}.
Variable cfg : scfg F.
Variable react : nat -> PS -> F -> cb F -> PS * list (action F).

Definition to_kdrv (o : drv_op F) : kdrv F (payload F) (sstate F PS) (titem F) :=
  match o with
  | DStep => KDStep
  | DExt n acts => KDExt (fun h now => do_actions A cfg h now n acts)
  end.

Theorem sim_drive_is_k_drive (c : kcfg F) ops (s : kstate F (payload F) (sstate F PS)) :
  sim_drive A cfg react c ops s = k_drive A (sim_hooks A cfg react) c (map to_kdrv ops) s.
Proof.
  revert s. induction ops as [|o r IH]; intros s; simpl; [reflexivity|].
  destruct o as [|n acts]; simpl.
  - destruct (k_step A (sim_hooks A cfg react) c s) as [[s1 it] b]. rewrite IH. reflexivity.
  - unfold sim_external, k_external.
    destruct (do_actions A cfg (k_h s) (el_now (k_el s)) n acts) as [[h1 q] t].
    destruct (sched_all A (k_el s) q) as [l1 ref]. rewrite IH. reflexivity.
Qed.

End SimDriveP.
