(** Proofs about the random-trip plugin model (C17). *)
From Coq Require Import List Arith Bool Lia Reals Lra.
Import ListNotations.
From GS Require Import Num NumR RandomTrip.

Section RandomTripP.
Context {F : Type} (A : ArithOps F).
Variable cfg : tconfig F.
Variable stream : list F.
Notation tstate := (tstate F).
Implicit Types (s : tstate).

(** the telemetry hook is in the chain exactly while a trip is ongoing — whatever the history *)
Definition t_inv s : Prop := t_nreg s = (if t_ongoing s then 1 else 0).

Lemma t_init_inv : t_inv (t_init (F:=F)).
Proof. reflexivity. Qed.

Theorem t_step_inv s o : t_inv s -> t_inv (fst (t_step A cfg stream s o)).
Proof.
  unfold t_inv. intros H. destruct o as [| |pos|]; simpl.
  - unfold finish. destruct (t_ongoing s); simpl; rewrite H; reflexivity.
  - unfold finish. destruct (t_ongoing s) eqn:E; simpl; [rewrite H; reflexivity|rewrite E; exact H].
  - destruct (Nat.eqb (t_nreg s) 0); [exact H|]. destruct (within A cfg s pos); [simpl; exact H|exact H].
  - exact H.
Qed.

Theorem t_run_inv s ops : t_inv s -> t_inv (fst (t_run A cfg stream s ops)).
Proof.
  revert s. induction ops as [|o r IH]; intros s H; simpl; [exact H|].
  pose proof (t_step_inv s o H) as H1. destruct (t_step A cfg stream s o) as [s1 c]. simpl in H1.
  specialize (IH s1 H1). destruct (t_run A cfg stream s1 r) as [s2 out]. exact IH.
Qed.

(** every waypoint drawn is the one sent as goto (and returned); it costs exactly three draws *)
Theorem travel_spec s :
  t_step A cfg stream s TTravel =
  (mkT (t_ongoing s) (t_target s) (t_nreg s) (t_cursor s + 3), [waypoint A cfg stream s]).
Proof. reflexivity. Qed.

Theorem initiate_spec s :
  t_inv s ->
  let s0 := finish s in
  t_step A cfg stream s TInitiate =
  (mkT true (Some (waypoint A cfg stream s0)) 1 (t_cursor s + 3), [waypoint A cfg stream s0]).
Proof.
  unfold t_inv. intros H. simpl. unfold finish. destruct (t_ongoing s); simpl; rewrite H; reflexivity.
Qed.

(** during a trip, telemetry draws a new waypoint (exactly one: three draws, one goto, which
    becomes the current target) iff the reported position is within the tolerance of the
    current target; otherwise nothing at all happens *)
Theorem telemetry_spec s pos :
  t_inv s -> t_ongoing s = true ->
  t_step A cfg stream s (TTelemetry pos) =
  if within A cfg s pos
  then (mkT true (Some (waypoint A cfg stream s)) 1 (t_cursor s + 3), [waypoint A cfg stream s])
  else (s, []).
Proof.
  unfold t_inv. intros H Ho. rewrite Ho in H. simpl. rewrite H. simpl.
  destruct (within A cfg s pos); [|reflexivity]. unfold travel. cbn [t_ongoing t_nreg t_cursor t_target]. rewrite ?Ho, ?H. reflexivity.
Qed.

(** finishing with no trip is a no-op; finishing a trip only clears the flag and removes the hook *)
Theorem finish_spec s :
  t_inv s ->
  t_step A cfg stream s TFinish =
  (if t_ongoing s then mkT false (t_target s) 0 (t_cursor s) else s, []).
Proof. unfold t_inv. intros H. simpl. unfold finish. destruct (t_ongoing s); [rewrite H|]; reflexivity. Qed.

(** after a trip is finished the plugin issues no movement command for any telemetry, however
    many times it was initiated before *)
Theorem no_command_when_not_ongoing s pos :
  t_inv s -> t_ongoing s = false -> t_step A cfg stream s (TTelemetry pos) = (s, []).
Proof. unfold t_inv. intros H Ho. rewrite Ho in H. simpl. rewrite H. reflexivity. Qed.

Theorem finished_after_any_history ops pos :
  let s := fst (t_run A cfg stream (t_init (F:=F)) (ops ++ [TFinish])) in
  t_ongoing s = false /\ t_step A cfg stream s (TTelemetry pos) = (s, []).
Proof.
  assert (G : forall s0, t_inv s0 ->
            let s := fst (t_run A cfg stream s0 (ops ++ [TFinish])) in t_inv s /\ t_ongoing s = false).
  { induction ops as [|o r IH]; intros s0 H0; simpl.
    - pose proof (t_step_inv s0 TFinish H0) as Hf. simpl in Hf. split; [exact Hf|].
      unfold finish. destruct (t_ongoing s0) eqn:E; simpl; [reflexivity|exact E].
    - pose proof (t_step_inv s0 o H0) as H1. destruct (t_step A cfg stream s0 o) as [s1 c]. simpl in H1.
      specialize (IH s1 H1). destruct (t_run A cfg stream s1 (r ++ [TFinish])) as [s2 out]. exact IH. }
  destruct (G _ t_init_inv) as [Hi Ho]. split; [exact Ho|]. apply no_command_when_not_ongoing; assumption.
Qed.

End RandomTripP.

(** Over the reals a drawn coordinate lies in its configured range: uniform(a, b) with a draw in
    [0, 1] and a <= b is between a and b. *)
Theorem uniform_in_range (a b u : R) :
  (a <= b)%R -> (0 <= u <= 1)%R -> (a <= uniform R_ops (a, b) u <= b)%R.
Proof.
  intros Hab [H0 H1]. unfold uniform. simpl.
  assert (0 <= (b - a) * u <= b - a)%R.
  { split; [apply Rmult_le_pos; lra|]. rewrite <- (Rmult_1_r (b - a)) at 2. apply Rmult_le_compat_l; lra. }
  lra.
Qed.
