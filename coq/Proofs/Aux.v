(** Small list facts used by the proofs. *)
From Coq Require Import List Arith NArith Bool Lia Permutation.
Import ListNotations.

Lemma NoDup_app_one {X : Type} (l : list X) (x : X) : NoDup l -> ~ In x l -> NoDup (l ++ [x]).
Proof.
  intros Hl Hx. induction l as [|y r IH]; simpl.
  - constructor; [intros []|constructor].
  - inversion Hl as [|? ? Hy Hr]; subst. constructor.
    + intro H. apply in_app_or in H. destruct H as [H|[H|[]]]; [apply Hy; exact H|].
      apply Hx. left. symmetry. exact H.
    + apply IH; [exact Hr|]. intro H. apply Hx. right. exact H.
Qed.

Lemma Permutation_NoDup_map {X Y : Type} (f : X -> Y) (l l' : list X) :
  Permutation l l' -> NoDup (map f l) -> NoDup (map f l').
Proof. intros Hp. apply Permutation_NoDup. apply Permutation_map. exact Hp. Qed.

(** [sorted_from leb t xs]: t <= x1 <= x2 <= ... *)
Fixpoint sorted_from {X : Type} (leb : X -> X -> bool) (t : X) (xs : list X) : Prop :=
  match xs with
  | [] => True
  | x :: r => leb t x = true /\ sorted_from leb x r
  end.

Lemma sorted_from_weaken {X : Type} (leb : X -> X -> bool)
  (Htrans : forall x y z, leb x y = true -> leb y z = true -> leb x z = true)
  (t t' : X) (xs : list X) :
  leb t' t = true -> sorted_from leb t xs -> sorted_from leb t' xs.
Proof.
  destruct xs as [|x r]; simpl; [trivial|]. intros H [H1 H2]. split; [|exact H2].
  eapply Htrans; eassumption.
Qed.

Lemma last_cons_default {X : Type} (y : X) (r : list X) (d d' : X) : last (y :: r) d = last (y :: r) d'.
Proof. revert y. induction r as [|z r IH]; intros y; [reflexivity|]. exact (IH z). Qed.

Lemma sorted_from_app {X : Type} (leb : X -> X -> bool)
  (Hrefl : forall x, leb x x = true)
  (Htrans : forall x y z, leb x y = true -> leb y z = true -> leb x z = true)
  (t : X) (xs ys : list X) :
  sorted_from leb t xs -> sorted_from leb (last xs t) ys -> sorted_from leb t (xs ++ ys).
Proof.
  revert t. induction xs as [|x r IH]; intros t; simpl; [intros _ H; exact H|].
  intros [H1 H2] H3. split; [exact H1|]. apply IH; [exact H2|].
  destruct r as [|y r']; [exact H3|]. rewrite (last_cons_default y r' x t). exact H3.
Qed.

Lemma sorted_from_last_le {X : Type} (leb : X -> X -> bool)
  (Hrefl : forall x, leb x x = true)
  (Htrans : forall x y z, leb x y = true -> leb y z = true -> leb x z = true)
  (t : X) (xs : list X) : sorted_from leb t xs -> leb t (last xs t) = true.
Proof.
  revert t. induction xs as [|x r IH]; intros t; simpl; [intros _; apply Hrefl|].
  intros [H1 H2]. destruct r as [|y r']; [exact H1|].
  specialize (IH x H2). rewrite (last_cons_default y r' t x).
  eapply Htrans; eassumption.
Qed.

Lemma NoDup_app_intro {X : Type} (l1 l2 : list X) :
  NoDup l1 -> NoDup l2 -> (forall x, In x l1 -> In x l2 -> False) -> NoDup (l1 ++ l2).
Proof.
  intros H1 H2 Hd. induction l1 as [|x r IH]; simpl; [exact H2|].
  inversion H1 as [|? ? Hx Hr]; subst. constructor.
  - intro H. apply in_app_or in H. destruct H as [H|H]; [apply Hx; exact H|].
    apply (Hd x); [left; reflexivity|exact H].
  - apply IH; [exact Hr|]. intros y Hy1 Hy2. apply (Hd y); [right; exact Hy1|exact Hy2].
Qed.

Lemma last_app_default {X : Type} (xs ys : list X) (d : X) : last (xs ++ ys) d = last ys (last xs d).
Proof.
  revert d. induction xs as [|x r IH]; intros d; [reflexivity|].
  destruct ys as [|y ys']; [rewrite app_nil_r; reflexivity|].
  transitivity (last (r ++ y :: ys') d).
  - simpl. destruct (r ++ y :: ys') eqn:E; [destruct r; discriminate|reflexivity].
  - rewrite IH. apply last_cons_default.
Qed.

Lemma combine_map_l_flat {Y Z : Type} (f : nat * Y -> list Z) (g : nat -> nat) (l : list nat) (m : list Y) :
  flat_map f (combine (map g l) m) = flat_map (fun kd => f (g (fst kd), snd kd)) (combine l m).
Proof.
  revert m. induction l as [|x r IH]; intros m; simpl; [reflexivity|].
  destruct m as [|y m']; simpl; [reflexivity|]. rewrite IH. reflexivity.
Qed.

Lemma flat_map_ext_in {X Y : Type} (f g : X -> list Y) (l : list X) :
  (forall x, In x l -> f x = g x) -> flat_map f l = flat_map g l.
Proof.
  induction l as [|x r IH]; intros H; simpl; [reflexivity|].
  rewrite (H x (or_introl eq_refl)), IH; [reflexivity|]. intros y Hy. apply H. right. exact Hy.
Qed.

Lemma filter_filter_comm {X : Type} (p q : X -> bool) (l : list X) :
  filter p (filter q l) = filter (fun e => q e && p e) l.
Proof.
  induction l as [|y r IH]; simpl; [reflexivity|].
  destruct (q y); simpl; [destruct (p y); rewrite IH; reflexivity|exact IH].
Qed.

Lemma filter_ext_in {X : Type} (p q : X -> bool) (l : list X) :
  (forall e, In e l -> p e = q e) -> filter p l = filter q l.
Proof.
  induction l as [|y r IH]; intros H; simpl; [reflexivity|].
  rewrite (H y (or_introl eq_refl)), IH; [reflexivity|]. intros e He. apply H. right. exact He.
Qed.
