(** Proofs about the transcription of CPython's [heapq] in [Heap.v]: every operation keeps the
    multiset of queued items (nothing lost, duplicated or invented), and the first cell of an
    array that satisfies the heap condition is a least element.  All for every array, every
    item type and every comparison (the order laws are needed for the last statement only). *)
From Coq Require Import List Arith Bool Lia Permutation.
Import ListNotations.
From GS Require Import Heap.

Section HeapP.
Context {E : Type} (lt : E -> E -> bool).
Implicit Types (h l : list E) (x d : E).

Lemma upd_length i x l : length (upd i x l) = length l.
Proof. revert i; induction l as [|y r IH]; intros [|j]; simpl; auto. Qed.

Lemma upd_same i x l : nth_error l i = Some x -> upd i x l = l.
Proof.
  revert i; induction l as [|y r IH]; intros [|j]; simpl; intro H; try discriminate.
  - congruence.
  - f_equal; auto.
Qed.

Lemma upd_last_app l x y : upd (length l) x (l ++ [y]) = l ++ [x].
Proof. induction l as [|z r IH]; simpl; [reflexivity|f_equal; exact IH]. Qed.

(** filling a cell and keeping what was there *)
Lemma perm_fill i x a l :
  i < length l -> Permutation (x :: upd i a l) (a :: upd i x l).
Proof.
  revert i; induction l as [|b r IH]; intros [|j] Hi; simpl in *; try lia.
  - apply perm_swap.
  - apply perm_trans with (b :: x :: upd j a r); [apply perm_swap|].
    apply perm_trans with (b :: a :: upd j x r); [|apply perm_swap].
    apply perm_skip, IH; lia.
Qed.

Lemma perm_take i x d l :
  i < length l -> Permutation (nth i l d :: upd i x l) (x :: l).
Proof.
  revert i; induction l as [|b r IH]; intros [|j] Hi; simpl in *; try lia.
  - apply perm_swap.
  - apply perm_trans with (b :: nth j r d :: upd j x r); [apply perm_swap|].
    apply perm_trans with (b :: x :: r); [|apply perm_swap].
    apply perm_skip, IH; lia.
Qed.

(** the hole moves from [j] down to a smaller index [i] (one iteration of _siftdown) *)
Lemma hole_up i j x d l :
  i < j -> j < length l ->
  Permutation (upd i x (upd j (nth i l d) l)) (upd j x l).
Proof.
  revert i j; induction l as [|a r IH]; intros i j Hij Hj; simpl in *; [lia|].
  destruct j as [|j']; [lia|]. destruct i as [|i']; simpl.
  - apply perm_fill; lia.
  - apply perm_skip, IH; lia.
Qed.

(** the hole moves from [j] to a larger index [i] (one iteration of _siftup's first loop) *)
Lemma hole_down i j x d l :
  j < i -> i < length l ->
  Permutation (upd i x (upd j (nth i l d) l)) (upd j x l).
Proof.
  revert i j; induction l as [|a r IH]; intros i j Hij Hi; simpl in *; [lia|].
  destruct i as [|i']; [lia|]. destruct j as [|j']; simpl.
  - apply perm_take; lia.
  - apply perm_skip, IH; lia.
Qed.

Lemma parent_lt pos : 0 < pos -> (pos - 1) / 2 < pos.
Proof.
  intro H. apply Nat.le_lt_trans with (pos - 1); [|lia].
  apply Nat.div_le_upper_bound; lia.
Qed.

Lemma siftdown_perm fuel : forall h s pos x,
  pos < length h -> Permutation (siftdown lt fuel h s pos x) (upd pos x h).
Proof.
  induction fuel as [|f IH]; intros h s pos x Hp; cbn [siftdown]; [apply Permutation_refl|].
  destruct (s <? pos) eqn:Es; [|apply Permutation_refl].
  apply Nat.ltb_lt in Es.
  destruct (lt x (nth ((pos - 1) / 2) h x)); [|apply Permutation_refl].
  assert (Hpp : (pos - 1) / 2 < pos) by (apply parent_lt; lia).
  eapply perm_trans; [apply IH; rewrite upd_length; lia|].
  apply hole_up; assumption.
Qed.

Lemma siftdown_length fuel : forall h s pos x,
  length (siftdown lt fuel h s pos x) = length h.
Proof.
  induction fuel as [|f IH]; intros h s pos x; cbn [siftdown]; [apply upd_length|].
  destruct (s <? pos); [|apply upd_length].
  destruct (lt x _); [rewrite IH|]; apply upd_length.
Qed.

Lemma descend_perm fuel : forall h pos d x,
  pos < length h ->
  let r := descend lt fuel h pos d in
  snd r < length (fst r) /\ length (fst r) = length h /\
  Permutation (upd (snd r) x (fst r)) (upd pos x h).
Proof.
  induction fuel as [|f IH]; intros h pos d x Hp; cbn [descend].
  - simpl; repeat split; auto.
  - destruct (2 * pos + 1 <? length h) eqn:Ec; [|simpl; repeat split; auto].
    apply Nat.ltb_lt in Ec.
    match goal with |- context [descend lt f _ ?c d] => set (c' := c) end.
    assert (Hc' : pos < c' /\ c' < length h).
    { subst c'. destruct (2 * pos + 1 + 1 <? length h) eqn:Er; simpl.
      - apply Nat.ltb_lt in Er. destruct (negb _); lia.
      - lia. }
    destruct Hc' as [Hc1 Hc2].
    specialize (IH (upd pos (nth c' h d) h) c' d x).
    rewrite upd_length in IH. specialize (IH Hc2).
    destruct IH as (I1 & I2 & I3). repeat split; auto.
    eapply perm_trans; [exact I3|]. apply hole_down; assumption.
Qed.

Lemma siftup_perm h pos : Permutation (siftup lt h pos) h.
Proof.
  unfold siftup. destruct (nth_error h pos) as [x|] eqn:En; [|apply Permutation_refl].
  assert (Hp : pos < length h) by (apply nth_error_Some; congruence).
  pose proof (descend_perm (length h) h pos x x Hp) as H.
  destruct (descend lt (length h) h pos x) as [h' leaf]; simpl in H.
  destruct H as (H1 & H2 & H3).
  eapply perm_trans; [apply siftdown_perm; exact H1|].
  eapply perm_trans; [exact H3|]. rewrite (upd_same _ _ _ En). apply Permutation_refl.
Qed.

(** heappush keeps every queued item and adds exactly the new one *)
Theorem heappush_perm h x : Permutation (heappush lt h x) (x :: h).
Proof.
  unfold heappush.
  eapply perm_trans; [apply siftdown_perm; rewrite app_length; simpl; lia|].
  rewrite upd_last_app. apply Permutation_sym, Permutation_cons_append.
Qed.

(** heappop removes exactly the item it returns, which is the first cell of the array *)
Theorem heappop_perm h m h' :
  heappop lt h = Some (m, h') -> Permutation h (m :: h') /\ nth_error h 0 = Some m.
Proof.
  unfold heappop. destruct h as [|top t0]; [discriminate|].
  assert (Hne : top :: t0 <> []) by discriminate.
  pose proof (app_removelast_last top Hne) as Hsplit.
  destruct (removelast (top :: t0)) as [|ret t] eqn:Er; intro H.
  - inversion H; subst m h'; clear H. simpl in Hsplit.
    destruct t0 as [|b t1]; [|destruct t1; simpl in Er; discriminate].
    simpl. split; [apply Permutation_refl|reflexivity].
  - inversion H; subst m h'; clear H.
    assert (ret = top) as ->.
    { destruct t0; simpl in Er; [discriminate|]. inversion Er; reflexivity. }
    split; [|reflexivity].
    rewrite Hsplit at 1. simpl. apply perm_skip.
    eapply perm_trans; [apply Permutation_sym, Permutation_cons_append|].
    apply Permutation_sym, siftup_perm.
Qed.

Theorem heappop_none h : heappop lt h = None <-> h = [].
Proof.
  unfold heappop; destruct h as [|a t]; [tauto|].
  split; [|discriminate]. destruct (removelast (a :: t)); discriminate.
Qed.

(* ---- the heap condition ---------------------------------------------------------- *)

(** no cell is [lt] its parent *)
Definition heap_inv h : Prop :=
  forall i x p, 0 < i -> nth_error h i = Some x -> nth_error h ((i - 1) / 2) = Some p ->
    lt x p = false.

Section Order.
Hypothesis lt_irrefl : forall a, lt a a = false.
Hypothesis nlt_trans : forall a b c, lt b a = false -> lt c b = false -> lt c a = false.

(** In an array with the heap condition nothing is [lt] the first cell: what [heappop]
    returns and [peek] shows is a least element, for every array of every size. *)
Theorem heap_root_least h r :
  heap_inv h -> nth_error h 0 = Some r ->
  forall e, In e h -> lt e r = false.
Proof.
  intros Hinv Hr e He. apply In_nth_error in He. destruct He as [i Hi].
  revert e Hi. induction i as [i IH] using lt_wf_ind. intros e Hi.
  destruct (Nat.eq_dec i 0) as [->|Hne].
  - rewrite Hr in Hi. inversion Hi; subst. apply lt_irrefl.
  - assert (Hpp : (i - 1) / 2 < i) by (apply parent_lt; lia).
    assert (Hlen : i < length h) by (apply nth_error_Some; congruence).
    destruct (nth_error h ((i - 1) / 2)) as [p|] eqn:Ep.
    + apply nlt_trans with (b := p).
      * apply (IH _ Hpp p Ep).
      * apply (Hinv i e p); [lia|exact Hi|exact Ep].
    + apply nth_error_None in Ep. lia.
Qed.
End Order.

End HeapP.
