(** Proofs about the geographic conversion (C20). *)
From Coq Require Import Reals Lra Bool.
From GS Require Import Num NumR Geo.

Section GeoGeneric.
Context {F : Type} (A : ArithOps F).

(** the altitude difference is preserved exactly; x is the distance along the reference PARALLEL
    (reference latitude, target longitude) signed by the longitude difference; y the distance along
    the reference MERIDIAN (target latitude, reference longitude) signed by the latitude
    difference — each leg paired with its own sign *)
Theorem geo_structure (ref tgt : vec3 F) :
  let dx := haversine A (vx ref) (vy ref) (vx ref) (vy tgt) in
  let dy := haversine A (vx ref) (vy ref) (vx tgt) (vy ref) in
  geo_to_cartesian A ref tgt =
  (if fleb A (vy ref) (vy tgt) then dx else fneg A dx,
   if fleb A (vx ref) (vx tgt) then dy else fneg A dy,
   fsub A (vz tgt) (vz ref)).
Proof. reflexivity. Qed.

End GeoGeneric.

Local Open Scope R_scope.

Definition rad (d : R) : R := d * (PI / 180).
Definition Rearth : R := 6371000.

(** the haversine term under the square root, for the two legs *)
Definition hav_a (lat1 lon1 lat2 lon2 : R) : R :=
  sin ((rad lat2 - rad lat1) / 2) * sin ((rad lat2 - rad lat1) / 2)
  + cos (rad lat1) * cos (rad lat2) * (sin ((rad lon2 - rad lon1) / 2) * sin ((rad lon2 - rad lon1) / 2)).

Lemma haversine_R_unfold lat1 lon1 lat2 lon2 :
  haversine R_ops lat1 lon1 lat2 lon2 =
  Rearth * (2 * Ratan2 (sqrt (hav_a lat1 lon1 lat2 lon2)) (sqrt (1 - hav_a lat1 lon1 lat2 lon2))).
Proof. reflexivity. Qed.

(** the meridian leg depends on the latitude difference only; the parallel leg on the longitude
    difference and the reference latitude only *)
Theorem hav_a_meridian lat1 lon lat2 : hav_a lat1 lon lat2 lon = Rsqr (sin ((rad lat2 - rad lat1) / 2)).
Proof.
  unfold hav_a, Rsqr. replace ((rad lon - rad lon) / 2) with 0 by (unfold rad; field). rewrite sin_0. ring.
Qed.

Theorem hav_a_parallel lat lon1 lon2 : hav_a lat lon1 lat lon2 = Rsqr (cos (rad lat)) * Rsqr (sin ((rad lon2 - rad lon1) / 2)).
Proof.
  unfold hav_a, Rsqr. replace ((rad lat - rad lat) / 2) with 0 by (unfold rad; field). rewrite sin_0. ring.
Qed.

(** zero separation converts to the origin *)
Theorem haversine_same_point lat lon : haversine R_ops lat lon lat lon = 0.
Proof.
  rewrite haversine_R_unfold, hav_a_meridian.
  replace ((rad lat - rad lat) / 2) with 0 by (unfold rad; field). rewrite sin_0. unfold Rsqr. rewrite Rmult_0_l, sqrt_0, Rminus_0_r, sqrt_1.
  unfold Ratan2. destruct (Rlt_dec 0 1) as [_|H]; [|exfalso; apply H; lra].
  unfold Rdiv. rewrite Rmult_0_l, atan_0. ring.
Qed.

(** along a meridian the converted distance is exactly (earth radius) x |latitude difference|:
    north-south separations are preserved exactly *)
Theorem haversine_meridian lat1 lon lat2 :
  Rabs (rad lat2 - rad lat1) < PI ->
  haversine R_ops lat1 lon lat2 lon = Rearth * Rabs (rad lat2 - rad lat1).
Proof.
  intros Hb. rewrite haversine_R_unfold, hav_a_meridian.
  set (h := (rad lat2 - rad lat1) / 2).
  assert (Hh : Rabs h < PI / 2).
  { unfold h. unfold Rdiv. rewrite Rabs_mult, (Rabs_right (/ 2)) by lra. lra. }
  assert (Hcos : 0 < cos h). { apply cos_gt_0; apply Rabs_def2 in Hh; lra. }
  assert (H1 : 1 - Rsqr (sin h) = Rsqr (cos h)). { pose proof (sin2_cos2 h). lra. }
  rewrite H1, !sqrt_Rsqr_abs, (Rabs_right (cos h)) by lra.
  unfold Ratan2. destruct (Rlt_dec 0 (cos h)) as [_|Hn]; [|contradiction].
  f_equal.
  assert (Habs : Rabs (sin h) / cos h = tan (Rabs h)).
  { unfold tan. destruct (Rcase_abs h) as [Hneg|Hpos].
    - rewrite (Rabs_left h Hneg). rewrite sin_neg, cos_neg.
      assert (sin h < 0). { apply sin_lt_0_var; apply Rabs_def2 in Hh; lra. }
      rewrite Rabs_left by assumption. reflexivity.
    - rewrite (Rabs_right h Hpos).
      assert (0 <= sin h). { apply sin_ge_0; apply Rabs_def2 in Hh; lra. }
      rewrite Rabs_right by lra. reflexivity. }
  rewrite Habs, atan_tan.
  - unfold h. unfold Rdiv. rewrite Rabs_mult, (Rabs_right (/ 2)) by lra. field.
  - pose proof (Rabs_pos h). lra.
Qed.
