(** * Positions, targets and speeds over whole runs, as a trace specification

    The mobility state is a function of the visible history: targets change only by accepted
    goto / goto-geo requests of the node itself, speeds only by accepted set-speed requests,
    positions only when a mobility update executes -- and then every node takes one [move]
    step from where it is towards its current target at its current speed (a node without a
    target stays).  Proved for every run with the generic lemma of [TraceSpec]. *)
From Coq Require Import List Arith NArith Bool Lia.
Import ListNotations.
From GS Require Import Num EventLoop Kernel Geo Sim.
From GS.Proofs Require Import Aux EventLoopP KernelP SimP TraceSpec.

Section MoveSpec.
Context {F : Type} (A : ArithOps F) {PS : Type}.
Variable cfg : scfg F.
Variable react : nat -> PS -> F -> cb F -> PS * list (action F).

Notation sstate := (sstate F PS).
Notation kitem := (kitem F (payload F) (titem F)).
Implicit Types (h : sstate).

Record mstate : Type := mkM { m_pos : list (vec3 F); m_tgt : list (option (vec3 F)); m_speed : list F }.

(** one node's update *)
Definition step1 (cur : vec3 F) (tgt : option (vec3 F)) (speed : F) : vec3 F :=
  match tgt with Some t => move A cfg cur t speed | None => cur end.

Definition step_node (tgt : list (option (vec3 F))) (speed : list F) (pos : list (vec3 F)) (n : nat) : list (vec3 F) :=
  upd n (step1 (nth n pos (zero3 A)) (nth n tgt None) (nth n speed (f0 A))) pos.

Definition step_all (x : mstate) : list (vec3 F) :=
  fold_left (step_node (m_tgt x) (m_speed x)) (seq 0 (c_nnodes cfg)) (m_pos x).

Definition m_next (x : mstate) (it : kitem) : mstate :=
  match it with
  | KUser (TAct n (AGoto p) Ok) => if has_mob cfg then mkM (m_pos x) (upd n (Some p) (m_tgt x)) (m_speed x) else x
  | KUser (TAct n (AGotoGeo p) Ok) =>
      if has_mob cfg then mkM (m_pos x) (upd n (Some (geo_to_cartesian A (c_ref cfg) p)) (m_tgt x)) (m_speed x) else x
  | KUser (TAct n (ASetSpeed s) Ok) => if has_mob cfg then mkM (m_pos x) (m_tgt x) (upd n s (m_speed x)) else x
  | KExec _ _ _ EvTick => mkM (step_all x) (m_tgt x) (m_speed x)
  | _ => x
  end.
Definition m_ok (x : mstate) (it : kitem) : Prop := True.
Definition m_abs h : mstate := mkM (s_pos h) (s_tgt h) (s_speed h).
Definition m_inv h : Prop := True.

Notation sound := (sound m_next m_ok).

Ltac fin := unfold TraceSpec.sound, after, m_abs, m_ok; simpl;
            repeat match goal with |- context [if ?b then _ else _] => destruct b; simpl end; auto.

Lemma do_action_moves h now n a :
  let '(h1, q, o) := do_action A cfg h now n a in
  sound (m_abs h) [KUser (TAct n a o)] (m_abs h1).
Proof.
  destruct a as [name ts|name|msg dst|msg|msg d|p|p|sp|r|b]; simpl.
  - destruct (negb (has_timer cfg)); simpl; [fin|]. destruct (fltb A ts now); simpl; fin.
  - destruct (negb (has_timer cfg)); simpl; fin.
  - destruct (negb (has_comm cfg)); simpl; [fin|].
    destruct dst as [d|]; simpl; [|fin].
    destruct (Nat.eqb d n); simpl; [fin|].
    destruct (Nat.ltb d (c_nnodes cfg)); simpl; [|fin].
    pose proof (transmit_reqs A cfg h now n d msg) as Ht.
    destruct (Sim.transmit A cfg h now n d msg) as [h1 q]. simpl.
    destruct Ht as (_ & _ & _ & T4 & T5 & T6 & _). unfold TraceSpec.sound, after, m_abs, m_ok. simpl. rewrite T4, T5, T6. auto.
  - destruct (negb (has_comm cfg)); simpl; [fin|].
    pose proof (broadcast_reqs A cfg h now n msg (seq 0 (c_nnodes cfg))) as Ht.
    destruct (Sim.broadcast A cfg h now n msg (seq 0 (c_nnodes cfg))) as [h1 q]. simpl.
    destruct Ht as (_ & _ & _ & T4 & T5 & T6 & _). unfold TraceSpec.sound, after, m_abs, m_ok. simpl. rewrite T4, T5, T6. auto.
  - destruct (negb (has_comm cfg)); simpl; [fin|].
    destruct (Nat.eqb d n); simpl; [fin|].
    pose proof (broadcast_reqs A cfg h now n msg (seq 0 (c_nnodes cfg))) as Ht.
    destruct (Sim.broadcast A cfg h now n msg (seq 0 (c_nnodes cfg))) as [h1 q]. simpl.
    destruct Ht as (_ & _ & _ & T4 & T5 & T6 & _). unfold TraceSpec.sound, after, m_abs, m_ok. simpl. rewrite T4, T5, T6. auto.
  - unfold has_mob. destruct (existsb (is_kind HMob) (c_handlers cfg)) eqn:E; simpl; unfold TraceSpec.sound, after, m_abs, m_ok; simpl; unfold has_mob; rewrite E; auto.
  - unfold has_mob. destruct (existsb (is_kind HMob) (c_handlers cfg)) eqn:E; simpl; unfold TraceSpec.sound, after, m_abs, m_ok; simpl; unfold has_mob; rewrite E; auto.
  - unfold has_mob. destruct (existsb (is_kind HMob) (c_handlers cfg)) eqn:E; simpl; unfold TraceSpec.sound, after, m_abs, m_ok; simpl; unfold has_mob; rewrite E; auto.
  - destruct (fltb A r (f0 A)); simpl; [fin|]. destruct (negb (has_comm cfg)); simpl; fin.
  - fin.
Qed.

Lemma do_actions_moves h now n acts :
  let '(h1, q, t) := do_actions A cfg h now n acts in
  sound (m_abs h) (map (@KUser F (payload F) (titem F)) t) (m_abs h1).
Proof.
  revert h. induction acts as [|a r IH]; intros h; simpl; [apply sound_nil|].
  pose proof (do_action_moves h now n a) as Ha.
  destruct (do_action A cfg h now n a) as [[h1 q1] o].
  specialize (IH h1). destruct (do_actions A cfg h1 now n r) as [[h2 q2] t2]. simpl.
  change (KUser (TAct n a o) :: map (@KUser F (payload F) (titem F)) t2)
    with ([KUser (TAct n a o)] ++ map (@KUser F (payload F) (titem F)) t2).
  eapply sound_app; eassumption.
Qed.

Lemma callback_moves h now n c :
  let '(h1, q, t) := callback A cfg react h now n c in
  sound (m_abs h) (map (@KUser F (payload F) (titem F)) t) (m_abs h1).
Proof.
  unfold Sim.callback. destruct (nth_error (s_ps h) n) as [ps|]; [|apply sound_nil].
  destruct (react n ps (if has_timer cfg then now else f0 A) c) as [ps1 acts].
  pose proof (do_actions_moves (set_ps h (upd n ps1 (s_ps h))) now n acts) as Hd.
  destruct (do_actions A cfg (set_ps h (upd n ps1 (s_ps h))) now n acts) as [[h2 q] t].
  simpl map.
  change (KUser (TCb n (if has_timer cfg then now else f0 A) c) :: map (@KUser F (payload F) (titem F)) t)
    with ([KUser (TCb n (if has_timer cfg then now else f0 A) c)] ++ map (@KUser F (payload F) (titem F)) t).
  eapply sound_app; [|exact Hd]. unfold TraceSpec.sound, after, m_abs, m_ok. simpl. auto.
Qed.

Lemma callbacks_moves h now ns c :
  let '(h1, q, t) := callbacks A cfg react h now ns c in
  sound (m_abs h) (map (@KUser F (payload F) (titem F)) t) (m_abs h1).
Proof.
  revert h. induction ns as [|n r IH]; intros h; simpl; [apply sound_nil|].
  pose proof (callback_moves h now n c) as H1.
  destruct (callback A cfg react h now n c) as [[h1 q1] t1].
  specialize (IH h1). destruct (callbacks A cfg react h1 now r c) as [[h2 q2] t2].
  rewrite map_app. eapply sound_app; eassumption.
Qed.

Lemma user_neutral (x : mstate) (l : list (titem F)) :
  (forall it, In it l -> match it with TAct _ _ _ => False | _ => True end) ->
  sound x (map (@KUser F (payload F) (titem F)) l) x.
Proof.
  induction l as [|it r IH]; intros Hl; simpl; [apply sound_nil|].
  assert (Hr : sound x (map (@KUser F (payload F) (titem F)) r) x) by (apply IH; intros i Hi; apply Hl; right; exact Hi).
  specialize (Hl it (or_introl eq_refl)).
  destruct Hr as [Ha Hf]. unfold TraceSpec.sound, after, m_ok in *.
  destruct it; try contradiction; simpl; (split; [split; [exact I|exact Ha]|exact Hf]).
Qed.

Lemma handlers_init_moves h hs :
  let '(h1, t) := handlers_init cfg h hs in
  m_abs h1 = m_abs h /\ forall it, In it t -> match it with TAct _ _ _ => False | _ => True end.
Proof.
  revert h. induction hs as [|k r IH]; intros h; simpl; [split; auto; intros ? []|].
  destruct k; try apply IH.
  - specialize (IH h). destruct (handlers_init cfg h r) as [h1 t]. destruct IH as (I1 & I3).
    split; auto. intros it [<-|Hin]; [exact I|apply I3; exact Hin].
  - specialize (IH (set_astate h (map (assert_init cfg) (c_asserts cfg)))).
    destruct (handlers_init cfg (set_astate h (map (assert_init cfg) (c_asserts cfg))) r) as [h1 t]. exact IH.
Qed.

Theorem sim_init_moves h :
  m_inv h ->
  let '(h1, reqs, items) := sim_init A cfg react h in
  m_inv h1 /\ sound (m_abs h) (map (@KUser F (payload F) (titem F)) items) (m_abs h1).
Proof.
  intros _. unfold sim_init. pose proof (handlers_init_moves h (c_handlers cfg)) as Hh.
  destruct (handlers_init cfg h (c_handlers cfg)) as [h1 t1]. destruct Hh as (H1 & H3).
  pose proof (callbacks_moves h1 (f0 A) (nodes cfg) CbInit) as Hc.
  destruct (callbacks A cfg react h1 (f0 A) (nodes cfg) CbInit) as [[h2 q] t2].
  split; [exact I|]. rewrite map_app. eapply sound_app; [|exact Hc].
  rewrite H1. apply user_neutral. exact H3.
Qed.

(** the model's sequential update of all nodes is the fold of [step_node] *)
Lemma tick_nodes_fold h now ns :
  let '(h1, q) := tick_nodes A cfg h now ns in
  s_pos h1 = fold_left (step_node (s_tgt h) (s_speed h)) ns (s_pos h) /\ s_tgt h1 = s_tgt h /\ s_speed h1 = s_speed h.
Proof.
  revert h. induction ns as [|n r IH]; intros h; simpl; [auto|].
  match goal with |- context [tick_nodes A cfg ?hh now r] => specialize (IH hh); destruct (tick_nodes A cfg hh now r) as [h2 q] end.
  simpl in IH. destruct IH as (I1 & I2 & I3). split; [|auto].
  rewrite I1. unfold step_node at 2. unfold step1, pos_of. reflexivity.
Qed.

Theorem sim_exec_moves h ts p i sq :
  m_inv h ->
  let '(h2, reqs, items) := sim_exec A cfg react h ts p in
  m_inv h2 /\ sound (m_abs h) (KExec i ts sq p :: map (@KUser F (payload F) (titem F)) items) (m_abs h2).
Proof.
  intros _.
  assert (Hcons : forall (h' : sstate) hh (tt : list (titem F)), m_abs h' = m_abs h ->
            (match p with EvTick => False | _ => True end) ->
            sound (m_abs h') (map (@KUser F (payload F) (titem F)) tt) (m_abs hh) ->
            m_inv hh /\ sound (m_abs h) (KExec i ts sq p :: map (@KUser F (payload F) (titem F)) tt) (m_abs hh)).
  { intros h' hh tt Heq Hp Hs. split; [exact I|].
    change (KExec i ts sq p :: map (@KUser F (payload F) (titem F)) tt)
      with ([KExec i ts sq p] ++ map (@KUser F (payload F) (titem F)) tt).
    eapply sound_app; [|exact Hs]. unfold TraceSpec.sound, after, m_ok. simpl. rewrite Heq.
    destruct p; try contradiction; auto. }
  destruct p as [n name id|src dst msg| |n pos]; simpl.
  - destruct (existsb (pend_id n name id) (s_pending h)).
    + set (h' := set_pending h (filter (fun e => negb (pend_id n name id e)) (s_pending h))).
      pose proof (callback_moves h' ts n (CbTimer name)) as Hc.
      destruct (callback A cfg react h' ts n (CbTimer name)) as [[h2 q] t]. apply (Hcons h' h2 t eq_refl I Hc).
    + split; [exact I|]. unfold TraceSpec.sound, after, m_ok. simpl. auto.
  - pose proof (callback_moves h ts dst (CbPacket msg)) as Hc.
    destruct (callback A cfg react h ts dst (CbPacket msg)) as [[h2 q] t]. apply (Hcons h h2 t eq_refl I Hc).
  - unfold tick. pose proof (tick_nodes_fold h ts (seq 0 (c_nnodes cfg))) as Ht.
    destruct (tick_nodes A cfg h ts (seq 0 (c_nnodes cfg))) as [h1 q]. destruct Ht as (T1 & T2 & T3). simpl.
    split; [exact I|]. unfold TraceSpec.sound, after, m_abs, m_ok, step_all. simpl. rewrite T1, T2, T3. auto.
  - pose proof (callback_moves h ts n (CbTelemetry pos)) as Hc.
    destruct (callback A cfg react h ts n (CbTelemetry pos)) as [[h2 q] t]. apply (Hcons h h2 t eq_refl I Hc).
Qed.

Lemma handlers_after_moves h iter ts hs :
  let '(h1, t, raised) := handlers_after cfg h iter ts hs in
  m_abs h1 = m_abs h /\ forall it, In it t -> match it with TAct _ _ _ => False | _ => True end.
Proof.
  revert h. induction hs as [|k r IH]; intros h; simpl; [split; auto; intros ? []|].
  destruct k; try apply IH.
  - specialize (IH h). destruct (handlers_after cfg h iter ts r) as [[h1 t] raised]. destruct IH as (I1 & I3).
    split; auto. intros it [<-|Hin]; [exact I|apply I3; exact Hin].
  - destruct (asserts_iter cfg h 0 (c_asserts cfg) (s_astate h)) as [sts res].
    destruct res as [idx|].
    + simpl. split; auto. intros it [<-|[]]. exact I.
    + specialize (IH (set_astate h sts)). destruct (handlers_after cfg (set_astate h sts) iter ts r) as [[h1 t] raised]. exact IH.
Qed.

Theorem sim_after_moves h i ts :
  m_inv h ->
  let '(h3, aitems, raised) := sim_after cfg h i ts in
  m_inv h3 /\ sound (m_abs h) (map (@KUser F (payload F) (titem F)) aitems) (m_abs h3).
Proof.
  intros _. unfold sim_after. pose proof (handlers_after_moves h i ts (c_handlers cfg)) as Hh.
  destruct (handlers_after cfg h i ts (c_handlers cfg)) as [[h1 t] raised]. destruct Hh as (H1 & H3).
  split; [exact I|]. rewrite H1. apply user_neutral. exact H3.
Qed.

Lemma handlers_final_moves h hs :
  forall it, In it (fst (handlers_final cfg h hs)) -> match it with TAct _ _ _ => False | _ => True end.
Proof.
  induction hs as [|k r IH]; simpl; [intros ? []|].
  destruct k; try exact IH.
  - destruct (handlers_final cfg h r) as [t raised]. simpl in *. intros it [<-|Hin]; [exact I|apply IH; exact Hin].
  - destruct (asserts_final 0 (c_asserts cfg) (s_astate h)) as [idx|]; [|exact IH].
    simpl. intros it [<-|[]]. exact I.
Qed.

Theorem sim_finish_moves h now :
  m_inv h ->
  let '(h1, reqs, items, raised) := sim_finish A cfg react h now in
  m_inv h1 /\ sound (m_abs h) (map (@KUser F (payload F) (titem F)) items) (m_abs h1).
Proof.
  intros _. unfold sim_finish.
  pose proof (callbacks_moves h now (nodes cfg) CbFinish) as Hc.
  destruct (callbacks A cfg react h now (nodes cfg) CbFinish) as [[h1 q] t1].
  pose proof (handlers_final_moves h1 (c_handlers cfg)) as Hf.
  destruct (handlers_final cfg h1 (c_handlers cfg)) as [t2 raised]. simpl in Hf.
  split; [exact I|]. rewrite map_app. eapply sound_app; [exact Hc|].
  apply user_neutral. exact Hf.
Qed.

Notation hooks := (sim_hooks A cfg react).

Lemma m_sched_neutral h ts sq (p : payload F) : m_next (m_abs h) (KSched ts sq p) = m_abs h /\ m_ok (m_abs h) (KSched ts sq p).
Proof. split; [reflexivity|exact I]. Qed.
Lemma m_refused_neutral h ts (p : payload F) : m_next (m_abs h) (KRefused ts p) = m_abs h /\ m_ok (m_abs h) (KRefused ts p).
Proof. split; [reflexivity|exact I]. Qed.

Definition m0 : mstate :=
  mkM (c_pos0 cfg) (map (fun _ => None) (nodes cfg)) (map (fun _ => c_speed cfg) (nodes cfg)).

(** Whole runs from build(): positions, targets and speeds are the replay of the trace. *)
Theorem whole_run_moves (c : kcfg F) fuel ps0 :
  let '(s0, i0) := sim_start A cfg ps0 in
  let '(s', items, fin) := k_run A hooks c fuel s0 in
  after m_next m0 (i0 ++ items) = mkM (s_pos (k_h s')) (s_tgt (k_h s')) (s_speed (k_h s')).
Proof.
  unfold sim_start.
  pose proof (k_start_sound A m_next m_ok m_abs m_sched_neutral m_refused_neutral (sim_state0 cfg ps0) (sim_reqs0 A cfg)) as H0.
  assert (Hh : k_h (fst (k_start A (T:=titem F) (sim_state0 cfg ps0) (sim_reqs0 A cfg))) = sim_state0 cfg ps0).
  { unfold k_start. destruct (sched_all A (el_init A) (sim_reqs0 A cfg)). reflexivity. }
  destruct (k_start A (T:=titem F) (sim_state0 cfg ps0) (sim_reqs0 A cfg)) as [s0 i0]. simpl in Hh, H0.
  pose proof (k_run_sound A hooks c m_next m_ok m_abs m_inv m_sched_neutral m_refused_neutral
                sim_init_moves sim_exec_moves sim_after_moves sim_finish_moves fuel s0 I) as Hr.
  destruct (k_run A hooks c fuel s0) as [[s' items] fin]. destruct Hr as [_ [_ Hf]].
  destruct H0 as [_ Hf0]. rewrite Hh in *. change (m_abs (sim_state0 cfg ps0)) with m0 in *.
  rewrite after_app, Hf0. exact Hf.
Qed.

(** The same for any interleaving of step_simulation() calls and requests made from outside the
    callbacks (commands "issued at arbitrary times"). *)
Theorem whole_drive_moves (c : kcfg F) ops ps0 :
  let '(s0, i0) := sim_start A cfg ps0 in
  let '(s', items) := sim_drive A cfg react c ops s0 in
  after m_next m0 (i0 ++ items) = mkM (s_pos (k_h s')) (s_tgt (k_h s')) (s_speed (k_h s')).
Proof.
  unfold sim_start.
  pose proof (k_start_sound A m_next m_ok m_abs m_sched_neutral m_refused_neutral (sim_state0 cfg ps0) (sim_reqs0 A cfg)) as H0.
  assert (Hh : k_h (fst (k_start A (T:=titem F) (sim_state0 cfg ps0) (sim_reqs0 A cfg))) = sim_state0 cfg ps0).
  { unfold k_start. destruct (sched_all A (el_init A) (sim_reqs0 A cfg)). reflexivity. }
  destruct (k_start A (T:=titem F) (sim_state0 cfg ps0) (sim_reqs0 A cfg)) as [s0 i0]. simpl in Hh, H0.
  assert (Hd : forall ops s, let '(s', items) := sim_drive A cfg react c ops s in sound (m_abs (k_h s)) items (m_abs (k_h s'))).
  { clear. induction ops as [|o r IH]; intros s; simpl; [apply sound_nil|].
    assert (H1 : let '(s1, it, _) := sim_drive1 A cfg react c s o in sound (m_abs (k_h s)) it (m_abs (k_h s1))).
    { destruct o as [|n acts]; simpl.
      - pose proof (k_step_sound A hooks c m_next m_ok m_abs m_inv m_sched_neutral m_refused_neutral
                      sim_init_moves sim_exec_moves sim_after_moves sim_finish_moves s I) as Hs.
        destruct (k_step A hooks c s) as [[s1 it] b]. exact (proj2 Hs).
      - unfold sim_external.
        pose proof (do_actions_moves (k_h s) (el_now (k_el s)) n acts) as Hd.
        destruct (do_actions A cfg (k_h s) (el_now (k_el s)) n acts) as [[h1 q] t].
        pose proof (sched_all_sound A m_next m_ok m_abs m_sched_neutral m_refused_neutral (k_el s) q h1) as Hr.
        destruct (sched_all A (k_el s) q) as [l1 ref]. simpl in *. eapply sound_app; eassumption. }
    destruct (sim_drive1 A cfg react c s o) as [[s1 it] rb].
    specialize (IH s1). destruct (sim_drive A cfg react c r s1) as [s2 its]. eapply sound_app; eassumption. }
  specialize (Hd ops s0). destruct (sim_drive A cfg react c ops s0) as [s' items]. destruct Hd as [_ Hf].
  destruct H0 as [_ Hf0]. rewrite Hh in *. change (m_abs (sim_state0 cfg ps0)) with m0 in *.
  rewrite after_app, Hf0. exact Hf.
Qed.

(* ---- reading the update (facts about the specification alone) -------------------------------------- *)

Lemma nth_upd_eq {X : Type} (l : list X) n (x d : X) : n < length l -> nth n (upd n x l) d = x.
Proof. revert n. induction l as [|y r IH]; intros [|m] Hl; simpl in *; try lia; [reflexivity|apply IH; lia]. Qed.
Lemma nth_upd_neq {X : Type} (l : list X) n m (x d : X) : n <> m -> nth m (upd n x l) d = nth m l d.
Proof. revert n m. induction l as [|y r IH]; intros [|n] [|m] Hne; simpl; try reflexivity; try lia. apply IH. lia. Qed.
Lemma upd_len {X : Type} n (x : X) l : length (upd n x l) = length l.
Proof. revert n. induction l as [|y r IH]; intros [|m]; simpl; auto. Qed.

Lemma fold_step_other tgt speed ns pos m :
  ~ In m ns -> nth m (fold_left (step_node tgt speed) ns pos) (zero3 A) = nth m pos (zero3 A).
Proof.
  revert pos. induction ns as [|n r IH]; intros pos Hm; simpl; [reflexivity|].
  rewrite IH; [|intros H; apply Hm; right; exact H]. unfold step_node. apply nth_upd_neq.
  intros ->. apply Hm. left. reflexivity.
Qed.

Lemma fold_step_len tgt speed ns pos : length (fold_left (step_node tgt speed) ns pos) = length pos.
Proof. revert pos. induction ns as [|n r IH]; intros pos; simpl; [reflexivity|]. rewrite IH. apply upd_len. Qed.

(** One update: every registered node takes one [step1] from its own old position; the others'
    positions do not enter. *)
Theorem step_all_nth x n :
  n < c_nnodes cfg -> c_nnodes cfg <= length (m_pos x) ->
  nth n (step_all x) (zero3 A) = step1 (nth n (m_pos x) (zero3 A)) (nth n (m_tgt x) None) (nth n (m_speed x) (f0 A)).
Proof.
  intros Hn Hlen. unfold step_all.
  assert (H : forall a k pos, a <= n < a + k -> a + k <= length pos ->
              nth n (fold_left (step_node (m_tgt x) (m_speed x)) (seq a k) pos) (zero3 A) =
              step1 (nth n pos (zero3 A)) (nth n (m_tgt x) None) (nth n (m_speed x) (f0 A))).
  { intros a k. revert a. induction k as [|k IH]; intros a pos Hr Hl; [lia|]. simpl.
    destruct (Nat.eq_dec a n) as [->|Hne].
    - rewrite fold_step_other; [|intros H; apply in_seq in H; lia].
      unfold step_node. apply nth_upd_eq. lia.
    - rewrite IH; [|lia|unfold step_node; rewrite upd_len; lia].
      unfold step_node at 1. rewrite nth_upd_neq; [reflexivity|exact Hne]. }
  apply H; lia.
Qed.

Theorem step_all_length x : length (step_all x) = length (m_pos x).
Proof. unfold step_all. apply fold_step_len. Qed.

End MoveSpec.
