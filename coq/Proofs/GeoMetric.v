(** Metric content of the geographic conversion (C20), over the reals: the east-west leg lies
    between the chord and the arc of the reference parallel, and differs from the arc by a
    relative [d^2/24] at most. *)
From Coq Require Import Reals Lra Bool ZArith.
From GS Require Import Num NumR Geo.
From GS.Proofs Require Import GeoP.
Local Open Scope R_scope.

(** concavity of the sine on [0, PI], in the one form needed: c sin u <= sin (c u) *)
Lemma scaled_sin_le c u : 0 <= c <= 1 -> 0 <= u <= PI -> c * sin u <= sin (c * u).
Proof.
  intros Hc Hu.
  set (g := fun t : R => sin (c * t) - c * sin t).
  assert (Hlim : forall t, derivable_pt_lim g t (cos (c * t) * c - c * cos t)).
  { intro t. unfold g.
    change (derivable_pt_lim ((comp sin (mult_real_fct c id)) - (mult_real_fct c sin))%F t
                             (cos (c * t) * c - c * cos t)).
    apply derivable_pt_lim_minus.
    - apply derivable_pt_lim_comp.
      + replace c with (c * 1) at 2 by ring. apply derivable_pt_lim_scal, derivable_pt_lim_id.
      + apply derivable_pt_lim_sin.
    - apply derivable_pt_lim_scal, derivable_pt_lim_sin. }
  assert (pr : derivable g).
  { intro t. exists (cos (c * t) * c - c * cos t). apply Hlim. }
  assert (Hd : forall t, derive_pt g t (pr t) = cos (c * t) * c - c * cos t).
  { intro t. apply derive_pt_eq_0, Hlim. }
  pose proof PI_RGT_0 as HPI.
  destruct (Req_dec u 0) as [->|Hne].
  { rewrite Rmult_0_r, sin_0. lra. }
  assert (H : g 0 <= g u).
  { apply (derive_increasing_interv_var 0 PI g pr); try lra.
    intros t Ht. rewrite Hd.
    assert (cos t <= cos (c * t)).
    { apply cos_decr_1; try nra. }
    nra. }
  unfold g in H. rewrite Rmult_0_r, sin_0 in H. lra.
Qed.

(** sin u >= u - u^3/6 on [0, PI] (from the alternating-series bound of the library) *)
Lemma sin_cubic_lb u : 0 <= u <= PI -> u - u * u * u / 6 <= sin u.
Proof.
  intros Hu. destruct (SIN u) as [Hlb _]; try lra.
  unfold sin_lb, sin_approx, sin_term in Hlb. cbn [sum_f_R0 Nat.mul Nat.add] in Hlb.
  replace (INR (fact 1)) with 1 in Hlb by (rewrite INR_IZR_INZ; reflexivity).
  replace (INR (fact 3)) with 6 in Hlb by (rewrite INR_IZR_INZ; reflexivity).
  replace (INR (fact 5)) with 120 in Hlb by (rewrite INR_IZR_INZ; reflexivity).
  replace (INR (fact 7)) with 5040 in Hlb by (rewrite INR_IZR_INZ; reflexivity).
  cbn [pow] in Hlb.
  pose proof PI_4 as H4.
  assert (Hu2 : u * u <= 16) by nra.
  assert (H5 : 0 <= u * u * u * u * u) by (repeat apply Rmult_le_pos; lra).
  assert (Hq : u * u * u * u * u * (u * u) <= u * u * u * u * u * 16) by (apply Rmult_le_compat_l; lra).
  lra.
Qed.

Lemma asin_nonneg t : 0 <= t <= 1 -> 0 <= asin t.
Proof.
  intros Ht. destruct (Rle_lt_dec 0 (asin t)) as [H|H]; [exact H|exfalso].
  pose proof (asin_bound t) as Hb. pose proof PI_RGT_0.
  assert (sin (asin t) < 0) by (apply sin_lt_0_var; lra).
  rewrite sin_asin in *; lra.
Qed.

(** t <= asin t on [0, 1] *)
Lemma asin_ge_id t : 0 <= t <= 1 -> t <= asin t.
Proof.
  intros Ht. pose proof (asin_nonneg t Ht) as H0.
  destruct (Req_dec (asin t) 0) as [E|NE].
  - assert (sin (asin t) = t) by (apply sin_asin; lra). rewrite E, sin_0 in *. lra.
  - assert (sin (asin t) < asin t) by (apply sin_lt_x; lra).
    rewrite sin_asin in *; lra.
Qed.

(** asin t <= v whenever t <= sin v, for v in [0, PI/2] *)
Lemma asin_le_of_le_sin t v : 0 <= t <= 1 -> 0 <= v <= PI / 2 -> t <= sin v -> asin t <= v.
Proof.
  intros Ht Hv Hs. destruct (Rle_lt_dec (asin t) v) as [H|H]; [exact H|exfalso].
  pose proof (asin_bound t) as Hb.
  assert (sin v < sin (asin t)) by (apply sin_increasing_1; lra).
  rewrite sin_asin in *; lra.
Qed.

(** the leg along a parallel, in closed form *)
Theorem haversine_parallel lat lon1 lon2 :
  Rabs (rad lon2 - rad lon1) < PI ->
  haversine R_ops lat lon1 lat lon2 =
  Rearth * (2 * asin (Rabs (cos (rad lat)) * sin (Rabs (rad lon2 - rad lon1) / 2))).
Proof.
  intros Hb. rewrite haversine_R_unfold, hav_a_parallel.
  set (h := (rad lon2 - rad lon1) / 2).
  assert (Hh : Rabs h < PI / 2).
  { unfold h. unfold Rdiv. rewrite Rabs_mult, (Rabs_right (/ 2)) by lra. lra. }
  assert (Hhalf : Rabs (rad lon2 - rad lon1) / 2 = Rabs h).
  { unfold h. unfold Rdiv. rewrite Rabs_mult, (Rabs_right (/ 2)) by lra. reflexivity. }
  rewrite Hhalf.
  assert (Hsabs : Rabs (sin h) = sin (Rabs h)).
  { destruct (Rcase_abs h) as [Hneg|Hpos].
    - rewrite (Rabs_left h Hneg), sin_neg.
      assert (sin h < 0). { apply sin_lt_0_var; apply Rabs_def2 in Hh; pose proof PI_RGT_0; lra. }
      rewrite Rabs_left by assumption. reflexivity.
    - rewrite (Rabs_right h Hpos).
      assert (0 <= sin h). { apply sin_ge_0; apply Rabs_def2 in Hh; lra. }
      rewrite Rabs_right by lra. reflexivity. }
  set (t := Rabs (cos (rad lat)) * sin (Rabs h)).
  assert (Hc : 0 <= Rabs (cos (rad lat)) <= 1).
  { split; [apply Rabs_pos|]. apply Rabs_le. pose proof (COS_bound (rad lat)). lra. }
  assert (Hs : 0 <= sin (Rabs h) < 1).
  { pose proof (Rabs_pos h). split.
    - apply sin_ge_0; lra.
    - rewrite <- sin_PI2. apply sin_increasing_1; lra. }
  assert (Ht : 0 <= t < 1) by (unfold t; nra).
  assert (Ha : Rsqr (cos (rad lat)) * Rsqr (sin h) = Rsqr t).
  { unfold t. rewrite Rsqr_mult, <- Hsabs, <- !Rsqr_abs. reflexivity. }
  rewrite Ha, sqrt_Rsqr by lra.
  assert (Hpos : 0 < sqrt (1 - Rsqr t)).
  { apply sqrt_lt_R0. unfold Rsqr. nra. }
  unfold Ratan2. destruct (Rlt_dec 0 (sqrt (1 - Rsqr t))) as [_|Hn]; [|contradiction].
  rewrite asin_atan by lra. reflexivity.
Qed.

(** ... hence between the chord and the arc of the parallel circle, and within d^2/24 of the arc *)
Theorem haversine_parallel_bounds lat lon1 lon2 :
  let d := Rabs (rad lon2 - rad lon1) in
  let c := Rabs (cos (rad lat)) in
  d < PI ->
  2 * Rearth * c * sin (d / 2) <= haversine R_ops lat lon1 lat lon2 <= Rearth * c * d /\
  Rearth * c * d * (1 - d * d / 24) <= haversine R_ops lat lon1 lat lon2.
Proof.
  intros d c Hb. rewrite (haversine_parallel lat lon1 lon2 Hb). fold d c.
  pose proof PI_RGT_0 as HPI.
  assert (Hd : 0 <= d) by apply Rabs_pos.
  assert (Hc : 0 <= c <= 1).
  { split; [apply Rabs_pos|]. apply Rabs_le. pose proof (COS_bound (rad lat)). lra. }
  assert (Hs : 0 <= sin (d / 2) <= 1).
  { split; [apply sin_ge_0; lra|]. pose proof (SIN_bound (d / 2)). lra. }
  assert (Ht : 0 <= c * sin (d / 2) <= 1) by nra.
  assert (HR : 0 < Rearth) by (unfold Rearth; lra).
  assert (Hlow : c * sin (d / 2) <= asin (c * sin (d / 2))) by (apply asin_ge_id; exact Ht).
  assert (Hup : asin (c * sin (d / 2)) <= c * (d / 2)).
  { apply asin_le_of_le_sin; [exact Ht|nra|]. apply scaled_sin_le; lra. }
  assert (Hcub : d / 2 - d / 2 * (d / 2) * (d / 2) / 6 <= sin (d / 2)) by (apply sin_cubic_lb; lra).
  assert (Hchord : 2 * Rearth * c * sin (d / 2) <= Rearth * (2 * asin (c * sin (d / 2)))) by nra.
  split; [split; [exact Hchord|nra]|].
  apply Rle_trans with (2 * Rearth * c * sin (d / 2)); [|exact Hchord].
  assert (c * (d / 2 - d / 2 * (d / 2) * (d / 2) / 6) <= c * sin (d / 2)) by (apply Rmult_le_compat_l; lra).
  nra.
Qed.
