(** * Run-level non-interference (C13)

    Two runs of the same scenario that differ only in what a silent node [x] asks for (node-scoped
    requests: timers, cancels, targets, speeds, range, its own flag): every other node sees exactly
    the same callbacks, at the same times, with the same payloads and positions, and gets the same
    answers to its requests, in the same order -- up to (not including) the finish phase, whose time
    is the global clock (known finding).  No assertion handler, no iteration limit (both count or
    judge ALL events, the silent node's included).

    The proof is a stuttering simulation: the two event queues agree on the events that are not
    owned by [x] (Proofs/QueueRel.v), the handler states agree on what the others can observe up
    to a renaming of timer identifiers (Proofs/NonInterf.v); an event owned by [x] is a step of one
    run only and preserves the relation; an event of another node is a step of both. *)
From Coq Require Import List Arith NArith Bool Lia.
Import ListNotations.
From GS Require Import Num EventLoop Kernel Geo Sim.
From GS.Proofs Require Import Aux EventLoopP KernelP KernelP2 SimP SimP3 SimP4 SimP5 QueueRel NonInterf.

Section NonInterfRun.
Context {F : Type} (A : ArithOps F) (OL : OrderLaws A) {PS : Type}.
Variable cfg : scfg F.
Variable x : nat.
Variables react1 react2 : nat -> PS -> F -> cb F -> PS * list (action F).
Hypothesis same_react : forall y, y <> x -> forall ps t c, react1 y ps t c = react2 y ps t c.
Hypothesis silent1 : silent react1 x.
Hypothesis silent2 : silent react2 x.
Hypothesis Hna : no_assert (c_handlers cfg).
Variable c : kcfg F.
Hypothesis Hmax : k_maxit c = None.

Notation sstate := (sstate F PS).
Notation kstate := (kstate F (payload F) sstate).
Notation kitem := (kitem F (payload F) (titem F)).
Notation hk1 := (sim_hooks A cfg react1).
Notation hk2 := (sim_hooks A cfg react2).
Notation own := (owned x).
Notation idrel := (list (N * N)).
Implicit Types (s : kstate) (l : eloop F (payload F)) (I : idrel).

(** what the nodes other than [x] see of a kernel trace *)
Definition vis_k (it : kitem) : bool := match it with KUser t => vis_t x t | _ => false end.
Definition vis (items : list kitem) : list kitem := filter vis_k items.

Lemma vis_app a b : vis (a ++ b) = vis a ++ vis b.
Proof. unfold vis. apply filter_app. Qed.

Lemma vis_users (l : list (titem F)) : vis (map (@KUser F (payload F) (titem F)) l) = map (@KUser F (payload F) (titem F)) (filter (vis_t x) l).
Proof. induction l as [|t r IH]; simpl; [reflexivity|]. destruct (vis_t x t); simpl; rewrite IH; reflexivity. Qed.

Lemma vis_sched l reqs : vis (snd (sched_all A (T:=titem F) l reqs)) = [].
Proof.
  revert l. induction reqs as [|[ts p] r IH]; intros l; simpl; [reflexivity|].
  destruct (el_schedule A l ts p) as [l'|].
  - specialize (IH l'). destruct (sched_all A l' r) as [l2 its]. simpl in *. exact IH.
  - specialize (IH l). destruct (sched_all A l r) as [l2 its]. simpl in *. exact IH.
Qed.

(* ---- scheduling a batch of requests --------------------------------------------------------------------------------- *)

Definition qR I (q1 q2 : list (event F (payload F))) : Prop := qrel (@pl_rel F I) q1 q2.
Definition key (e : event F (payload F)) : F * payload F := (ev_ts e, ev_pl e).
Definition accepted l (r : F * payload F) : bool := negb (fltb A (fst r) (el_now l)).

Lemma sched_all_oq l reqs :
  q_ok A l ->
  let l' := fst (sched_all A (T:=titem F) l reqs) in
  q_ok A l' /\ el_now l' = el_now l /\
  exists evs, oq own l' = oq own l ++ evs /\ map key evs = filter (accepted l) (oreqs x reqs).
Proof.
  revert l. induction reqs as [|[ts p] r IH]; intros l Hok; simpl.
  - split; [exact Hok|]. split; [reflexivity|]. exists []. rewrite app_nil_r. split; reflexivity.
  - destruct (el_schedule A l ts p) as [l1|] eqn:E.
    + pose proof (q_ok_schedule A OL l ts p l1 Hok E) as Hok1. pose proof (oq_schedule A own l ts p l1 E) as Hq1.
      assert (Hnow1 : el_now l1 = el_now l).
      { unfold el_schedule in E. destruct (fltb A ts (el_now l)); [discriminate|]. injection E as <-. reflexivity. }
      assert (Hacc : fltb A ts (el_now l) = false).
      { unfold el_schedule in E. destruct (fltb A ts (el_now l)); [discriminate|reflexivity]. }
      specialize (IH l1 Hok1). destruct (sched_all A l1 r) as [l2 its]. simpl in *.
      destruct IH as (Hok2 & Hnow2 & evs & Hq2 & Hk2).
      split; [exact Hok2|]. split; [congruence|].
      unfold oreqs. simpl. destruct (own p) eqn:Eo; simpl.
      * exists evs. rewrite Hq2, Hq1, app_nil_r. split; [reflexivity|].
        rewrite Hk2. unfold oreqs, accepted. rewrite Hnow1. reflexivity.
      * exists (mkEv ts (el_seq l) p :: evs). rewrite Hq2, Hq1, <- app_assoc. split; [reflexivity|].
        simpl. unfold accepted at 1. simpl. rewrite Hacc. simpl. f_equal.
        rewrite Hk2. unfold oreqs, accepted. rewrite Hnow1. reflexivity.
    + assert (Hrej : fltb A ts (el_now l) = true).
      { unfold el_schedule in E. destruct (fltb A ts (el_now l)); [reflexivity|discriminate]. }
      specialize (IH l Hok). destruct (sched_all A l r) as [l2 its]. simpl in *.
      destruct IH as (Hok2 & Hnow2 & evs & Hq2 & Hk2).
      split; [exact Hok2|]. split; [exact Hnow2|]. exists evs. split; [exact Hq2|].
      unfold oreqs. simpl. destruct (own p); simpl; [exact Hk2|].
      unfold accepted at 1. simpl. rewrite Hrej. simpl. exact Hk2.
Qed.

Lemma keys_rel I (evs1 evs2 : list (event F (payload F))) :
  Forall2 (rrel I) (map key evs1) (map key evs2) -> qR I evs1 evs2.
Proof.
  revert evs2. induction evs1 as [|e1 r1 IH]; intros [|e2 r2] H; simpl in H; inversion H; subst; constructor.
  - match goal with Hr : rrel I (key e1) (key e2) |- _ => destruct Hr as [H1 H2]; split; assumption end.
  - apply IH. assumption.
Qed.

Lemma qR_incl I I' q1 q2 : incl I I' -> qR I q1 q2 -> qR I' q1 q2.
Proof.
  intros Hi H. unfold qR, qrel in *. eapply Forall2_incl; [|exact H].
  intros a b [H1 H2]. split; [exact H1|eapply pl_rel_incl; eassumption].
Qed.

Lemma sched_all_rel I l1 l2 reqs1 reqs2 :
  q_ok A l1 -> q_ok A l2 -> qR I (oq own l1) (oq own l2) -> el_now l1 = el_now l2 ->
  Forall2 (rrel I) (oreqs x reqs1) (oreqs x reqs2) ->
  let l1' := fst (sched_all A (T:=titem F) l1 reqs1) in
  let l2' := fst (sched_all A (T:=titem F) l2 reqs2) in
  q_ok A l1' /\ q_ok A l2' /\ qR I (oq own l1') (oq own l2') /\ el_now l1' = el_now l1 /\ el_now l2' = el_now l2.
Proof.
  intros Hok1 Hok2 Hq Hnow Hr.
  destruct (sched_all_oq l1 reqs1 Hok1) as (O1 & N1 & evs1 & Q1 & K1).
  destruct (sched_all_oq l2 reqs2 Hok2) as (O2 & N2 & evs2 & Q2 & K2).
  split; [exact O1|]. split; [exact O2|]. split; [|split; assumption].
  rewrite Q1, Q2. apply qrel_app; [exact Hq|]. apply keys_rel. rewrite K1, K2.
  apply Forall2_filter; [|exact Hr]. intros a b [Hts _]. unfold accepted. rewrite Hts, Hnow. reflexivity.
Qed.

Lemma sched_all_own l reqs :
  q_ok A l -> oreqs x reqs = [] ->
  let l' := fst (sched_all A (T:=titem F) l reqs) in
  q_ok A l' /\ oq own l' = oq own l /\ el_now l' = el_now l.
Proof.
  intros Hok Ho. destruct (sched_all_oq l reqs Hok) as (O1 & N1 & evs & Q1 & K1).
  split; [exact O1|]. split; [|exact N1]. rewrite Ho in K1. simpl in K1.
  destruct evs; [rewrite app_nil_r in Q1; exact Q1|discriminate].
Qed.

(* ---- the relation between the two simulators ------------------------------------------------------------------------ *)

Record Rk I s1 s2 : Prop := mkRk {
  rk_h : Rh A x I (k_h s1) (k_h s2);
  rk_ok1 : q_ok A (k_el s1);
  rk_ok2 : q_ok A (k_el s2);
  rk_q : qR I (oq own (k_el s1)) (oq own (k_el s2));
  rk_f1 : k_inited s1 = true /\ k_final s1 = false /\ k_aborted s1 = false;
  rk_f2 : k_inited s2 = true /\ k_final s2 = false /\ k_aborted s2 = false
}.

Lemma after_plain (h : sstate) i ts : sim_after cfg h i ts = (h, snd (fst (sim_after cfg h i ts)), false) /\
                           filter (vis_t x) (snd (fst (sim_after cfg h i ts))) = [].
Proof.
  unfold sim_after. pose proof (handlers_after_plain cfg x h i ts (c_handlers cfg) Hna) as (E1 & E2 & E3).
  destruct (handlers_after cfg h i ts (c_handlers cfg)) as [[h1 t] b]. simpl in *. subst. split; [reflexivity|exact E3].
Qed.

(** one iteration of the main loop, written out *)
Lemma k_body_eq (react : nat -> PS -> F -> cb F -> PS * list (action F)) s m l1 :
  el_pop A (k_el s) = Some (m, l1) ->
  k_body A (sim_hooks A cfg react) s =
  let '(h2, reqs, items) := sim_exec A cfg react (k_h s) (ev_ts m) (ev_pl m) in
  let '(l2, ref) := sched_all A l1 reqs in
  Some (mkK l2 h2 (S (k_iter s)) true false false,
        KExec (k_iter s) (ev_ts m) (ev_seq m) (ev_pl m) :: map (@KUser F (payload F) (titem F)) items ++ ref ++
          map (@KUser F (payload F) (titem F)) (snd (fst (sim_after cfg h2 (k_iter s) (ev_ts m)))), false).
Proof.
  intros E. unfold k_body. rewrite E. simpl.
  destruct (sim_exec A cfg react (k_h s) (ev_ts m) (ev_pl m)) as [[h2 reqs] items].
  destruct (sched_all A l1 reqs) as [l2 ref].
  destruct (after_plain h2 (k_iter s) (ev_ts m)) as [Ea _]. rewrite Ea. simpl. reflexivity.
Qed.

(** an event owned by the silent node: a step of the first run only *)
Lemma own_step_l I s1 s2 m l1 :
  Rk I s1 s2 -> el_pop A (k_el s1) = Some (m, l1) -> own (ev_pl m) = true ->
  exists s1' body, k_body A hk1 s1 = Some (s1', body, false) /\ Rk I s1' s2 /\ vis body = [].
Proof.
  intros [Hh O1 O2 Hq F1 F2] E Ho. rewrite (k_body_eq react1 s1 m l1 E).
  pose proof (owned_exec_frame A cfg x react1 react1 (k_h s1) (ev_ts m) (ev_pl m) silent1 Ho) as (Fr & Or & Xi).
  destruct (sim_exec A cfg react1 (k_h s1) (ev_ts m) (ev_pl m)) as [[h2 reqs] items]. simpl in Fr, Or, Xi.
  destruct (oq_pop A OL own (k_el s1) m l1 O1 E) as (_ & _ & _ & _ & Hq1). unfold other in Hq1. rewrite Ho in Hq1. simpl in Hq1.
  pose proof (q_ok_pop A OL (k_el s1) m l1 O1 E) as Ok1.
  destruct (sched_all_own l1 reqs Ok1 Or) as (Ok2 & Hq2 & _).
  pose proof (vis_sched l1 reqs) as Vs.
  destruct (sched_all A l1 reqs) as [l2 ref]. simpl in *.
  eexists. eexists. split; [reflexivity|]. split.
  - constructor; simpl; auto.
    + eapply Rh_frame_l; eassumption.
    + rewrite Hq2, Hq1. exact Hq.
  - unfold vis. simpl. fold (vis (map (@KUser F (payload F) (titem F)) items ++ ref ++
        map (@KUser F (payload F) (titem F)) (snd (fst (sim_after cfg h2 (k_iter s1) (ev_ts m)))))).
    rewrite !vis_app, !vis_users, (xitems_invisible x _ Xi), Vs, (proj2 (after_plain h2 (k_iter s1) (ev_ts m))). reflexivity.
Qed.

Lemma own_step_r I s1 s2 m l1 :
  Rk I s1 s2 -> el_pop A (k_el s2) = Some (m, l1) -> own (ev_pl m) = true ->
  exists s2' body, k_body A hk2 s2 = Some (s2', body, false) /\ Rk I s1 s2' /\ vis body = [].
Proof.
  intros [Hh O1 O2 Hq F1 F2] E Ho. rewrite (k_body_eq react2 s2 m l1 E).
  pose proof (owned_exec_frame A cfg x react1 react2 (k_h s2) (ev_ts m) (ev_pl m) silent2 Ho) as (Fr & Or & Xi).
  destruct (sim_exec A cfg react2 (k_h s2) (ev_ts m) (ev_pl m)) as [[h2 reqs] items]. simpl in Fr, Or, Xi.
  destruct (oq_pop A OL own (k_el s2) m l1 O2 E) as (_ & _ & _ & _ & Hq1). unfold other in Hq1. rewrite Ho in Hq1. simpl in Hq1.
  pose proof (q_ok_pop A OL (k_el s2) m l1 O2 E) as Ok1.
  destruct (sched_all_own l1 reqs Ok1 Or) as (Ok2 & Hq2 & _).
  pose proof (vis_sched l1 reqs) as Vs.
  destruct (sched_all A l1 reqs) as [l2 ref]. simpl in *.
  eexists. eexists. split; [reflexivity|]. split.
  - constructor; simpl; auto.
    + eapply Rh_frame_r; eassumption.
    + rewrite Hq2, Hq1. exact Hq.
  - unfold vis. simpl. fold (vis (map (@KUser F (payload F) (titem F)) items ++ ref ++
        map (@KUser F (payload F) (titem F)) (snd (fst (sim_after cfg h2 (k_iter s2) (ev_ts m)))))).
    rewrite !vis_app, !vis_users, (xitems_invisible x _ Xi), Vs, (proj2 (after_plain h2 (k_iter s2) (ev_ts m))). reflexivity.
Qed.

(** an event of another node (or the mobility update): a step of both runs *)
Lemma common_step I s1 s2 m1 l1 m2 l2 :
  Rk I s1 s2 -> el_pop A (k_el s1) = Some (m1, l1) -> el_pop A (k_el s2) = Some (m2, l2) ->
  own (ev_pl m1) = false -> own (ev_pl m2) = false ->
  exists s1' b1 s2' b2 I', k_body A hk1 s1 = Some (s1', b1, false) /\ k_body A hk2 s2 = Some (s2', b2, false) /\
                           Rk I' s1' s2' /\ vis b1 = vis b2.
Proof.
  intros [Hh O1 O2 Hq F1 F2] E1 E2 Ho1 Ho2.
  rewrite (k_body_eq react1 s1 m1 l1 E1), (k_body_eq react2 s2 m2 l2 E2).
  assert (Hot1 : other own m1 = true) by (unfold other; rewrite Ho1; reflexivity).
  assert (Hot2 : other own m2 = true) by (unfold other; rewrite Ho2; reflexivity).
  destruct (pop_both A OL own (pl_rel I) (k_el s1) (k_el s2) m1 m2 l1 l2 O1 O2 Hq E1 E2 Hot1 Hot2) as [[Hts Hpl] Hq'].
  pose proof (q_ok_pop A OL (k_el s1) m1 l1 O1 E1) as Ok1. pose proof (q_ok_pop A OL (k_el s2) m2 l2 O2 E2) as Ok2.
  destruct (oq_pop A OL own (k_el s1) m1 l1 O1 E1) as (_ & _ & Hn1 & _). destruct (oq_pop A OL own (k_el s2) m2 l2 O2 E2) as (_ & _ & Hn2 & _).
  pose proof (sim_exec_rel A cfg x react1 react2 same_react I (k_h s1) (k_h s2) (ev_ts m1) (ev_pl m1) (ev_pl m2) Hh Hpl Ho1) as Hx.
  rewrite <- Hts.
  destruct (sim_exec A cfg react1 (k_h s1) (ev_ts m1) (ev_pl m1)) as [[h1b reqs1] items1].
  destruct (sim_exec A cfg react2 (k_h s2) (ev_ts m1) (ev_pl m2)) as [[h2b reqs2] items2].
  destruct Hx as [Eit (I' & Hinc & HR' & Hreq)]. simpl in Eit, HR', Hreq. subst items2.
  assert (Hnow : el_now l1 = el_now l2) by congruence.
  destruct (sched_all_rel I' l1 l2 reqs1 reqs2 Ok1 Ok2 (qR_incl I I' _ _ Hinc Hq') Hnow Hreq) as (Ok1' & Ok2' & Hq'' & _ & _).
  pose proof (vis_sched l1 reqs1) as Vs1. pose proof (vis_sched l2 reqs2) as Vs2.
  destruct (sched_all A l1 reqs1) as [l1c ref1]. destruct (sched_all A l2 reqs2) as [l2c ref2]. simpl in *.
  do 4 eexists. exists I'. split; [reflexivity|]. split; [reflexivity|]. split.
  - constructor; simpl; auto.
  - unfold vis. simpl.
    fold (vis (map (@KUser F (payload F) (titem F)) items1 ++ ref1 ++ map (@KUser F (payload F) (titem F)) (snd (fst (sim_after cfg h1b (k_iter s1) (ev_ts m1)))))).
    fold (vis (map (@KUser F (payload F) (titem F)) items1 ++ ref2 ++ map (@KUser F (payload F) (titem F)) (snd (fst (sim_after cfg h2b (k_iter s2) (ev_ts m1)))))).
    rewrite !vis_app, !vis_users, Vs1, Vs2, (proj2 (after_plain h1b (k_iter s1) (ev_ts m1))), (proj2 (after_plain h2b (k_iter s2) (ev_ts m1))).
    reflexivity.
Qed.

(* ---- when the loop stops ---------------------------------------------------------------------------------------------------- *)

Lemma done_cases s :
  k_done A c s = true ->
  el_pop A (k_el s) = None \/
  exists m l' d, el_pop A (k_el s) = Some (m, l') /\ k_duration c = Some d /\ fltb A d (ev_ts m) = true.
Proof.
  unfold k_done. rewrite (el_peek_is_next_pop A). rewrite Hmax.
  destruct (el_pop A (k_el s)) as [[m l']|]; [|left; reflexivity].
  destruct (k_duration c) as [d|]; simpl; rewrite ?orb_false_r; [|discriminate].
  intros H. right. exists m, l', d. auto.
Qed.

Lemma notdone_cases s :
  k_done A c s = false ->
  exists m l', el_pop A (k_el s) = Some (m, l') /\ (forall d, k_duration c = Some d -> fltb A d (ev_ts m) = false).
Proof.
  unfold k_done. rewrite (el_peek_is_next_pop A). rewrite Hmax.
  destruct (el_pop A (k_el s)) as [[m l']|]; [|discriminate].
  intros H. exists m, l'. split; [reflexivity|]. intros d Hd. rewrite Hd in H. rewrite orb_false_r in H. exact H.
Qed.

(** one run is done (queue empty, or its earliest event is beyond the duration) while the other still has
    an eligible event of interest: impossible *)
Lemma done_vs_other_r I s1 s2 m2 l2 :
  Rk I s1 s2 -> k_done A c s1 = true -> el_pop A (k_el s2) = Some (m2, l2) -> own (ev_pl m2) = false ->
  (forall d, k_duration c = Some d -> fltb A d (ev_ts m2) = false) -> False.
Proof.
  intros [Hh O1 O2 Hq F1 F2] D1 E2 Ho Hd.
  destruct (oq_pop A OL own (k_el s2) m2 l2 O2 E2) as (Hin2 & _).
  assert (Hi2 : In m2 (oq own (k_el s2))) by (apply filter_In; split; [exact Hin2|unfold other; rewrite Ho; reflexivity]).
  destruct (qrel_in_r _ _ _ m2 Hq Hi2) as (e1 & He1 & Hts & _). apply filter_In in He1. destruct He1 as [He1 _].
  destruct (done_cases s1 D1) as [En|(m1 & l1 & d & E1 & Hdur & Hlt)].
  - apply el_pop_none in En. rewrite En in He1. destruct He1.
  - pose proof (pop_not_later A OL own (k_el s1) m1 l1 e1 O1 E1 He1) as Hle.
    specialize (Hd d Hdur). rewrite (ltb_leb A OL) in Hd, Hlt.
    apply negb_false_iff in Hd. apply negb_true_iff in Hlt.
    rewrite Hts in Hle. rewrite (leb_trans A OL _ _ _ Hle Hd) in Hlt. discriminate.
Qed.

Lemma done_vs_other_l I s1 s2 m1 l1 :
  Rk I s1 s2 -> k_done A c s2 = true -> el_pop A (k_el s1) = Some (m1, l1) -> own (ev_pl m1) = false ->
  (forall d, k_duration c = Some d -> fltb A d (ev_ts m1) = false) -> False.
Proof.
  intros [Hh O1 O2 Hq F1 F2] D2 E1 Ho Hd.
  destruct (oq_pop A OL own (k_el s1) m1 l1 O1 E1) as (Hin1 & _).
  assert (Hi1 : In m1 (oq own (k_el s1))) by (apply filter_In; split; [exact Hin1|unfold other; rewrite Ho; reflexivity]).
  destruct (qrel_in_l _ _ _ m1 Hq Hi1) as (e2 & He2 & Hts & _). apply filter_In in He2. destruct He2 as [He2 _].
  destruct (done_cases s2 D2) as [En|(m2 & l2 & d & E2 & Hdur & Hlt)].
  - apply el_pop_none in En. rewrite En in He2. destruct He2.
  - pose proof (pop_not_later A OL own (k_el s2) m2 l2 e2 O2 E2 He2) as Hle.
    specialize (Hd d Hdur). rewrite (ltb_leb A OL) in Hd, Hlt.
    apply negb_false_iff in Hd. apply negb_true_iff in Hlt.
    rewrite <- Hts in Hle. rewrite (leb_trans A OL _ _ _ Hle Hd) in Hlt. discriminate.
Qed.

Lemma k_loop_done (hk : hooks F (payload F) sstate (titem F)) f s : k_done A c s = true -> k_loop A hk c f s = (s, [], LDone).
Proof. intros D. destruct f; simpl; rewrite D; reflexivity. Qed.

Lemma k_loop_fuel (hk : hooks F (payload F) sstate (titem F)) s : k_done A c s = false -> k_loop A hk c 0 s = (s, [], LFuel).
Proof. intros D. simpl. rewrite D. reflexivity. Qed.

Lemma k_loop_step (hk : hooks F (payload F) sstate (titem F)) f s s2 body :
  k_done A c s = false -> k_body A hk s = Some (s2, body, false) ->
  k_loop A hk c (S f) s = let '(s3, its, st) := k_loop A hk c f s2 in (s3, body ++ its, st).
Proof. intros D B. simpl. rewrite D, B. reflexivity. Qed.

(** The simulation. *)
Theorem loop_sim n :
  forall f1 f2, f1 + f2 < n -> forall I s1 s2 s1' it1 s2' it2,
    Rk I s1 s2 ->
    k_loop A hk1 c f1 s1 = (s1', it1, LDone) -> k_loop A hk2 c f2 s2 = (s2', it2, LDone) ->
    vis it1 = vis it2.
Proof.
  induction n as [|n IH]; intros f1 f2 Hlt I s1 s2 s1' it1 s2' it2 HR H1 H2; [lia|].
  destruct (k_done A c s1) eqn:D1.
  - (* run 1 has nothing eligible left *)
    rewrite (k_loop_done hk1 f1 s1 D1) in H1. injection H1 as <- <-.
    destruct (k_done A c s2) eqn:D2.
    + rewrite (k_loop_done hk2 f2 s2 D2) in H2. injection H2 as <- <-. reflexivity.
    + destruct f2 as [|f2]; [rewrite (k_loop_fuel hk2 s2 D2) in H2; discriminate|].
      destruct (notdone_cases s2 D2) as (m2 & l2 & E2 & Hd2).
      destruct (own (ev_pl m2)) eqn:O2; [|exfalso; eapply done_vs_other_r; eassumption].
      destruct (own_step_r I s1 s2 m2 l2 HR E2 O2) as (s2a & body & B2 & HR' & Vb).
      rewrite (k_loop_step hk2 f2 s2 s2a body D2 B2) in H2.
      destruct (k_loop A hk2 c f2 s2a) as [[s3 its] st] eqn:L2. injection H2 as <- <- ->.
      rewrite vis_app, Vb. simpl.
      apply (IH f1 f2 ltac:(lia) I s1 s2a s1 [] s3 its HR'); [apply k_loop_done; exact D1|exact L2].
  - destruct f1 as [|f1]; [rewrite (k_loop_fuel hk1 s1 D1) in H1; discriminate|].
    destruct (notdone_cases s1 D1) as (m1 & l1 & E1 & Hd1).
    destruct (own (ev_pl m1)) eqn:O1.
    + (* an event of the silent node in run 1 *)
      destruct (own_step_l I s1 s2 m1 l1 HR E1 O1) as (s1a & body & B1 & HR' & Vb).
      rewrite (k_loop_step hk1 f1 s1 s1a body D1 B1) in H1.
      destruct (k_loop A hk1 c f1 s1a) as [[s3 its] st] eqn:L1. injection H1 as <- <- ->.
      rewrite vis_app, Vb. simpl.
      apply (IH f1 f2 ltac:(lia) I s1a s2 s3 its s2' it2 HR' L1 H2).
    + destruct (k_done A c s2) eqn:D2; [exfalso; eapply done_vs_other_l; eassumption|].
      destruct f2 as [|f2]; [rewrite (k_loop_fuel hk2 s2 D2) in H2; discriminate|].
      destruct (notdone_cases s2 D2) as (m2 & l2 & E2 & Hd2).
      destruct (own (ev_pl m2)) eqn:O2.
      * (* an event of the silent node in run 2 *)
        destruct (own_step_r I s1 s2 m2 l2 HR E2 O2) as (s2a & body & B2 & HR' & Vb).
        rewrite (k_loop_step hk2 f2 s2 s2a body D2 B2) in H2.
        destruct (k_loop A hk2 c f2 s2a) as [[s3 its] st] eqn:L2. injection H2 as <- <- ->.
        rewrite vis_app, Vb. simpl.
        apply (IH (S f1) f2 ltac:(lia) I s1 s2a s1' it1 s3 its HR' H1 L2).
      * (* an event of another node, or the mobility update: both runs *)
        destruct (common_step I s1 s2 m1 l1 m2 l2 HR E1 E2 O1 O2) as (s1a & b1 & s2a & b2 & I' & B1 & B2 & HR' & Vb).
        rewrite (k_loop_step hk1 f1 s1 s1a b1 D1 B1) in H1. rewrite (k_loop_step hk2 f2 s2 s2a b2 D2 B2) in H2.
        destruct (k_loop A hk1 c f1 s1a) as [[s3 its1] st1] eqn:L1. injection H1 as <- <- ->.
        destruct (k_loop A hk2 c f2 s2a) as [[s4 its2] st2] eqn:L2. injection H2 as <- <- ->.
        rewrite !vis_app, Vb. f_equal.
        apply (IH f1 f2 ltac:(lia) I' s1a s2a s3 its1 s4 its2 HR' L1 L2).
Qed.

(* ---- from the state build() leaves ------------------------------------------------------------------------------------------- *)

Lemma Rh_start (ps0 : nat -> PS) : Rh A x [] (sim_state0 cfg ps0) (sim_state0 cfg ps0).
Proof.
  constructor; simpl; try reflexivity; try (intros; reflexivity).
  - intros y Hy. unfold pend_of. simpl. constructor.
  - constructor.
  - constructor.
  - intros a b [].
  - split; simpl; [intros e []|constructor].
  - split; simpl; [intros e []|constructor].
Qed.

Lemma qR_refl_ticks I (q : list (event F (payload F))) : (forall e, In e q -> ev_pl e = EvTick) -> qR I q q.
Proof.
  induction q as [|e r IH]; intros H; constructor.
  - split; [reflexivity|]. rewrite (H e (or_introl eq_refl)). exact Logic.I.
  - apply IH. intros e' He'. apply H. right. exact He'.
Qed.

Lemma start_queue ps0 :
  let s0 := fst (sim_start A cfg (PS:=PS) ps0) in
  q_ok A (k_el s0) /\ (forall e, In e (oq own (k_el s0)) -> ev_pl e = EvTick) /\
  k_h s0 = sim_state0 cfg ps0 /\ k_inited s0 = false /\ k_final s0 = false /\ k_aborted s0 = false.
Proof.
  unfold sim_start, k_start.
  destruct (sched_all_oq (el_init A) (sim_reqs0 A cfg) (q_ok_init A)) as (Hok & _ & evs & Hq & Hk).
  destruct (sched_all A (el_init A) (sim_reqs0 A cfg)) as [l0 items]. simpl in *.
  split; [exact Hok|]. split; [|repeat split; reflexivity].
  intros e He. rewrite Hq in He. unfold oq in He. simpl in He.
  assert (Hall : forall r, In r (map key evs) -> snd r = EvTick).
  { rewrite Hk. intros r Hr. apply filter_In in Hr. destruct Hr as [Hr _]. unfold oreqs in Hr. apply filter_In in Hr. destruct Hr as [Hr _].
    unfold sim_reqs0 in Hr. destruct (has_mob cfg); [|destruct Hr]. destruct Hr as [<-|[]]. reflexivity. }
  apply (Hall (key e)). apply in_map. exact He.
Qed.

Lemma init_sim ps0 :
  let s0 := fst (sim_start A cfg (PS:=PS) ps0) in
  vis (snd (k_initialize A hk1 s0)) = vis (snd (k_initialize A hk2 s0)) /\
  exists I, Rk I (fst (k_initialize A hk1 s0)) (fst (k_initialize A hk2 s0)).
Proof.
  intros s0. destruct (start_queue ps0) as (Hok & Htick & Hh & Fi & Ff & Fa). fold s0 in Hok, Htick, Hh, Fi, Ff, Fa.
  unfold k_initialize. simpl hk_init. rewrite Hh.
  pose proof (sim_init_rel A cfg x react1 react2 same_react silent1 silent2 [] _ _ Hna (Rh_start ps0)) as Hi.
  destruct (sim_init A cfg react1 (sim_state0 cfg ps0)) as [[h1 reqs1] items1].
  destruct (sim_init A cfg react2 (sim_state0 cfg ps0)) as [[h2 reqs2] items2].
  destruct Hi as [Ev (I & _ & HR & Hreq)]. simpl in Ev, HR, Hreq.
  destruct (sched_all_rel I (k_el s0) (k_el s0) reqs1 reqs2 Hok Hok (qR_refl_ticks I _ Htick) eq_refl Hreq) as (O1 & O2 & Hq & _ & _).
  pose proof (vis_sched (k_el s0) reqs1) as V1. pose proof (vis_sched (k_el s0) reqs2) as V2.
  destruct (sched_all A (k_el s0) reqs1) as [l1 ref1]. destruct (sched_all A (k_el s0) reqs2) as [l2 ref2]. simpl in *.
  split.
  - rewrite !vis_app, !vis_users, V1, V2, Ev. reflexivity.
  - exists I. constructor; simpl; auto.
Qed.

(** C13, whole runs.  [vis] keeps exactly the callbacks (node, time, payload / position) and the request
    outcomes of the nodes other than [x].  The two traces are those of initialisation and of the main
    loop, run to its end with any fuel that suffices: everything before the finish phase. *)
Theorem run_noninterference ps0 f1 f2 s1' it1 s2' it2 :
  let s0 := fst (sim_start A cfg (PS:=PS) ps0) in
  k_loop A hk1 c f1 (fst (k_initialize A hk1 s0)) = (s1', it1, LDone) ->
  k_loop A hk2 c f2 (fst (k_initialize A hk2 s0)) = (s2', it2, LDone) ->
  vis (snd (k_initialize A hk1 s0) ++ it1) = vis (snd (k_initialize A hk2 s0) ++ it2).
Proof.
  intros s0 H1 H2. destruct (init_sim ps0) as [Ev (I & HR)]. fold s0 in Ev, HR.
  rewrite !vis_app, Ev. f_equal.
  exact (loop_sim (S (f1 + f2)) f1 f2 ltac:(lia) I _ _ s1' it1 s2' it2 HR H1 H2).
Qed.

End NonInterfRun.
