(** Reproducibility (C06): a run is a function of the scenario and of the random draws it
    actually consumes.  Two oracle streams that agree on the first K draws give identical runs
    (states and traces) as long as the run consumes at most K draws. *)
From Coq Require Import List Arith NArith Bool Lia.
Import ListNotations.
From GS Require Import Num EventLoop Kernel Geo Sim.
From GS.Proofs Require Import Aux SimP SimP3.

Section StreamP.
Context {F : Type} (A : ArithOps F) {PS : Type}.
Variable cfg : scfg F.
Variable st2 : list F.
Variable react : nat -> PS -> F -> cb F -> PS * list (action F).
Notation sstate := (sstate F PS).
Implicit Types (h : sstate).

(** the same scenario with another oracle stream *)
Definition cfg2 : scfg F :=
  mkSCfg (c_handlers cfg) (c_nnodes cfg) (c_pos0 cfg) (c_types cfg) (c_range cfg) (c_delay cfg) (c_fail cfg)
         (c_rate cfg) (c_speed cfg) (c_ref cfg) (c_asserts cfg) st2.

Definition agree (K : nat) : Prop := forall i, i < K -> nth i (c_stream cfg) (f0 A) = nth i st2 (f0 A).

Lemma agree_le K K' : K' <= K -> agree K -> agree K'.
Proof. intros Hle Ha i Hi. apply Ha. lia. Qed.

(* ---- transmit / broadcast ------------------------------------------------------------------ *)

Lemma transmit_cursor_mono h now s d m : s_cursor h <= s_cursor (fst (transmit A cfg h now s d m)).
Proof. pose proof (transmit_reqs A cfg h now s d m) as H. destruct (transmit A cfg h now s d m). simpl. destruct H as (_ & _ & _ & _ & _ & _ & _ & _ & _ & _ & H). lia. Qed.

Lemma transmit_stream h now s d m K :
  agree K -> s_cursor (fst (transmit A cfg h now s d m)) <= K ->
  transmit A cfg2 h now s d m = transmit A cfg h now s d m.
Proof.
  intros Ha. rewrite !transmit_spec. simpl c_fail. simpl c_stream.
  unfold deliver_time. simpl c_delay.
  destruct (fltb A (f0 A) (c_fail cfg)); [|intros _; reflexivity].
  simpl. intros Hk. rewrite (Ha (s_cursor h)) by lia. reflexivity.
Qed.

Lemma broadcast_cursor_mono h now s m ds : s_cursor h <= s_cursor (fst (broadcast A cfg h now s m ds)).
Proof. pose proof (broadcast_reqs A cfg h now s m ds) as H. destruct (broadcast A cfg h now s m ds). simpl. destruct H as (_ & _ & _ & _ & _ & _ & _ & _ & _ & _ & H). exact H. Qed.

Lemma broadcast_stream h now s m ds K :
  agree K -> s_cursor (fst (broadcast A cfg h now s m ds)) <= K ->
  broadcast A cfg2 h now s m ds = broadcast A cfg h now s m ds.
Proof.
  intros Ha. revert h. induction ds as [|d r IH]; intros h; simpl; [reflexivity|].
  destruct (Nat.eqb d s); [apply IH|].
  pose proof (transmit_cursor_mono h now s d m) as Hm.
  destruct (transmit A cfg h now s d m) as [h1 q1] eqn:E1.
  pose proof (broadcast_cursor_mono h1 now s m r) as Hm2.
  destruct (broadcast A cfg h1 now s m r) as [h2 q2] eqn:E2. simpl in *. intros Hk.
  assert (Ht : transmit A cfg2 h now s d m = (h1, q1)).
  { rewrite <- E1. apply transmit_stream with K; [exact Ha|]. rewrite E1. simpl. lia. }
  rewrite Ht. specialize (IH h1). rewrite E2 in IH. simpl in IH. rewrite (IH Hk). reflexivity.
Qed.

(* ---- requests, callbacks ------------------------------------------------------------------------ *)

Lemma do_action_cursor_mono h now n a : s_cursor h <= s_cursor (fst (fst (do_action A cfg h now n a))).
Proof.
  destruct a as [name ts|name|msg dst|msg|msg d|p|p|s|r|b]; simpl;
    repeat match goal with
    | |- context [if ?b then _ else _] => destruct b; simpl
    | |- context [match ?d with Some _ => _ | None => _ end] => destruct d; simpl
    end; try lia.
  - pose proof (transmit_cursor_mono h now n n0 msg) as H. destruct (transmit A cfg h now n n0 msg). exact H.
  - pose proof (broadcast_cursor_mono h now n msg (seq 0 (c_nnodes cfg))) as H. destruct (broadcast A cfg h now n msg (seq 0 (c_nnodes cfg))). exact H.
  - pose proof (broadcast_cursor_mono h now n msg (seq 0 (c_nnodes cfg))) as H. destruct (broadcast A cfg h now n msg (seq 0 (c_nnodes cfg))). exact H.
Qed.

Lemma do_action_stream h now n a K :
  agree K -> s_cursor (fst (fst (do_action A cfg h now n a))) <= K ->
  do_action A cfg2 h now n a = do_action A cfg h now n a.
Proof.
  intros Ha. destruct a as [name ts|name|msg dst|msg|msg d|p|p|s|r|b]; simpl; try reflexivity.
  - change (has_comm cfg2) with (has_comm cfg). destruct (negb (has_comm cfg)); [reflexivity|].
    destruct dst as [d|]; [|reflexivity]. destruct (Nat.eqb d n); [reflexivity|]. destruct (Nat.ltb d (c_nnodes cfg)); [|reflexivity].
    intros Hk. rewrite (transmit_stream h now n d msg K Ha); [reflexivity|].
    destruct (transmit A cfg h now n d msg). exact Hk.
  - change (has_comm cfg2) with (has_comm cfg). destruct (negb (has_comm cfg)); [reflexivity|].
    intros Hk. rewrite (broadcast_stream h now n msg (seq 0 (c_nnodes cfg)) K Ha); [reflexivity|].
    destruct (broadcast A cfg h now n msg (seq 0 (c_nnodes cfg))). exact Hk.
  - change (has_comm cfg2) with (has_comm cfg). destruct (negb (has_comm cfg)); [reflexivity|]. destruct (Nat.eqb d n); [reflexivity|].
    intros Hk. rewrite (broadcast_stream h now n msg (seq 0 (c_nnodes cfg)) K Ha); [reflexivity|].
    destruct (broadcast A cfg h now n msg (seq 0 (c_nnodes cfg))). exact Hk.
Qed.

Lemma do_actions_cursor_mono h now n acts : s_cursor h <= s_cursor (fst (fst (do_actions A cfg h now n acts))).
Proof.
  revert h. induction acts as [|a r IH]; intros h; simpl; [lia|].
  pose proof (do_action_cursor_mono h now n a) as H1. destruct (do_action A cfg h now n a) as [[h1 q1] o].
  specialize (IH h1). destruct (do_actions A cfg h1 now n r) as [[h2 q2] t2]. simpl in *. lia.
Qed.

Lemma do_actions_stream h now n acts K :
  agree K -> s_cursor (fst (fst (do_actions A cfg h now n acts))) <= K ->
  do_actions A cfg2 h now n acts = do_actions A cfg h now n acts.
Proof.
  intros Ha. revert h. induction acts as [|a r IH]; intros h; simpl; [reflexivity|].
  pose proof (do_action_stream h now n a K Ha) as H1.
  destruct (do_action A cfg h now n a) as [[h1 q1] o] eqn:E1.
  pose proof (do_actions_cursor_mono h1 now n r) as Hm.
  specialize (IH h1). destruct (do_actions A cfg h1 now n r) as [[h2 q2] t2] eqn:E2. simpl in *.
  intros Hk. rewrite H1 by lia. rewrite (IH Hk). reflexivity.
Qed.

Lemma callback_cursor_mono h now n c : s_cursor h <= s_cursor (fst (fst (callback A cfg react h now n c))).
Proof.
  unfold callback. destruct (nth_error (s_ps h) n) as [ps|]; [|simpl; lia].
  destruct (react n ps (if has_timer cfg then now else f0 A) c) as [ps1 acts].
  pose proof (do_actions_cursor_mono (set_ps h (upd n ps1 (s_ps h))) now n acts) as H.
  destruct (do_actions A cfg (set_ps h (upd n ps1 (s_ps h))) now n acts) as [[h2 q] t]. simpl in *. exact H.
Qed.

Lemma callback_stream h now n c K :
  agree K -> s_cursor (fst (fst (callback A cfg react h now n c))) <= K ->
  callback A cfg2 react h now n c = callback A cfg react h now n c.
Proof.
  intros Ha. unfold callback. destruct (nth_error (s_ps h) n) as [ps|]; [|reflexivity].
  change (has_timer cfg2) with (has_timer cfg).
  destruct (react n ps (if has_timer cfg then now else f0 A) c) as [ps1 acts].
  pose proof (do_actions_stream (set_ps h (upd n ps1 (s_ps h))) now n acts K Ha) as H.
  destruct (do_actions A cfg (set_ps h (upd n ps1 (s_ps h))) now n acts) as [[h2 q] t] eqn:E. simpl in *.
  intros Hk. rewrite (H Hk). reflexivity.
Qed.

Lemma callbacks_cursor_mono h now ns c : s_cursor h <= s_cursor (fst (fst (callbacks A cfg react h now ns c))).
Proof.
  revert h. induction ns as [|n r IH]; intros h; simpl; [lia|].
  pose proof (callback_cursor_mono h now n c) as H1. destruct (callback A cfg react h now n c) as [[h1 q1] t1].
  specialize (IH h1). destruct (callbacks A cfg react h1 now r c) as [[h2 q2] t2]. simpl in *. lia.
Qed.

Lemma callbacks_stream h now ns c K :
  agree K -> s_cursor (fst (fst (callbacks A cfg react h now ns c))) <= K ->
  callbacks A cfg2 react h now ns c = callbacks A cfg react h now ns c.
Proof.
  intros Ha. revert h. induction ns as [|n r IH]; intros h; simpl; [reflexivity|].
  pose proof (callback_stream h now n c K Ha) as H1.
  destruct (callback A cfg react h now n c) as [[h1 q1] t1] eqn:E1.
  pose proof (callbacks_cursor_mono h1 now r c) as Hm.
  specialize (IH h1). destruct (callbacks A cfg react h1 now r c) as [[h2 q2] t2] eqn:E2. simpl in *.
  intros Hk. rewrite H1 by lia. rewrite (IH Hk). reflexivity.
Qed.

(* ---- the four hooks ---------------------------------------------------------------------------- *)

Lemma tick_nodes_cursor h now ns : s_cursor (fst (tick_nodes A cfg h now ns)) = s_cursor h.
Proof.
  revert h. induction ns as [|n r IH]; intros h; simpl; [reflexivity|].
  match goal with |- context [tick_nodes A cfg ?h1 now r] => specialize (IH h1); destruct (tick_nodes A cfg h1 now r) as [h2 q] end.
  simpl in *. exact IH.
Qed.

Lemma sim_exec_cursor_mono h now p : s_cursor h <= s_cursor (fst (fst (sim_exec A cfg react h now p))).
Proof.
  destruct p as [n name id|src dst msg| |n pos]; simpl.
  - destruct (existsb (pend_id n name id) (s_pending h)); [|simpl; lia].
    apply (callback_cursor_mono (set_pending h (filter (fun e => negb (pend_id n name id e)) (s_pending h))) now n (CbTimer name)).
  - apply callback_cursor_mono.
  - unfold tick. pose proof (tick_nodes_cursor h now (seq 0 (c_nnodes cfg))) as H.
    destruct (tick_nodes A cfg h now (seq 0 (c_nnodes cfg))). simpl in *. lia.
  - apply callback_cursor_mono.
Qed.

Lemma sim_exec_stream h now p K :
  agree K -> s_cursor (fst (fst (sim_exec A cfg react h now p))) <= K ->
  sim_exec A cfg2 react h now p = sim_exec A cfg react h now p.
Proof.
  intros Ha. destruct p as [n name id|src dst msg| |n pos]; simpl.
  - destruct (existsb (pend_id n name id) (s_pending h)); [|reflexivity]. apply callback_stream. exact Ha.
  - apply callback_stream. exact Ha.
  - reflexivity.
  - apply callback_stream. exact Ha.
Qed.

Lemma handlers_init_cursor h hs : s_cursor (fst (handlers_init cfg h hs)) = s_cursor h.
Proof.
  revert h. induction hs as [|k r IH]; intros h; simpl; [reflexivity|].
  destruct k; try apply IH.
  - specialize (IH h). destruct (handlers_init cfg h r). exact IH.
  - rewrite IH. reflexivity.
Qed.

Lemma sim_init_cursor_mono h : s_cursor h <= s_cursor (fst (fst (sim_init A cfg react h))).
Proof.
  unfold sim_init. pose proof (handlers_init_cursor h (c_handlers cfg)) as H1.
  destruct (handlers_init cfg h (c_handlers cfg)) as [h1 t1]. simpl in H1.
  pose proof (callbacks_cursor_mono h1 (f0 A) (nodes cfg) CbInit) as H2.
  destruct (callbacks A cfg react h1 (f0 A) (nodes cfg) CbInit) as [[h2 q] t2]. simpl in *. lia.
Qed.

Lemma sim_init_stream h K :
  agree K -> s_cursor (fst (fst (sim_init A cfg react h))) <= K ->
  sim_init A cfg2 react h = sim_init A cfg react h.
Proof.
  intros Ha. unfold sim_init. change (handlers_init cfg2 h (c_handlers cfg2)) with (handlers_init cfg h (c_handlers cfg)).
  destruct (handlers_init cfg h (c_handlers cfg)) as [h1 t1].
  change (nodes cfg2) with (nodes cfg).
  pose proof (callbacks_stream h1 (f0 A) (nodes cfg) CbInit K Ha) as H.
  destruct (callbacks A cfg react h1 (f0 A) (nodes cfg) CbInit) as [[h2 q] t2] eqn:E. simpl in *.
  intros Hk. rewrite (H Hk). reflexivity.
Qed.

Lemma handlers_after_cursor h iter ts hs : s_cursor (fst (fst (handlers_after cfg h iter ts hs))) = s_cursor h.
Proof.
  revert h. induction hs as [|k r IH]; intros h; simpl; [reflexivity|].
  destruct k; try apply IH.
  - specialize (IH h). destruct (handlers_after cfg h iter ts r) as [[h1 t] raised]. exact IH.
  - destruct (asserts_iter cfg h 0 (c_asserts cfg) (s_astate h)) as [sts res]. destruct res; [reflexivity|].
    rewrite IH. reflexivity.
Qed.

Lemma sim_after_stream h iter ts : sim_after cfg2 h iter ts = sim_after cfg h iter ts.
Proof. reflexivity. Qed.

Lemma sim_finish_cursor_mono h now : s_cursor h <= s_cursor (fst (fst (fst (sim_finish A cfg react h now)))).
Proof.
  unfold sim_finish. pose proof (callbacks_cursor_mono h now (nodes cfg) CbFinish) as H.
  destruct (callbacks A cfg react h now (nodes cfg) CbFinish) as [[h1 q] t1].
  destruct (handlers_final cfg h1 (c_handlers cfg)). simpl in *. exact H.
Qed.

Lemma sim_finish_stream h now K :
  agree K -> s_cursor (fst (fst (fst (sim_finish A cfg react h now)))) <= K ->
  sim_finish A cfg2 react h now = sim_finish A cfg react h now.
Proof.
  intros Ha. unfold sim_finish. change (nodes cfg2) with (nodes cfg).
  pose proof (callbacks_stream h now (nodes cfg) CbFinish K Ha) as H.
  destruct (callbacks A cfg react h now (nodes cfg) CbFinish) as [[h1 q] t1] eqn:E. simpl in H.
  assert (Hc : s_cursor (fst (fst (fst (let '(t2, raised) := handlers_final cfg h1 (c_handlers cfg) in (h1, q, t1 ++ t2, raised))))) = s_cursor h1)
    by (destruct (handlers_final cfg h1 (c_handlers cfg)); reflexivity).
  rewrite Hc. intros Hk. rewrite (H Hk). reflexivity.
Qed.

(* ---- the kernel ---------------------------------------------------------------------------------- *)

Notation hk1 := (sim_hooks A cfg react).
Notation hk2 := (sim_hooks A cfg2 react).
Notation kstate := (kstate F (payload F) sstate).
Definition cur (s : kstate) : nat := s_cursor (k_h s).

Lemma k_initialize_cur s : cur s <= cur (fst (k_initialize A hk1 s)).
Proof.
  unfold k_initialize, cur. simpl. pose proof (sim_init_cursor_mono (k_h s)) as H.
  destruct (sim_init A cfg react (k_h s)) as [[h1 reqs] items]. destruct (sched_all A (k_el s) reqs). simpl in *. exact H.
Qed.

Lemma k_initialize_stream s K :
  agree K -> cur (fst (k_initialize A hk1 s)) <= K -> k_initialize A hk2 s = k_initialize A hk1 s.
Proof.
  intros Ha. unfold k_initialize, cur. simpl. pose proof (sim_init_stream (k_h s) K Ha) as H.
  destruct (sim_init A cfg react (k_h s)) as [[h1 reqs] items] eqn:E. simpl in H.
  destruct (sched_all A (k_el s) reqs) eqn:E2. simpl. intros Hk. rewrite (H Hk), E2. reflexivity.
Qed.

Lemma k_finalize_cur s : cur s <= cur (fst (k_finalize A hk1 s)).
Proof.
  unfold k_finalize, cur. destruct (k_final s); [simpl; lia|]. simpl.
  pose proof (sim_finish_cursor_mono (k_h s) (el_now (k_el s))) as H.
  destruct (sim_finish A cfg react (k_h s) (el_now (k_el s))) as [[[h1 reqs] items] raised].
  destruct (sched_all A (k_el s) reqs). simpl in *. exact H.
Qed.

Lemma k_finalize_stream s K :
  agree K -> cur (fst (k_finalize A hk1 s)) <= K -> k_finalize A hk2 s = k_finalize A hk1 s.
Proof.
  intros Ha. unfold k_finalize, cur. destruct (k_final s); [reflexivity|]. simpl.
  pose proof (sim_finish_stream (k_h s) (el_now (k_el s)) K Ha) as H.
  destruct (sim_finish A cfg react (k_h s) (el_now (k_el s))) as [[[h1 reqs] items] raised] eqn:E. simpl in H.
  destruct (sched_all A (k_el s) reqs) eqn:E2. simpl. intros Hk. rewrite (H Hk), E2. reflexivity.
Qed.

(** one step of the simulator: same result under both streams if the step ends with at most K
    draws consumed *)
Lemma k_step_stream c s K :
  agree K -> cur (fst (fst (k_step A hk1 c s))) <= K -> k_step A hk2 c s = k_step A hk1 c s.
Proof.
  intros Ha. unfold k_step. destruct (k_final s || k_aborted s); [reflexivity|].
  assert (Hi : forall s1 i1, (s1, i1) = (if k_inited s then (s, []) else k_initialize A hk1 s) ->
               cur s1 <= K -> (if k_inited s then (s, []) else k_initialize A hk2 s) = (s1, i1)).
  { intros s1 i1 E Hk. destruct (k_inited s); [symmetry; exact E|].
    rewrite (k_initialize_stream s K Ha); [symmetry; exact E|]. rewrite <- E. exact Hk. }
  destruct (if k_inited s then (s, []) else k_initialize A hk1 s) as [s1 i1] eqn:E1.
  specialize (Hi s1 i1 eq_refl).
  destruct (k_done A c s1) eqn:Ed.
  - pose proof (k_finalize_cur s1) as Hm. pose proof (k_finalize_stream s1 K Ha) as Hf.
    destruct (k_finalize A hk1 s1) as [s2 i2] eqn:E2. simpl in *. intros Hk.
    rewrite (Hi ltac:(unfold cur in *; lia)), Ed, (Hf Hk). reflexivity.
  - destruct (el_pop A (k_el s1)) as [[e l1]|] eqn:Ep.
    2:{ simpl. intros Hk. rewrite (Hi Hk), Ed, Ep. reflexivity. }
    simpl hk_exec. simpl hk_after.
    pose proof (sim_exec_cursor_mono (k_h s1) (ev_ts e) (ev_pl e)) as Hm1.
    pose proof (sim_exec_stream (k_h s1) (ev_ts e) (ev_pl e) K Ha) as Hx.
    destruct (sim_exec A cfg react (k_h s1) (ev_ts e) (ev_pl e)) as [[h2 reqs] items] eqn:Ex. simpl in Hm1, Hx.
    destruct (sched_all A l1 reqs) as [l2 ref] eqn:Es.
    pose proof (handlers_after_cursor h2 (k_iter s1) (ev_ts e) (c_handlers cfg)) as Hac.
    change (sim_after cfg2 h2 (k_iter s1) (ev_ts e)) with (sim_after cfg h2 (k_iter s1) (ev_ts e)).
    unfold sim_after in *.
    destruct (handlers_after cfg h2 (k_iter s1) (ev_ts e) (c_handlers cfg)) as [[h3 aitems] raised] eqn:Eaf. simpl in Hac.
    assert (Haf2 : handlers_after cfg2 h2 (k_iter s1) (ev_ts e) (c_handlers cfg) = (h3, aitems, raised)) by (rewrite <- Eaf; reflexivity).
    destruct raised.
    + simpl. unfold cur. simpl. intros Hk.
      rewrite (Hi ltac:(unfold cur; lia)), Ed, Ep. simpl hk_exec. rewrite (Hx ltac:(lia)), Es.
      rewrite Haf2. reflexivity.
    + set (s2 := mkK l2 h3 (S (k_iter s1)) true false false) in *.
      destruct (k_done A c s2) eqn:Ed2.
      * pose proof (k_finalize_cur s2) as Hm. pose proof (k_finalize_stream s2 K Ha) as Hf.
        destruct (k_finalize A hk1 s2) as [s3 i3] eqn:E3. simpl in *. intros Hk.
        assert (Hs2 : cur s2 <= K) by lia. unfold cur in Hs2. simpl in Hs2.
        rewrite (Hi ltac:(unfold cur; lia)), Ed, Ep. simpl hk_exec. rewrite (Hx ltac:(lia)), Es, Haf2.
        fold s2. rewrite Ed2, (Hf Hk). reflexivity.
      * simpl. unfold cur. simpl. intros Hk.
        rewrite (Hi ltac:(unfold cur; lia)), Ed, Ep. simpl hk_exec. rewrite (Hx ltac:(lia)), Es, Haf2.
        fold s2. rewrite Ed2. reflexivity.
Qed.

Lemma k_step_cur c s : cur s <= cur (fst (fst (k_step A hk1 c s))).
Proof.
  unfold k_step. destruct (k_final s || k_aborted s); [simpl; lia|].
  assert (H0 : cur s <= cur (fst (if k_inited s then (s, []) else k_initialize A hk1 s))).
  { destruct (k_inited s); [simpl; lia|apply k_initialize_cur]. }
  destruct (if k_inited s then (s, []) else k_initialize A hk1 s) as [s1 i1]. simpl in H0.
  destruct (k_done A c s1).
  - pose proof (k_finalize_cur s1) as Hm. destruct (k_finalize A hk1 s1). simpl in *. lia.
  - destruct (el_pop A (k_el s1)) as [[e l1]|]; [|simpl; lia].
    simpl hk_exec. simpl hk_after.
    pose proof (sim_exec_cursor_mono (k_h s1) (ev_ts e) (ev_pl e)) as Hm1.
    destruct (sim_exec A cfg react (k_h s1) (ev_ts e) (ev_pl e)) as [[h2 reqs] items]. simpl in Hm1.
    destruct (sched_all A l1 reqs) as [l2 ref].
    pose proof (handlers_after_cursor h2 (k_iter s1) (ev_ts e) (c_handlers cfg)) as Hac. unfold sim_after.
    destruct (handlers_after cfg h2 (k_iter s1) (ev_ts e) (c_handlers cfg)) as [[h3 aitems] raised]. simpl in Hac.
    destruct raised; [unfold cur in *; simpl; lia|].
    set (s2 := mkK l2 h3 (S (k_iter s1)) true false false).
    destruct (k_done A c s2).
    + pose proof (k_finalize_cur s2) as Hm. destruct (k_finalize A hk1 s2). unfold cur in *. simpl in *. lia.
    + unfold cur in *. simpl. lia.
Qed.

(** C06: if two oracle streams agree on the first K draws and a run consumes at most K draws,
    the run — final state, complete trace, termination — is the same under both. *)
Theorem k_run_stream c fuel s K :
  agree K -> cur (fst (fst (k_run A hk1 c fuel s))) <= K -> k_run A hk2 c fuel s = k_run A hk1 c fuel s.
Proof.
  intros Ha. revert s. induction fuel as [|f IH]; intros s; simpl; [reflexivity|].
  pose proof (k_step_stream c s K Ha) as Hs. pose proof (k_step_cur c s) as Hm.
  destruct (k_step A hk1 c s) as [[s1 it] cont] eqn:E1. simpl in *.
  destruct cont.
  - assert (Hm2 : cur s1 <= cur (fst (fst (k_run A hk1 c f s1)))).
    { clear. revert s1. induction f as [|f IH]; intros s1; simpl; [lia|].
      pose proof (k_step_cur c s1) as H. destruct (k_step A hk1 c s1) as [[s2 it] cont]. simpl in H.
      destruct cont; [|simpl; exact H]. specialize (IH s2). destruct (k_run A hk1 c f s2) as [[s3 its] fin]. simpl in *. lia. }
    specialize (IH s1). destruct (k_run A hk1 c f s1) as [[s2 its] fin] eqn:E2. simpl in *.
    intros Hk. rewrite (Hs ltac:(lia)), (IH Hk). reflexivity.
  - intros Hk. rewrite (Hs Hk). reflexivity.
Qed.

End StreamP.
