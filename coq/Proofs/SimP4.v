(** Proofs about [Sim]: timer identifiers are handed out once each (C07 "fires at most once"),
    and the times of the mobility updates (C12). *)
From Coq Require Import List Arith NArith Bool Lia.
Import ListNotations.
From GS Require Import Num EventLoop Kernel Geo Sim.
From GS.Proofs Require Import Aux SimP SimP3.

Section SimP4.
Context {F : Type} (A : ArithOps F) {PS : Type}.
Variable cfg : scfg F.
Variable react : nat -> PS -> F -> cb F -> PS * list (action F).
Notation sstate := (sstate F PS).
Implicit Types (h : sstate).

(** the identifiers of the timer events among some scheduling requests, in order *)
Definition timer_ids (q : list (F * payload F)) : list N :=
  flat_map (fun r => match snd r with EvTimer _ _ id => [id] | _ => [] end) q.

Lemma timer_ids_app a b : timer_ids (a ++ b) = timer_ids a ++ timer_ids b.
Proof. apply flat_map_app. Qed.

(** [ids_from a n]: the n consecutive identifiers starting at a *)
Fixpoint ids_from (a : N) (n : nat) : list N :=
  match n with 0 => [] | S m => a :: ids_from (N.succ a) m end.

Lemma ids_from_app a n m : ids_from a (n + m) = ids_from a n ++ ids_from (a + N.of_nat n)%N m.
Proof.
  revert a. induction n as [|n IH]; intros a.
  - simpl. rewrite N.add_0_r. reflexivity.
  - cbn [Nat.add ids_from app]. rewrite IH. do 3 f_equal. rewrite Nat2N.inj_succ. lia.
Qed.

Lemma ids_from_bounds a n x : In x (ids_from a n) -> (a <= x < a + N.of_nat n)%N.
Proof.
  revert a. induction n as [|n IH]; intros a; [intros []|].
  cbn [ids_from]. rewrite Nat2N.inj_succ. intros [<-|H]; [lia|]. specialize (IH _ H). lia.
Qed.

Lemma ids_from_NoDup a n : NoDup (ids_from a n).
Proof.
  revert a. induction n as [|n IH]; intros a; simpl; constructor; [|apply IH].
  intro H. apply ids_from_bounds in H. lia.
Qed.

Definition fresh_ids h h' (q : list (F * payload F)) : Prop :=
  exists n, s_nextid h' = (s_nextid h + N.of_nat n)%N /\ timer_ids q = ids_from (s_nextid h) n.

Lemma fresh_ids_refl h : fresh_ids h h [].
Proof. exists 0. simpl. split; [lia|reflexivity]. Qed.

Lemma fresh_ids_trans h1 h2 h3 q1 q2 : fresh_ids h1 h2 q1 -> fresh_ids h2 h3 q2 -> fresh_ids h1 h3 (q1 ++ q2).
Proof.
  intros (n & E1 & T1) (m & E2 & T2). exists (n + m). split; [lia|].
  rewrite timer_ids_app, T1, T2, ids_from_app, E1. reflexivity.
Qed.

Lemma no_timer_ids_deliver (q : list (F * payload F)) :
  (forall r, In r q -> exists s d m, snd r = EvDeliver s d m) -> timer_ids q = [].
Proof.
  induction q as [|r q IH]; intros H; [reflexivity|]. unfold timer_ids in *. simpl.
  destruct (H r (or_introl eq_refl)) as (s & d & m & ->). simpl. apply IH. intros r' Hr'. apply H. right. exact Hr'.
Qed.

(** Every request any action issues that is a timer event carries a brand-new identifier: the
    counter's value, which is then incremented; nothing else touches the counter. *)
Lemma do_action_fresh h now n a :
  fresh_ids h (fst (fst (do_action A cfg h now n a))) (snd (fst (do_action A cfg h now n a))).
Proof.
  destruct a as [name ts|name|msg dst|msg|msg d|p|p|s|r|b]; simpl.
  - destruct (negb (has_timer cfg)); [apply fresh_ids_refl|]. destruct (fltb A ts now); [apply fresh_ids_refl|].
    exists 1. simpl. split; [lia|reflexivity].
  - destruct (negb (has_timer cfg)); [apply fresh_ids_refl|]. exists 0. simpl. split; [lia|reflexivity].
  - destruct (negb (has_comm cfg)); [apply fresh_ids_refl|]. destruct dst as [d|]; [|apply fresh_ids_refl].
    destruct (Nat.eqb d n); [apply fresh_ids_refl|]. destruct (Nat.ltb d (c_nnodes cfg)); [|apply fresh_ids_refl].
    pose proof (transmit_reqs A cfg h now n d msg) as Ht. destruct (transmit A cfg h now n d msg) as [h1 q]. simpl.
    destruct Ht as (Hq & _ & Hn & _). exists 0. split; [rewrite Hn; lia|]. destruct Hq as [->| ->]; reflexivity.
  - destruct (negb (has_comm cfg)); [apply fresh_ids_refl|].
    pose proof (broadcast_reqs A cfg h now n msg (seq 0 (c_nnodes cfg))) as Hb.
    destruct (broadcast A cfg h now n msg (seq 0 (c_nnodes cfg))) as [h1 q]. simpl. destruct Hb as (Hq & _ & Hn & _).
    exists 0. split; [rewrite Hn; lia|]. apply no_timer_ids_deliver. intros r Hr. destruct (Hq r Hr) as (d & _ & _ & ->). simpl. eauto.
  - destruct (negb (has_comm cfg)); [apply fresh_ids_refl|]. destruct (Nat.eqb d n); [apply fresh_ids_refl|].
    pose proof (broadcast_reqs A cfg h now n msg (seq 0 (c_nnodes cfg))) as Hb.
    destruct (broadcast A cfg h now n msg (seq 0 (c_nnodes cfg))) as [h1 q]. simpl. destruct Hb as (Hq & _ & Hn & _).
    exists 0. split; [rewrite Hn; lia|]. apply no_timer_ids_deliver. intros r Hr. destruct (Hq r Hr) as (d' & _ & _ & ->). simpl. eauto.
  - destruct (negb (has_mob cfg)); apply fresh_ids_refl || (exists 0; simpl; split; [lia|reflexivity]).
  - destruct (negb (has_mob cfg)); apply fresh_ids_refl || (exists 0; simpl; split; [lia|reflexivity]).
  - destruct (negb (has_mob cfg)); apply fresh_ids_refl || (exists 0; simpl; split; [lia|reflexivity]).
  - destruct (fltb A r (f0 A)); [apply fresh_ids_refl|]. destruct (negb (has_comm cfg)); apply fresh_ids_refl || (exists 0; simpl; split; [lia|reflexivity]).
  - exists 0. simpl. split; [lia|reflexivity].
Qed.

Lemma do_actions_fresh h now n acts :
  fresh_ids h (fst (fst (do_actions A cfg h now n acts))) (snd (fst (do_actions A cfg h now n acts))).
Proof.
  revert h. induction acts as [|a r IH]; intros h; simpl; [apply fresh_ids_refl|].
  pose proof (do_action_fresh h now n a) as Ha. destruct (do_action A cfg h now n a) as [[h1 q1] o].
  specialize (IH h1). destruct (do_actions A cfg h1 now n r) as [[h2 q2] t2]. simpl in *.
  eapply fresh_ids_trans; eassumption.
Qed.

Lemma callback_fresh h now n c :
  fresh_ids h (fst (fst (callback A cfg react h now n c))) (snd (fst (callback A cfg react h now n c))).
Proof.
  unfold callback. destruct (nth_error (s_ps h) n) as [ps|]; [|apply fresh_ids_refl].
  destruct (react n ps (if has_timer cfg then now else f0 A) c) as [ps1 acts].
  pose proof (do_actions_fresh (set_ps h (upd n ps1 (s_ps h))) now n acts) as Hd.
  destruct (do_actions A cfg (set_ps h (upd n ps1 (s_ps h))) now n acts) as [[h2 q] t]. exact Hd.
Qed.

Lemma callbacks_fresh h now ns c :
  fresh_ids h (fst (fst (callbacks A cfg react h now ns c))) (snd (fst (callbacks A cfg react h now ns c))).
Proof.
  revert h. induction ns as [|n r IH]; intros h; simpl; [apply fresh_ids_refl|].
  pose proof (callback_fresh h now n c) as Hc. destruct (callback A cfg react h now n c) as [[h1 q1] t1].
  specialize (IH h1). destruct (callbacks A cfg react h1 now r c) as [[h2 q2] t2]. simpl in *.
  eapply fresh_ids_trans; eassumption.
Qed.

(** C07: whatever the protocols do while an event is executed, the timer events requested carry
    consecutive brand-new identifiers — no identifier is ever handed out twice, so each accepted
    timer has its own event, which (C02) is executed at most once. *)
Theorem sim_exec_fresh h now p :
  fresh_ids h (fst (fst (sim_exec A cfg react h now p))) (snd (fst (sim_exec A cfg react h now p))).
Proof.
  destruct p as [n name id|src dst msg| |n pos]; simpl.
  - destruct (existsb (pend_id n name id) (s_pending h)); [|apply fresh_ids_refl].
    pose proof (callback_fresh (set_pending h (filter (fun e => negb (pend_id n name id e)) (s_pending h))) now n (CbTimer name)) as Hc.
    exact Hc.
  - apply callback_fresh.
  - unfold tick. pose proof (tick_nodes_pending A cfg h now (seq 0 (c_nnodes cfg))) as [_ Hn].
    pose proof (tick_nodes_reqs A cfg h now (seq 0 (c_nnodes cfg))) as Hq.
    pose proof (tick_nodes_spec A cfg h now (seq 0 (c_nnodes cfg)) (seq_NoDup _ _)) as Hs.
    destruct (tick_nodes A cfg h now (seq 0 (c_nnodes cfg))) as [h1 q]. simpl in *.
    destruct Hs as (Hqq & _). exists 0. split; [rewrite Hn; lia|]. rewrite timer_ids_app. simpl. rewrite app_nil_r.
    rewrite Hqq. clear. induction (seq 0 (c_nnodes cfg)); simpl; auto.
  - apply callback_fresh.
Qed.

Lemma handlers_init_nextid h hs : s_nextid (fst (handlers_init cfg h hs)) = s_nextid h.
Proof.
  revert h. induction hs as [|k r IH]; intros h; simpl; [reflexivity|].
  destruct k; try apply IH.
  - specialize (IH h). destruct (handlers_init cfg h r) as [h1 t]. exact IH.
  - rewrite IH. reflexivity.
Qed.

Theorem sim_init_fresh h :
  fresh_ids h (fst (fst (sim_init A cfg react h))) (snd (fst (sim_init A cfg react h))).
Proof.
  unfold sim_init. pose proof (handlers_init_nextid h (c_handlers cfg)) as Hh.
  destruct (handlers_init cfg h (c_handlers cfg)) as [h1 t1]. simpl in Hh.
  pose proof (callbacks_fresh h1 (f0 A) (nodes cfg) CbInit) as Hc.
  destruct (callbacks A cfg react h1 (f0 A) (nodes cfg) CbInit) as [[h2 q] t2]. simpl in *.
  destruct Hc as (n & E & T). exists n. rewrite <- Hh. auto.
Qed.

End SimP4.
