(** * The timer table and the cause of every callback, as a trace specification

    [t_next] / [t_ok] replay a trace and mention no model state: they keep the abstract
    table of pending timers (changed only by an accepted set-timer request, an accepted
    cancel request and the execution of a timer event that is still pending), the identifier
    counter, and the callback the event being executed owes.  The theorem says that every
    run of the model, under every protocol, is accepted and that the model's pending table
    and counter ARE the replayed ones.  Consequences, read off the acceptor:

    - a timer callback happens only as the first thing after the execution of a timer
      event whose (node, name, id) is still in the table, at that event's time, on that
      node, with that name -- and always happens then;
    - packet and telemetry callbacks likewise happen only, and always, right after the
      execution of their delivery / telemetry event, for the addressed node, at its time;
    - an entry leaves the table when it fires or when its (node, name) is cancelled, and
      identifiers are never handed out twice, so a fired or cancelled timer never fires
      (again). *)
From Coq Require Import List Arith NArith Bool Lia.
Import ListNotations.
From GS Require Import Num EventLoop Kernel Geo Sim.
From GS.Proofs Require Import Aux EventLoopP KernelP SimP TraceSpec.

Section TimerSpec.
Context {F : Type} (A : ArithOps F) {PS : Type}.
Variable cfg : scfg F.
Variable react : nat -> PS -> F -> cb F -> PS * list (action F).

Notation sstate := (sstate F PS).
Notation kitem := (kitem F (payload F) (titem F)).
Notation pnow := (pnow A cfg).
Implicit Types (h : sstate).

Record tstate : Type := mkT {
  t_tbl : list (nat * nat * N);            (* pending (node, name, id), oldest first *)
  t_ctr : N;                               (* next identifier *)
  t_exp : option (nat * F * cb F)          (* callback owed by the event being executed *)
}.

Definition owed (x : tstate) (n : nat) (t : F) (c : cb F) : tstate :=
  if n <? c_nnodes cfg then mkT (t_tbl x) (t_ctr x) (Some (n, t, c)) else x.

Definition t_next (x : tstate) (it : kitem) : tstate :=
  match it with
  | KUser (TAct n (ASetTimer name ts) Ok) =>
      if has_timer cfg then mkT (t_tbl x ++ [(n, name, t_ctr x)]) (N.succ (t_ctr x)) (t_exp x) else x
  | KUser (TAct n (ACancel name) Ok) =>
      if has_timer cfg then mkT (filter (fun e => negb (pend_is n name e)) (t_tbl x)) (t_ctr x) (t_exp x) else x
  | KUser (TCb _ _ _) => mkT (t_tbl x) (t_ctr x) None
  | KExec _ ts _ (EvTimer n name id) =>
      if existsb (pend_id n name id) (t_tbl x)
      then owed (mkT (filter (fun e => negb (pend_id n name id e)) (t_tbl x)) (t_ctr x) (t_exp x)) n (pnow ts) (CbTimer name)
      else x
  | KExec _ ts _ (EvDeliver _ dst msg) => owed x dst (pnow ts) (CbPacket msg)
  | KExec _ ts _ (EvTelemetry n pos) => owed x n (pnow ts) (CbTelemetry pos)
  | _ => x
  end.

Definition t_ok (x : tstate) (it : kitem) : Prop :=
  match it with
  | KUser (TCb n t c) =>
      match c with
      | CbInit | CbFinish => t_exp x = None
      | _ => t_exp x = Some (n, t, c)
      end
  | _ => t_exp x = None
  end.

Definition t_abs h : tstate := mkT (s_pending h) (s_nextid h) None.
Definition t_inv h : Prop := length (s_ps h) = c_nnodes cfg.

Notation sound := (sound t_next t_ok).

Lemma filter_none {X : Type} (p : X -> bool) (l : list X) : existsb p l = false -> filter (fun e => negb (p e)) l = l.
Proof.
  induction l as [|a r IH]; simpl; [reflexivity|]. intros H. apply orb_false_iff in H. destruct H as [Ha Hr].
  rewrite Ha. simpl. rewrite (IH Hr). reflexivity.
Qed.

(* ---- requests ------------------------------------------------------------------------------ *)

Lemma do_action_sound h now n a :
  let '(h1, q, o) := do_action A cfg h now n a in
  t_inv h -> t_inv h1 /\ sound (t_abs h) [KUser (TAct n a o)] (t_abs h1).
Proof.
  unfold sound, TraceSpec.sound, after, t_abs, t_inv.
  destruct a as [name ts|name|msg dst|msg|msg d|p|p|sp|r|b]; simpl.
  - unfold has_timer. destruct (existsb (is_kind HTimer) (c_handlers cfg)) eqn:Eh; simpl; [|auto].
    destruct (fltb A ts now); simpl; auto.
  - unfold has_timer. destruct (existsb (is_kind HTimer) (c_handlers cfg)) eqn:Eh; simpl; auto.
  - destruct (negb (has_comm cfg)); simpl; auto.
    destruct dst as [d|]; simpl; auto.
    destruct (Nat.eqb d n); simpl; auto.
    destruct (Nat.ltb d (c_nnodes cfg)); simpl; auto.
    pose proof (transmit_reqs A cfg h now n d msg) as Ht.
    destruct (Sim.transmit A cfg h now n d msg) as [h1 q]. simpl.
    destruct Ht as (_ & T2 & T3 & _ & _ & _ & _ & T8 & _). rewrite T2, T3, T8. auto.
  - destruct (negb (has_comm cfg)); simpl; auto.
    pose proof (broadcast_reqs A cfg h now n msg (seq 0 (c_nnodes cfg))) as Ht.
    destruct (Sim.broadcast A cfg h now n msg (seq 0 (c_nnodes cfg))) as [h1 q]. simpl.
    destruct Ht as (_ & T2 & T3 & _ & _ & _ & _ & T8 & _). rewrite T2, T3, T8. auto.
  - destruct (negb (has_comm cfg)); simpl; auto.
    destruct (Nat.eqb d n); simpl; auto.
    pose proof (broadcast_reqs A cfg h now n msg (seq 0 (c_nnodes cfg))) as Ht.
    destruct (Sim.broadcast A cfg h now n msg (seq 0 (c_nnodes cfg))) as [h1 q]. simpl.
    destruct Ht as (_ & T2 & T3 & _ & _ & _ & _ & T8 & _). rewrite T2, T3, T8. auto.
  - destruct (negb (has_mob cfg)); simpl; auto.
  - destruct (negb (has_mob cfg)); simpl; auto.
  - destruct (negb (has_mob cfg)); simpl; auto.
  - destruct (fltb A r (f0 A)); simpl; auto. destruct (negb (has_comm cfg)); simpl; auto.
  - auto.
Qed.

Lemma do_actions_sound h now n acts :
  let '(h1, q, t) := do_actions A cfg h now n acts in
  t_inv h -> t_inv h1 /\ sound (t_abs h) (map (@KUser F (payload F) (titem F)) t) (t_abs h1).
Proof.
  revert h. induction acts as [|a r IH]; intros h; simpl.
  - intros Hi. split; [exact Hi|apply sound_nil].
  - pose proof (do_action_sound h now n a) as Ha.
    destruct (do_action A cfg h now n a) as [[h1 q1] o].
    specialize (IH h1). destruct (do_actions A cfg h1 now n r) as [[h2 q2] t2]. simpl.
    intros Hi. destruct (Ha Hi) as [Hi1 Hs1]. destruct (IH Hi1) as [Hi2 Hs2]. split; [exact Hi2|].
    change (KUser (TAct n a o) :: map (@KUser F (payload F) (titem F)) t2)
      with ([KUser (TAct n a o)] ++ map (@KUser F (payload F) (titem F)) t2).
    eapply sound_app; eassumption.
Qed.

(* ---- one callback ----------------------------------------------------------------------------- *)

Definition lifecycle_cb (c : cb F) : bool := match c with CbInit | CbFinish => true | _ => false end.

(** A callback on an existing node, started in a table state that owes exactly this
    callback (or nothing, for initialize / finish). *)
Lemma callback_sound h now n c x :
  t_inv h -> n < c_nnodes cfg ->
  t_tbl x = s_pending h -> t_ctr x = s_nextid h ->
  t_exp x = (if lifecycle_cb c then None else Some (n, pnow now, c)) ->
  let '(h1, q, t) := callback A cfg react h now n c in
  t_inv h1 /\ sound x (map (@KUser F (payload F) (titem F)) t) (t_abs h1).
Proof.
  intros Hi Hn Htbl Hctr Hexp. unfold Sim.callback.
  destruct (nth_error (s_ps h) n) as [ps|] eqn:En.
  2:{ apply nth_error_None in En. unfold t_inv in Hi. lia. }
  fold (pnow now). destruct (react n ps (pnow now) c) as [ps1 acts].
  pose proof (do_actions_sound (set_ps h (upd n ps1 (s_ps h))) now n acts) as Hd.
  destruct (do_actions A cfg (set_ps h (upd n ps1 (s_ps h))) now n acts) as [[h2 q] t].
  assert (Hi' : t_inv (set_ps h (upd n ps1 (s_ps h)))).
  { unfold t_inv in *. simpl. rewrite <- Hi. clear. revert n. induction (s_ps h) as [|y r IH]; intros [|m]; simpl; auto. }
  destruct (Hd Hi') as [Hi2 Hs2]. split; [exact Hi2|].
  simpl map.
  change (KUser (TCb n (pnow now) c) :: map (@KUser F (payload F) (titem F)) t)
    with ([KUser (TCb n (pnow now) c)] ++ map (@KUser F (payload F) (titem F)) t).
  eapply sound_app; [|exact Hs2].
  unfold TraceSpec.sound, after, t_abs. simpl. rewrite Htbl, Hctr. split; [|reflexivity].
  split; [|exact I]. rewrite Hexp. destruct c; reflexivity.
Qed.

Lemma callbacks_sound h now ns c :
  lifecycle_cb c = true -> t_inv h -> (forall n, In n ns -> n < c_nnodes cfg) ->
  let '(h1, q, t) := callbacks A cfg react h now ns c in
  t_inv h1 /\ sound (t_abs h) (map (@KUser F (payload F) (titem F)) t) (t_abs h1).
Proof.
  intros Hc. revert h. induction ns as [|n r IH]; intros h Hi Hns; simpl.
  - split; [exact Hi|apply sound_nil].
  - pose proof (callback_sound h now n c (t_abs h) Hi (Hns n (or_introl eq_refl)) eq_refl eq_refl) as H1.
    rewrite Hc in H1. specialize (H1 eq_refl).
    destruct (callback A cfg react h now n c) as [[h1 q1] t1]. destruct H1 as [Hi1 Hs1].
    specialize (IH h1 Hi1 (fun m Hm => Hns m (or_intror Hm))).
    destruct (callbacks A cfg react h1 now r c) as [[h2 q2] t2]. destruct IH as [Hi2 Hs2].
    split; [exact Hi2|]. rewrite map_app. eapply sound_app; eassumption.
Qed.

(* ---- the four hooks ----------------------------------------------------------------------------- *)

Lemma user_neutral (x : tstate) (l : list (titem F)) :
  t_exp x = None ->
  (forall it, In it l -> match it with TCb _ _ _ | TAct _ _ _ => False | _ => True end) ->
  sound x (map (@KUser F (payload F) (titem F)) l) x.
Proof.
  intros He. induction l as [|it r IH]; intros Hl; simpl; [apply sound_nil|].
  assert (Hr : sound x (map (@KUser F (payload F) (titem F)) r) x) by (apply IH; intros i Hi; apply Hl; right; exact Hi).
  specialize (Hl it (or_introl eq_refl)).
  destruct Hr as [Ha Hf]. unfold TraceSpec.sound, after in *.
  destruct it; try contradiction; simpl; (split; [split; [exact He|exact Ha]|exact Hf]).
Qed.

Lemma handlers_init_sound h hs :
  let '(h1, t) := handlers_init cfg h hs in
  s_pending h1 = s_pending h /\ s_nextid h1 = s_nextid h /\ s_ps h1 = s_ps h /\
  forall it, In it t -> match it with TCb _ _ _ | TAct _ _ _ => False | _ => True end.
Proof.
  revert h. induction hs as [|k r IH]; intros h; simpl; [repeat split; auto; intros ? []|].
  destruct k; try apply IH.
  - specialize (IH h). destruct (handlers_init cfg h r) as [h1 t]. destruct IH as (I1 & I2 & I3 & I4).
    repeat split; auto. intros it [<-|Hin]; [exact I|apply I4; exact Hin].
  - specialize (IH (set_astate h (map (assert_init cfg) (c_asserts cfg)))).
    destruct (handlers_init cfg (set_astate h (map (assert_init cfg) (c_asserts cfg))) r) as [h1 t]. exact IH.
Qed.

Lemma nodes_lt n : In n (nodes cfg) -> n < c_nnodes cfg.
Proof. unfold nodes. intros H. apply in_seq in H. lia. Qed.

Theorem sim_init_sound h :
  t_inv h ->
  let '(h1, reqs, items) := sim_init A cfg react h in
  t_inv h1 /\ sound (t_abs h) (map (@KUser F (payload F) (titem F)) items) (t_abs h1).
Proof.
  intros Hi. unfold sim_init. pose proof (handlers_init_sound h (c_handlers cfg)) as Hh.
  destruct (handlers_init cfg h (c_handlers cfg)) as [h1 t1]. destruct Hh as (H1 & H2 & H3 & H4).
  assert (Hi1 : t_inv h1) by (unfold t_inv in *; rewrite H3; exact Hi).
  pose proof (callbacks_sound h1 (f0 A) (nodes cfg) CbInit eq_refl Hi1 nodes_lt) as Hc.
  destruct (callbacks A cfg react h1 (f0 A) (nodes cfg) CbInit) as [[h2 q] t2]. destruct Hc as [Hi2 Hs2].
  split; [exact Hi2|]. rewrite map_app. eapply sound_app; [|exact Hs2].
  assert (t_abs h1 = t_abs h) as -> by (unfold t_abs; rewrite H1, H2; reflexivity).
  apply user_neutral; [reflexivity|exact H4].
Qed.

Lemma tick_nodes_frame h now ns :
  let '(h1, q) := tick_nodes A cfg h now ns in
  s_pending h1 = s_pending h /\ s_nextid h1 = s_nextid h /\ s_ps h1 = s_ps h.
Proof.
  revert h. induction ns as [|n r IH]; intros h; simpl; [auto|].
  match goal with |- context [tick_nodes A cfg ?hh now r] => specialize (IH hh); destruct (tick_nodes A cfg hh now r) as [h2 q] end.
  simpl in IH. exact IH.
Qed.

Theorem sim_exec_sound h ts p i sq :
  t_inv h ->
  let '(h2, reqs, items) := sim_exec A cfg react h ts p in
  t_inv h2 /\ sound (t_abs h) (KExec i ts sq p :: map (@KUser F (payload F) (titem F)) items) (t_abs h2).
Proof.
  intros Hi. destruct p as [n name id|src dst msg| |n pos]; simpl.
  - destruct (existsb (pend_id n name id) (s_pending h)) eqn:Ep.
    + destruct (n <? c_nnodes cfg) eqn:En.
      * apply Nat.ltb_lt in En.
        set (h' := set_pending h (filter (fun e => negb (pend_id n name id e)) (s_pending h))).
        assert (Hi' : t_inv h') by exact Hi.
        pose proof (callback_sound h' ts n (CbTimer name)
                      (mkT (s_pending h') (s_nextid h') (Some (n, pnow ts, CbTimer name))) Hi' En eq_refl eq_refl eq_refl) as Hc.
        destruct (callback A cfg react h' ts n (CbTimer name)) as [[h2 q] t]. destruct Hc as [Hi2 Hs2].
        split; [exact Hi2|].
        change (KExec i ts sq (EvTimer n name id) :: map (@KUser F (payload F) (titem F)) t)
          with ([KExec i ts sq (EvTimer n name id)] ++ map (@KUser F (payload F) (titem F)) t).
        eapply sound_app; [|exact Hs2].
        unfold TraceSpec.sound, after, t_abs. simpl. rewrite Ep. unfold owed.
        apply Nat.ltb_lt in En. rewrite En. simpl. auto.
      * (* a timer event for a node that does not exist: the callback finds no protocol *)
        assert (Hnone : nth_error (s_ps h) n = None).
        { apply nth_error_None. unfold t_inv in Hi. apply Nat.ltb_ge in En. lia. }
        unfold Sim.callback. simpl. rewrite Hnone. simpl.
        split; [exact Hi|]. unfold TraceSpec.sound, after, t_abs. simpl. rewrite Ep. unfold owed. rewrite En. simpl. auto.
    + split; [exact Hi|]. unfold TraceSpec.sound, after, t_abs. simpl. rewrite Ep. auto.
  - destruct (dst <? c_nnodes cfg) eqn:En.
    + apply Nat.ltb_lt in En.
      pose proof (callback_sound h ts dst (CbPacket msg)
                    (mkT (s_pending h) (s_nextid h) (Some (dst, pnow ts, CbPacket msg))) Hi En eq_refl eq_refl eq_refl) as Hc.
      destruct (callback A cfg react h ts dst (CbPacket msg)) as [[h2 q] t]. destruct Hc as [Hi2 Hs2].
      split; [exact Hi2|].
      change (KExec i ts sq (EvDeliver src dst msg) :: map (@KUser F (payload F) (titem F)) t)
        with ([KExec i ts sq (EvDeliver src dst msg)] ++ map (@KUser F (payload F) (titem F)) t).
      eapply sound_app; [|exact Hs2].
      unfold TraceSpec.sound, after, t_abs. simpl. unfold owed. apply Nat.ltb_lt in En. rewrite En. simpl. auto.
    + assert (Hnone : nth_error (s_ps h) dst = None).
      { apply nth_error_None. unfold t_inv in Hi. apply Nat.ltb_ge in En. lia. }
      unfold Sim.callback. rewrite Hnone. simpl.
      split; [exact Hi|]. unfold TraceSpec.sound, after, t_abs. simpl. unfold owed. rewrite En. auto.
  - unfold tick. pose proof (tick_nodes_frame h ts (seq 0 (c_nnodes cfg))) as Ht.
    destruct (tick_nodes A cfg h ts (seq 0 (c_nnodes cfg))) as [h1 q]. destruct Ht as (T1 & T2 & T3). simpl.
    split; [unfold t_inv in *; rewrite T3; exact Hi|].
    unfold TraceSpec.sound, after, t_abs. simpl. rewrite T1, T2. auto.
  - destruct (n <? c_nnodes cfg) eqn:En.
    + apply Nat.ltb_lt in En.
      pose proof (callback_sound h ts n (CbTelemetry pos)
                    (mkT (s_pending h) (s_nextid h) (Some (n, pnow ts, CbTelemetry pos))) Hi En eq_refl eq_refl eq_refl) as Hc.
      destruct (callback A cfg react h ts n (CbTelemetry pos)) as [[h2 q] t]. destruct Hc as [Hi2 Hs2].
      split; [exact Hi2|].
      change (KExec i ts sq (EvTelemetry n pos) :: map (@KUser F (payload F) (titem F)) t)
        with ([KExec i ts sq (EvTelemetry n pos)] ++ map (@KUser F (payload F) (titem F)) t).
      eapply sound_app; [|exact Hs2].
      unfold TraceSpec.sound, after, t_abs. simpl. unfold owed. apply Nat.ltb_lt in En. rewrite En. simpl. auto.
    + assert (Hnone : nth_error (s_ps h) n = None).
      { apply nth_error_None. unfold t_inv in Hi. apply Nat.ltb_ge in En. lia. }
      unfold Sim.callback. rewrite Hnone. simpl.
      split; [exact Hi|]. unfold TraceSpec.sound, after, t_abs. simpl. unfold owed. rewrite En. auto.
Qed.

Lemma handlers_after_sound h iter ts hs :
  let '(h1, t, raised) := handlers_after cfg h iter ts hs in
  s_pending h1 = s_pending h /\ s_nextid h1 = s_nextid h /\ s_ps h1 = s_ps h /\
  forall it, In it t -> match it with TCb _ _ _ | TAct _ _ _ => False | _ => True end.
Proof.
  revert h. induction hs as [|k r IH]; intros h; simpl; [repeat split; auto; intros ? []|].
  destruct k; try apply IH.
  - specialize (IH h). destruct (handlers_after cfg h iter ts r) as [[h1 t] raised]. destruct IH as (I1 & I2 & I3 & I4).
    repeat split; auto. intros it [<-|Hin]; [exact I|apply I4; exact Hin].
  - destruct (asserts_iter cfg h 0 (c_asserts cfg) (s_astate h)) as [sts res].
    destruct res as [idx|].
    + simpl. repeat split; auto. intros it [<-|[]]. exact I.
    + specialize (IH (set_astate h sts)). destruct (handlers_after cfg (set_astate h sts) iter ts r) as [[h1 t] raised]. exact IH.
Qed.

Theorem sim_after_sound h i ts :
  t_inv h ->
  let '(h3, aitems, raised) := sim_after cfg h i ts in
  t_inv h3 /\ sound (t_abs h) (map (@KUser F (payload F) (titem F)) aitems) (t_abs h3).
Proof.
  intros Hi. unfold sim_after. pose proof (handlers_after_sound h i ts (c_handlers cfg)) as Hh.
  destruct (handlers_after cfg h i ts (c_handlers cfg)) as [[h1 t] raised]. destruct Hh as (H1 & H2 & H3 & H4).
  split; [unfold t_inv in *; rewrite H3; exact Hi|].
  assert (t_abs h1 = t_abs h) as -> by (unfold t_abs; rewrite H1, H2; reflexivity).
  apply user_neutral; [reflexivity|exact H4].
Qed.

Lemma handlers_final_items h hs :
  forall it, In it (fst (handlers_final cfg h hs)) -> match it with TCb _ _ _ | TAct _ _ _ => False | _ => True end.
Proof.
  induction hs as [|k r IH]; simpl; [intros ? []|].
  destruct k; try exact IH.
  - destruct (handlers_final cfg h r) as [t raised]. simpl in *. intros it [<-|Hin]; [exact I|apply IH; exact Hin].
  - destruct (asserts_final 0 (c_asserts cfg) (s_astate h)) as [idx|]; [|exact IH].
    simpl. intros it [<-|[]]. exact I.
Qed.

Theorem sim_finish_sound h now :
  t_inv h ->
  let '(h1, reqs, items, raised) := sim_finish A cfg react h now in
  t_inv h1 /\ sound (t_abs h) (map (@KUser F (payload F) (titem F)) items) (t_abs h1).
Proof.
  intros Hi. unfold sim_finish.
  pose proof (callbacks_sound h now (nodes cfg) CbFinish eq_refl Hi nodes_lt) as Hc.
  destruct (callbacks A cfg react h now (nodes cfg) CbFinish) as [[h1 q] t1]. destruct Hc as [Hi1 Hs1].
  pose proof (handlers_final_items h1 (c_handlers cfg)) as Hf.
  destruct (handlers_final cfg h1 (c_handlers cfg)) as [t2 raised]. simpl in Hf.
  split; [exact Hi1|]. rewrite map_app. eapply sound_app; [exact Hs1|].
  apply user_neutral; [reflexivity|exact Hf].
Qed.

(* ---- whole runs ------------------------------------------------------------------------------------ *)

Notation hooks := (sim_hooks A cfg react).

Lemma t_sched_neutral h ts sq (p : payload F) : t_next (t_abs h) (KSched ts sq p) = t_abs h /\ t_ok (t_abs h) (KSched ts sq p).
Proof. split; reflexivity. Qed.
Lemma t_refused_neutral h ts (p : payload F) : t_next (t_abs h) (KRefused ts p) = t_abs h /\ t_ok (t_abs h) (KRefused ts p).
Proof. split; reflexivity. Qed.

Theorem run_accepted (c : kcfg F) fuel (s : kstate F (payload F) sstate) :
  t_inv (k_h s) ->
  let '(s', items, fin) := k_run A hooks c fuel s in
  accept t_next t_ok (t_abs (k_h s)) items /\ after t_next (t_abs (k_h s)) items = t_abs (k_h s').
Proof.
  intros Hi.
  pose proof (k_run_sound A hooks c t_next t_ok t_abs t_inv t_sched_neutral t_refused_neutral
                sim_init_sound sim_exec_sound sim_after_sound sim_finish_sound fuel s Hi) as H.
  destruct (k_run A hooks c fuel s) as [[s' items] fin]. exact (proj2 H).
Qed.

Theorem steps_accepted (c : kcfg F) n (s : kstate F (payload F) sstate) :
  t_inv (k_h s) ->
  let '(s', items, rs) := k_steps A hooks c n s in
  accept t_next t_ok (t_abs (k_h s)) items /\ after t_next (t_abs (k_h s)) items = t_abs (k_h s').
Proof.
  intros Hi.
  pose proof (k_steps_sound A hooks c t_next t_ok t_abs t_inv t_sched_neutral t_refused_neutral
                sim_init_sound sim_exec_sound sim_after_sound sim_finish_sound n s Hi) as H.
  destruct (k_steps A hooks c n s) as [[s' items] rs]. exact (proj2 H).
Qed.

Lemma sim_state0_inv ps0 : t_inv (sim_state0 cfg ps0).
Proof. unfold t_inv, sim_state0, nodes. simpl. rewrite map_length, seq_length. reflexivity. Qed.

(* ---- what acceptance means (facts about the acceptor alone) ------------------------------------------ *)

Definition t0 : tstate := mkT [] 0%N None.

Definition ids_below (x : tstate) : Prop := forall n name id, In (n, name, id) (t_tbl x) -> (id < t_ctr x)%N.

Lemma t_next_ctr_mono x it : (t_ctr x <= t_ctr (t_next x it))%N.
Proof.
  destruct it as [[n now c|n a o|j|j i ts|j|idx]|i ts sq p|ts p|ts sq p]; simpl; try lia.
  - destruct a; simpl; try lia; destruct o; simpl; try lia; destruct (has_timer cfg); simpl; lia.
  - destruct p; simpl; try lia; unfold owed;
    repeat match goal with |- context [if ?b then _ else _] => destruct b; simpl end; lia.
Qed.

Lemma t_next_ids_below x it : ids_below x -> ids_below (t_next x it).
Proof.
  intros Hb. unfold ids_below in *.
  destruct it as [[n now c|n a o|j|j i ts|j|idx]|i ts sq p|ts p|ts sq p]; simpl; try exact Hb.
  - destruct a; simpl; try exact Hb; destruct o; simpl; try exact Hb; destruct (has_timer cfg); simpl; try exact Hb.
    + intros n' name' id' Hin. apply in_app_or in Hin. destruct Hin as [Hin|[Heq|[]]].
      * specialize (Hb _ _ _ Hin). lia.
      * injection Heq as <- <- <-. lia.
    + intros n' name' id' Hin. apply filter_In in Hin. apply (Hb _ _ _ (proj1 Hin)).
  - destruct p as [pn pname pid|psrc pdst pmsg| |pn ppos]; simpl; try exact Hb; unfold owed.
    + destruct (existsb (pend_id pn pname pid) (t_tbl x)); [|exact Hb].
      destruct (pn <? c_nnodes cfg); simpl; intros n' name' id' Hin; apply filter_In in Hin; apply (Hb _ _ _ (proj1 Hin)).
    + destruct (pdst <? c_nnodes cfg); simpl; exact Hb.
    + destruct (pn <? c_nnodes cfg); simpl; exact Hb.
Qed.

(** Once an entry whose identifier is below the counter is absent from the table it stays absent
    for ever: a timer that fired or was cancelled can never fire (again), whatever is requested later. *)
Lemma absent_stays x it n name id :
  (id < t_ctr x)%N -> ~ In (n, name, id) (t_tbl x) -> ~ In (n, name, id) (t_tbl (t_next x it)).
Proof.
  intros Hlt Habs.
  destruct it as [[n0 now c|n0 a o|j|j i ts|j|idx]|i ts sq p|ts p|ts sq p]; simpl; try exact Habs.
  - destruct a; simpl; try exact Habs; destruct o; simpl; try exact Habs; destruct (has_timer cfg); simpl; try exact Habs.
    + intros Hin. apply in_app_or in Hin. destruct Hin as [Hin|[Heq|[]]].
      * exact (Habs Hin).
      * injection Heq as _ _ Heq. lia.
    + intros Hin. apply filter_In in Hin. exact (Habs (proj1 Hin)).
  - destruct p as [pn pname pid|psrc pdst pmsg| |pn ppos]; simpl; try exact Habs; unfold owed.
    + destruct (existsb (pend_id pn pname pid) (t_tbl x)); [|exact Habs].
      destruct (pn <? c_nnodes cfg); simpl; intros Hin; apply filter_In in Hin; exact (Habs (proj1 Hin)).
    + destruct (pdst <? c_nnodes cfg); simpl; exact Habs.
    + destruct (pn <? c_nnodes cfg); simpl; exact Habs.
Qed.

Lemma absent_for_ever tr x n name id :
  (id < t_ctr x)%N -> ~ In (n, name, id) (t_tbl x) -> ~ In (n, name, id) (t_tbl (after t_next x tr)).
Proof.
  revert x. induction tr as [|it r IH]; intros x Hlt Habs; [exact Habs|].
  unfold after. simpl. apply IH.
  - pose proof (t_next_ctr_mono x it). lia.
  - apply (absent_stays x it n name id Hlt Habs).
Qed.

(** Executing the event of a pending timer takes exactly that entry out of the table. *)
Lemma fired_is_removed x i ts sq n name id :
  ids_below x -> NoDup (map snd (t_tbl x)) ->
  existsb (pend_id n name id) (t_tbl x) = true ->
  let x' := t_next x (KExec i ts sq (EvTimer n name id)) in
  (id < t_ctr x')%N /\ forall n' name', ~ In (n', name', id) (t_tbl x').
Proof.
  intros Hb Hnd He. simpl. rewrite He. unfold owed.
  apply existsb_exists in He. destruct He as [[[n0 nm0] id0] [Hin Hp]].
  unfold pend_id in Hp. apply andb_true_iff in Hp. destruct Hp as [Hp Hid]. apply andb_true_iff in Hp. destruct Hp as [Hn Hnm].
  apply Nat.eqb_eq in Hn. apply Nat.eqb_eq in Hnm. apply N.eqb_eq in Hid. subst n0 nm0 id0.
  assert (Hlt : (id < t_ctr x)%N) by exact (Hb _ _ _ Hin).
  assert (Hgone : forall n' name', ~ In (n', name', id) (filter (fun e => negb (pend_id n name id e)) (t_tbl x))).
  { intros n' name' H. apply filter_In in H. destruct H as [Hin' Hneg].
    assert ((n', name') = (n, name)) as Heq.
    { clear Hneg Hb Hlt. induction (t_tbl x) as [|[[a b] d] r IH]; [destruct Hin|].
      simpl in Hnd. inversion Hnd as [|? ? Hnot Hnd']; subst.
      destruct Hin as [E1|Hin1], Hin' as [E2|Hin2].
      - congruence.
      - injection E1 as -> -> ->. exfalso. apply Hnot. apply in_map_iff. exists (n', name', id). auto.
      - injection E2 as -> -> ->. exfalso. apply Hnot. apply in_map_iff. exists (n, name, id). auto.
      - apply IH; assumption. }
    injection Heq as -> ->. unfold pend_id in Hneg. rewrite !Nat.eqb_refl, N.eqb_refl in Hneg. discriminate. }
  destruct (n <? c_nnodes cfg); simpl; auto.
Qed.

Lemma t_next_nodup x it : ids_below x -> NoDup (map snd (t_tbl x)) -> NoDup (map snd (t_tbl (t_next x it))).
Proof.
  intros Hb Hnd.
  assert (Hfil : forall p, NoDup (map snd (filter p (t_tbl x)))).
  { intros p. clear Hb. induction (t_tbl x) as [|e r IH]; simpl; [constructor|].
    simpl in Hnd. inversion Hnd as [|? ? Hnot Hnd']; subst. destruct (p e); simpl; [|apply IH; exact Hnd'].
    constructor; [|apply IH; exact Hnd']. intros Hin. apply Hnot. apply in_map_iff in Hin. destruct Hin as [y [Hy Hin]].
    apply filter_In in Hin. apply in_map_iff. exists y. tauto. }
  destruct it as [[n0 now c|n0 a o|j|j i ts|j|idx]|i ts sq p|ts p|ts sq p]; simpl; try exact Hnd.
  - destruct a; simpl; try exact Hnd; destruct o; simpl; try exact Hnd; destruct (has_timer cfg); simpl; try exact Hnd.
    + rewrite map_app. simpl. apply NoDup_app_one; [exact Hnd|].
      intros Hin. apply in_map_iff in Hin. destruct Hin as [[[a b] d] [Hd Hin]]. simpl in Hd. subst d.
      specialize (Hb _ _ _ Hin). lia.
    + apply Hfil.
  - destruct p as [pn pname pid|psrc pdst pmsg| |pn ppos]; simpl; try exact Hnd; unfold owed.
    + destruct (existsb (pend_id pn pname pid) (t_tbl x)); [|exact Hnd].
      destruct (pn <? c_nnodes cfg); simpl; apply Hfil.
    + destruct (pdst <? c_nnodes cfg); simpl; exact Hnd.
    + destruct (pn <? c_nnodes cfg); simpl; exact Hnd.
Qed.

Definition t_wf (x : tstate) : Prop := ids_below x /\ NoDup (map snd (t_tbl x)).

Lemma t0_wf : t_wf t0.
Proof. split; [intros ? ? ? []|constructor]. Qed.

Lemma wf_after tr x : t_wf x -> t_wf (after t_next x tr).
Proof.
  revert x. induction tr as [|it r IH]; intros x Hw; [exact Hw|].
  unfold after. simpl. apply IH. destruct Hw as [Hb Hn]. split; [apply t_next_ids_below; exact Hb|apply t_next_nodup; assumption].
Qed.

Lemma pend_id_In n name id l : existsb (pend_id n name id) l = true <-> In (n, name, id) l.
Proof.
  rewrite existsb_exists. split.
  - intros [[[a b] d] [Hin Hp]]. unfold pend_id in Hp. apply andb_true_iff in Hp. destruct Hp as [Hp Hid].
    apply andb_true_iff in Hp. destruct Hp as [Hn Hnm].
    apply Nat.eqb_eq in Hn. apply Nat.eqb_eq in Hnm. apply N.eqb_eq in Hid. subst. exact Hin.
  - intros Hin. exists (n, name, id). split; [exact Hin|]. unfold pend_id. rewrite !Nat.eqb_refl, N.eqb_refl. reflexivity.
Qed.

(** The callback an item makes the run owe, judged on the table just before the item. *)
Definition cause (x : tstate) (it : kitem) : option (nat * F * cb F) :=
  match it with
  | KExec _ ts _ (EvTimer n name id) =>
      if existsb (pend_id n name id) (t_tbl x) && (n <? c_nnodes cfg) then Some (n, pnow ts, CbTimer name) else None
  | KExec _ ts _ (EvDeliver _ dst msg) => if dst <? c_nnodes cfg then Some (dst, pnow ts, CbPacket msg) else None
  | KExec _ ts _ (EvTelemetry n pos) => if n <? c_nnodes cfg then Some (n, pnow ts, CbTelemetry pos) else None
  | _ => None
  end.

Lemma exp_after_item x it : t_ok x it -> t_exp (t_next x it) = cause x it.
Proof.
  destruct it as [[n0 now c|n0 a o|j|j i ts|j|idx]|i ts sq p|ts p|ts sq p]; simpl; intros Hok; try exact Hok; try reflexivity.
  - destruct a; simpl; try exact Hok; destruct o; simpl; try exact Hok; destruct (has_timer cfg); simpl; exact Hok.
  - destruct p as [pn pname pid|psrc pdst pmsg| |pn ppos]; simpl; unfold owed; try exact Hok.
    + destruct (existsb (pend_id pn pname pid) (t_tbl x)); simpl; [|exact Hok].
      destruct (pn <? c_nnodes cfg); simpl; [reflexivity|exact Hok].
    + destruct (pdst <? c_nnodes cfg); simpl; [reflexivity|exact Hok].
    + destruct (pn <? c_nnodes cfg); simpl; [reflexivity|exact Hok].
Qed.

(** ONLY IF: in an accepted trace, a timer / packet / telemetry callback is immediately preceded
    by the execution of the event that causes exactly this callback. *)
Theorem callback_has_cause x0 pre n t c post :
  accept t_next t_ok x0 (pre ++ KUser (TCb n t c) :: post) -> t_exp x0 = None -> lifecycle_cb c = false ->
  exists pre' e, pre = pre' ++ [e] /\ cause (after t_next x0 pre') e = Some (n, t, c).
Proof.
  intros Hacc Hx0 Hc. apply accept_app in Hacc. destruct Hacc as [Hpre [Hok _]].
  assert (Hexp : t_exp (after t_next x0 pre) = Some (n, t, c)) by (simpl in Hok; destruct c; try discriminate; exact Hok).
  revert Hpre Hexp. induction pre as [|e0 r0 _] using rev_ind; intros Hpre Hexp.
  - unfold after in Hexp. simpl in Hexp. congruence.
  - exists r0, e0. split; [reflexivity|].
    apply accept_app in Hpre. destruct Hpre as [_ [Hoke _]].
    rewrite after_app in Hexp. unfold after at 1 in Hexp. simpl in Hexp.
    rewrite (exp_after_item _ _ Hoke) in Hexp. exact Hexp.
Qed.

(** IF: the execution of an event that owes a callback is immediately followed by exactly that
    callback (or the trace stops right there with the callback still owed, which the final
    state of a run excludes). *)
Theorem cause_fires x0 pre e post n t c :
  accept t_next t_ok x0 (pre ++ e :: post) -> cause (after t_next x0 pre) e = Some (n, t, c) ->
  (post = [] /\ t_exp (after t_next x0 (pre ++ [e])) = Some (n, t, c)) \/
  exists post', post = KUser (TCb n t c) :: post'.
Proof.
  intros Hacc Hcause. apply accept_app in Hacc. destruct Hacc as [_ [Hoke Hpost]].
  pose proof (exp_after_item _ _ Hoke) as Hexp. rewrite Hcause in Hexp.
  destruct post as [|it r].
  - left. split; [reflexivity|]. rewrite after_app. exact Hexp.
  - right. destruct Hpost as [Hokit _].
    destruct it as [[n0 now c0|n0 a o|j|j i ts|j|idx]|i ts sq p|ts p|ts sq p]; simpl in Hokit; try congruence.
    destruct c0; try congruence; rewrite Hexp in Hokit; injection Hokit as -> -> ->; eexists; reflexivity.
Qed.

(** AT MOST ONCE: after the event of a pending timer has been executed, no later event carrying
    the same identifier ever finds it pending. *)
Theorem fired_never_again x0 pre i ts sq n name id mid n' name' :
  t_wf x0 -> existsb (pend_id n name id) (t_tbl (after t_next x0 pre)) = true ->
  existsb (pend_id n' name' id) (t_tbl (after t_next x0 (pre ++ KExec i ts sq (EvTimer n name id) :: mid))) = false.
Proof.
  intros Hw He. pose proof (wf_after pre x0 Hw) as [Hb Hn].
  destruct (fired_is_removed _ i ts sq n name id Hb Hn He) as [Hlt Habs].
  rewrite after_app. unfold after at 1. simpl fold_left. fold (after t_next (t_next (after t_next x0 pre) (KExec i ts sq (EvTimer n name id))) mid).
  destruct (existsb (pend_id n' name' id) _) eqn:E; [|reflexivity].
  apply pend_id_In in E. exfalso. revert E. apply absent_for_ever; [exact Hlt|apply Habs].
Qed.

(** CANCELLED: once (node, name) has been cancelled, no timer of that node and name that was set
    before the cancellation ever fires. *)
Theorem cancelled_never_fires x0 pre n name mid id :
  has_timer cfg = true -> (id < t_ctr (after t_next x0 pre))%N ->
  existsb (pend_id n name id) (t_tbl (after t_next x0 (pre ++ KUser (TAct n (ACancel name) Ok) :: mid))) = false.
Proof.
  intros Ht Hlt. rewrite after_app. unfold after at 1. simpl fold_left. rewrite Ht.
  match goal with |- context [fold_left t_next mid ?y] => fold (after t_next y mid); set (x1 := y) end.
  destruct (existsb (pend_id n name id) _) eqn:E; [|reflexivity].
  apply pend_id_In in E. exfalso. revert E. apply absent_for_ever; [exact Hlt|].
  unfold x1. simpl. intros Hin. apply filter_In in Hin. destruct Hin as [_ Hneg].
  unfold pend_is in Hneg. rewrite !Nat.eqb_refl in Hneg. discriminate.
Qed.

Theorem timer_callback_has_cause x0 pre n t name post :
  accept t_next t_ok x0 (pre ++ KUser (TCb n t (CbTimer name)) :: post) -> t_exp x0 = None ->
  exists pre' i ts sq id, pre = pre' ++ [KExec i ts sq (EvTimer n name id)] /\ t = pnow ts /\
                          In (n, name, id) (t_tbl (after t_next x0 pre')).
Proof.
  intros Hacc Hx0. destruct (callback_has_cause x0 pre n t (CbTimer name) post Hacc Hx0 eq_refl) as (pre' & e & -> & Hc).
  destruct e as [u|i ts sq p|ts p|ts sq p]; try discriminate.
  destruct p as [pn pname pid|psrc pdst pmsg| |pn ppos]; simpl in Hc; try discriminate.
  - destruct (existsb (pend_id pn pname pid) (t_tbl (after t_next x0 pre'))) eqn:E; simpl in Hc; [|discriminate].
    destruct (pn <? c_nnodes cfg); [|discriminate]. injection Hc as H1 H2 H3; subst.
    exists pre', i, ts, sq, pid. repeat split. apply pend_id_In. exact E.
  - destruct (pdst <? c_nnodes cfg); discriminate.
  - destruct (pn <? c_nnodes cfg); discriminate.
Qed.

Theorem packet_callback_has_cause x0 pre n t msg post :
  accept t_next t_ok x0 (pre ++ KUser (TCb n t (CbPacket msg)) :: post) -> t_exp x0 = None ->
  exists pre' i ts sq src, pre = pre' ++ [KExec i ts sq (EvDeliver src n msg)] /\ t = pnow ts.
Proof.
  intros Hacc Hx0. destruct (callback_has_cause x0 pre n t (CbPacket msg) post Hacc Hx0 eq_refl) as (pre' & e & -> & Hc).
  destruct e as [u|i ts sq p|ts p|ts sq p]; try discriminate.
  destruct p as [pn pname pid|psrc pdst pmsg| |pn ppos]; simpl in Hc; try discriminate.
  - destruct (existsb (pend_id pn pname pid) (t_tbl (after t_next x0 pre')) && (pn <? c_nnodes cfg)); discriminate.
  - destruct (pdst <? c_nnodes cfg); [|discriminate]. injection Hc as H1 H2 H3; subst.
    exists pre', i, ts, sq, psrc. split; reflexivity.
  - destruct (pn <? c_nnodes cfg); discriminate.
Qed.

Theorem telemetry_callback_has_cause x0 pre n t pos post :
  accept t_next t_ok x0 (pre ++ KUser (TCb n t (CbTelemetry pos)) :: post) -> t_exp x0 = None ->
  exists pre' i ts sq, pre = pre' ++ [KExec i ts sq (EvTelemetry n pos)] /\ t = pnow ts.
Proof.
  intros Hacc Hx0. destruct (callback_has_cause x0 pre n t (CbTelemetry pos) post Hacc Hx0 eq_refl) as (pre' & e & -> & Hc).
  destruct e as [u|i ts sq p|ts p|ts sq p]; try discriminate.
  destruct p as [pn pname pid|psrc pdst pmsg| |pn ppos]; simpl in Hc; try discriminate.
  - destruct (existsb (pend_id pn pname pid) (t_tbl (after t_next x0 pre')) && (pn <? c_nnodes cfg)); discriminate.
  - destruct (pdst <? c_nnodes cfg); discriminate.
  - destruct (pn <? c_nnodes cfg); [|discriminate]. injection Hc as H1 H2 H3; subst.
    exists pre', i, ts, sq. split; reflexivity.
Qed.

(* ---- manual driving with requests from outside the callbacks ------------------------------------------ *)

Lemma sim_external_sound (s : kstate F (payload F) sstate) n acts :
  t_inv (k_h s) ->
  let '(s1, it) := sim_external A cfg s n acts in
  t_inv (k_h s1) /\ sound (t_abs (k_h s)) it (t_abs (k_h s1)).
Proof.
  intros Hi. unfold sim_external.
  pose proof (do_actions_sound (k_h s) (el_now (k_el s)) n acts) as Hd.
  destruct (do_actions A cfg (k_h s) (el_now (k_el s)) n acts) as [[h1 q] t].
  destruct (Hd Hi) as [Hi1 Hs1].
  pose proof (sched_all_sound A t_next t_ok t_abs t_sched_neutral t_refused_neutral (k_el s) q h1) as Hr.
  destruct (sched_all A (k_el s) q) as [l1 ref]. simpl in *. split; [exact Hi1|].
  eapply sound_app; eassumption.
Qed.

(** Any interleaving of step_simulation() calls and external requests, any bounds. *)
Theorem drive_accepted (c : kcfg F) ops (s : kstate F (payload F) sstate) :
  t_inv (k_h s) ->
  let '(s', items) := sim_drive A cfg react c ops s in
  t_inv (k_h s') /\ sound (t_abs (k_h s)) items (t_abs (k_h s')).
Proof.
  revert s. induction ops as [|o r IH]; intros s Hi; simpl; [split; [exact Hi|apply sound_nil]|].
  assert (H1 : let '(s1, it, _) := sim_drive1 A cfg react c s o in
               t_inv (k_h s1) /\ sound (t_abs (k_h s)) it (t_abs (k_h s1))).
  { destruct o as [|n acts]; simpl.
    - pose proof (k_step_sound A hooks c t_next t_ok t_abs t_inv t_sched_neutral t_refused_neutral
                    sim_init_sound sim_exec_sound sim_after_sound sim_finish_sound s Hi) as Hs.
      destruct (k_step A hooks c s) as [[s1 it] b]. exact Hs.
    - pose proof (sim_external_sound s n acts Hi) as He. destruct (sim_external A cfg s n acts) as [s1 it]. exact He. }
  destruct (sim_drive1 A cfg react c s o) as [[s1 it] rb]. destruct H1 as [Hi1 Hs1].
  specialize (IH s1 Hi1). destruct (sim_drive A cfg react c r s1) as [s2 its]. destruct IH as [Hi2 Hs2].
  split; [exact Hi2|]. eapply sound_app; eassumption.
Qed.

Theorem whole_drive_accepted (c : kcfg F) ops ps0 :
  let '(s0, i0) := sim_start A cfg ps0 in
  let '(s', items) := sim_drive A cfg react c ops s0 in
  accept t_next t_ok t0 (i0 ++ items) /\
  after t_next t0 (i0 ++ items) = mkT (s_pending (k_h s')) (s_nextid (k_h s')) None.
Proof.
  unfold sim_start.
  pose proof (k_start_sound A t_next t_ok t_abs t_sched_neutral t_refused_neutral (sim_state0 cfg ps0) (sim_reqs0 A cfg)) as H0.
  assert (Hh : k_h (fst (k_start A (T:=titem F) (sim_state0 cfg ps0) (sim_reqs0 A cfg))) = sim_state0 cfg ps0).
  { unfold k_start. destruct (sched_all A (el_init A) (sim_reqs0 A cfg)). reflexivity. }
  destruct (k_start A (T:=titem F) (sim_state0 cfg ps0) (sim_reqs0 A cfg)) as [s0 i0]. simpl in Hh, H0.
  pose proof (drive_accepted c ops s0) as Hr. rewrite Hh in Hr. specialize (Hr (sim_state0_inv ps0)).
  destruct (sim_drive A cfg react c ops s0) as [s' items]. destruct Hr as [_ [Ha Hf]].
  assert (Ht0 : t_abs (sim_state0 cfg ps0) = t0) by reflexivity. rewrite Ht0 in *.
  destruct H0 as [Ha0 Hf0]. split.
  - apply accept_app. rewrite Hf0. split; assumption.
  - rewrite after_app, Hf0. exact Hf.
Qed.

(** Whole runs from the state SimulationBuilder.build() leaves, start-up requests included. *)
Theorem whole_run_accepted (c : kcfg F) fuel ps0 :
  let '(s0, i0) := sim_start A cfg ps0 in
  let '(s', items, fin) := k_run A hooks c fuel s0 in
  accept t_next t_ok t0 (i0 ++ items) /\
  after t_next t0 (i0 ++ items) = mkT (s_pending (k_h s')) (s_nextid (k_h s')) None.
Proof.
  unfold sim_start.
  pose proof (k_start_sound A t_next t_ok t_abs t_sched_neutral t_refused_neutral (sim_state0 cfg ps0) (sim_reqs0 A cfg)) as H0.
  assert (Hh : k_h (fst (k_start A (T:=titem F) (sim_state0 cfg ps0) (sim_reqs0 A cfg))) = sim_state0 cfg ps0).
  { unfold k_start. destruct (sched_all A (el_init A) (sim_reqs0 A cfg)). reflexivity. }
  destruct (k_start A (T:=titem F) (sim_state0 cfg ps0) (sim_reqs0 A cfg)) as [s0 i0]. simpl in Hh, H0.
  pose proof (run_accepted c fuel s0) as Hr. rewrite Hh in Hr. specialize (Hr (sim_state0_inv ps0)).
  destruct (k_run A hooks c fuel s0) as [[s' items] fin].
  assert (Ht0 : t_abs (sim_state0 cfg ps0) = t0) by reflexivity. rewrite Ht0 in *.
  destruct H0 as [Ha0 Hf0]. destruct Hr as [Ha Hf]. split.
  - apply accept_app. rewrite Hf0. split; assumption.
  - rewrite after_app, Hf0. exact Hf.
Qed.

End TimerSpec.
