(** The heap condition is kept by [heappush] (CPython's [_siftdown] from the last cell to the root). *)
From Coq Require Import List Arith Bool Lia Permutation.
Import ListNotations.
From GS Require Import Heap.
From GS.Proofs Require Import HeapP.

Section HeapInv.
Context {E : Type} (lt : E -> E -> bool).
Hypothesis lt_asym : forall a b, lt a b = true -> lt b a = false.
Hypothesis nlt_trans : forall a b c, lt b a = false -> lt c b = false -> lt c a = false.
Implicit Types (h l : list E) (x : E).

Lemma get_upd_eq i x l a : nth_error (upd i x l) i = Some a -> a = x.
Proof.
  revert i; induction l as [|y r IH]; intros [|j]; simpl; intro H; try discriminate.
  - congruence.
  - eauto.
Qed.

Lemma get_upd_ne i x l j : j <> i -> nth_error (upd i x l) j = nth_error l j.
Proof.
  revert i j; induction l as [|y r IH]; intros [|i] [|j] H; simpl; try reflexivity; try lia.
  apply IH; lia.
Qed.

Lemma child_bounds c p : 0 < c -> (c - 1) / 2 = p -> 2 * p + 1 <= c <= 2 * p + 2.
Proof.
  intros Hc Hp. pose proof (Nat.div_mod (c - 1) 2 ltac:(lia)) as H.
  pose proof (Nat.mod_upper_bound (c - 1) 2 ltac:(lia)). rewrite Hp in H. lia.
Qed.

Notation par i := ((i - 1) / 2).

(** the array with a hole at [pos] that [x] is going to fill *)
Record hole_heap h pos x : Prop := {
  hh_other : forall i a p, 0 < i -> i <> pos -> par i <> pos ->
             nth_error h i = Some a -> nth_error h (par i) = Some p -> lt a p = false;
  hh_grand : forall c a g, 0 < pos -> 0 < c -> par c = pos ->
             nth_error h c = Some a -> nth_error h (par pos) = Some g -> lt a g = false;
  hh_child : forall c a, 0 < c -> par c = pos -> nth_error h c = Some a -> lt a x = false }.

Lemma place_inv h pos x :
  hole_heap h pos x ->
  (pos = 0 \/ exists p, nth_error h (par pos) = Some p /\ lt x p = false) ->
  heap_inv lt (upd pos x h).
Proof.
  intros [HA HB HC] Hpar i a p Hi Ha Hp.
  destruct (Nat.eq_dec i pos) as [->|Hne].
  - apply get_upd_eq in Ha. subst a.
    assert (Hlt : par pos < pos) by (apply parent_lt; exact Hi).
    rewrite get_upd_ne in Hp by lia.
    destruct Hpar as [->|(p' & Hp' & Hx)]; [lia|]. congruence.
  - rewrite get_upd_ne in Ha by exact Hne.
    destruct (Nat.eq_dec (par i) pos) as [Hpe|Hpne].
    + rewrite Hpe in Hp. apply get_upd_eq in Hp. subst p. eapply HC; eauto.
    + rewrite get_upd_ne in Hp by exact Hpne. eapply HA; eauto.
Qed.

Lemma step_inv h pos x p :
  hole_heap h pos x -> 0 < pos ->
  nth_error h (par pos) = Some p -> lt x p = true ->
  hole_heap (upd pos p h) (par pos) x.
Proof.
  intros [HA HB HC] Hpos Hp Hx.
  assert (Hlt : par pos < pos) by (apply parent_lt; exact Hpos).
  assert (Hpx : lt p x = false) by (apply lt_asym; exact Hx).
  split.
  - intros i a q Hi Hne Hpne Ha Hq.
    assert (i <> pos) by (intros ->; apply Hpne; reflexivity).
    rewrite get_upd_ne in Ha by assumption.
    destruct (Nat.eq_dec (par i) pos) as [Hpe|Hpn].
    + rewrite Hpe in Hq. apply get_upd_eq in Hq. subst q. eapply HB; eauto.
    + rewrite get_upd_ne in Hq by assumption. eapply HA; eauto.
  - intros c a g Hpp Hc Hpc Ha Hg.
    assert (Hlt2 : par (par pos) < par pos) by (apply parent_lt; exact Hpp).
    rewrite get_upd_ne in Hg by lia.
    assert (Hpg : lt p g = false) by (apply (HA (par pos) p g); auto; lia).
    destruct (Nat.eq_dec c pos) as [->|Hcn].
    + apply get_upd_eq in Ha. subst a. exact Hpg.
    + rewrite get_upd_ne in Ha by assumption.
      apply nlt_trans with (b := p); [exact Hpg|].
      apply (HA c a p); auto; try lia. rewrite Hpc. exact Hp.
  - intros c a Hc Hpc Ha.
    destruct (Nat.eq_dec c pos) as [->|Hcn].
    + apply get_upd_eq in Ha. subst a. exact Hpx.
    + rewrite get_upd_ne in Ha by assumption.
      apply nlt_trans with (b := p); [exact Hpx|].
      apply (HA c a p); auto; try lia. rewrite Hpc. exact Hp.
Qed.

Lemma siftdown_inv fuel : forall h pos x,
  pos < fuel -> pos < length h -> hole_heap h pos x ->
  heap_inv lt (siftdown lt fuel h 0 pos x).
Proof.
  induction fuel as [|f IH]; intros h pos x Hf Hlen HH; [lia|]. cbn [siftdown].
  destruct (0 <? pos) eqn:E0.
  - apply Nat.ltb_lt in E0.
    assert (Hlt : par pos < pos) by (apply parent_lt; exact E0).
    destruct (nth_error h (par pos)) as [p|] eqn:Ep.
    2:{ apply nth_error_None in Ep. lia. }
    rewrite (nth_error_nth h (par pos) x Ep).
    destruct (lt x p) eqn:Ex.
    + apply IH; [lia|rewrite upd_length; lia|]. apply step_inv; assumption.
    + apply place_inv; [exact HH|]. right. exists p. split; assumption.
  - apply Nat.ltb_ge in E0. apply place_inv; [exact HH|]. left; lia.
Qed.

(** heappush keeps the heap condition, for every array and every item *)
Theorem heappush_inv h x : heap_inv lt h -> heap_inv lt (heappush lt h x).
Proof.
  intro Hinv. unfold heappush. apply siftdown_inv; [lia|rewrite app_length; simpl; lia|].
  split.
  - intros i a p Hi Hne Hpne Ha Hp.
    assert (Hil : i < length (h ++ [x])) by (apply nth_error_Some; congruence).
    rewrite app_length in Hil; simpl in Hil.
    assert (Hlt : par i < i) by (apply parent_lt; exact Hi).
    rewrite nth_error_app1 in Ha, Hp by lia. eapply Hinv; eauto.
  - intros c a g _ Hc Hpc Ha _.
    assert (Hcl : c < length (h ++ [x])) by (apply nth_error_Some; congruence).
    rewrite app_length in Hcl; simpl in Hcl.
    pose proof (child_bounds c _ Hc Hpc). lia.
  - intros c a Hc Hpc Ha.
    assert (Hcl : c < length (h ++ [x])) by (apply nth_error_Some; congruence).
    rewrite app_length in Hcl; simpl in Hcl.
    pose proof (child_bounds c _ Hc Hpc). lia.
Qed.

End HeapInv.
