(** * The time every callback reports, over whole runs (C01)

    The acceptor keeps one value, the time of the event being executed (0 before the first one).
    Every callback of a run -- initialize, timer, packet, telemetry, finish -- reports to its protocol
    exactly the provider's reading of that value (the value itself with a timer handler, else 0).
    Since events are executed in non-decreasing time order (kernel), the reported times never
    decrease from one callback to the next. *)
From Coq Require Import List Arith NArith Bool Lia.
Import ListNotations.
From GS Require Import Num EventLoop Kernel Geo Sim.
From GS.Proofs Require Import Aux EventLoopP KernelP SimP TraceSpec TraceSpecQ.

Section ClockSpec.
Context {F : Type} (A : ArithOps F) (OL : OrderLaws A) {PS : Type}.
Variable cfg : scfg F.
Variable react : nat -> PS -> F -> cb F -> PS * list (action F).
Variable c : kcfg F.

Notation sstate := (sstate F PS).
Notation kitem := (kitem F (payload F) (titem F)).
Notation hk := (sim_hooks A cfg react).
Notation pnow := (pnow A cfg).
Implicit Types (h : sstate).

Definition c_next (cur : F) (it : kitem) : F := match it with KExec _ ts _ _ => ts | _ => cur end.
Definition c_ok (cur : F) (it : kitem) : Prop := match it with KUser (TCb _ t _) => t = pnow cur | _ => True end.
Definition c_abs (now : F) h : F := now.
Definition c_owe (cur : F) (q : list (F * payload F)) : F := cur.

Notation sound := (sound c_next c_ok).

Lemma acts_clock cur n (t : list (titem F)) :
  (forall it, In it t -> exists a o, it = TAct n a o) -> sound cur (map (@KUser F (payload F) (titem F)) t) cur.
Proof.
  induction t as [|it r IH]; intros H; simpl; [apply sound_nil|].
  destruct (H it (or_introl eq_refl)) as (a & o & ->).
  destruct (IH (fun i Hi => H i (or_intror Hi))) as [Ha Hf]. split; [split; [exact I|exact Ha]|exact Hf].
Qed.

Lemma callback_clock h now n cbk :
  sound now (map (@KUser F (payload F) (titem F)) (snd (callback A cfg react h now n cbk))) now.
Proof.
  pose proof (callback_items A cfg react h now n cbk) as Hi. simpl in Hi.
  destruct Hi as [->|(acts & -> & Hacts)]; [apply sound_nil|].
  simpl. destruct (acts_clock now n acts Hacts) as [Ha Hf]. split; [split; [reflexivity|exact Ha]|exact Hf].
Qed.

Lemma callbacks_clock h now ns cbk :
  sound now (map (@KUser F (payload F) (titem F)) (snd (callbacks A cfg react h now ns cbk))) now.
Proof.
  revert h. induction ns as [|n r IH]; intros h; simpl; [apply sound_nil|].
  pose proof (callback_clock h now n cbk) as Hc. destruct (callback A cfg react h now n cbk) as [[h1 q1] t1].
  specialize (IH h1). destruct (callbacks A cfg react h1 now r cbk) as [[h2 q2] t2]. simpl in *.
  rewrite map_app. eapply sound_app; eassumption.
Qed.

Lemma plain_clock cur (l : list (titem F)) :
  (forall it, In it l -> match it with TCb _ _ _ => False | _ => True end) ->
  sound cur (map (@KUser F (payload F) (titem F)) l) cur.
Proof.
  induction l as [|it r IH]; intros Hl; simpl; [apply sound_nil|].
  destruct (IH (fun i Hi => Hl i (or_intror Hi))) as [Ha Hf]. specialize (Hl it (or_introl eq_refl)).
  destruct it; try contradiction; (split; [split; [exact I|exact Ha]|exact Hf]).
Qed.

Lemma handlers_init_clock h hs :
  forall it, In it (snd (handlers_init cfg h hs)) -> match it with TCb _ _ _ => False | _ => True end.
Proof.
  revert h. induction hs as [|k r IH]; intros h; simpl; [intros ? []|].
  destruct k; try apply IH.
  specialize (IH h). destruct (handlers_init cfg h r) as [h1 t]. simpl in *. intros it [<-|Hin]; [exact I|apply IH; exact Hin].
Qed.

Lemma handlers_after_clock h i ts hs :
  forall it, In it (snd (fst (handlers_after cfg h i ts hs))) -> match it with TCb _ _ _ => False | _ => True end.
Proof.
  revert h. induction hs as [|k r IH]; intros h; simpl; [intros ? []|].
  destruct k; try apply IH.
  - specialize (IH h). destruct (handlers_after cfg h i ts r) as [[h1 t] raised]. simpl in *. intros it [<-|Hin]; [exact I|apply IH; exact Hin].
  - destruct (asserts_iter cfg h 0 (c_asserts cfg) (s_astate h)) as [sts res]. destruct res as [idx|].
    + simpl. intros it [<-|[]]. exact I.
    + specialize (IH (set_astate h sts)). destruct (handlers_after cfg (set_astate h sts) i ts r) as [[h1 t] raised]. exact IH.
Qed.

Lemma handlers_final_clock h hs :
  forall it, In it (fst (handlers_final cfg h hs)) -> match it with TCb _ _ _ => False | _ => True end.
Proof.
  induction hs as [|k r IH]; simpl; [intros ? []|].
  destruct k; try exact IH.
  - destruct (handlers_final cfg h r) as [t raised]. simpl in *. intros it [<-|Hin]; [exact I|apply IH; exact Hin].
  - destruct (asserts_final 0 (c_asserts cfg) (s_astate h)) as [idx|]; [|exact IH]. simpl. intros it [<-|[]]. exact I.
Qed.

Definition c_inv h : Prop := True.

Lemma init_clock h : c_inv h ->
  let '(h1, q, items) := sim_init A cfg react h in
  c_inv h1 /\ sound (c_abs (f0 A) h) (map (@KUser F (payload F) (titem F)) items) (c_owe (c_abs (f0 A) h1) q).
Proof.
  intros _. unfold sim_init. pose proof (handlers_init_clock h (c_handlers cfg)) as Hh.
  destruct (handlers_init cfg h (c_handlers cfg)) as [h1 t1]. simpl in Hh.
  pose proof (callbacks_clock h1 (f0 A) (nodes cfg) CbInit) as Hc.
  destruct (callbacks A cfg react h1 (f0 A) (nodes cfg) CbInit) as [[h2 q] t2]. simpl in Hc.
  split; [exact I|]. rewrite map_app. eapply sound_app; [apply plain_clock; exact Hh|exact Hc].
Qed.

Lemma exec_clock h now0 ts p i sq : c_inv h ->
  let '(h2, q, items) := sim_exec A cfg react h ts p in
  c_inv h2 /\ sound (c_abs now0 h) (KExec i ts sq p :: map (@KUser F (payload F) (titem F)) items) (c_owe (c_abs ts h2) q).
Proof.
  intros _.
  assert (Hk : forall (l : list (titem F)), sound ts (map (@KUser F (payload F) (titem F)) l) ts ->
               sound (c_abs now0 h) (KExec i ts sq p :: map (@KUser F (payload F) (titem F)) l) ts).
  { intros l [Ha Hf]. split; [split; [exact I|exact Ha]|exact Hf]. }
  destruct p as [n name id|src dst msg| |n pos]; simpl.
  - destruct (existsb (pend_id n name id) (s_pending h)).
    + pose proof (callback_clock (set_pending h (filter (fun e => negb (pend_id n name id e)) (s_pending h))) ts n (CbTimer name)) as Hc.
      destruct (callback A cfg react _ ts n (CbTimer name)) as [[h2 q] t]. split; [exact I|apply Hk; exact Hc].
    + split; [exact I|apply (Hk []); apply sound_nil].
  - pose proof (callback_clock h ts dst (CbPacket msg)) as Hc.
    destruct (callback A cfg react h ts dst (CbPacket msg)) as [[h2 q] t]. split; [exact I|apply Hk; exact Hc].
  - destruct (tick A cfg h ts) as [h1 q]. split; [exact I|apply (Hk []); apply sound_nil].
  - pose proof (callback_clock h ts n (CbTelemetry pos)) as Hc.
    destruct (callback A cfg react h ts n (CbTelemetry pos)) as [[h2 q] t]. split; [exact I|apply Hk; exact Hc].
Qed.

Lemma after_clock h now i : c_inv h ->
  let '(h3, aitems, raised) := sim_after cfg h i now in
  c_inv h3 /\ sound (c_abs now h) (map (@KUser F (payload F) (titem F)) aitems) (c_abs now h3).
Proof.
  intros _. unfold sim_after. pose proof (handlers_after_clock h i now (c_handlers cfg)) as Hh.
  destruct (handlers_after cfg h i now (c_handlers cfg)) as [[h1 t] raised]. simpl in Hh.
  split; [exact I|apply plain_clock; exact Hh].
Qed.

Lemma finish_clock h now : c_inv h ->
  let '(h1, q, items, raised) := sim_finish A cfg react h now in
  c_inv h1 /\ sound (c_abs now h) (map (@KUser F (payload F) (titem F)) items) (c_owe (c_abs now h1) q).
Proof.
  intros _. unfold sim_finish. pose proof (callbacks_clock h now (nodes cfg) CbFinish) as Hc.
  destruct (callbacks A cfg react h now (nodes cfg) CbFinish) as [[h1 q] t1]. simpl in Hc.
  pose proof (handlers_final_clock h1 (c_handlers cfg)) as Hf.
  destruct (handlers_final cfg h1 (c_handlers cfg)) as [t2 raised]. simpl in Hf.
  split; [exact I|]. rewrite map_app. eapply sound_app; [exact Hc|apply plain_clock; exact Hf].
Qed.

(** Whole runs: every callback reports the provider's reading of the time of the event being executed. *)
Theorem whole_run_clock fuel ps0 :
  let '(s0, i0) := sim_start A cfg ps0 in
  let '(s', items, fin) := k_run A hk c fuel s0 in
  accept c_next c_ok (f0 A) (i0 ++ items).
Proof.
  unfold sim_start.
  assert (Hown : forall now (h : sstate), c_owe (c_abs now h) [] = c_abs now h) by reflexivity.
  assert (Hsc : forall now (h : sstate) ts (p : payload F) r sq,
            c_next (c_owe (c_abs now h) ((ts, p) :: r)) (KSched ts sq p) = c_owe (c_abs now h) r /\
            c_ok (c_owe (c_abs now h) ((ts, p) :: r)) (KSched (T:=titem F) ts sq p)) by (intros; split; [reflexivity|exact I]).
  assert (Hrf : forall now (h : sstate) ts (p : payload F) r,
            c_next (c_owe (c_abs now h) ((ts, p) :: r)) (KRefused ts p) = c_owe (c_abs now h) r /\
            c_ok (c_owe (c_abs now h) ((ts, p) :: r)) (KRefused (T:=titem F) ts p)) by (intros; split; [reflexivity|exact I]).
  pose proof (TraceSpecQ.k_start_sound A c_next c_ok c_abs c_owe Hown Hsc Hrf (sim_state0 cfg ps0) (sim_reqs0 A cfg)) as H0.
  assert (Hst : let s0 := fst (k_start A (T:=titem F) (sim_state0 cfg ps0) (sim_reqs0 A cfg)) in
                k_inited s0 = false /\ el_now (k_el s0) = f0 A).
  { unfold k_start. pose proof (sched_all_clock A (T:=titem F) (el_init A) (sim_reqs0 A cfg)) as Hc.
    destruct (sched_all A (el_init A) (sim_reqs0 A cfg)) as [l its]. simpl in *. auto. }
  destruct (k_start A (T:=titem F) (sim_state0 cfg ps0) (sim_reqs0 A cfg)) as [s0 i0]. simpl in Hst, H0.
  destruct Hst as (Hin & Hclk).
  pose proof (TraceSpecQ.k_run_sound A hk c c_next c_ok c_abs c_owe c_inv Hown Hsc Hrf
                init_clock exec_clock after_clock finish_clock fuel s0 I (fun _ => Hclk)) as Hr.
  destruct (k_run A hk c fuel s0) as [[s' items] fin]. destruct Hr as [_ [Ha Hf]].
  destruct H0 as [Ha0 Hf0]. unfold K, c_abs, c_owe in *. apply accept_app. rewrite Hf0. split; assumption.
Qed.

(* ---- hence the reported times never decrease ------------------------------------------------------------------------------ *)

Definition cb_time (it : kitem) : list F := match it with KUser (TCb _ t _) => [t] | _ => [] end.
Definition cb_times (tr : list kitem) : list F := flat_map cb_time tr.

Lemma pnow_mono a b : fleb A a b = true -> fleb A (pnow a) (pnow b) = true.
Proof. unfold SimP.pnow. destruct (has_timer cfg); [auto|intros _; apply (leb_refl A OL)]. Qed.

Lemma times_sorted tr : forall cur,
  accept c_next c_ok cur tr -> sorted_from (fleb A) cur (exec_ts tr) -> sorted_from (fleb A) (pnow cur) (cb_times tr).
Proof.
  induction tr as [|it r IH]; intros cur Hacc Hs; [exact I|].
  destruct Hacc as [Hok Hacc].
  destruct it as [[n t cbk|n a o|j|j i ts|j|idx]|i ts sq p|ts p|ts sq p]; simpl in *;
    try (apply IH; assumption).
  - subst t. split; [apply (leb_refl A OL)|]. apply IH; assumption.
  - unfold exec_ts in Hs. simpl in Hs. destruct Hs as [Hle Hs].
    eapply (sorted_from_weaken (fleb A) (leb_trans A OL)); [apply pnow_mono; exact Hle|]. apply IH; assumption.
Qed.

Theorem whole_run_times_never_decrease fuel ps0 :
  let '(s0, i0) := sim_start A cfg ps0 in
  let '(s', items, fin) := k_run A hk c fuel s0 in
  sorted_from (fleb A) (pnow (f0 A)) (cb_times items).
Proof.
  pose proof (whole_run_clock fuel ps0) as Hc. unfold sim_start in *.
  pose proof (k_start_inv A OL (T:=titem F) (sim_state0 cfg ps0) (sim_reqs0 A cfg)) as Hinv.
  assert (Hst : let s0 := fst (k_start A (T:=titem F) (sim_state0 cfg ps0) (sim_reqs0 A cfg)) in
                el_now (k_el s0) = f0 A /\ after c_next (f0 A) (snd (k_start A (T:=titem F) (sim_state0 cfg ps0) (sim_reqs0 A cfg))) = f0 A).
  { unfold k_start. pose proof (sched_all_clock A (T:=titem F) (el_init A) (sim_reqs0 A cfg)) as Hk.
    pose proof (sched_all_only_refused A (T:=titem F) (el_init A) (sim_reqs0 A cfg)) as Hr.
    destruct (sched_all A (el_init A) (sim_reqs0 A cfg)) as [l its]. simpl in *. split; [exact Hk|].
    clear Hk. induction its as [|it r IHr]; [reflexivity|]. unfold after in *. simpl.
    destruct (Hr it (or_introl eq_refl)) as [(ts & p & ->)|(ts & sq & p & ->)]; simpl; apply IHr; intros it' Hin; apply Hr; right; exact Hin. }
  destruct (k_start A (T:=titem F) (sim_state0 cfg ps0) (sim_reqs0 A cfg)) as [s0 i0]. simpl in Hinv, Hst. destruct Hst as [Hclk Haft0].
  pose proof (k_run_props A OL hk c fuel s0 Hinv) as Hp.
  destruct (k_run A hk c fuel s0) as [[s' items] fin]. destruct Hp as (_ & Hsorted & _).
  apply accept_app in Hc. destruct Hc as [_ Hc]. rewrite Haft0 in Hc. rewrite Hclk in Hsorted.
  apply times_sorted; assumption.
Qed.

End ClockSpec.
