(** * The mobility updates of a whole run form one chain (C12)

    Over any run -- any protocol, any bounds, any fuel -- the mobility updates that are executed
    happen at  0 + i,  (0 + i) + i,  ((0 + i) + i) + i, ...  for the update interval i (repeated
    floating-point addition, exactly as the code computes it): the first one is due one interval
    after the start, each schedules the next one interval after itself, nothing else ever schedules
    or removes an update, and at most one is pending at any time. *)
From Coq Require Import List Arith NArith Bool Lia.
Import ListNotations.
From GS Require Import Num EventLoop Kernel Geo Sim.
From GS.Proofs Require Import Aux EventLoopP KernelP SimP SimP3 QueueRel.

Section TickChain.
Context {F : Type} (A : ArithOps F) (OL : OrderLaws A) {PS : Type}.
Variable cfg : scfg F.
Variable react : nat -> PS -> F -> cb F -> PS * list (action F).
Variable c : kcfg F.

Notation sstate := (sstate F PS).
Notation kstate := (kstate F (payload F) sstate).
Notation kitem := (kitem F (payload F) (titem F)).
Notation hk := (sim_hooks A cfg react).
Implicit Types (h : sstate) (s : kstate) (l : eloop F (payload F)).

Definition is_tick (p : payload F) : bool := match p with EvTick => true | _ => false end.
Definition not_tick (p : payload F) : bool := negb (is_tick p).
Notation tq l := (oq not_tick l).

Definition no_ticks (q : list (F * payload F)) : Prop := forall ts p, In (ts, p) q -> is_tick p = false.

Lemma no_ticks_app q1 q2 : no_ticks q1 -> no_ticks q2 -> no_ticks (q1 ++ q2).
Proof. intros H1 H2 ts p Hin. apply in_app_or in Hin. destruct Hin; [eapply H1|eapply H2]; eassumption. Qed.

Lemma no_ticks_nil : no_ticks [].
Proof. intros ? ? []. Qed.

Lemma interesting_no_ticks q : no_ticks q -> interesting not_tick q = [].
Proof.
  unfold interesting. induction q as [|[ts p] r IH]; intros H; [reflexivity|]. simpl.
  unfold not_tick. rewrite (H ts p (or_introl eq_refl)). simpl. apply IH. intros ts' p' Hin. apply (H ts' p'). right. exact Hin.
Qed.

(* ---- who schedules updates ------------------------------------------------------------------------------------------ *)

Lemma do_action_no_tick h now n a : no_ticks (snd (fst (do_action A cfg h now n a))).
Proof.
  destruct a as [name ts|name|msg dst|msg|msg d|p|p|sp|r|b]; simpl;
    repeat match goal with
    | |- context [if ?b then _ else _] => destruct b; simpl
    | |- context [match ?d with Some _ => _ | None => _ end] => destruct d; simpl
    end; try apply no_ticks_nil.
  - intros ts' p' [[= <- <-]|[]]. reflexivity.
  - pose proof (transmit_reqs A cfg h now n n0 msg) as Ht. destruct (transmit A cfg h now n n0 msg) as [h1 q]. simpl.
    destruct Ht as ([->| ->] & _); [apply no_ticks_nil|]. intros ts' p' [[= <- <-]|[]]. reflexivity.
  - pose proof (broadcast_reqs A cfg h now n msg (seq 0 (c_nnodes cfg))) as Ht.
    destruct (broadcast A cfg h now n msg (seq 0 (c_nnodes cfg))) as [h1 q]. simpl. destruct Ht as (Hq & _).
    intros ts' p' Hin. destruct (Hq _ Hin) as (d' & _ & _ & [= _ ->]). reflexivity.
  - pose proof (broadcast_reqs A cfg h now n msg (seq 0 (c_nnodes cfg))) as Ht.
    destruct (broadcast A cfg h now n msg (seq 0 (c_nnodes cfg))) as [h1 q]. simpl. destruct Ht as (Hq & _).
    intros ts' p' Hin. destruct (Hq _ Hin) as (d' & _ & _ & [= _ ->]). reflexivity.
Qed.

Lemma do_actions_no_tick h now n acts : no_ticks (snd (fst (do_actions A cfg h now n acts))).
Proof.
  revert h. induction acts as [|a r IH]; intros h; simpl; [apply no_ticks_nil|].
  pose proof (do_action_no_tick h now n a) as Ha. destruct (do_action A cfg h now n a) as [[h1 q1] o].
  specialize (IH h1). destruct (do_actions A cfg h1 now n r) as [[h2 q2] t2]. simpl in *. apply no_ticks_app; assumption.
Qed.

Lemma callback_no_tick h now n cbk : no_ticks (snd (fst (callback A cfg react h now n cbk))).
Proof.
  unfold callback. destruct (nth_error (s_ps h) n) as [ps|]; [|apply no_ticks_nil].
  destruct (react n ps (if has_timer cfg then now else f0 A) cbk) as [ps1 acts].
  pose proof (do_actions_no_tick (set_ps h (upd n ps1 (s_ps h))) now n acts) as Hd.
  destruct (do_actions A cfg (set_ps h (upd n ps1 (s_ps h))) now n acts) as [[h2 q] t]. exact Hd.
Qed.

Lemma callbacks_no_tick h now ns cbk : no_ticks (snd (fst (callbacks A cfg react h now ns cbk))).
Proof.
  revert h. induction ns as [|n r IH]; intros h; simpl; [apply no_ticks_nil|].
  pose proof (callback_no_tick h now n cbk) as Hc. destruct (callback A cfg react h now n cbk) as [[h1 q1] t1].
  specialize (IH h1). destruct (callbacks A cfg react h1 now r cbk) as [[h2 q2] t2]. simpl in *. apply no_ticks_app; assumption.
Qed.

Lemma sim_init_no_tick h : no_ticks (snd (fst (sim_init A cfg react h))).
Proof.
  unfold sim_init. destruct (handlers_init cfg h (c_handlers cfg)) as [h1 t1].
  pose proof (callbacks_no_tick h1 (f0 A) (nodes cfg) CbInit) as Hc.
  destruct (callbacks A cfg react h1 (f0 A) (nodes cfg) CbInit) as [[h2 q] t2]. exact Hc.
Qed.

Lemma sim_finish_no_tick h now : no_ticks (snd (fst (fst (sim_finish A cfg react h now)))).
Proof.
  unfold sim_finish. pose proof (callbacks_no_tick h now (nodes cfg) CbFinish) as Hc.
  destruct (callbacks A cfg react h now (nodes cfg) CbFinish) as [[h1 q] t1].
  destruct (handlers_final cfg h1 (c_handlers cfg)) as [t2 raised]. exact Hc.
Qed.

Lemma sim_exec_no_tick h now p : is_tick p = false -> no_ticks (snd (fst (sim_exec A cfg react h now p))).
Proof.
  destruct p as [n name id|src dst msg| |n pos]; simpl; intros Hp; try discriminate.
  - destruct (existsb (pend_id n name id) (s_pending h)); [apply callback_no_tick|apply no_ticks_nil].
  - apply callback_no_tick.
  - apply callback_no_tick.
Qed.

(** an update schedules telemetry for the nodes and exactly one further update, one interval later *)
Lemma sim_exec_tick h now :
  interesting not_tick (snd (fst (sim_exec A cfg react h now EvTick))) = [(fadd A now (c_rate cfg), EvTick)].
Proof.
  simpl. pose proof (tick_spec A cfg h now) as Ht. destruct (tick A cfg h now) as [h1 q]. destruct Ht as (-> & _). simpl.
  unfold interesting. rewrite filter_app. simpl.
  assert (H : filter (fun r : F * payload F => negb (not_tick (snd r)))
                (map (fun n => (now, EvTelemetry n (new_pos A cfg h n))) (seq 0 (c_nnodes cfg))) = []).
  { induction (seq 0 (c_nnodes cfg)); simpl; auto. }
  rewrite H. reflexivity.
Qed.

(* ---- the invariant: at most one update is pending, and it is due at [e] --------------------------------------------------- *)

Definition tick_inv (e : F) l : Prop :=
  q_ok A l /\ (forall ev, In ev (tq l) -> ev_ts ev = e) /\ length (tq l) <= 1.

Lemma sched_no_ticks e l reqs :
  tick_inv e l -> no_ticks reqs -> tick_inv e (fst (sched_all A (T:=titem F) l reqs)).
Proof.
  intros (Hok & Hts & Hlen) Hn.
  destruct (sched_all_oq_gen A OL not_tick (T:=titem F) l reqs Hok) as (Hok' & _ & evs & Hq & Hk).
  rewrite (interesting_no_ticks reqs Hn) in Hk. simpl in Hk. destruct evs; [|discriminate]. rewrite app_nil_r in Hq.
  split; [exact Hok'|]. rewrite Hq. split; assumption.
Qed.

Definition tick_of (it : kitem) : list F := match it with KExec _ ts _ EvTick => [ts] | _ => [] end.
Definition tick_times (items : list kitem) : list F := flat_map tick_of items.

Lemma tick_times_app a b : tick_times (a ++ b) = tick_times a ++ tick_times b.
Proof. unfold tick_times. apply flat_map_app. Qed.
Lemma tick_times_users (l : list (titem F)) : tick_times (map (@KUser F (payload F) (titem F)) l) = [].
Proof. induction l; simpl; auto. Qed.
Lemma tick_times_sched l reqs : tick_times (snd (sched_all A (T:=titem F) l reqs)) = [].
Proof.
  revert l. induction reqs as [|[ts p] r IH]; intros l; simpl; [reflexivity|].
  destruct (el_schedule A l ts p) as [l'|].
  - specialize (IH l'). destruct (sched_all A l' r) as [l2 its]. simpl in *. exact IH.
  - specialize (IH l). destruct (sched_all A l r) as [l2 its]. simpl in *. exact IH.
Qed.

(** the expected times: [e], [e + i], [(e + i) + i], ... *)
Fixpoint chain (e : F) (ts : list F) : Prop :=
  match ts with
  | [] => True
  | t :: r => t = e /\ chain (fadd A t (c_rate cfg)) r
  end.
Definition next_due (e : F) (ts : list F) : F := fold_left (fun _ t => fadd A t (c_rate cfg)) ts e.

Lemma chain_app e a b : chain e a -> chain (next_due e a) b -> chain e (a ++ b).
Proof.
  revert e. induction a as [|t r IH]; intros e Ha Hb; simpl in *; [exact Hb|].
  destruct Ha as [-> Ha]. split; [reflexivity|]. apply IH; assumption.
Qed.

Lemma next_due_app e a b : next_due e (a ++ b) = next_due (next_due e a) b.
Proof. unfold next_due. apply fold_left_app. Qed.

Lemma initialize_tick e s :
  tick_inv e (k_el s) ->
  tick_inv e (k_el (fst (k_initialize A hk s))) /\ tick_times (snd (k_initialize A hk s)) = [].
Proof.
  intros Hi. unfold k_initialize. simpl hk_init. pose proof (sim_init_no_tick (k_h s)) as Hn.
  destruct (sim_init A cfg react (k_h s)) as [[h1 reqs] items]. simpl in Hn.
  pose proof (sched_no_ticks e (k_el s) reqs Hi Hn) as Hs. pose proof (tick_times_sched (k_el s) reqs) as Ht.
  destruct (sched_all A (k_el s) reqs) as [l1 ref]. simpl in *.
  split; [exact Hs|]. rewrite tick_times_app, tick_times_users, Ht. reflexivity.
Qed.

Lemma finalize_tick e s :
  tick_inv e (k_el s) ->
  tick_inv e (k_el (fst (k_finalize A hk s))) /\ tick_times (snd (k_finalize A hk s)) = [].
Proof.
  intros Hi. unfold k_finalize. destruct (k_final s); [split; [exact Hi|reflexivity]|]. simpl hk_finish.
  pose proof (sim_finish_no_tick (k_h s) (el_now (k_el s))) as Hn.
  destruct (sim_finish A cfg react (k_h s) (el_now (k_el s))) as [[[h1 reqs] items] raised]. simpl in Hn.
  pose proof (sched_no_ticks e (k_el s) reqs Hi Hn) as Hs. pose proof (tick_times_sched (k_el s) reqs) as Ht.
  destruct (sched_all A (k_el s) reqs) as [l1 ref]. simpl in *.
  split; [exact Hs|]. rewrite tick_times_app, tick_times_users, Ht. reflexivity.
Qed.

(** popping: an update, if popped, is the pending one (due at [e]); afterwards none is pending *)
Lemma pop_tick e l m l1 :
  tick_inv e l -> el_pop A l = Some (m, l1) ->
  q_ok A l1 /\
  (if is_tick (ev_pl m) then ev_ts m = e /\ tq l1 = [] else tq l1 = tq l).
Proof.
  intros (Hok & Hts & Hlen) E. split; [eapply q_ok_pop; eassumption|].
  destruct (oq_pop A OL not_tick l m l1 Hok E) as (Hin & _ & _ & _ & Hq). unfold other in Hq.
  replace (negb (not_tick (ev_pl m))) with (is_tick (ev_pl m)) in Hq by (unfold not_tick; rewrite negb_involutive; reflexivity).
  destruct (is_tick (ev_pl m)) eqn:Et; [|exact Hq].
  assert (Hi : In m (tq l)) by (apply filter_In; split; [exact Hin|unfold other, not_tick; rewrite Et; reflexivity]).
  split; [apply Hts; exact Hi|]. rewrite Hq.
  destruct (tq l) as [|a [|b r]]; simpl in *; [destruct Hi| |lia].
  destruct Hi as [->|[]]. rewrite N.eqb_refl. reflexivity.
Qed.

(** one call of step_simulation *)
Lemma step_tick e s :
  tick_inv e (k_el s) ->
  let '(s', it, b) := k_step A hk c s in
  chain e (tick_times it) /\ tick_inv (next_due e (tick_times it)) (k_el s').
Proof.
  intros Hi. pose proof (k_step_spec A hk c s) as Hs. destruct (k_step A hk c s) as [[s' it] b].
  inversion Hs as [Hf | s1 i1 s2 i2 Hf Hini Hd Hfin
                  | s1 i1 ev l1 h2 reqs items l2 ref h3 aitems raised Hf Hini Hd Hpop Hexec Hsched Hafter s'' it'' b'' Heq]; subst.
  - split; [exact I|exact Hi].
  - assert (H1 : tick_inv e (k_el s1) /\ tick_times i1 = []).
    { destruct (k_inited s); [injection Hini as -> ->; split; [exact Hi|reflexivity]|].
      rewrite (surjective_pairing (k_initialize A hk s)) in Hini. injection Hini as -> ->. apply initialize_tick. exact Hi. }
    destruct H1 as [Hi1 Ht1]. destruct (finalize_tick e s1 Hi1) as [Hi2 Ht2].
    rewrite (surjective_pairing (k_finalize A hk s1)) in Hfin. injection Hfin as -> ->.
    rewrite tick_times_app, Ht1, Ht2. simpl. split; [exact I|exact Hi2].
  - assert (H1 : tick_inv e (k_el s1) /\ tick_times i1 = []).
    { destruct (k_inited s); [injection Hini as -> ->; split; [exact Hi|reflexivity]|].
      rewrite (surjective_pairing (k_initialize A hk s)) in Hini. injection Hini as -> ->. apply initialize_tick. exact Hi. }
    destruct H1 as [Hi1 Ht1].
    destruct (pop_tick e (k_el s1) ev l1 Hi1 Hpop) as [Hok1 Hcase].
    simpl hk_exec in Hexec. simpl hk_after in Hafter.
    set (body := KExec (k_iter s1) (ev_ts ev) (ev_seq ev) (ev_pl ev) :: map (@KUser F (payload F) (titem F)) items ++ ref ++ map (@KUser F (payload F) (titem F)) aitems) in *.
    assert (Href : tick_times ref = []).
    { pose proof (tick_times_sched l1 reqs) as Ht. rewrite Hsched in Ht. exact Ht. }
    (* the state of the queue after the event and its requests, and the updates executed in the body *)
    assert (Hbody : chain e (tick_times body) /\ tick_inv (next_due e (tick_times body)) l2).
    { destruct (is_tick (ev_pl ev)) eqn:Et.
      - destruct Hcase as [Hts Hq1]. destruct (ev_pl ev) eqn:Epl; try discriminate.
        assert (Hb : tick_times body = [ev_ts ev]).
        { unfold body. simpl. rewrite ?Epl. simpl. rewrite !tick_times_app, !tick_times_users, Href. reflexivity. }
        rewrite Hb. simpl. split; [split; [exact Hts|exact I]|].
        destruct (sched_all_oq_gen A OL not_tick (T:=titem F) l1 reqs Hok1) as (Hok' & _ & evs & Hq & Hk).
        rewrite Hsched in Hok', Hq. simpl in Hok', Hq.
        pose proof (sim_exec_tick (k_h s1) (ev_ts ev)) as Hint. rewrite Hexec in Hint. simpl in Hint. rewrite Hint in Hk.
        rewrite Hq1 in Hq. simpl in Hq. split; [exact Hok'|]. rewrite Hq.
        simpl in Hk. destruct (acceptable A l1 (fadd A (ev_ts ev) (c_rate cfg), EvTick)); simpl in Hk.
        + destruct evs as [|ea [|eb er]]; try discriminate. split; [|simpl; lia].
          intros ev' [<-|[]]. simpl in Hk. unfold ekey in Hk. congruence.
        + destruct evs; [|discriminate]. split; [intros ? []|simpl; lia].
      - assert (Hb : tick_times body = []).
        { unfold body. simpl. destruct (ev_pl ev); try discriminate; simpl; rewrite !tick_times_app, !tick_times_users, Href; reflexivity. }
        rewrite Hb. simpl. split; [exact I|].
        pose proof (sim_exec_no_tick (k_h s1) (ev_ts ev) (ev_pl ev) Et) as Hn. rewrite Hexec in Hn. simpl in Hn.
        assert (Hi1' : tick_inv e l1).
        { destruct Hi1 as (_ & T1 & T2). split; [exact Hok1|]. rewrite Hcase. split; assumption. }
        pose proof (sched_no_ticks e l1 reqs Hi1' Hn) as Hs2. rewrite Hsched in Hs2. exact Hs2. }
    destruct Hbody as [Hc Hi2].
    cbv zeta in Heq. fold body in Heq.
    destruct raised.
    + injection Heq as -> -> ->. rewrite tick_times_app, Ht1. simpl. split; [exact Hc|exact Hi2].
    + set (s2 := mkK l2 h3 (S (k_iter s1)) true false false) in *.
      destruct (k_done A c s2).
      * destruct (finalize_tick (next_due e (tick_times body)) s2 Hi2) as [Hi3 Ht3].
        destruct (k_finalize A hk s2) as [s3 i3] eqn:E3. simpl in Hi3, Ht3. injection Heq as -> -> ->.
        match goal with |- context [i1 ++ ?t] => change t with (body ++ i3) end.
        rewrite !tick_times_app, Ht1, Ht3, app_nil_r. simpl. split; [exact Hc|exact Hi3].
      * injection Heq as -> -> ->. rewrite tick_times_app, Ht1. simpl. split; [exact Hc|exact Hi2].
Qed.

Theorem run_tick fuel e s :
  tick_inv e (k_el s) ->
  let '(s', items, fin) := k_run A hk c fuel s in
  chain e (tick_times items) /\ tick_inv (next_due e (tick_times items)) (k_el s').
Proof.
  revert e s. induction fuel as [|f IH]; intros e s Hi; simpl; [split; [exact I|exact Hi]|].
  pose proof (step_tick e s Hi) as Hs. destruct (k_step A hk c s) as [[s1 it] cont]. destruct Hs as [Hc Hi1].
  destruct cont; [|split; assumption].
  specialize (IH _ s1 Hi1). destruct (k_run A hk c f s1) as [[s2 its] fin]. destruct IH as [Hc2 Hi2].
  rewrite tick_times_app, next_due_app. split; [apply chain_app; assumption|exact Hi2].
Qed.

(** From build(): the first update is due one interval after time 0. *)
Theorem whole_run_ticks fuel ps0 :
  let '(s0, i0) := sim_start A cfg ps0 in
  let '(s', items, fin) := k_run A hk c fuel s0 in
  chain (fadd A (f0 A) (c_rate cfg)) (tick_times items).
Proof.
  unfold sim_start, k_start.
  destruct (sched_all_oq_gen A OL not_tick (T:=titem F) (el_init A) (sim_reqs0 A cfg) (q_ok_init A)) as (Hok & _ & evs & Hq & Hk).
  destruct (sched_all A (el_init A) (sim_reqs0 A cfg)) as [l0 its0]. simpl in *.
  assert (Hi : tick_inv (fadd A (f0 A) (c_rate cfg)) l0).
  { split; [exact Hok|]. rewrite Hq. unfold oq. simpl.
    unfold sim_reqs0, interesting in Hk. destruct (has_mob cfg); simpl in Hk.
    - destruct (acceptable A (el_init A) (fadd A (f0 A) (c_rate cfg), EvTick)); simpl in Hk.
      + destruct evs as [|ea [|eb er]]; try discriminate. split; [|simpl; lia].
        intros ev [<-|[]]. simpl in Hk. unfold ekey in Hk. congruence.
      + destruct evs; [|discriminate]. split; [intros ? []|simpl; lia].
    - destruct evs; [|discriminate]. split; [intros ? []|simpl; lia]. }
  pose proof (run_tick fuel _ (mkK l0 (sim_state0 cfg ps0) 0 false false false) Hi) as Hr.
  destruct (k_run A hk c fuel (mkK l0 (sim_state0 cfg ps0) 0 false false false)) as [[s' items] fin]. exact (proj1 Hr).
Qed.

End TickChain.
