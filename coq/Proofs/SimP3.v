(** Proofs about [Sim]: timers (C07), communication (C08, C09, C10), mobility (C11, C12) and
    frame conditions (C13), for every protocol function and every number type. *)
From Coq Require Import List Arith NArith Bool Lia.
Import ListNotations.
From GS Require Import Num EventLoop Kernel Geo Sim.
From GS.Proofs Require Import Aux SimP.

Section SimP3.
Context {F : Type} (A : ArithOps F) {PS : Type}.
Variable cfg : scfg F.
Variable react : nat -> PS -> F -> cb F -> PS * list (action F).
Notation sstate := (sstate F PS).
Implicit Types (h : sstate).
Notation do_action := (do_action A cfg).

(* ============================ timers ============================ *)

(** A timer in the past is refused and nothing changes. *)
Theorem timer_past_refused h now n name ts :
  has_timer cfg = true -> fltb A ts now = true -> do_action h now n (ASetTimer name ts) = (h, [], ErrTimer).
Proof. intros Ht Hp. simpl. rewrite Ht, Hp. reflexivity. Qed.

(** An accepted timer: one new pending entry with a fresh identifier, one event at exactly the
    requested time carrying (node, name, identifier); nothing else changes. *)
Theorem timer_set_accepted h now n name ts :
  has_timer cfg = true -> fltb A ts now = false ->
  do_action h now n (ASetTimer name ts) =
  (set_nextid (set_pending h (s_pending h ++ [(n, name, s_nextid h)])) (N.succ (s_nextid h)),
   [(ts, EvTimer n name (s_nextid h))], Ok).
Proof. intros Ht Hp. simpl. rewrite Ht, Hp. reflexivity. Qed.

(** Without a timer handler both requests are silent no-ops. *)
Theorem timer_no_handler h now n name ts :
  has_timer cfg = false ->
  do_action h now n (ASetTimer name ts) = (h, [], Ok) /\ do_action h now n (ACancel name) = (h, [], Ok).
Proof. intros Ht. simpl. rewrite Ht. auto. Qed.

(** Cancelling removes all and only the pending timers of that node with that name. *)
Theorem cancel_exact h now n name :
  has_timer cfg = true ->
  exists h', do_action h now n (ACancel name) = (h', [], Ok) /\
    (forall e, In e (s_pending h') <-> In e (s_pending h) /\ pend_is n name e = false) /\
    s_nextid h' = s_nextid h /\ s_pos h' = s_pos h /\ s_tgt h' = s_tgt h /\ s_speed h' = s_speed h /\
    s_range h' = s_range h /\ s_ps h' = s_ps h /\ s_flag h' = s_flag h /\ s_cursor h' = s_cursor h /\
    s_astate h' = s_astate h.
Proof.
  intros Ht. simpl. rewrite Ht. simpl. eexists. split; [reflexivity|]. simpl. split.
  - intros e. rewrite filter_In. rewrite negb_true_iff. tauto.
  - repeat split.
Qed.

(** the order of the surviving entries is kept *)
Theorem cancel_keeps_order h now n name :
  has_timer cfg = true ->
  s_pending (fst (fst (do_action h now n (ACancel name)))) = filter (fun e => negb (pend_is n name e)) (s_pending h).
Proof. intros Ht. simpl. rewrite Ht. reflexivity. Qed.

(** Firing: the event of a timer calls handle_timer iff its identifier is still pending; the
    entry is removed first (so the handler may cancel or re-set the same name), the callback
    goes to the owner with the same name at the event's time; otherwise nothing happens. *)
Theorem timer_fire h now n name id :
  sim_exec A cfg react h now (EvTimer n name id) =
  if existsb (pend_id n name id) (s_pending h)
  then callback A cfg react (set_pending h (filter (fun e => negb (pend_id n name id e)) (s_pending h))) now n (CbTimer name)
  else (h, [], []).
Proof. reflexivity. Qed.

(** Identifiers: every pending identifier is below the counter and pending identifiers are
    pairwise distinct — so an identifier names one timer, firing removes exactly it, and the
    event of an accepted timer is never shared with another one. *)
Definition pend_ok h : Prop :=
  (forall e, In e (s_pending h) -> (snd e < s_nextid h)%N) /\ NoDup (map snd (s_pending h)).

Lemma filter_NoDup_map {X Y : Type} (f : X -> Y) (p : X -> bool) (l : list X) :
  NoDup (map f l) -> NoDup (map f (filter p l)).
Proof.
  induction l as [|x r IH]; simpl; [auto|]. intros Hn. inversion Hn as [|? ? Hx Hr]; subst.
  destruct (p x); simpl; [|apply IH; exact Hr]. constructor; [|apply IH; exact Hr].
  intro Hin. apply Hx. apply in_map_iff in Hin. destruct Hin as [y [Hy1 Hy2]]. apply filter_In in Hy2.
  apply in_map_iff. exists y. tauto.
Qed.

Lemma pend_ok_filter h p : pend_ok h -> pend_ok (set_pending h (filter p (s_pending h))).
Proof.
  intros [H1 H2]. split; simpl.
  - intros e He. apply filter_In in He. apply H1. tauto.
  - apply filter_NoDup_map. exact H2.
Qed.

Lemma transmit_pending h now src dst msg :
  s_pending (fst (transmit A cfg h now src dst msg)) = s_pending h /\
  s_nextid (fst (transmit A cfg h now src dst msg)) = s_nextid h.
Proof.
  pose proof (transmit_reqs A cfg h now src dst msg) as Ht.
  destruct (transmit A cfg h now src dst msg) as [h1 q]. simpl. tauto.
Qed.

Lemma do_action_pend_ok h now n a : pend_ok h -> pend_ok (fst (fst (do_action h now n a))).
Proof.
  intros Hok. destruct a; simpl;
    repeat match goal with
    | |- context [if ?b then _ else _] => destruct b; simpl
    | |- context [match ?d with Some _ => _ | None => _ end] => destruct d; simpl
    end; try exact Hok.
  - (* set *) destruct Hok as [H1 H2]. split; simpl.
    + intros e He. apply in_app_or in He. destruct He as [He|[<-|[]]]; [specialize (H1 e He); lia|simpl; lia].
    + rewrite map_app. simpl. apply NoDup_app_one; [exact H2|].
      intro Hin. apply in_map_iff in Hin. destruct Hin as [e [He1 He2]]. specialize (H1 e He2). lia.
  - apply pend_ok_filter. exact Hok.
  - pose proof (transmit_pending h now n n0 msg) as [T1 T2].
    destruct (transmit A cfg h now n n0 msg) as [h1 q]. simpl in *. unfold pend_ok. rewrite T1, T2. exact Hok.
  - pose proof (broadcast_reqs A cfg h now n msg (seq 0 (c_nnodes cfg))) as Hb.
    destruct (broadcast A cfg h now n msg (seq 0 (c_nnodes cfg))) as [h1 q]. simpl.
    destruct Hb as (_ & B1 & B2 & _). unfold pend_ok. rewrite B1, B2. exact Hok.
  - pose proof (broadcast_reqs A cfg h now n msg (seq 0 (c_nnodes cfg))) as Hb.
    destruct (broadcast A cfg h now n msg (seq 0 (c_nnodes cfg))) as [h1 q]. simpl.
    destruct Hb as (_ & B1 & B2 & _). unfold pend_ok. rewrite B1, B2. exact Hok.
Qed.

Lemma do_actions_pend_ok h now n acts : pend_ok h -> pend_ok (fst (fst (do_actions A cfg h now n acts))).
Proof.
  revert h. induction acts as [|a r IH]; intros h Hok; simpl; [exact Hok|].
  pose proof (do_action_pend_ok h now n a Hok) as Ha.
  destruct (Sim.do_action A cfg h now n a) as [[h1 q1] o]. specialize (IH h1 Ha).
  destruct (Sim.do_actions A cfg h1 now n r) as [[h2 q2] t2]. exact IH.
Qed.

Lemma callback_pend_ok h now n c : pend_ok h -> pend_ok (fst (fst (callback A cfg react h now n c))).
Proof.
  intros Hok. unfold callback. destruct (nth_error (s_ps h) n) as [ps|]; [|exact Hok].
  destruct (react n ps (if has_timer cfg then now else f0 A) c) as [ps1 acts].
  pose proof (do_actions_pend_ok (set_ps h (upd n ps1 (s_ps h))) now n acts Hok) as Hd.
  destruct (Sim.do_actions A cfg (set_ps h (upd n ps1 (s_ps h))) now n acts) as [[h2 q] t]. exact Hd.
Qed.

Lemma tick_nodes_pending h now ns :
  s_pending (fst (tick_nodes A cfg h now ns)) = s_pending h /\ s_nextid (fst (tick_nodes A cfg h now ns)) = s_nextid h.
Proof.
  revert h. induction ns as [|n r IH]; intros h; simpl; [auto|].
  match goal with |- context [tick_nodes A cfg ?h1 now r] => specialize (IH h1); destruct (tick_nodes A cfg h1 now r) as [h2 q] end.
  simpl in *. exact IH.
Qed.

(** The identifier invariant holds after executing any event, for any protocol. *)
Theorem sim_exec_pend_ok h now p : pend_ok h -> pend_ok (fst (fst (sim_exec A cfg react h now p))).
Proof.
  intros Hok. destruct p as [n name id|src dst msg| |n pos]; simpl.
  - destruct (existsb (pend_id n name id) (s_pending h)); [|exact Hok].
    apply callback_pend_ok. apply pend_ok_filter. exact Hok.
  - apply callback_pend_ok. exact Hok.
  - unfold tick. pose proof (tick_nodes_pending h now (seq 0 (c_nnodes cfg))) as [T1 T2].
    destruct (tick_nodes A cfg h now (seq 0 (c_nnodes cfg))) as [h1 q]. simpl in *.
    unfold pend_ok. rewrite T1, T2. exact Hok.
  - apply callback_pend_ok. exact Hok.
Qed.

(** With distinct identifiers, firing removes exactly the fired timer. *)
Theorem fire_removes_exactly h n name id :
  pend_ok h -> In (n, name, id) (s_pending h) ->
  forall e, In e (filter (fun e => negb (pend_id n name id e)) (s_pending h)) <-> In e (s_pending h) /\ e <> (n, name, id).
Proof.
  intros [_ Hnd] Hin e. rewrite filter_In. split.
  - intros [He Hp]. split; [exact He|]. intros ->. simpl in Hp. rewrite !Nat.eqb_refl, N.eqb_refl in Hp. discriminate.
  - intros [He Hne]. split; [exact He|]. destruct e as [[n' nm] i]. simpl. apply negb_true_iff.
    destruct (Nat.eqb n' n) eqn:E1; [|reflexivity]. destruct (Nat.eqb nm name) eqn:E2; [|reflexivity]. simpl.
    apply N.eqb_neq. intros ->. apply Nat.eqb_eq in E1. apply Nat.eqb_eq in E2. subst. apply Hne. reflexivity.
Qed.

(* ============================ communication ============================ *)

Definition in_range h (src dst : nat) : bool :=
  fleb A (sqdist A (pos_of A h src) (pos_of A h dst)) (fsq A (nth src (s_range h) (f0 A))).

(** C09/C10: the fate of one copy.  Loss-free medium: no draw; delivered iff in range of the
    SENDER's current range at the positions of this instant.  Lossy medium: exactly one draw,
    the next one of the stream; delivered iff the draw exceeds the rate and in range. *)
Theorem transmit_spec h now src dst msg :
  transmit A cfg h now src dst msg =
  if fltb A (f0 A) (c_fail cfg)
  then (set_cursor h (S (s_cursor h)),
        if fltb A (c_fail cfg) (nth (s_cursor h) (c_stream cfg) (f0 A)) && in_range h src dst
        then [(deliver_time A cfg now, EvDeliver src dst msg)] else [])
  else (h, if in_range h src dst then [(deliver_time A cfg now, EvDeliver src dst msg)] else []).
Proof.
  unfold transmit, in_range, deliver_time. destruct (fltb A (f0 A) (c_fail cfg)); simpl.
  - destruct (fltb A (c_fail cfg) _ && fleb A _ _); reflexivity.
  - destruct (fleb A (sqdist A _ _) _); reflexivity.
Qed.

(** Unicast: errors deliver nothing and change nothing; otherwise it is one transmission to the
    named node. *)
Theorem send_spec h now n msg dst :
  has_comm cfg = true ->
  do_action h now n (ASend msg dst) =
  match dst with
  | None => (h, [], ErrComm)
  | Some d =>
      if Nat.eqb d n then (h, [], ErrComm)
      else if Nat.ltb d (c_nnodes cfg)
           then (fst (transmit A cfg h now n d msg), snd (transmit A cfg h now n d msg), Ok)
           else (h, [], ErrComm)
  end.
Proof.
  intros Hc. simpl. rewrite Hc. simpl. destruct dst as [d|]; [|reflexivity].
  destruct (Nat.eqb d n); [reflexivity|]. destruct (Nat.ltb d (c_nnodes cfg)); [|reflexivity].
  destruct (transmit A cfg h now n d msg); reflexivity.
Qed.

(** Broadcast on a loss-free medium: one copy for every other node in range, in node order,
    never one for the sender; state unchanged. *)
Lemma broadcast_lossfree h now src msg dsts :
  fltb A (f0 A) (c_fail cfg) = false ->
  broadcast A cfg h now src msg dsts =
  (h, map (fun d => (deliver_time A cfg now, EvDeliver src d msg))
          (filter (fun d => negb (Nat.eqb d src) && in_range h src d) dsts)).
Proof.
  intros Hf. induction dsts as [|d r IH]; simpl; [reflexivity|].
  destruct (Nat.eqb d src) eqn:Ed; simpl; [exact IH|].
  rewrite transmit_spec, Hf. rewrite IH. destruct (in_range h src d); reflexivity.
Qed.

Theorem broadcast_spec h now n msg :
  has_comm cfg = true -> fltb A (f0 A) (c_fail cfg) = false ->
  do_action h now n (ABroadcast msg) =
  (h, map (fun d => (deliver_time A cfg now, EvDeliver n d msg))
          (filter (fun d => negb (Nat.eqb d n) && in_range h n d) (seq 0 (c_nnodes cfg))), Ok).
Proof. intros Hc Hf. simpl. rewrite Hc. simpl. rewrite broadcast_lossfree by exact Hf. reflexivity. Qed.

(** Broadcast on a lossy medium: the k-th copy attempted uses the k-th next draw, in node order,
    and each copy's fate depends only on its own draw. *)
Lemma broadcast_lossy h now src msg dsts :
  fltb A (f0 A) (c_fail cfg) = true ->
  let others := filter (fun d => negb (Nat.eqb d src)) dsts in
  s_cursor (fst (broadcast A cfg h now src msg dsts)) = s_cursor h + length others /\
  snd (broadcast A cfg h now src msg dsts) =
  flat_map (fun kd => if fltb A (c_fail cfg) (nth (s_cursor h + fst kd) (c_stream cfg) (f0 A)) && in_range h src (snd kd)
                      then [(deliver_time A cfg now, EvDeliver src (snd kd) msg)] else [])
           (combine (seq 0 (length others)) others).
Proof.
  intros Hf. revert h. induction dsts as [|d r IH]; intros h; simpl; [split; [lia|reflexivity]|].
  destruct (Nat.eqb d src) eqn:Ed; simpl; [apply IH|].
  rewrite transmit_spec, Hf.
  set (h1 := set_cursor h (S (s_cursor h))).
  specialize (IH h1). destruct (broadcast A cfg h1 now src msg r) as [h2 q2]. simpl in *.
  destruct IH as [I1 I2]. split; [rewrite I1; simpl; lia|].
  rewrite Nat.add_0_r. f_equal. rewrite I2.
  rewrite <- seq_shift. rewrite combine_map_l_flat. apply flat_map_ext_in.
  intros [k d'] _. simpl. unfold in_range, pos_of. simpl. replace (s_cursor h + S k) with (S (s_cursor h + k)) by lia. reflexivity.
Qed.

(** C09: changing a range touches exactly the sender's own entry; negative values are refused. *)
Theorem set_range_spec h now n r :
  has_comm cfg = true ->
  do_action h now n (ASetRange r) =
  if fltb A r (f0 A) then (h, [], ErrValue) else (set_range h (upd n r (s_range h)), [], Ok).
Proof. intros Hc. simpl. rewrite Hc. simpl. destruct (fltb A r (f0 A)); reflexivity. Qed.

Lemma nth_upd_other {X : Type} (l : list X) n m (x d : X) : n <> m -> nth m (upd n x l) d = nth m l d.
Proof.
  revert n m. induction l as [|y r IH]; intros [|n] [|m] Hne; simpl; try reflexivity; try congruence.
  apply IH. congruence.
Qed.
Lemma nth_upd_same {X : Type} (l : list X) n (x d : X) : n < length l -> nth n (upd n x l) d = x.
Proof. revert n. induction l as [|y r IH]; intros [|n] Hl; simpl in *; try lia; [reflexivity|apply IH; lia]. Qed.

(** what node [y] can transmit depends on its own range entry only *)
Theorem in_range_other_range h n r y d :
  y <> n -> in_range (set_range h (upd n r (s_range h))) y d = in_range h y d.
Proof. intros Hne. unfold in_range, pos_of. simpl. rewrite nth_upd_other by congruence. reflexivity. Qed.

(* ============================ mobility ============================ *)

(** C11: a node within one step of its target lands exactly on it. *)
Theorem move_lands cur tgt speed :
  let dd := fsqrt A (fadd A (fadd A (fsq A (fsub A (vx tgt) (vx cur))) (fsq A (fsub A (vy tgt) (vy cur))))
                            (fsq A (fsub A (vz tgt) (vz cur)))) in
  fleb A dd (fmul A speed (c_rate cfg)) = true -> move A cfg cur tgt speed = tgt.
Proof. intros dd H. unfold move. fold dd. rewrite H. reflexivity. Qed.

(** ... and a node on its target stays there (any non-negative step). *)
Theorem move_stays (ZL : ZeroLaws A) p speed :
  fleb A (f0 A) (fmul A speed (c_rate cfg)) = true -> move A cfg p p speed = p.
Proof.
  intros H. apply move_lands. rewrite !(sub_self A ZL), (sq_zero A ZL), (add_zero_zero A ZL), (add_zero_zero A ZL), (sqrt_zero A ZL).
  exact H.
Qed.

Definition new_pos h (n : nat) : vec3 F :=
  match nth n (s_tgt h) None with
  | Some t => move A cfg (pos_of A h n) t (nth n (s_speed h) (f0 A))
  | None => pos_of A h n
  end.

Lemma nth_upd_other_pos h n m p : n <> m -> pos_of A (set_pos h (upd n p (s_pos h))) m = pos_of A h m.
Proof. intros. unfold pos_of. simpl. apply nth_upd_other. assumption. Qed.

(** C12: one mobility update asks, for each node in node order, exactly one telemetry at the
    current time, carrying that node's own new position (a value); a node without a target does
    not move; targets, speeds and everything else are untouched. *)
Lemma tick_nodes_spec h now ns :
  NoDup ns ->
  let '(h1, q) := tick_nodes A cfg h now ns in
  q = map (fun n => (now, EvTelemetry n (new_pos h n))) ns /\
  s_tgt h1 = s_tgt h /\ s_speed h1 = s_speed h /\ s_range h1 = s_range h /\ s_pending h1 = s_pending h /\
  s_nextid h1 = s_nextid h /\ s_ps h1 = s_ps h /\ s_flag h1 = s_flag h /\ s_cursor h1 = s_cursor h /\
  s_astate h1 = s_astate h /\
  (forall m, ~ In m ns -> pos_of A h1 m = pos_of A h m) /\
  (forall m, In m ns -> m < length (s_pos h) -> pos_of A h1 m = new_pos h m).
Proof.
  revert h. induction ns as [|n r IH]; intros h Hnd; simpl.
  - repeat split; auto. intros m [].
  - inversion Hnd as [|? ? Hn Hr]; subst.
    change (match nth n (s_tgt h) None with
            | Some t => move A cfg (pos_of A h n) t (nth n (s_speed h) (f0 A))
            | None => pos_of A h n end) with (new_pos h n).
    set (h1 := set_pos h (upd n (new_pos h n) (s_pos h))).
    specialize (IH h1 Hr). destruct (tick_nodes A cfg h1 now r) as [h2 q]. simpl.
    destruct IH as (Q & T & S & Rg & Pd & Ni & Ps & Fl & Cu & As & Po & Pn).
    assert (Hnp : forall m, m <> n -> new_pos h1 m = new_pos h m).
    { intros m Hm. unfold new_pos, h1. simpl. rewrite nth_upd_other_pos by congruence. reflexivity. }
    split; [|repeat split; auto].
    + rewrite Q. f_equal. apply map_ext_in. intros m Hm. rewrite Hnp; [reflexivity|]. intros ->. contradiction.
    + intros m Hm. rewrite Po by (intro; apply Hm; right; assumption).
      apply nth_upd_other_pos. intros ->. apply Hm. left. reflexivity.
    + intros m [<-|Hm] Hl.
      * rewrite Po by exact Hn. unfold pos_of, h1. simpl. apply nth_upd_same. exact Hl.
      * rewrite Pn; [|exact Hm|unfold h1; simpl; rewrite upd_length; exact Hl].
        apply Hnp. intros ->. contradiction.
Qed.

Theorem tick_spec h now :
  let '(h1, q) := tick A cfg h now in
  q = map (fun n => (now, EvTelemetry n (new_pos h n))) (seq 0 (c_nnodes cfg)) ++ [(fadd A now (c_rate cfg), EvTick)] /\
  s_tgt h1 = s_tgt h /\ s_speed h1 = s_speed h /\
  (forall m, m < c_nnodes cfg -> m < length (s_pos h) -> pos_of A h1 m = new_pos h m).
Proof.
  unfold tick. pose proof (tick_nodes_spec h now (seq 0 (c_nnodes cfg)) (seq_NoDup _ _)) as Ht.
  destruct (tick_nodes A cfg h now (seq 0 (c_nnodes cfg))) as [h1 q].
  destruct Ht as (Q & T & S & _ & _ & _ & _ & _ & _ & _ & _ & Pn).
  split; [rewrite Q; reflexivity|]. split; [exact T|]. split; [exact S|].
  intros m Hm Hl. apply Pn; [apply in_seq; lia|exact Hl].
Qed.

(** C11: commands never move a node; they only change the target / speed used from the next
    update on. *)
Theorem mobility_commands_do_not_move h now n a :
  match a with AGoto _ | AGotoGeo _ | ASetSpeed _ => True | _ => False end ->
  s_pos (fst (fst (do_action h now n a))) = s_pos h.
Proof. destruct a; intros []; simpl; destruct (negb (has_mob cfg)); reflexivity. Qed.

(** C20: a geographic goto sets exactly the target a Cartesian goto to the converted point sets. *)
Theorem goto_geo_is_goto_converted h now n p :
  do_action h now n (AGotoGeo p) = do_action h now n (AGoto (geo_to_cartesian A (c_ref cfg) p)).
Proof. reflexivity. Qed.

(* ============================ frames (C13) ============================ *)

Definition node_scoped (a : action F) : bool :=
  match a with
  | ASetTimer _ _ | ACancel _ | AGoto _ | AGotoGeo _ | ASetSpeed _ | ASetRange _ | ASetFlag _ => true
  | ASend _ _ | ABroadcast _ | ABcastDst _ _ => false
  end.

Definition pend_of (y : nat) (l : list (nat * nat * N)) : list (nat * nat * N) :=
  filter (fun e => Nat.eqb (fst (fst e)) y) l.

Lemma pend_of_app y l1 l2 : pend_of y (l1 ++ l2) = pend_of y l1 ++ pend_of y l2.
Proof. unfold pend_of. apply filter_app. Qed.

Lemma pend_of_cancel y n name l :
  y <> n -> pend_of y (filter (fun e => negb (pend_is n name e)) l) = pend_of y l.
Proof.
  intros Hne. unfold pend_of. induction l as [|[[n' nm] i] r IH]; simpl; [reflexivity|].
  destruct (Nat.eqb n' n) eqn:E1; simpl.
  - apply Nat.eqb_eq in E1. subst n'.
    assert (Nat.eqb n y = false) as Hy by (apply Nat.eqb_neq; congruence).
    destruct (Nat.eqb nm name); simpl; rewrite ?Hy; exact IH.
  - destruct (Nat.eqb n' y); simpl; rewrite IH; reflexivity.
Qed.

(** Whatever node-scoped request node [x] issues, every other node keeps its pending timers,
    target, speed and range; positions, the oracle cursor and the other nodes' protocol state
    and flags are untouched; and every event it schedules is a timer event of [x] itself. *)
Theorem node_scoped_frame h now x a :
  node_scoped a = true ->
  let '(h', q, _) := do_action h now x a in
  (forall y, y <> x ->
     pend_of y (s_pending h') = pend_of y (s_pending h) /\
     nth y (s_tgt h') None = nth y (s_tgt h) None /\
     (forall d, nth y (s_speed h') d = nth y (s_speed h) d) /\
     (forall d, nth y (s_range h') d = nth y (s_range h) d) /\
     (forall d, nth y (s_flag h') d = nth y (s_flag h) d)) /\
  s_pos h' = s_pos h /\ s_cursor h' = s_cursor h /\ s_ps h' = s_ps h /\ s_astate h' = s_astate h /\
  (forall ts p, In (ts, p) q -> exists name id, p = EvTimer x name id).
Proof.
  destruct a; intros Hs; try discriminate; simpl;
    repeat match goal with |- context [if ?b then _ else _] => destruct b; simpl end;
    (split; [intros y Hy; repeat split; try reflexivity; intros;
             try (rewrite nth_upd_other by congruence; reflexivity)|]);
    try (repeat split; try reflexivity; intros ts' p' []; fail).
  - (* set timer *) rewrite pend_of_app. simpl. assert (Nat.eqb x y = false) as -> by (apply Nat.eqb_neq; congruence).
    rewrite app_nil_r. reflexivity.
  - repeat split; try reflexivity. intros ts' p' [[= <- <-]|[]]. eauto.
  - apply pend_of_cancel. exact Hy.
Qed.

End SimP3.
