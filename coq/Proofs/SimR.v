(** Theorems about the real-number instance of the model's geometry (C09 boundary, C11 metric
    clauses).  The axioms they depend on are those of Coq's classical real numbers. *)
From Coq Require Import Reals Lra List Bool.
From GS Require Import Num NumR Sim.
Local Open Scope R_scope.

Definition Rsq3 (s e : vec3 R) : R := sqdist R_ops s e.
Definition dist3 (s e : vec3 R) : R := sqrt (Rsq3 s e).

Lemma Rsq3_nonneg s e : 0 <= Rsq3 s e.
Proof.
  unfold Rsq3, sqdist. simpl.
  pose proof (Rle_0_sqr (vx e - vx s)). pose proof (Rle_0_sqr (vy e - vy s)). pose proof (Rle_0_sqr (vz e - vz s)).
  unfold Rsqr in *. lra.
Qed.

(** C09: the squared comparison the code makes is the Euclidean one, boundary included. *)
Theorem in_range_iff_euclid (s e : vec3 R) (r : R) :
  0 <= r -> (fleb R_ops (sqdist R_ops s e) (fsq R_ops r) = true <-> dist3 s e <= r).
Proof.
  intros Hr. change (Rleb (Rsq3 s e) (r * r) = true <-> dist3 s e <= r). rewrite Rleb_true. unfold dist3.
  pose proof (Rsq3_nonneg s e) as Hs. split; intros H.
  - rewrite <- (sqrt_square r Hr). apply sqrt_le_1; [exact Hs|apply Rmult_le_pos; lra|exact H].
  - rewrite <- (sqrt_sqrt (Rsq3 s e) Hs). pose proof (sqrt_pos (Rsq3 s e)).
    apply Rmult_le_compat; lra.
Qed.

(** C11: one mobility update of a node farther than one step from its target. *)
Section Move.
Variable cfg : scfg R.

Lemma move_R_unfold (cur tgt : vec3 R) (speed : R) :
  move R_ops cfg cur tgt speed =
  if Rleb (dist3 cur tgt) (speed * c_rate cfg) then tgt
  else (vx cur + (vx tgt - vx cur) * (speed * c_rate cfg / dist3 cur tgt),
        vy cur + (vy tgt - vy cur) * (speed * c_rate cfg / dist3 cur tgt),
        vz cur + (vz tgt - vz cur) * (speed * c_rate cfg / dist3 cur tgt)).
Proof. reflexivity. Qed.

Theorem move_advance (cur tgt : vec3 R) (speed : R) :
  let mm := speed * c_rate cfg in
  let dd := dist3 cur tgt in
  0 <= mm -> mm < dd ->
  let p := move R_ops cfg cur tgt speed in
  let lam := mm / dd in
  0 <= lam < 1 /\
  vx p = vx cur + lam * (vx tgt - vx cur) /\ vy p = vy cur + lam * (vy tgt - vy cur) /\ vz p = vz cur + lam * (vz tgt - vz cur) /\
  dist3 cur p = mm /\ dist3 p tgt = dd - mm.
Proof.
  intros mm dd Hmm Hlt p lam.
  assert (Hdd : 0 < dd) by lra.
  assert (Hlam : 0 <= lam < 1).
  { unfold lam. split; [apply Rmult_le_pos; [lra|left; apply Rinv_0_lt_compat; lra]|].
    apply Rmult_lt_reg_r with dd; [lra|]. unfold Rdiv. rewrite Rmult_assoc, Rinv_l by lra. lra. }
  assert (Hp : p = (vx cur + (vx tgt - vx cur) * lam, vy cur + (vy tgt - vy cur) * lam, vz cur + (vz tgt - vz cur) * lam)).
  { unfold p. rewrite move_R_unfold. fold mm. fold dd.
    destruct (Rleb dd mm) eqn:E; [apply Rleb_true in E; lra|]. reflexivity. }
  split; [exact Hlam|]. rewrite Hp. unfold vx, vy, vz. simpl.
  split; [lra|]. split; [lra|]. split; [lra|].
  assert (Hsq : Rsq3 cur tgt = dd * dd) by (unfold dd, dist3; rewrite sqrt_sqrt; [reflexivity|apply Rsq3_nonneg]).
  split.
  - unfold dist3, Rsq3, sqdist. simpl. unfold vx, vy, vz. simpl.
    replace ((fst (fst cur) + (fst (fst tgt) - fst (fst cur)) * lam - fst (fst cur)) *
             (fst (fst cur) + (fst (fst tgt) - fst (fst cur)) * lam - fst (fst cur)) +
             (snd (fst cur) + (snd (fst tgt) - snd (fst cur)) * lam - snd (fst cur)) *
             (snd (fst cur) + (snd (fst tgt) - snd (fst cur)) * lam - snd (fst cur)) +
             (snd cur + (snd tgt - snd cur) * lam - snd cur) * (snd cur + (snd tgt - snd cur) * lam - snd cur))
      with ((lam * dd) * (lam * dd)).
    + rewrite sqrt_square; [unfold lam; field; lra|apply Rmult_le_pos; lra].
    + unfold Rsq3, sqdist in Hsq. simpl in Hsq. unfold vx, vy, vz in Hsq.
      replace (lam * dd * (lam * dd)) with (lam * lam * (dd * dd)) by ring. rewrite <- Hsq. ring.
  - unfold dist3, Rsq3, sqdist. simpl. unfold vx, vy, vz. simpl.
    replace ((fst (fst tgt) - (fst (fst cur) + (fst (fst tgt) - fst (fst cur)) * lam)) *
             (fst (fst tgt) - (fst (fst cur) + (fst (fst tgt) - fst (fst cur)) * lam)) +
             (snd (fst tgt) - (snd (fst cur) + (snd (fst tgt) - snd (fst cur)) * lam)) *
             (snd (fst tgt) - (snd (fst cur) + (snd (fst tgt) - snd (fst cur)) * lam)) +
             (snd tgt - (snd cur + (snd tgt - snd cur) * lam)) * (snd tgt - (snd cur + (snd tgt - snd cur) * lam)))
      with (((1 - lam) * dd) * ((1 - lam) * dd)).
    + rewrite sqrt_square; [unfold lam; field; lra|apply Rmult_le_pos; lra].
    + unfold Rsq3, sqdist in Hsq. simpl in Hsq. unfold vx, vy, vz in Hsq.
      replace ((1 - lam) * dd * ((1 - lam) * dd)) with ((1 - lam) * (1 - lam) * (dd * dd)) by ring. rewrite <- Hsq. ring.
Qed.

(** ... and within one step it lands on the target (real-number reading of [move_lands]). *)
Theorem move_lands_R (cur tgt : vec3 R) (speed : R) :
  dist3 cur tgt <= speed * c_rate cfg -> move R_ops cfg cur tgt speed = tgt.
Proof.
  intros H. rewrite move_R_unfold.
  destruct (Rleb (dist3 cur tgt) (speed * c_rate cfg)) eqn:E; [reflexivity|]. apply Rleb_false in E. lra.
Qed.

End Move.
