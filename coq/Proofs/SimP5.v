(** Non-interference, one event at a time (C13): an event owned by a silent node [x] — one whose
    protocol only ever issues node-scoped requests — changes nothing any other node can observe
    and schedules only events owned by [x]. *)
From Coq Require Import List Arith NArith Bool Lia.
Import ListNotations.
From GS Require Import Num EventLoop Kernel Geo Sim.
From GS.Proofs Require Import Aux SimP SimP3.

Section SimP5.
Context {F : Type} (A : ArithOps F) {PS : Type}.
Variable cfg : scfg F.
Variable react : nat -> PS -> F -> cb F -> PS * list (action F).
Variable x : nat.
Notation sstate := (sstate F PS).
Implicit Types (h : sstate).

(** node [x] is silent: whatever it is told, it answers with node-scoped requests only *)
Definition silent : Prop := forall ps t c, forallb (@node_scoped F) (snd (react x ps t c)) = true.

(** events that concern [x] only *)
Definition owned (p : payload F) : bool :=
  match p with
  | EvTimer n _ _ => Nat.eqb n x
  | EvDeliver _ d _ => Nat.eqb d x
  | EvTelemetry n _ => Nat.eqb n x
  | EvTick => false
  end.

(** what the other nodes can observe of the handler state *)
Definition same_for_others h h' : Prop :=
  (forall y, y <> x ->
     pend_of y (s_pending h') = pend_of y (s_pending h) /\
     nth y (s_tgt h') None = nth y (s_tgt h) None /\
     (forall d, nth y (s_speed h') d = nth y (s_speed h) d) /\
     (forall d, nth y (s_range h') d = nth y (s_range h) d) /\
     (forall d, nth y (s_flag h') d = nth y (s_flag h) d) /\
     nth_error (s_ps h') y = nth_error (s_ps h) y) /\
  s_pos h' = s_pos h /\ s_cursor h' = s_cursor h /\ s_astate h' = s_astate h /\
  length (s_ps h') = length (s_ps h).

Lemma same_refl h : same_for_others h h.
Proof. unfold same_for_others. repeat split; auto. Qed.

Lemma same_trans h1 h2 h3 : same_for_others h1 h2 -> same_for_others h2 h3 -> same_for_others h1 h3.
Proof.
  intros (A1 & A2 & A3 & A4 & A5) (B1 & B2 & B3 & B4 & B5). unfold same_for_others.
  split; [|split; [congruence|split; [congruence|split; congruence]]].
  intros y Hy. destruct (A1 y Hy) as (a1 & a2 & a3 & a4 & a5 & a6). destruct (B1 y Hy) as (b1 & b2 & b3 & b4 & b5 & b6).
  split; [congruence|]. split; [congruence|]. split; [intros d; rewrite b3; apply a3|].
  split; [intros d; rewrite b4; apply a4|]. split; [intros d; rewrite b5; apply a5|congruence].
Qed.

Lemma nth_error_upd_other {X : Type} (l : list X) n m (v : X) : n <> m -> nth_error (upd n v l) m = nth_error l m.
Proof. revert n m. induction l as [|y r IH]; intros [|n] [|m] H; simpl; try reflexivity; try congruence. apply IH. congruence. Qed.

Lemma do_action_silent h now a :
  node_scoped a = true ->
  same_for_others h (fst (fst (do_action A cfg h now x a))) /\
  (forall ts p, In (ts, p) (snd (fst (do_action A cfg h now x a))) -> owned p = true).
Proof.
  intros Hs. pose proof (node_scoped_frame A cfg h now x a Hs) as Hf. pose proof (do_action_ps_length A cfg h now x a) as Hl.
  destruct (do_action A cfg h now x a) as [[h' q] o]. simpl in *.
  destruct Hf as (F1 & F2 & F3 & F4 & F5 & F6). split.
  - unfold same_for_others. split; [|repeat split; auto].
    intros y Hy. destruct (F1 y Hy) as (a1 & a2 & a3 & a4 & a5). repeat split; auto. rewrite F4. reflexivity.
  - intros ts p Hin. destruct (F6 ts p Hin) as (nm & id & ->). simpl. apply Nat.eqb_refl.
Qed.

Lemma do_actions_silent h now acts :
  forallb (@node_scoped F) acts = true ->
  same_for_others h (fst (fst (do_actions A cfg h now x acts))) /\
  (forall ts p, In (ts, p) (snd (fst (do_actions A cfg h now x acts))) -> owned p = true).
Proof.
  revert h. induction acts as [|a r IH]; intros h Hs; simpl; [split; [apply same_refl|intros ? ? []]|].
  apply andb_true_iff in Hs. destruct Hs as [Ha Hr].
  pose proof (do_action_silent h now a Ha) as [S1 O1]. destruct (do_action A cfg h now x a) as [[h1 q1] o]. simpl in *.
  specialize (IH h1 Hr). destruct (do_actions A cfg h1 now x r) as [[h2 q2] t2]. simpl in *. destruct IH as [S2 O2].
  split; [eapply same_trans; eassumption|]. intros ts p Hin. apply in_app_or in Hin. destruct Hin; [eapply O1|eapply O2]; eassumption.
Qed.

(** a callback of the silent node: nothing observable by others changes, only [x]-owned events
    are scheduled, and every trace item it produces belongs to [x] *)
Theorem callback_silent h now c :
  silent ->
  same_for_others h (fst (fst (callback A cfg react h now x c))) /\
  (forall ts p, In (ts, p) (snd (fst (callback A cfg react h now x c))) -> owned p = true) /\
  (forall it, In it (snd (callback A cfg react h now x c)) -> exists t c', it = TCb x t c' \/ exists a o, it = TAct x a o).
Proof.
  intros Hs. pose proof (callback_items A cfg react h now x c) as Hi.
  unfold callback in *. destruct (nth_error (s_ps h) x) as [ps|] eqn:En.
  - specialize (Hs ps (if has_timer cfg then now else f0 A) c).
    destruct (react x ps (if has_timer cfg then now else f0 A) c) as [ps1 acts]. simpl in Hs.
    assert (S0 : same_for_others h (set_ps h (upd x ps1 (s_ps h)))).
    { unfold same_for_others. simpl. split; [|repeat split; auto; apply upd_length].
      intros y Hy. repeat split; auto. apply nth_error_upd_other. congruence. }
    pose proof (do_actions_silent (set_ps h (upd x ps1 (s_ps h))) now acts Hs) as [S1 O1].
    destruct (do_actions A cfg (set_ps h (upd x ps1 (s_ps h))) now x acts) as [[h2 q] t]. simpl in *.
    split; [eapply same_trans; eassumption|]. split; [exact O1|].
    destruct Hi as [Hi|(ai & Heq & Hai)]; [discriminate|]. injection Heq as <-.
    intros it [<-|Hin]; [eexists; eexists; left; reflexivity|]. destruct (Hai it Hin) as (a & o & ->). exists (f0 A), CbInit. right. eauto.
  - simpl. split; [apply same_refl|]. split; intros; contradiction.
Qed.

(** C13, one event at a time: executing an event owned by a silent node leaves everything the
    other nodes can observe unchanged, schedules only events owned by that node, and calls back
    nobody else. *)
Theorem owned_event_is_invisible h now p :
  silent -> owned p = true ->
  same_for_others h (fst (fst (sim_exec A cfg react h now p))) /\
  (forall ts q, In (ts, q) (snd (fst (sim_exec A cfg react h now p))) -> owned q = true) /\
  (forall it, In it (snd (sim_exec A cfg react h now p)) -> exists t c', it = TCb x t c' \/ exists a o, it = TAct x a o).
Proof.
  intros Hs Ho. destruct p as [n name id|src dst msg| |n pos]; simpl in Ho; try discriminate; apply Nat.eqb_eq in Ho; subst; simpl.
  - destruct (existsb (pend_id x name id) (s_pending h)).
    + set (h0 := set_pending h (filter (fun e => negb (pend_id x name id e)) (s_pending h))).
      assert (S0 : same_for_others h h0).
      { unfold same_for_others, h0. simpl. split; [|repeat split; auto].
        intros y Hy. repeat split; auto. unfold pend_of. rewrite filter_filter_comm.
        apply filter_ext_in. intros [[n' nm] i] Hin. simpl.
        destruct (Nat.eqb n' y) eqn:E; [|rewrite andb_false_r; reflexivity]. apply Nat.eqb_eq in E. subst n'.
        assert (Nat.eqb y x = false) as -> by (apply Nat.eqb_neq; exact Hy). reflexivity. }
      destruct (callback_silent h0 now (CbTimer name) Hs) as (S1 & O1 & T1).
      split; [eapply same_trans; eassumption|]. split; assumption.
    + simpl. split; [apply same_refl|]. split; intros; contradiction.
  - apply callback_silent. exact Hs.
  - apply callback_silent. exact Hs.
Qed.

End SimP5.
