(** * Two runs that differ only in what a silent node does: relational lemmas (C13)

    [x] is a node whose protocol, in both runs, only ever issues node-scoped requests; every
    other node runs the same protocol function in both runs.  [Rh I h1 h2] relates the handler
    states of the two runs: everything the other nodes can observe is equal, except that timer
    identifiers may differ -- [I] is the (partial, one-to-one) correspondence between the
    identifiers of the other nodes' timers in run 1 and in run 2. *)
From Coq Require Import List Arith NArith Bool Lia.
Import ListNotations.
From GS Require Import Num EventLoop Kernel Geo Sim.
From GS.Proofs Require Import Aux SimP SimP3 SimP4 SimP5.

Section NonInterf.
Context {F : Type} (A : ArithOps F) {PS : Type}.
Variable cfg : scfg F.
Variable x : nat.

Notation sstate := (sstate F PS).
Notation idrel := (list (N * N)).
Implicit Types (h : sstate) (I : idrel).

(* ---- the relation ------------------------------------------------------------------------------------ *)

Definition pe_rel I (e1 e2 : nat * nat * N) : Prop :=
  fst (fst e1) = fst (fst e2) /\ snd (fst e1) = snd (fst e2) /\ In (snd e1, snd e2) I.

Definition pl_rel I (p1 p2 : payload F) : Prop :=
  match p1, p2 with
  | EvTimer a n i, EvTimer b m j => a = b /\ n = m /\ In (i, j) I
  | EvDeliver s d m, EvDeliver s' d' m' => s = s' /\ d = d' /\ m = m'
  | EvTick, EvTick => True
  | EvTelemetry n p, EvTelemetry n' p' => n = n' /\ p = p'
  | _, _ => False
  end.

Definition rrel I (r1 r2 : F * payload F) : Prop := fst r1 = fst r2 /\ pl_rel I (snd r1) (snd r2).

Definition oreqs (q : list (F * payload F)) : list (F * payload F) :=
  filter (fun r => negb (owned x (snd r))) q.

Record Rh I h1 h2 : Prop := mkRh {
  rh_pos : forall y, y <> x -> nth y (s_pos h1) (zero3 A) = nth y (s_pos h2) (zero3 A);
  rh_tgt : forall y, y <> x -> nth y (s_tgt h1) None = nth y (s_tgt h2) None;
  rh_speed : forall y, y <> x -> nth y (s_speed h1) (f0 A) = nth y (s_speed h2) (f0 A);
  rh_range : forall y, y <> x -> nth y (s_range h1) (f0 A) = nth y (s_range h2) (f0 A);
  rh_ps : forall y, y <> x -> nth_error (s_ps h1) y = nth_error (s_ps h2) y;
  rh_lpos : length (s_pos h1) = length (s_pos h2);
  rh_ltgt : length (s_tgt h1) = length (s_tgt h2);
  rh_lspeed : length (s_speed h1) = length (s_speed h2);
  rh_lrange : length (s_range h1) = length (s_range h2);
  rh_lps : length (s_ps h1) = length (s_ps h2);
  rh_cursor : s_cursor h1 = s_cursor h2;
  rh_pend : forall y, y <> x -> Forall2 (pe_rel I) (pend_of y (s_pending h1)) (pend_of y (s_pending h2));
  rh_I1 : NoDup (map fst I);
  rh_I2 : NoDup (map snd I);
  rh_lt : forall a b, In (a, b) I -> (a < s_nextid h1)%N /\ (b < s_nextid h2)%N;
  rh_ok1 : pend_ok h1;
  rh_ok2 : pend_ok h2
}.

Lemma pe_rel_incl I I' e1 e2 : incl I I' -> pe_rel I e1 e2 -> pe_rel I' e1 e2.
Proof. intros Hi (H1 & H2 & H3). repeat split; auto. Qed.

Lemma pl_rel_incl I I' p1 p2 : incl I I' -> pl_rel I p1 p2 -> pl_rel I' p1 p2.
Proof. intros Hi. destruct p1, p2; simpl; try tauto. intros (H1 & H2 & H3). repeat split; auto. Qed.

Lemma rrel_incl I I' r1 r2 : incl I I' -> rrel I r1 r2 -> rrel I' r1 r2.
Proof. intros Hi [H1 H2]. split; [exact H1|eapply pl_rel_incl; eassumption]. Qed.

Lemma Forall2_incl {X Y : Type} (R R' : X -> Y -> Prop) l1 l2 :
  (forall a b, R a b -> R' a b) -> Forall2 R l1 l2 -> Forall2 R' l1 l2.
Proof. intros H HF. induction HF; constructor; auto. Qed.

Lemma Forall2_filter {X Y : Type} (R : X -> Y -> Prop) (p : X -> bool) (q : Y -> bool) l1 l2 :
  (forall a b, R a b -> p a = q b) -> Forall2 R l1 l2 -> Forall2 R (filter p l1) (filter q l2).
Proof.
  intros H HF. induction HF as [|a b r1 r2 Hab Hr IH]; simpl; [constructor|].
  rewrite (H a b Hab). destruct (q b); [constructor; assumption|exact IH].
Qed.

Lemma I_fun_l I a b b' : NoDup (map fst I) -> In (a, b) I -> In (a, b') I -> b = b'.
Proof.
  induction I as [|[u v] r IH]; intros Hn H1 H2; [destruct H1|].
  simpl in Hn. inversion Hn as [|? ? Hu Hr]; subst.
  destruct H1 as [E1|H1], H2 as [E2|H2].
  - congruence.
  - injection E1 as -> ->. exfalso. apply Hu. apply in_map_iff. exists (a, b'). auto.
  - injection E2 as -> ->. exfalso. apply Hu. apply in_map_iff. exists (a, b). auto.
  - eapply IH; eassumption.
Qed.

Lemma I_fun_r I a a' b : NoDup (map snd I) -> In (a, b) I -> In (a', b) I -> a = a'.
Proof.
  induction I as [|[u v] r IH]; intros Hn H1 H2; [destruct H1|].
  simpl in Hn. inversion Hn as [|? ? Hu Hr]; subst.
  destruct H1 as [E1|H1], H2 as [E2|H2].
  - congruence.
  - injection E1 as -> ->. exfalso. apply Hu. apply in_map_iff. exists (a', b). auto.
  - injection E2 as -> ->. exfalso. apply Hu. apply in_map_iff. exists (a, b). auto.
  - eapply IH; eassumption.
Qed.

(* ---- list helpers -------------------------------------------------------------------------------------- *)

Lemma upd_len {X : Type} n (v : X) l : length (upd n v l) = length l.
Proof. revert n. induction l as [|y r IH]; intros [|m]; simpl; auto. Qed.

Lemma nth_upd_gen {X : Type} (l : list X) n z (v d : X) :
  nth z (upd n v l) d = if Nat.eqb z n && (n <? length l) then v else nth z l d.
Proof.
  revert n z. induction l as [|y r IH]; intros [|n] [|z]; simpl; try reflexivity.
  - destruct (Nat.eqb z n); reflexivity.
  - rewrite IH. reflexivity.
Qed.

Lemma nth_error_upd_gen {X : Type} (l : list X) n z (v : X) :
  nth_error (upd n v l) z = if Nat.eqb z n && (n <? length l) then Some v else nth_error l z.
Proof.
  revert n z. induction l as [|y r IH]; intros [|n] [|z]; simpl; try reflexivity.
  - destruct (Nat.eqb z n); reflexivity.
  - rewrite IH. reflexivity.
Qed.

Lemma nth_upd_rel {X : Type} (l1 l2 : list X) n z (v d : X) :
  length l1 = length l2 -> nth z l1 d = nth z l2 d -> nth z (upd n v l1) d = nth z (upd n v l2) d.
Proof. intros Hl Hn. rewrite !nth_upd_gen, Hl, Hn. reflexivity. Qed.

Lemma nth_error_upd_rel {X : Type} (l1 l2 : list X) n z (v : X) :
  length l1 = length l2 -> nth_error l1 z = nth_error l2 z -> nth_error (upd n v l1) z = nth_error (upd n v l2) z.
Proof. intros Hl Hn. rewrite !nth_error_upd_gen, Hl, Hn. reflexivity. Qed.

Lemma pend_of_filter y (p : nat * nat * N -> bool) l : pend_of y (filter p l) = filter p (pend_of y l).
Proof.
  unfold pend_of. induction l as [|e r IH]; simpl; [reflexivity|].
  destruct (p e) eqn:Ep; simpl; destruct (Nat.eqb (fst (fst e)) y) eqn:Ey; simpl; rewrite ?Ep, ?Ey, IH; reflexivity.
Qed.

Lemma existsb_pend_of y name id l : existsb (pend_id y name id) l = existsb (pend_id y name id) (pend_of y l).
Proof.
  unfold pend_of. induction l as [|[[n nm] i] r IH]; simpl; [reflexivity|].
  destruct (Nat.eqb n y) eqn:E; simpl; rewrite ?E; simpl; rewrite IH; reflexivity.
Qed.

(** the pending check of two corresponding timer events has the same answer *)
Lemma pend_check I h1 h2 y name i1 i2 :
  Rh I h1 h2 -> y <> x -> In (i1, i2) I ->
  existsb (pend_id y name i1) (s_pending h1) = existsb (pend_id y name i2) (s_pending h2).
Proof.
  intros HR Hy Hin. rewrite (existsb_pend_of y name i1), (existsb_pend_of y name i2).
  pose proof (rh_pend I h1 h2 HR y Hy) as HF. pose proof (rh_I1 _ _ _ HR) as N1. pose proof (rh_I2 _ _ _ HR) as N2.
  induction HF as [|[[a n] i] [[b m] j] r1 r2 (E1 & E2 & E3) Hr IH]; simpl; [reflexivity|].
  simpl in E1, E2, E3. subst b m. rewrite IH. f_equal.
  destruct (N.eqb i i1) eqn:Ea, (N.eqb j i2) eqn:Eb; try reflexivity.
  - apply N.eqb_eq in Ea. subst i. rewrite (I_fun_l I i1 j i2 N1 E3 Hin), N.eqb_refl in Eb. discriminate.
  - apply N.eqb_eq in Eb. subst j. rewrite (I_fun_r I i i1 i2 N2 E3 Hin), N.eqb_refl in Ea. discriminate.
Qed.

(** entries of the two pending tables that correspond are selected together *)
Lemma pend_id_agree I e1 e2 y name i1 i2 :
  NoDup (map fst I) -> NoDup (map snd I) -> In (i1, i2) I -> pe_rel I e1 e2 ->
  negb (pend_id y name i1 e1) = negb (pend_id y name i2 e2).
Proof.
  intros N1 N2 Hin. destruct e1 as [[a n] i], e2 as [[b m] j]. intros (E1 & E2 & E3). simpl in *. subst b m.
  f_equal. f_equal. destruct (N.eqb i i1) eqn:Ea, (N.eqb j i2) eqn:Eb; try reflexivity.
  - apply N.eqb_eq in Ea. subst i. rewrite (I_fun_l I i1 j i2 N1 E3 Hin), N.eqb_refl in Eb. discriminate.
  - apply N.eqb_eq in Eb. subst j. rewrite (I_fun_r I i i1 i2 N2 E3 Hin), N.eqb_refl in Ea. discriminate.
Qed.

Lemma pend_is_agree I e1 e2 y name : pe_rel I e1 e2 -> negb (pend_is y name e1) = negb (pend_is y name e2).
Proof. destruct e1 as [[a n] i], e2 as [[b m] j]. intros (E1 & E2 & _). simpl in *. subst. reflexivity. Qed.

(* ---- a state changed outside what the relation looks at -------------------------------------------------- *)

Definition view h := (s_pos h, s_tgt h, s_speed h, s_range h, s_ps h, s_pending h, s_nextid h).

Lemma Rh_view I h1 h2 h1' h2' :
  Rh I h1 h2 -> view h1' = view h1 -> view h2' = view h2 -> s_cursor h1' = s_cursor h2' -> Rh I h1' h2'.
Proof.
  intros HR V1 V2 Hc. unfold view in *. injection V1 as a1 a2 a3 a4 a5 a6 a7. injection V2 as b1 b2 b3 b4 b5 b6 b7.
  destruct HR. constructor; unfold pend_ok in *; rewrite ?a1, ?a2, ?a3, ?a4, ?a5, ?a6, ?a7, ?b1, ?b2, ?b3, ?b4, ?b5, ?b6, ?b7; auto.
Qed.

(* ---- transmissions of another node ------------------------------------------------------------------------ *)

Lemma rrel_refl_deliver I t s d m : rrel I (t, EvDeliver s d m) (t, EvDeliver s d m).
Proof. split; simpl; auto. Qed.

Lemma transmit_rel I h1 h2 now y d msg :
  Rh I h1 h2 -> y <> x ->
  let '(h1', q1) := transmit A cfg h1 now y d msg in
  let '(h2', q2) := transmit A cfg h2 now y d msg in
  Rh I h1' h2' /\ Forall2 (rrel I) (oreqs q1) (oreqs q2).
Proof.
  intros HR Hy. unfold transmit, pos_of.
  rewrite (rh_pos _ _ _ HR y Hy), (rh_range _ _ _ HR y Hy), (rh_cursor _ _ _ HR).
  assert (HRc : Rh I (set_cursor h1 (S (s_cursor h2))) (set_cursor h2 (S (s_cursor h2)))).
  { eapply Rh_view; [exact HR|reflexivity|reflexivity|reflexivity]. }
  destruct (Nat.eq_dec d x) as [->|Hd].
  - destruct (fltb A (f0 A) (c_fail cfg)).
    + destruct (_ && _), (_ && _); simpl; (split; [exact HRc|]); unfold oreqs; simpl; rewrite ?Nat.eqb_refl; simpl; constructor.
    + destruct (_ && _), (_ && _); simpl; (split; [exact HR|]); unfold oreqs; simpl; rewrite ?Nat.eqb_refl; simpl; constructor.
  - rewrite (rh_pos _ _ _ HR d Hd).
    assert (Ho : Nat.eqb d x = false) by (apply Nat.eqb_neq; exact Hd).
    destruct (fltb A (f0 A) (c_fail cfg)).
    + destruct (_ && _); simpl; (split; [exact HRc|]); unfold oreqs; simpl; rewrite ?Ho; simpl; repeat constructor; simpl; auto.
    + destruct (_ && _); simpl; (split; [exact HR|]); unfold oreqs; simpl; rewrite ?Ho; simpl; repeat constructor; simpl; auto.
Qed.

Lemma oreqs_app q1 q2 : oreqs (q1 ++ q2) = oreqs q1 ++ oreqs q2.
Proof. unfold oreqs. apply filter_app. Qed.

Lemma broadcast_rel I h1 h2 now y msg dsts :
  Rh I h1 h2 -> y <> x ->
  let '(h1', q1) := broadcast A cfg h1 now y msg dsts in
  let '(h2', q2) := broadcast A cfg h2 now y msg dsts in
  Rh I h1' h2' /\ Forall2 (rrel I) (oreqs q1) (oreqs q2).
Proof.
  intros HR Hy. revert h1 h2 HR. induction dsts as [|d r IH]; intros h1 h2 HR; simpl.
  - split; [exact HR|constructor].
  - destruct (Nat.eqb d y); [apply IH; exact HR|].
    pose proof (transmit_rel I h1 h2 now y d msg HR Hy) as Ht.
    destruct (transmit A cfg h1 now y d msg) as [h1a q1a]. destruct (transmit A cfg h2 now y d msg) as [h2a q2a].
    destruct Ht as [HRa Hqa]. specialize (IH h1a h2a HRa).
    destruct (broadcast A cfg h1a now y msg r) as [h1b q1b]. destruct (broadcast A cfg h2a now y msg r) as [h2b q2b].
    destruct IH as [HRb Hqb]. split; [exact HRb|]. rewrite !oreqs_app. apply Forall2_app; assumption.
Qed.

(* ---- one request of another node, in both runs --------------------------------------------------------------- *)

Lemma Rh_set_tgt I h1 h2 y v :
  Rh I h1 h2 -> Rh I (set_tgt h1 (upd y v (s_tgt h1))) (set_tgt h2 (upd y v (s_tgt h2))).
Proof.
  intros [Hpos Htgt Hspd Hrng Hps Lpos Ltgt Lspd Lrng Lps Hcur Hpend N1 N2 Hlt Ok1 Ok2].
  constructor; simpl; auto.
  - intros z Hz. apply nth_upd_rel; auto.
  - rewrite !upd_len. exact Ltgt.
Qed.

Lemma Rh_set_speed I h1 h2 y v :
  Rh I h1 h2 -> Rh I (set_speed h1 (upd y v (s_speed h1))) (set_speed h2 (upd y v (s_speed h2))).
Proof.
  intros [Hpos Htgt Hspd Hrng Hps Lpos Ltgt Lspd Lrng Lps Hcur Hpend N1 N2 Hlt Ok1 Ok2].
  constructor; simpl; auto.
  - intros z Hz. apply nth_upd_rel; auto.
  - rewrite !upd_len. exact Lspd.
Qed.

Lemma Rh_set_range I h1 h2 y v :
  Rh I h1 h2 -> Rh I (set_range h1 (upd y v (s_range h1))) (set_range h2 (upd y v (s_range h2))).
Proof.
  intros [Hpos Htgt Hspd Hrng Hps Lpos Ltgt Lspd Lrng Lps Hcur Hpend N1 N2 Hlt Ok1 Ok2].
  constructor; simpl; auto.
  - intros z Hz. apply nth_upd_rel; auto.
  - rewrite !upd_len. exact Lrng.
Qed.

Lemma Rh_set_ps I h1 h2 y v :
  Rh I h1 h2 -> Rh I (set_ps h1 (upd y v (s_ps h1))) (set_ps h2 (upd y v (s_ps h2))).
Proof.
  intros [Hpos Htgt Hspd Hrng Hps Lpos Ltgt Lspd Lrng Lps Hcur Hpend N1 N2 Hlt Ok1 Ok2].
  constructor; simpl; auto.
  - intros z Hz. apply nth_error_upd_rel; auto.
  - rewrite !upd_len. exact Lps.
Qed.

Lemma Rh_set_timer I h1 h2 y name :
  Rh I h1 h2 -> y <> x ->
  let I' := (s_nextid h1, s_nextid h2) :: I in
  Rh I' (set_nextid (set_pending h1 (s_pending h1 ++ [(y, name, s_nextid h1)])) (N.succ (s_nextid h1)))
        (set_nextid (set_pending h2 (s_pending h2 ++ [(y, name, s_nextid h2)])) (N.succ (s_nextid h2))).
Proof.
  intros [Hpos Htgt Hspd Hrng Hps Lpos Ltgt Lspd Lrng Lps Hcur Hpend N1 N2 Hlt Ok1 Ok2] Hy I'.
  assert (Hinc : incl I I') by (intros e He; right; exact He).
  constructor; simpl; auto.
  - intros z Hz. rewrite !pend_of_app. apply Forall2_app.
    + eapply Forall2_incl; [|apply Hpend; exact Hz]. intros a b. apply pe_rel_incl. exact Hinc.
    + unfold pend_of. simpl. destruct (Nat.eqb y z); constructor; [|constructor].
      repeat split; simpl; auto.
  - constructor; [|exact N1]. intros Hin. apply in_map_iff in Hin. destruct Hin as [[a b] [Ha Hin]]. simpl in Ha. subst a.
    destruct (Hlt _ _ Hin) as [H _]. lia.
  - constructor; [|exact N2]. intros Hin. apply in_map_iff in Hin. destruct Hin as [[a b] [Hb Hin]]. simpl in Hb. subst b.
    destruct (Hlt _ _ Hin) as [_ H]. lia.
  - intros a b [E|Hin]; [injection E as <- <-; lia|]. destruct (Hlt _ _ Hin). lia.
  - destruct Ok1 as [O1 O2]. split; simpl.
    + intros e He. apply in_app_or in He. destruct He as [He|[<-|[]]]; [specialize (O1 e He); lia|simpl; lia].
    + rewrite map_app. simpl. apply NoDup_app_one; [exact O2|].
      intro Hin. apply in_map_iff in Hin. destruct Hin as [e [He1 He2]]. specialize (O1 e He2). lia.
  - destruct Ok2 as [O1 O2]. split; simpl.
    + intros e He. apply in_app_or in He. destruct He as [He|[<-|[]]]; [specialize (O1 e He); lia|simpl; lia].
    + rewrite map_app. simpl. apply NoDup_app_one; [exact O2|].
      intro Hin. apply in_map_iff in Hin. destruct Hin as [e [He1 He2]]. specialize (O1 e He2). lia.
Qed.

Lemma Rh_cancel I h1 h2 y name :
  Rh I h1 h2 ->
  Rh I (set_pending h1 (filter (fun e => negb (pend_is y name e)) (s_pending h1)))
       (set_pending h2 (filter (fun e => negb (pend_is y name e)) (s_pending h2))).
Proof.
  intros [Hpos Htgt Hspd Hrng Hps Lpos Ltgt Lspd Lrng Lps Hcur Hpend N1 N2 Hlt Ok1 Ok2].
  constructor; simpl; auto.
  - intros z Hz. rewrite !pend_of_filter. apply Forall2_filter; [|apply Hpend; exact Hz].
    intros a b. apply pend_is_agree.
  - apply pend_ok_filter. exact Ok1.
  - apply pend_ok_filter. exact Ok2.
Qed.

Lemma Rh_fire I h1 h2 y name i1 i2 :
  Rh I h1 h2 -> In (i1, i2) I ->
  Rh I (set_pending h1 (filter (fun e => negb (pend_id y name i1 e)) (s_pending h1)))
       (set_pending h2 (filter (fun e => negb (pend_id y name i2 e)) (s_pending h2))).
Proof.
  intros [Hpos Htgt Hspd Hrng Hps Lpos Ltgt Lspd Lrng Lps Hcur Hpend N1 N2 Hlt Ok1 Ok2] Hin.
  constructor; simpl; auto.
  - intros z Hz. rewrite !pend_of_filter. apply Forall2_filter; [|apply Hpend; exact Hz].
    intros a b. apply pend_id_agree; assumption.
  - apply pend_ok_filter. exact Ok1.
  - apply pend_ok_filter. exact Ok2.
Qed.

Definition act_out (I : idrel) (h1 h2 : sstate) (r1 r2 : sstate * list (F * payload F) * outcome) : Prop :=
  snd r1 = snd r2 /\
  exists I', incl I I' /\ Rh I' (fst (fst r1)) (fst (fst r2)) /\ Forall2 (rrel I') (oreqs (snd (fst r1))) (oreqs (snd (fst r2))).

Lemma act_out_same I h1 h2 o : Rh I h1 h2 -> act_out I h1 h2 (h1, [], o) (h2, [], o).
Proof. intros HR. split; [reflexivity|]. exists I. split; [apply incl_refl|]. split; [exact HR|constructor]. Qed.

Lemma do_action_rel I h1 h2 now y a :
  Rh I h1 h2 -> y <> x ->
  act_out I h1 h2 (do_action A cfg h1 now y a) (do_action A cfg h2 now y a).
Proof.
  intros HR Hy.
  assert (Hyx : Nat.eqb y x = false) by (apply Nat.eqb_neq; exact Hy).
  destruct a as [name ts|name|msg dst|msg|msg d|p|p|sp|r|b]; simpl.
  - destruct (negb (has_timer cfg)); [apply act_out_same; exact HR|].
    destruct (fltb A ts now); [apply act_out_same; exact HR|].
    split; [reflexivity|]. exists ((s_nextid h1, s_nextid h2) :: I). split; [intros e He; right; exact He|].
    split; [apply Rh_set_timer; assumption|]. unfold oreqs. simpl. rewrite Hyx. simpl.
    constructor; [|constructor]. split; simpl; auto.
  - destruct (negb (has_timer cfg)); [apply act_out_same; exact HR|].
    split; [reflexivity|]. exists I. split; [apply incl_refl|]. split; [apply Rh_cancel; exact HR|constructor].
  - destruct (negb (has_comm cfg)); [apply act_out_same; exact HR|].
    destruct dst as [d|]; [|apply act_out_same; exact HR].
    destruct (Nat.eqb d y); [apply act_out_same; exact HR|].
    destruct (Nat.ltb d (c_nnodes cfg)); [|apply act_out_same; exact HR].
    pose proof (transmit_rel I h1 h2 now y d msg HR Hy) as Ht.
    destruct (transmit A cfg h1 now y d msg) as [h1a q1a]. destruct (transmit A cfg h2 now y d msg) as [h2a q2a].
    destruct Ht as [HRa Hqa]. split; [reflexivity|]. exists I. split; [apply incl_refl|]. split; assumption.
  - destruct (negb (has_comm cfg)); [apply act_out_same; exact HR|].
    pose proof (broadcast_rel I h1 h2 now y msg (seq 0 (c_nnodes cfg)) HR Hy) as Ht.
    destruct (broadcast A cfg h1 now y msg (seq 0 (c_nnodes cfg))) as [h1a q1a].
    destruct (broadcast A cfg h2 now y msg (seq 0 (c_nnodes cfg))) as [h2a q2a].
    destruct Ht as [HRa Hqa]. split; [reflexivity|]. exists I. split; [apply incl_refl|]. split; assumption.
  - destruct (negb (has_comm cfg)); [apply act_out_same; exact HR|].
    destruct (Nat.eqb d y); [apply act_out_same; exact HR|].
    pose proof (broadcast_rel I h1 h2 now y msg (seq 0 (c_nnodes cfg)) HR Hy) as Ht.
    destruct (broadcast A cfg h1 now y msg (seq 0 (c_nnodes cfg))) as [h1a q1a].
    destruct (broadcast A cfg h2 now y msg (seq 0 (c_nnodes cfg))) as [h2a q2a].
    destruct Ht as [HRa Hqa]. split; [reflexivity|]. exists I. split; [apply incl_refl|]. split; assumption.
  - destruct (negb (has_mob cfg)); [apply act_out_same; exact HR|].
    split; [reflexivity|]. exists I. split; [apply incl_refl|]. split; [apply Rh_set_tgt; exact HR|constructor].
  - destruct (negb (has_mob cfg)); [apply act_out_same; exact HR|].
    split; [reflexivity|]. exists I. split; [apply incl_refl|]. split; [apply Rh_set_tgt; exact HR|constructor].
  - destruct (negb (has_mob cfg)); [apply act_out_same; exact HR|].
    split; [reflexivity|]. exists I. split; [apply incl_refl|]. split; [apply Rh_set_speed; exact HR|constructor].
  - destruct (fltb A r (f0 A)); [apply act_out_same; exact HR|].
    destruct (negb (has_comm cfg)); [apply act_out_same; exact HR|].
    split; [reflexivity|]. exists I. split; [apply incl_refl|]. split; [apply Rh_set_range; exact HR|constructor].
  - split; [reflexivity|]. exists I. split; [apply incl_refl|]. split; [|constructor].
    eapply Rh_view; [exact HR|reflexivity|reflexivity|]. simpl. apply (rh_cursor _ _ _ HR).
Qed.

(* ---- sequences of requests and whole callbacks of another node, in both runs --------------------------------------- *)

Variables react1 react2 : nat -> PS -> F -> cb F -> PS * list (action F).
Hypothesis same_react : forall y, y <> x -> forall ps t c, react1 y ps t c = react2 y ps t c.

Definition acts_out (I : idrel) (r1 r2 : sstate * list (F * payload F) * list (titem F)) : Prop :=
  snd r1 = snd r2 /\
  exists I', incl I I' /\ Rh I' (fst (fst r1)) (fst (fst r2)) /\ Forall2 (rrel I') (oreqs (snd (fst r1))) (oreqs (snd (fst r2))).

Lemma do_actions_rel I h1 h2 now y acts :
  Rh I h1 h2 -> y <> x -> acts_out I (do_actions A cfg h1 now y acts) (do_actions A cfg h2 now y acts).
Proof.
  intros HR Hy. revert I h1 h2 HR. induction acts as [|a r IH]; intros I h1 h2 HR; simpl.
  - split; [reflexivity|]. exists I. split; [apply incl_refl|]. split; [exact HR|constructor].
  - pose proof (do_action_rel I h1 h2 now y a HR Hy) as Ha.
    destruct (do_action A cfg h1 now y a) as [[h1a q1a] o1]. destruct (do_action A cfg h2 now y a) as [[h2a q2a] o2].
    destruct Ha as [Ho (I1 & Hi1 & HR1 & Hq1)]. simpl in Ho, HR1, Hq1. subst o2.
    specialize (IH I1 h1a h2a HR1).
    destruct (do_actions A cfg h1a now y r) as [[h1b q1b] t1]. destruct (do_actions A cfg h2a now y r) as [[h2b q2b] t2].
    destruct IH as [Ht (I2 & Hi2 & HR2 & Hq2)]. simpl in Ht, HR2, Hq2. subst t2.
    split; [reflexivity|]. exists I2. split; [eapply incl_tran; eassumption|]. split; [exact HR2|]. simpl.
    rewrite !oreqs_app. apply Forall2_app; [|exact Hq2].
    eapply Forall2_incl; [|exact Hq1]. intros u v. apply rrel_incl. exact Hi2.
Qed.

Lemma callback_rel I h1 h2 now y c :
  Rh I h1 h2 -> y <> x -> acts_out I (callback A cfg react1 h1 now y c) (callback A cfg react2 h2 now y c).
Proof.
  intros HR Hy. unfold callback. rewrite (rh_ps _ _ _ HR y Hy).
  destruct (nth_error (s_ps h2) y) as [ps|].
  2:{ split; [reflexivity|]. exists I. split; [apply incl_refl|]. split; [exact HR|constructor]. }
  rewrite (same_react y Hy). destruct (react2 y ps (if has_timer cfg then now else f0 A) c) as [ps1 acts].
  pose proof (do_actions_rel I _ _ now y acts (Rh_set_ps I h1 h2 y ps1 HR) Hy) as Hd.
  destruct (do_actions A cfg (set_ps h1 (upd y ps1 (s_ps h1))) now y acts) as [[h1b q1b] t1].
  destruct (do_actions A cfg (set_ps h2 (upd y ps1 (s_ps h2))) now y acts) as [[h2b q2b] t2].
  destruct Hd as [Ht Hrest]. simpl in Ht. subst t2. split; [reflexivity|exact Hrest].
Qed.

(* ---- what the silent node does, in one run ----------------------------------------------------------------------------- *)

Definition frame h h' : Prop :=
  (forall y, y <> x ->
     nth y (s_pos h') (zero3 A) = nth y (s_pos h) (zero3 A) /\
     nth y (s_tgt h') None = nth y (s_tgt h) None /\
     nth y (s_speed h') (f0 A) = nth y (s_speed h) (f0 A) /\
     nth y (s_range h') (f0 A) = nth y (s_range h) (f0 A) /\
     nth_error (s_ps h') y = nth_error (s_ps h) y /\
     pend_of y (s_pending h') = pend_of y (s_pending h)) /\
  length (s_pos h') = length (s_pos h) /\ length (s_tgt h') = length (s_tgt h) /\
  length (s_speed h') = length (s_speed h) /\ length (s_range h') = length (s_range h) /\
  length (s_ps h') = length (s_ps h) /\
  s_cursor h' = s_cursor h /\ (s_nextid h <= s_nextid h')%N /\ (pend_ok h -> pend_ok h').

Lemma frame_refl h : frame h h.
Proof. unfold frame. split; [intros y Hy; repeat split; reflexivity|]. do 6 (split; [reflexivity|]). split; [lia|intros H; exact H]. Qed.

Lemma frame_trans h1 h2 h3 : frame h1 h2 -> frame h2 h3 -> frame h1 h3.
Proof.
  intros (A1 & A2 & A3 & A4 & A5 & A6 & A7 & A8 & A9) (B1 & B2 & B3 & B4 & B5 & B6 & B7 & B8 & B9). unfold frame.
  split; [|do 6 (split; [congruence|]); split; [lia|intros H; apply B9, A9, H]].
  intros y Hy. destruct (A1 y Hy) as (a1 & a2 & a3 & a4 & a5 & a6). destruct (B1 y Hy) as (b1 & b2 & b3 & b4 & b5 & b6).
  repeat split; congruence.
Qed.

Lemma Rh_frame_l I h1 h2 h1' : Rh I h1 h2 -> frame h1 h1' -> Rh I h1' h2.
Proof.
  intros [Hpos Htgt Hspd Hrng Hps Lpos Ltgt Lspd Lrng Lps Hcur Hpend N1 N2 Hlt Ok1 Ok2] (F1 & F2 & F3 & F4 & F5 & F6 & F7 & F8 & F9).
  constructor; auto; try congruence.
  - intros y Hy. destruct (F1 y Hy) as (a1 & _). rewrite a1. auto.
  - intros y Hy. destruct (F1 y Hy) as (_ & a2 & _). rewrite a2. auto.
  - intros y Hy. destruct (F1 y Hy) as (_ & _ & a3 & _). rewrite a3. auto.
  - intros y Hy. destruct (F1 y Hy) as (_ & _ & _ & a4 & _). rewrite a4. auto.
  - intros y Hy. destruct (F1 y Hy) as (_ & _ & _ & _ & a5 & _). rewrite a5. auto.
  - intros y Hy. destruct (F1 y Hy) as (_ & _ & _ & _ & _ & a6). rewrite a6. auto.
  - intros a b Hin. destruct (Hlt a b Hin). split; lia.
Qed.

Lemma Rh_frame_r I h1 h2 h2' : Rh I h1 h2 -> frame h2 h2' -> Rh I h1 h2'.
Proof.
  intros [Hpos Htgt Hspd Hrng Hps Lpos Ltgt Lspd Lrng Lps Hcur Hpend N1 N2 Hlt Ok1 Ok2] (F1 & F2 & F3 & F4 & F5 & F6 & F7 & F8 & F9).
  constructor; auto; try congruence.
  - intros y Hy. destruct (F1 y Hy) as (a1 & _). rewrite a1. auto.
  - intros y Hy. destruct (F1 y Hy) as (_ & a2 & _). rewrite a2. auto.
  - intros y Hy. destruct (F1 y Hy) as (_ & _ & a3 & _). rewrite a3. auto.
  - intros y Hy. destruct (F1 y Hy) as (_ & _ & _ & a4 & _). rewrite a4. auto.
  - intros y Hy. destruct (F1 y Hy) as (_ & _ & _ & _ & a5 & _). rewrite a5. auto.
  - intros y Hy. destruct (F1 y Hy) as (_ & _ & _ & _ & _ & a6). rewrite a6. auto.
  - intros a b Hin. destruct (Hlt a b Hin). split; lia.
Qed.

Lemma do_action_lens h now a :
  node_scoped a = true ->
  let h' := fst (fst (do_action A cfg h now x a)) in
  length (s_pos h') = length (s_pos h) /\ length (s_tgt h') = length (s_tgt h) /\
  length (s_speed h') = length (s_speed h) /\ length (s_range h') = length (s_range h) /\
  length (s_ps h') = length (s_ps h).
Proof.
  destruct a; intros Hs; try discriminate; simpl;
    repeat match goal with |- context [if ?b then _ else _] => destruct b; simpl end;
    rewrite ?upd_len; repeat split; reflexivity.
Qed.

Lemma do_action_frame h now a :
  node_scoped a = true ->
  frame h (fst (fst (do_action A cfg h now x a))) /\ oreqs (snd (fst (do_action A cfg h now x a))) = [].
Proof.
  intros Hs. pose proof (node_scoped_frame A cfg h now x a Hs) as Hf.
  pose proof (do_action_pend_ok A cfg react1 h now x a) as Hok. pose proof (do_action_fresh A cfg h now x a) as Hfr.
  pose proof (do_action_lens h now a Hs) as (L1 & L2 & L3 & L4 & L5).
  destruct (do_action A cfg h now x a) as [[h' q] o]. simpl in *.
  destruct Hf as (F1 & F2 & F3 & F4 & F5 & F6). split.
  - split; [|repeat (split; [assumption||congruence|])].
    + intros y Hy. destruct (F1 y Hy) as (a1 & a2 & a3 & a4 & _). rewrite F2, F4. repeat split; auto.
    + split; [|exact Hok]. destruct Hfr as (n & E & _). lia.
  - clear - F6. unfold oreqs. induction q as [|[t p] r IH]; [reflexivity|]. simpl.
    destruct (F6 t p (or_introl eq_refl)) as (name & id & ->). simpl. rewrite Nat.eqb_refl. simpl.
    apply IH. intros ts' p' Hin. apply (F6 ts' p'). right. exact Hin.
Qed.

Lemma do_actions_frame h now acts :
  forallb (@node_scoped F) acts = true ->
  frame h (fst (fst (do_actions A cfg h now x acts))) /\ oreqs (snd (fst (do_actions A cfg h now x acts))) = [] /\
  (forall it, In it (snd (do_actions A cfg h now x acts)) -> exists a o, it = TAct x a o).
Proof.
  revert h. induction acts as [|a r IH]; intros h Hs; simpl.
  - split; [apply frame_refl|]. split; [reflexivity|intros ? []].
  - apply andb_true_iff in Hs. destruct Hs as [Ha Hr].
    pose proof (do_action_frame h now a Ha) as [F1 O1]. destruct (do_action A cfg h now x a) as [[h1 q1] o]. simpl in *.
    specialize (IH h1 Hr). destruct (do_actions A cfg h1 now x r) as [[h2 q2] t2]. simpl in *.
    destruct IH as (F2 & O2 & T2). split; [eapply frame_trans; eassumption|]. split.
    + rewrite oreqs_app, O1, O2. reflexivity.
    + intros it [<-|Hin]; [eauto|apply T2; exact Hin].
Qed.

Lemma frame_set_ps h v : frame h (set_ps h (upd x v (s_ps h))).
Proof.
  unfold frame. simpl. split.
  - intros y Hy. repeat split; try reflexivity. rewrite nth_error_upd_gen.
    assert (Nat.eqb y x = false) as -> by (apply Nat.eqb_neq; exact Hy). reflexivity.
  - rewrite upd_len. do 6 (split; [reflexivity|]). split; [lia|intros H; exact H].
Qed.

Definition xitems (l : list (titem F)) : Prop :=
  forall it, In it l -> (exists t c, it = TCb x t c) \/ (exists a o, it = TAct x a o).

Lemma callback_frame (react : nat -> PS -> F -> cb F -> PS * list (action F)) h now c :
  silent react x ->
  frame h (fst (fst (callback A cfg react h now x c))) /\ oreqs (snd (fst (callback A cfg react h now x c))) = [] /\
  xitems (snd (callback A cfg react h now x c)).
Proof.
  intros Hs. unfold callback. destruct (nth_error (s_ps h) x) as [ps|].
  2:{ split; [apply frame_refl|]. split; [reflexivity|intros ? []]. }
  specialize (Hs ps (if has_timer cfg then now else f0 A) c).
  destruct (react x ps (if has_timer cfg then now else f0 A) c) as [ps1 acts]. simpl in Hs.
  pose proof (do_actions_frame (set_ps h (upd x ps1 (s_ps h))) now acts Hs) as Hd.
  destruct (do_actions A cfg (set_ps h (upd x ps1 (s_ps h))) now x acts) as [[h2 q] t]. simpl in *.
  destruct Hd as (F2 & O2 & T2). split; [eapply frame_trans; [apply frame_set_ps|exact F2]|]. split; [exact O2|].
  intros it [<-|Hin]; [left; eauto|right; apply T2; exact Hin].
Qed.

Lemma pend_of_fire y n name id l :
  y <> n -> pend_of y (filter (fun e => negb (pend_id n name id e)) l) = pend_of y l.
Proof.
  intros Hne. unfold pend_of. induction l as [|[[n' nm] i] r IH]; simpl; [reflexivity|].
  destruct (Nat.eqb n' n) eqn:E1; simpl.
  - apply Nat.eqb_eq in E1. subst n'.
    assert (Nat.eqb n y = false) as Hy by (apply Nat.eqb_neq; congruence).
    destruct (Nat.eqb nm name && N.eqb i id); simpl; rewrite ?Hy; exact IH.
  - destruct (Nat.eqb n' y); simpl; rewrite IH; reflexivity.
Qed.

Lemma frame_fire h name id : frame h (set_pending h (filter (fun e => negb (pend_id x name id e)) (s_pending h))).
Proof.
  unfold frame. simpl. split.
  - intros y Hy. repeat split; try reflexivity. apply pend_of_fire. exact Hy.
  - do 6 (split; [reflexivity|]). split; [lia|apply pend_ok_filter].
Qed.

(** An event owned by the silent node, executed in one run. *)
Theorem owned_exec_frame (react : nat -> PS -> F -> cb F -> PS * list (action F)) h now p :
  silent react x -> owned x p = true ->
  frame h (fst (fst (sim_exec A cfg react h now p))) /\ oreqs (snd (fst (sim_exec A cfg react h now p))) = [] /\
  xitems (snd (sim_exec A cfg react h now p)).
Proof.
  intros Hs Ho. destruct p as [n name id|src dst msg| |n pos]; simpl in Ho; try discriminate; apply Nat.eqb_eq in Ho; subst; simpl.
  - destruct (existsb (pend_id x name id) (s_pending h)).
    + pose proof (callback_frame react (set_pending h (filter (fun e => negb (pend_id x name id e)) (s_pending h))) now (CbTimer name) Hs) as (F1 & O1 & T1).
      split; [eapply frame_trans; [apply frame_fire|exact F1]|]. split; assumption.
    + split; [apply frame_refl|]. split; [reflexivity|intros ? []].
  - apply callback_frame. exact Hs.
  - apply callback_frame. exact Hs.
Qed.

(* ---- a mobility update, in both runs ------------------------------------------------------------------------------------ *)

Lemma Rh_set_pos I h1 h2 n p1 p2 :
  Rh I h1 h2 -> (n <> x -> p1 = p2) ->
  Rh I (set_pos h1 (upd n p1 (s_pos h1))) (set_pos h2 (upd n p2 (s_pos h2))).
Proof.
  intros [Hpos Htgt Hspd Hrng Hps Lpos Ltgt Lspd Lrng Lps Hcur Hpend N1 N2 Hlt Ok1 Ok2] Hp.
  constructor; simpl; auto.
  - intros z Hz. rewrite !nth_upd_gen, Lpos, (Hpos z Hz).
    destruct (Nat.eqb z n) eqn:E; simpl; [|reflexivity]. apply Nat.eqb_eq in E. subst z.
    destruct (n <? length (s_pos h2)); [apply Hp; exact Hz|reflexivity].
  - rewrite !upd_len. exact Lpos.
Qed.

Lemma tick_nodes_rel I h1 h2 now ns :
  Rh I h1 h2 ->
  let '(h1', q1) := tick_nodes A cfg h1 now ns in
  let '(h2', q2) := tick_nodes A cfg h2 now ns in
  Rh I h1' h2' /\ Forall2 (rrel I) (oreqs q1) (oreqs q2).
Proof.
  revert h1 h2. induction ns as [|n r IH]; intros h1 h2 HR; simpl; [split; [exact HR|constructor]|].
  set (p1 := match nth n (s_tgt h1) None with
             | Some t => move A cfg (pos_of A h1 n) t (nth n (s_speed h1) (f0 A)) | None => pos_of A h1 n end).
  set (p2 := match nth n (s_tgt h2) None with
             | Some t => move A cfg (pos_of A h2 n) t (nth n (s_speed h2) (f0 A)) | None => pos_of A h2 n end).
  assert (Hp : n <> x -> p1 = p2).
  { intros Hn. unfold p1, p2, pos_of. rewrite (rh_tgt _ _ _ HR n Hn), (rh_pos _ _ _ HR n Hn), (rh_speed _ _ _ HR n Hn). reflexivity. }
  specialize (IH _ _ (Rh_set_pos I h1 h2 n p1 p2 HR Hp)).
  destruct (tick_nodes A cfg (set_pos h1 (upd n p1 (s_pos h1))) now r) as [h1b q1b].
  destruct (tick_nodes A cfg (set_pos h2 (upd n p2 (s_pos h2))) now r) as [h2b q2b].
  destruct IH as [HRb Hq]. split; [exact HRb|]. unfold oreqs in *. simpl.
  destruct (Nat.eqb n x) eqn:E; simpl; [exact Hq|].
  apply Nat.eqb_neq in E. rewrite (Hp E). constructor; [|exact Hq]. split; simpl; auto.
Qed.

Lemma tick_rel I h1 h2 now :
  Rh I h1 h2 ->
  let '(h1', q1) := tick A cfg h1 now in
  let '(h2', q2) := tick A cfg h2 now in
  Rh I h1' h2' /\ Forall2 (rrel I) (oreqs q1) (oreqs q2).
Proof.
  intros HR. unfold tick. pose proof (tick_nodes_rel I h1 h2 now (seq 0 (c_nnodes cfg)) HR) as Ht.
  destruct (tick_nodes A cfg h1 now (seq 0 (c_nnodes cfg))) as [h1b q1b].
  destruct (tick_nodes A cfg h2 now (seq 0 (c_nnodes cfg))) as [h2b q2b].
  destruct Ht as [HRb Hq]. split; [exact HRb|]. rewrite !oreqs_app. apply Forall2_app; [exact Hq|].
  unfold oreqs. simpl. constructor; [|constructor]. split; simpl; auto.
Qed.

(* ---- an event of another node (or the update), executed in both runs ------------------------------------------------------ *)

Theorem sim_exec_rel I h1 h2 now p1 p2 :
  Rh I h1 h2 -> pl_rel I p1 p2 -> owned x p1 = false ->
  acts_out I (sim_exec A cfg react1 h1 now p1) (sim_exec A cfg react2 h2 now p2).
Proof.
  intros HR Hp Ho.
  destruct p1 as [n name id|src dst msg| |n pos], p2 as [n' name' id'|src' dst' msg'| |n' pos']; simpl in Hp; try contradiction.
  - destruct Hp as (<- & <- & Hin). simpl in Ho. apply Nat.eqb_neq in Ho. simpl.
    rewrite (pend_check I h1 h2 n name id id' HR Ho Hin).
    destruct (existsb (pend_id n name id') (s_pending h2)).
    + apply callback_rel; [apply Rh_fire; assumption|exact Ho].
    + split; [reflexivity|]. exists I. split; [apply incl_refl|]. split; [exact HR|constructor].
  - destruct Hp as (<- & <- & <-). simpl in Ho. apply Nat.eqb_neq in Ho. simpl. apply callback_rel; assumption.
  - simpl. pose proof (tick_rel I h1 h2 now HR) as Ht.
    destruct (tick A cfg h1 now) as [h1b q1b]. destruct (tick A cfg h2 now) as [h2b q2b]. destruct Ht as [HRb Hq].
    split; [reflexivity|]. exists I. split; [apply incl_refl|]. split; assumption.
  - destruct Hp as (<- & <-). simpl in Ho. apply Nat.eqb_neq in Ho. simpl. apply callback_rel; assumption.
Qed.

(** related payloads are owned together *)
Lemma pl_rel_owned I p1 p2 : pl_rel I p1 p2 -> owned x p1 = owned x p2.
Proof. destruct p1, p2; simpl; try contradiction; intros H; try reflexivity; destruct H as (-> & H2); try reflexivity; destruct H2 as (-> & _); reflexivity. Qed.

(* ---- what the other nodes see of a list of trace items ------------------------------------------------------------------------ *)

Definition vis_t (t : titem F) : bool :=
  match t with
  | TCb n _ _ | TAct n _ _ => negb (Nat.eqb n x)
  | _ => false
  end.

Lemma xitems_invisible l : xitems l -> filter vis_t l = [].
Proof.
  induction l as [|t r IH]; intros H; [reflexivity|]. simpl.
  destruct (H t (or_introl eq_refl)) as [(tm & c & ->)|(a & o & ->)]; simpl; rewrite Nat.eqb_refl; simpl;
    apply IH; intros it Hin; apply H; right; exact Hin.
Qed.

Hypothesis silent1 : silent react1 x.
Hypothesis silent2 : silent react2 x.

Definition vis_out (I : idrel) (r1 r2 : sstate * list (F * payload F) * list (titem F)) : Prop :=
  filter vis_t (snd r1) = filter vis_t (snd r2) /\
  exists I', incl I I' /\ Rh I' (fst (fst r1)) (fst (fst r2)) /\ Forall2 (rrel I') (oreqs (snd (fst r1))) (oreqs (snd (fst r2))).

Lemma acts_vis I r1 r2 : acts_out I r1 r2 -> vis_out I r1 r2.
Proof. intros [E H]. split; [rewrite E; reflexivity|exact H]. Qed.

(** the callback of one node -- the silent one or another -- in both runs *)
Lemma callback_any I h1 h2 now n c :
  Rh I h1 h2 -> vis_out I (callback A cfg react1 h1 now n c) (callback A cfg react2 h2 now n c).
Proof.
  intros HR. destruct (Nat.eq_dec n x) as [->|Hn]; [|apply acts_vis, callback_rel; assumption].
  pose proof (callback_frame react1 h1 now c silent1) as (F1 & O1 & T1).
  pose proof (callback_frame react2 h2 now c silent2) as (F2 & O2 & T2).
  split; [rewrite (xitems_invisible _ T1), (xitems_invisible _ T2); reflexivity|].
  exists I. split; [apply incl_refl|]. split; [eapply Rh_frame_r; [eapply Rh_frame_l; eassumption|exact F2]|].
  rewrite O1, O2. constructor.
Qed.

Lemma callbacks_any I h1 h2 now ns c :
  Rh I h1 h2 -> vis_out I (callbacks A cfg react1 h1 now ns c) (callbacks A cfg react2 h2 now ns c).
Proof.
  revert I h1 h2. induction ns as [|n r IH]; intros I h1 h2 HR; simpl.
  - split; [reflexivity|]. exists I. split; [apply incl_refl|]. split; [exact HR|constructor].
  - pose proof (callback_any I h1 h2 now n c HR) as Hc.
    destruct (callback A cfg react1 h1 now n c) as [[h1a q1a] t1a]. destruct (callback A cfg react2 h2 now n c) as [[h2a q2a] t2a].
    destruct Hc as [Et (I1 & Hi1 & HR1 & Hq1)]. simpl in Et, HR1, Hq1.
    specialize (IH I1 h1a h2a HR1).
    destruct (callbacks A cfg react1 h1a now r c) as [[h1b q1b] t1b]. destruct (callbacks A cfg react2 h2a now r c) as [[h2b q2b] t2b].
    destruct IH as [Et2 (I2 & Hi2 & HR2 & Hq2)]. simpl in Et2, HR2, Hq2.
    split; [simpl; rewrite !filter_app, Et, Et2; reflexivity|].
    exists I2. split; [eapply incl_tran; eassumption|]. split; [exact HR2|]. simpl.
    rewrite !oreqs_app. apply Forall2_app; [|exact Hq2].
    eapply Forall2_incl; [|exact Hq1]. intros u v. apply rrel_incl. exact Hi2.
Qed.

(* ---- handler initialisation / after-step hooks without an assertion handler --------------------------------------------------- *)

Definition no_assert (hs : list hkind) : Prop := existsb (is_kind HAssert) hs = false.

Lemma handlers_init_plain h hs :
  no_assert hs -> fst (handlers_init cfg h hs) = h /\ filter vis_t (snd (handlers_init cfg h hs)) = [].
Proof.
  unfold no_assert. induction hs as [|k r IH]; simpl; intros Hn; [split; reflexivity|].
  destruct k; simpl in Hn; try discriminate; try (apply IH; exact Hn).
  specialize (IH Hn). destruct (handlers_init cfg h r) as [h1 t]. simpl in *. exact IH.
Qed.

Lemma handlers_after_plain h i ts hs :
  no_assert hs ->
  fst (fst (handlers_after cfg h i ts hs)) = h /\ snd (handlers_after cfg h i ts hs) = false /\
  filter vis_t (snd (fst (handlers_after cfg h i ts hs))) = [].
Proof.
  unfold no_assert. induction hs as [|k r IH]; simpl; intros Hn; [repeat split; reflexivity|].
  destruct k; simpl in Hn; try discriminate; try (apply IH; exact Hn).
  specialize (IH Hn). destruct (handlers_after cfg h i ts r) as [[h1 t] b]. simpl in *. exact IH.
Qed.

Theorem sim_init_rel I h1 h2 :
  no_assert (c_handlers cfg) -> Rh I h1 h2 ->
  vis_out I (sim_init A cfg react1 h1) (sim_init A cfg react2 h2).
Proof.
  intros Hn HR. unfold sim_init.
  pose proof (handlers_init_plain h1 (c_handlers cfg) Hn) as [E1 V1].
  pose proof (handlers_init_plain h2 (c_handlers cfg) Hn) as [E2 V2].
  destruct (handlers_init cfg h1 (c_handlers cfg)) as [h1a t1a]. destruct (handlers_init cfg h2 (c_handlers cfg)) as [h2a t2a].
  simpl in E1, E2, V1, V2. subst h1a h2a.
  pose proof (callbacks_any I h1 h2 (f0 A) (nodes cfg) CbInit HR) as Hc.
  destruct (callbacks A cfg react1 h1 (f0 A) (nodes cfg) CbInit) as [[h1b q1b] t1b].
  destruct (callbacks A cfg react2 h2 (f0 A) (nodes cfg) CbInit) as [[h2b q2b] t2b].
  destruct Hc as [Et Hrest]. split; [simpl in *; rewrite !filter_app, V1, V2, Et; reflexivity|exact Hrest].
Qed.

End NonInterf.
