(** Proofs about [Sim]: the shape of the lifecycle hooks (C05). *)
From Coq Require Import List Arith NArith Bool Lia.
Import ListNotations.
From GS Require Import Num EventLoop Kernel Geo Sim.
From GS.Proofs Require Import Aux SimP.

Section SimP2.
Context {F : Type} (A : ArithOps F) {PS : Type}.
Variable cfg : scfg F.
Variable react : nat -> PS -> F -> cb F -> PS * list (action F).
Notation sstate := (sstate F PS).
Implicit Types (h : sstate).

(** the recording handlers, in add_handler order *)
Fixpoint recs (hs : list hkind) : list nat :=
  match hs with
  | [] => []
  | HRec j :: r => j :: recs r
  | _ :: r => recs r
  end.

Lemma handlers_init_spec h hs :
  snd (handlers_init cfg h hs) = map (@THInit F) (recs hs) /\
  s_ps (fst (handlers_init cfg h hs)) = s_ps h.
Proof.
  revert h. induction hs as [|k r IH]; intros h; simpl; [auto|].
  destruct k; try apply IH.
  - specialize (IH h). destruct (handlers_init cfg h r) as [h1 t]. simpl in *. destruct IH as [-> ->]. auto.
  - destruct (IH (set_astate h (map (assert_init cfg) (c_asserts cfg)))) as [I1 I2]. split; [exact I1|]. rewrite I2. reflexivity.
Qed.

(** after_simulation_step reaches every recording handler, in order, with the iteration number
    and timestamp of the step — unless an assertion raises first, which cuts the list. *)
Lemma handlers_after_spec h iter ts hs :
  let '(h1, t, raised) := handlers_after cfg h iter ts hs in
  s_ps h1 = s_ps h /\
  if raised
  then exists pre suf idx, recs hs = pre ++ suf /\ t = map (fun j => THAfter j iter ts) pre ++ [TAssertFail idx]
  else t = map (fun j => THAfter j iter ts) (recs hs).
Proof.
  revert h. induction hs as [|k r IH]; intros h; simpl; [auto|].
  destruct k; try apply IH.
  - specialize (IH h). destruct (handlers_after cfg h iter ts r) as [[h1 t] raised]. destruct IH as [I1 I2].
    split; [exact I1|]. destruct raised.
    + destruct I2 as (pre & suf & idx & E1 & E2). exists (j :: pre), suf, idx. simpl. rewrite E1, E2. auto.
    + simpl. rewrite I2. reflexivity.
  - destruct (asserts_iter cfg h 0 (c_asserts cfg) (s_astate h)) as [sts res]. destruct res as [idx|].
    + split; [reflexivity|]. exists [], (recs r), idx. auto.
    + specialize (IH (set_astate h sts)). destruct (handlers_after cfg (set_astate h sts) iter ts r) as [[h1 t] raised].
      destruct IH as [I1 I2]. split; [exact I1|exact I2].
Qed.

Lemma handlers_final_spec h hs :
  let '(t, raised) := handlers_final cfg h hs in
  if raised
  then exists pre suf idx, recs hs = pre ++ suf /\ t = map (@THFinal F) pre ++ [TAssertFail idx]
  else t = map (@THFinal F) (recs hs).
Proof.
  induction hs as [|k r IH]; simpl; [auto|].
  destruct k; try apply IH.
  - destruct (handlers_final cfg h r) as [t raised]. destruct raised.
    + destruct IH as (pre & suf & idx & E1 & E2). exists (j :: pre), suf, idx. simpl. rewrite E1, E2. auto.
    + simpl. rewrite IH. reflexivity.
  - destruct (asserts_final 0 (c_asserts cfg) (s_astate h)) as [idx|]; [|exact IH].
    exists [], (recs r), idx. auto.
Qed.

Lemma cbs_of_hinit (l : list nat) : cbs_of (map (@THInit F) l) = [].
Proof. induction l; simpl; auto. Qed.
Lemma cbs_of_hfinal (l : list nat) : cbs_of (map (@THFinal F) l) = [].
Proof. induction l; simpl; auto. Qed.

(** Initialisation: every recording handler once, in order, then initialize on every node, in
    node order, at time 0 — nothing else calls back. *)
Theorem sim_init_shape h :
  length (s_ps h) = c_nnodes cfg ->
  exists t2, snd (sim_init A cfg react h) = map (@THInit F) (recs (c_handlers cfg)) ++ t2 /\
    cbs_of t2 = map (fun n => (n, pnow A cfg (f0 A), CbInit)) (seq 0 (c_nnodes cfg)) /\
    length (s_ps (fst (fst (sim_init A cfg react h)))) = c_nnodes cfg.
Proof.
  intros Hlen. unfold sim_init.
  destruct (handlers_init_spec h (c_handlers cfg)) as [H1 H2].
  destruct (handlers_init cfg h (c_handlers cfg)) as [h1 t1]. simpl in *.
  assert (Hn : forall n, In n (nodes cfg) -> n < length (s_ps h1)).
  { intros n Hin. unfold nodes in Hin. apply in_seq in Hin. rewrite H2, Hlen. lia. }
  destruct (callbacks_cbs A cfg react h1 (f0 A) (nodes cfg) CbInit Hn) as [C1 C2].
  destruct (callbacks A cfg react h1 (f0 A) (nodes cfg) CbInit) as [[h2 q] t2]. simpl in *.
  exists t2. rewrite H1. split; [reflexivity|]. split; [exact C1|]. rewrite C2, H2. exact Hlen.
Qed.

(** Finalisation: finish on every node, in node order, at the time of the last executed event,
    then every recording handler's finalize (cut short only by a failing assertion). *)
Theorem sim_finish_shape h now :
  length (s_ps h) = c_nnodes cfg ->
  let '(h1, q, t, raised) := sim_finish A cfg react h now in
  exists t1 t2, t = t1 ++ t2 /\
    cbs_of t1 = map (fun n => (n, pnow A cfg now, CbFinish)) (seq 0 (c_nnodes cfg)) /\
    (if raised
     then exists pre suf idx, recs (c_handlers cfg) = pre ++ suf /\ t2 = map (@THFinal F) pre ++ [TAssertFail idx]
     else t2 = map (@THFinal F) (recs (c_handlers cfg))).
Proof.
  intros Hlen. unfold sim_finish.
  assert (Hn : forall n, In n (nodes cfg) -> n < length (s_ps h)).
  { intros n Hin. unfold nodes in Hin. apply in_seq in Hin. rewrite Hlen. lia. }
  destruct (callbacks_cbs A cfg react h now (nodes cfg) CbFinish Hn) as [C1 C2].
  destruct (callbacks A cfg react h now (nodes cfg) CbFinish) as [[h1 q] t1]. simpl in *.
  pose proof (handlers_final_spec h1 (c_handlers cfg)) as Hf.
  destruct (handlers_final cfg h1 (c_handlers cfg)) as [t2 raised].
  exists t1, t2. split; [reflexivity|]. split; [exact C1|exact Hf].
Qed.

End SimP2.
