(** The heap condition is kept by [heappop] (CPython's [_siftup] from the root: the smaller child
    moves up until a leaf is reached, then the displaced last item is sifted back towards the root). *)
From Coq Require Import List Arith Bool Lia Permutation.
Import ListNotations.
From GS Require Import Heap.
From GS.Proofs Require Import HeapP HeapInv.

Section HeapInv2.
Context {E : Type} (lt : E -> E -> bool).
Hypothesis lt_asym : forall a b, lt a b = true -> lt b a = false.
Hypothesis nlt_trans : forall a b c, lt b a = false -> lt c b = false -> lt c a = false.
Implicit Types (h l : list E) (x : E).

Notation par i := ((i - 1) / 2).

Definition other_ok h pos : Prop :=
  forall i a p, 0 < i -> i <> pos -> par i <> pos ->
    nth_error h i = Some a -> nth_error h (par i) = Some p -> lt a p = false.
Definition grand_ok h pos : Prop :=
  forall c a g, 0 < pos -> 0 < c -> par c = pos ->
    nth_error h c = Some a -> nth_error h (par pos) = Some g -> lt a g = false.

Lemma par_left pos : par (2 * pos + 1) = pos.
Proof. replace (2 * pos + 1 - 1) with (pos * 2) by lia. apply Nat.div_mul; lia. Qed.
Lemma par_right pos : par (2 * pos + 1 + 1) = pos.
Proof.
  replace (2 * pos + 1 + 1 - 1) with (1 + pos * 2) by lia.
  rewrite Nat.div_add by lia. reflexivity.
Qed.

Lemma descend_inv fuel : forall h pos d,
  pos < length h -> length h <= pos + fuel -> other_ok h pos -> grand_ok h pos ->
  let r := descend lt fuel h pos d in
  other_ok (fst r) (snd r) /\ length (fst r) <= 2 * snd r + 1 /\ snd r < length (fst r).
Proof.
  induction fuel as [|f IH]; intros h pos d Hp Hf HO HG; cbn [descend]; [lia|].
  destruct (2 * pos + 1 <? length h) eqn:Ec.
  2:{ apply Nat.ltb_ge in Ec. simpl. auto. }
  apply Nat.ltb_lt in Ec.
  match goal with |- context [descend lt f _ ?c d] => set (c' := c) end.
  (* the chosen child, and what the choice says about the other one *)
  assert (Hc' : (c' = 2 * pos + 1 \/ c' = 2 * pos + 1 + 1) /\ c' < length h /\
                forall i a b, i <> c' -> 0 < i -> par i = pos ->
                  nth_error h i = Some a -> nth_error h c' = Some b -> lt a b = false).
  { subst c'. destruct (2 * pos + 1 + 1 <? length h) eqn:Er; cbn [andb].
    - apply Nat.ltb_lt in Er.
      destruct (lt (nth (2 * pos + 1) h d) (nth (2 * pos + 1 + 1) h d)) eqn:El; cbn [negb].
      + split; [left; reflexivity|]. split; [exact Ec|].
        intros i a b Hi H0 Hpi Ha Hb. pose proof (child_bounds i pos H0 Hpi).
        assert (i = 2 * pos + 1 + 1) as -> by lia.
        rewrite (nth_error_nth _ _ d Ha), (nth_error_nth _ _ d Hb) in El.
        apply lt_asym; exact El.
      + split; [right; reflexivity|]. split; [exact Er|].
        intros i a b Hi H0 Hpi Ha Hb. pose proof (child_bounds i pos H0 Hpi).
        assert (i = 2 * pos + 1) as -> by lia.
        rewrite (nth_error_nth _ _ d Ha), (nth_error_nth _ _ d Hb) in El. exact El.
    - apply Nat.ltb_ge in Er. split; [left; reflexivity|]. split; [exact Ec|].
      intros i a b Hi H0 Hpi Ha Hb. pose proof (child_bounds i pos H0 Hpi).
      assert (i < length h) by (apply nth_error_Some; congruence). lia. }
  destruct Hc' as (Hwhich & Hc'l & Hsmall).
  assert (Hparc : par c' = pos) by (destruct Hwhich as [->| ->]; [apply par_left|apply par_right]).
  assert (Hgt : pos < c') by lia.
  destruct (nth_error h c') as [v|] eqn:Ev.
  2:{ apply nth_error_None in Ev. lia. }
  rewrite (nth_error_nth _ _ d Ev).
  apply IH.
  - rewrite upd_length; exact Hc'l.
  - rewrite upd_length; lia.
  - (* other_ok (upd pos v h) c' *)
    intros i a p Hi Hne Hpne Ha Hp'.
    destruct (Nat.eq_dec i pos) as [->|Hip].
    + apply get_upd_eq in Ha. subst a.
      assert (par pos < pos) by (apply parent_lt; exact Hi).
      rewrite get_upd_ne in Hp' by lia.
      apply (HG c' v p); auto; lia.
    + rewrite get_upd_ne in Ha by exact Hip.
      destruct (Nat.eq_dec (par i) pos) as [Hpe|Hpn].
      * rewrite Hpe in Hp'. apply get_upd_eq in Hp'. subst p.
        apply (Hsmall i a v); auto.
      * rewrite get_upd_ne in Hp' by exact Hpn. apply (HO i a p); auto.
  - (* grand_ok (upd pos v h) c' *)
    intros c a g _ Hc Hpc Ha Hg.
    pose proof (child_bounds c c' Hc Hpc).
    rewrite get_upd_ne in Ha by lia.
    rewrite Hparc in Hg. apply get_upd_eq in Hg. subst g.
    apply (HO c a v); auto; try lia. rewrite Hpc. exact Ev.
Qed.

Lemma siftup_root_inv h x :
  nth_error h 0 = Some x -> other_ok h 0 -> heap_inv lt (siftup lt h 0).
Proof.
  intros H0 HO. unfold siftup. rewrite H0.
  assert (Hlen : 0 < length h) by (apply nth_error_Some; congruence).
  pose proof (descend_inv (length h) h 0 x Hlen ltac:(lia) HO) as H.
  assert (HG : grand_ok h 0) by (intros c a g Hpos; lia).
  specialize (H HG).
  destruct (descend lt (length h) h 0 x) as [h' leaf] eqn:Ed.
  pose proof (descend_perm lt (length h) h 0 x x Hlen) as HL. rewrite Ed in HL.
  simpl in H, HL. destruct H as (H1 & H2 & H3). destruct HL as (_ & HL & _).
  apply (siftdown_inv lt lt_asym nlt_trans); [lia|exact H3|].
  split.
  - exact H1.
  - intros c a g _ Hc Hpc Ha _. pose proof (child_bounds c leaf Hc Hpc).
    assert (c < length h') by (apply nth_error_Some; congruence). lia.
  - intros c a Hc Hpc Ha. pose proof (child_bounds c leaf Hc Hpc).
    assert (c < length h') by (apply nth_error_Some; congruence). lia.
Qed.

(** heappop keeps the heap condition, for every array *)
Theorem heappop_inv h m h' :
  heap_inv lt h -> heappop lt h = Some (m, h') -> heap_inv lt h'.
Proof.
  intros Hinv. unfold heappop. destruct h as [|top t0]; [discriminate|].
  assert (Hne : top :: t0 <> []) by discriminate.
  pose proof (app_removelast_last top Hne) as Hsplit.
  remember (last (top :: t0) top) as le eqn:Hle. clear Hle.
  destruct (removelast (top :: t0)) as [|ret t] eqn:Er; intro H; inversion H; subst m h'; clear H.
  - intros i a p _ Ha. destruct i; discriminate.
  - apply siftup_root_inv with (x := le); [reflexivity|].
    intros i a p Hi Hne0 Hpne Ha Hp.
    assert (Hil : i < length (le :: t)) by (apply nth_error_Some; rewrite Ha; discriminate).
    assert (Hlt : par i < i) by (apply parent_lt; exact Hi).
    assert (Ha' : nth_error (top :: t0) i = Some a).
    { rewrite Hsplit, nth_error_app1 by (simpl in *; lia).
      destruct i; [lia|exact Ha]. }
    assert (Hp' : nth_error (top :: t0) (par i) = Some p).
    { rewrite Hsplit, nth_error_app1 by (simpl in *; lia).
      destruct (par i) eqn:Epi; [lia|exact Hp]. }
    apply (Hinv i a p Hi Ha' Hp').
Qed.

End HeapInv2.
