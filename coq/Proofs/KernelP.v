(** Proofs about [Kernel] (C01, C02, C03 for whole runs; C04, C05, C06).  They hold for every
    carrier with [OrderLaws], every payload/handler-state/trace type and every four hooks —
    in particular for every protocol program. *)
From Coq Require Import List Arith NArith Bool Lia Permutation.
Import ListNotations.
From GS Require Import Num EventLoop Kernel.
From GS.Proofs Require Import Aux EventLoopP.

Section KernelP.
Context {F : Type} (A : ArithOps F) (OL : OrderLaws A) {P H T : Type}.
Variable hk : hooks F P H T.
Variable c : kcfg F.

Notation kstate := (kstate F P H).
Notation kitem := (kitem F P T).
Notation le x y := (fleb A x y = true).
Implicit Types (s : kstate) (l : eloop F P).

(* ---- the kernel is a client of the event-loop API ------------------------------------- *)

Definition req_ops (reqs : list (F * P)) : list (el_op F P) :=
  map (fun r => OpSchedule (fst r) (snd r)) reqs.

Lemma el_run_app l ops1 ops2 :
  el_run A l (ops1 ++ ops2) =
  let '(l1, r1) := el_run A l ops1 in let '(l2, r2) := el_run A l1 ops2 in (l2, r1 ++ r2).
Proof.
  revert l. induction ops1 as [|o r IH]; intros l; simpl.
  - destruct (el_run A l ops2); reflexivity.
  - destruct (el_step A l o) as [l1 x]. rewrite IH.
    destruct (el_run A l1 r) as [l2 xs]. destruct (el_run A l2 ops2) as [l3 ys]. reflexivity.
Qed.

Lemma sched_all_as_run l reqs :
  fst (sched_all A (T:=T) l reqs) = fst (el_run A l (req_ops reqs)) /\
  popped_ts (snd (el_run A l (req_ops reqs))) = [].
Proof.
  revert l. induction reqs as [|[ts p] r IH]; intros l; simpl; [split; reflexivity|].
  destruct (el_schedule A l ts p) as [l'|] eqn:E.
  - specialize (IH l'). destruct (sched_all A l' r) as [l2 it]. destruct (el_run A l' (req_ops r)) as [l3 xs]. simpl in *. exact IH.
  - specialize (IH l). destruct (sched_all A l r) as [l2 it]. destruct (el_run A l (req_ops r)) as [l3 xs].
    simpl in *. exact IH.
Qed.

Lemma sched_all_inv l reqs : el_inv A l -> el_inv A (fst (sched_all A (T:=T) l reqs)).
Proof. intros Hinv. rewrite (proj1 (sched_all_as_run l reqs)). apply el_run_inv; assumption. Qed.

Lemma sched_all_now l reqs : el_now (fst (sched_all A (T:=T) l reqs)) = el_now l.
Proof.
  revert l. induction reqs as [|[ts p] r IH]; intros l; simpl; [reflexivity|].
  destruct (el_schedule A l ts p) as [l'|] eqn:E.
  - specialize (IH l'). destruct (sched_all A l' r). simpl in *. rewrite IH.
    unfold el_schedule in E. destruct (fltb A ts (el_now l)); [discriminate|]. injection E as <-. reflexivity.
  - specialize (IH l). destruct (sched_all A l r). simpl in *. exact IH.
Qed.

(** Scheduling requests only appends: what was queued stays queued, in place. *)
Lemma sched_all_prefix l reqs : exists added, el_q (fst (sched_all A (T:=T) l reqs)) = el_q l ++ added.
Proof.
  revert l. induction reqs as [|[ts p] r IH]; intros l; simpl; [exists []; rewrite app_nil_r; reflexivity|].
  destruct (el_schedule A l ts p) as [l'|] eqn:E.
  - destruct (IH l') as [ad Had]. destruct (sched_all A l' r). simpl in *. rewrite Had.
    unfold el_schedule in E. destruct (fltb A ts (el_now l)); [discriminate|]. injection E as <-. simpl.
    rewrite <- app_assoc. eexists; reflexivity.
  - destruct (IH l) as [ad Had]. destruct (sched_all A l r). simpl in *. exists ad. exact Had.
Qed.

(** A request is refused by the kernel only if it lies in the past. *)
Lemma sched_all_refused l reqs ts p :
  In (KRefused ts p) (snd (sched_all A (T:=T) l reqs)) -> fltb A ts (el_now l) = true /\ In (ts, p) reqs.
Proof.
  revert l. induction reqs as [|[ts' p'] r IH]; intros l; simpl; [intros []|].
  destruct (el_schedule A l ts' p') as [l'|] eqn:E.
  - destruct (sched_all A l' r) as [l2 it] eqn:E2. simpl. intros [Heq|Hin]; [discriminate|].
    specialize (IH l'). rewrite E2 in IH. destruct (IH Hin) as [H1 H2]. split; [|right; exact H2].
    unfold el_schedule in E. destruct (fltb A ts' (el_now l)); [discriminate|]. injection E as <-. exact H1.
  - destruct (sched_all A l r) as [l2 it] eqn:E2. simpl. intros [Heq|Hin].
    + injection Heq as <- <-. split; [|left; reflexivity]. apply el_schedule_refused_iff in E. exact E.
    + specialize (IH l). rewrite E2 in IH. destruct (IH Hin) as [H1 H2]. split; [exact H1|right; exact H2].
Qed.

Lemma sched_all_only_refused l reqs it :
  In it (snd (sched_all A (T:=T) l reqs)) -> (exists ts p, it = KRefused ts p) \/ (exists ts sq p, it = KSched ts sq p).
Proof.
  revert l. induction reqs as [|[ts' p'] r IH]; intros l; simpl; [intros []|].
  destruct (el_schedule A l ts' p') as [l'|].
  - specialize (IH l'). destruct (sched_all A l' r) as [l2 its]. simpl in *.
    intros [<-|Hin]; [right; eexists; eexists; eexists; reflexivity|apply IH; exact Hin].
  - specialize (IH l). destruct (sched_all A l r) as [l2 its]. simpl in *.
    intros [<-|Hin]; [left; eexists; eexists; reflexivity|apply IH; exact Hin].
Qed.

(* ---- invariants ------------------------------------------------------------------------- *)

Definition k_inv s : Prop := el_inv A (k_el s).

Lemma k_start_inv h0 reqs0 : k_inv (fst (k_start A (T:=T) h0 reqs0)).
Proof.
  unfold k_start, k_inv. pose proof (sched_all_inv (el_init A) reqs0 (el_init_inv A)) as Hi.
  destruct (sched_all A (el_init A) reqs0). simpl in *. exact Hi.
Qed.

Lemma k_initialize_inv s : k_inv s -> k_inv (fst (k_initialize A hk s)).
Proof.
  unfold k_initialize, k_inv. intros Hinv. destruct (hk_init hk (k_h s)) as [[h1 reqs] items].
  pose proof (sched_all_inv (k_el s) reqs Hinv) as Hi. destruct (sched_all A (k_el s) reqs). simpl in *. exact Hi.
Qed.

Lemma k_initialize_now s : el_now (k_el (fst (k_initialize A hk s))) = el_now (k_el s).
Proof.
  unfold k_initialize. destruct (hk_init hk (k_h s)) as [[h1 reqs] items].
  pose proof (sched_all_now (k_el s) reqs) as Hn. destruct (sched_all A (k_el s) reqs). simpl in *. exact Hn.
Qed.

Lemma k_finalize_inv s : k_inv s -> k_inv (fst (k_finalize A hk s)).
Proof.
  unfold k_finalize, k_inv. intros Hinv. destruct (k_final s); [exact Hinv|].
  destruct (hk_finish hk (k_h s) (el_now (k_el s))) as [[[h1 reqs] items] raised].
  pose proof (sched_all_inv (k_el s) reqs Hinv) as Hi. destruct (sched_all A (k_el s) reqs). simpl in *. exact Hi.
Qed.

Lemma k_finalize_now s : el_now (k_el (fst (k_finalize A hk s))) = el_now (k_el s).
Proof.
  unfold k_finalize. destruct (k_final s); [reflexivity|].
  destruct (hk_finish hk (k_h s) (el_now (k_el s))) as [[[h1 reqs] items] raised].
  pose proof (sched_all_now (k_el s) reqs) as Hn. destruct (sched_all A (k_el s) reqs). simpl in *. exact Hn.
Qed.

Lemma k_finalize_final s : k_final (fst (k_finalize A hk s)) = true.
Proof.
  unfold k_finalize. destruct (k_final s) eqn:E; [exact E|].
  destruct (hk_finish hk (k_h s) (el_now (k_el s))) as [[[h1 reqs] items] raised].
  destruct (sched_all A (k_el s) reqs). reflexivity.
Qed.

(* ---- one step ------------------------------------------------------------------------------ *)

Definition exec_of (it : kitem) : list (nat * F * P) :=
  match it with KExec i ts _ p => [(i, ts, p)] | _ => [] end.
Definition execs (items : list kitem) : list (nat * F * P) := flat_map exec_of items.

Lemma execs_app a b : execs (a ++ b) = execs a ++ execs b.
Proof. unfold execs. apply flat_map_app. Qed.
Lemma execs_user (ts : list T) : execs (map (@KUser F P T) ts) = [].
Proof. induction ts; simpl; auto. Qed.
Lemma execs_refused l reqs : execs (snd (sched_all A (T:=T) l reqs)) = [].
Proof.
  pose proof (sched_all_only_refused l reqs) as Hr.
  induction (snd (sched_all A l reqs)) as [|it r IH]; [reflexivity|].
  simpl. destruct (Hr it (or_introl eq_refl)) as [[ts [p ->]]|[ts [sq [p ->]]]]; simpl; apply IH;
  intros it' Hin; apply Hr; right; exact Hin.
Qed.

Lemma execs_initialize s : execs (snd (k_initialize A hk s)) = [].
Proof.
  unfold k_initialize. destruct (hk_init hk (k_h s)) as [[h1 reqs] items].
  pose proof (execs_refused (k_el s) reqs) as Hr. destruct (sched_all A (k_el s) reqs). simpl in *.
  rewrite execs_app, execs_user, Hr. reflexivity.
Qed.

Lemma execs_finalize s : execs (snd (k_finalize A hk s)) = [].
Proof.
  unfold k_finalize. destruct (k_final s); [reflexivity|].
  destruct (hk_finish hk (k_h s) (el_now (k_el s))) as [[[h1 reqs] items] raised].
  pose proof (execs_refused (k_el s) reqs) as Hr. destruct (sched_all A (k_el s) reqs). simpl in *.
  rewrite execs_app, execs_user, Hr. reflexivity.
Qed.

Definition dur_ok (ts : F) : Prop :=
  match k_duration c with Some d => fltb A d ts = false | None => True end.
Definition iter_ok (i : nat) : Prop :=
  match k_maxit c with Some m => i < m | None => True end.

Lemma k_done_false s :
  k_done A c s = false ->
  exists e, el_peek A (k_el s) = Some e /\ dur_ok (ev_ts e) /\ iter_ok (k_iter s).
Proof.
  unfold k_done, dur_ok, iter_ok. destruct (el_peek A (k_el s)) as [e|]; [|discriminate].
  intros Hf. apply orb_false_iff in Hf. destruct Hf as [H1 H2]. exists e. split; [reflexivity|].
  split.
  - destruct (k_duration c); [exact H1|exact I].
  - destruct (k_maxit c) as [m|]; [|exact I]. apply Nat.leb_gt in H2. exact H2.
Qed.

(** Everything one call of step_simulation can do, as a specification. *)
Inductive step_spec s : kstate -> list kitem -> bool -> Prop :=
| SSFinal : k_final s || k_aborted s = true -> step_spec s s [] false
| SSDone s1 i1 s2 i2 :
    k_final s || k_aborted s = false ->
    (s1, i1) = (if k_inited s then (s, []) else k_initialize A hk s) ->
    k_done A c s1 = true -> (s2, i2) = k_finalize A hk s1 ->
    step_spec s s2 (i1 ++ i2) false
| SSExec s1 i1 e l1 h2 reqs items l2 ref h3 aitems raised :
    k_final s || k_aborted s = false ->
    (s1, i1) = (if k_inited s then (s, []) else k_initialize A hk s) ->
    k_done A c s1 = false -> el_pop A (k_el s1) = Some (e, l1) ->
    hk_exec hk (k_h s1) (ev_ts e) (ev_pl e) = (h2, reqs, items) ->
    sched_all A l1 reqs = (l2, ref) ->
    hk_after hk h2 (k_iter s1) (ev_ts e) = (h3, aitems, raised) ->
    forall s' it b,
    (s', it, b) =
      (let body := KExec (k_iter s1) (ev_ts e) (ev_seq e) (ev_pl e) :: map (@KUser F P T) items ++ ref ++ map (@KUser F P T) aitems in
       if raised then (mkK l2 h3 (k_iter s1) true false true, i1 ++ body, false)
       else let s2 := mkK l2 h3 (S (k_iter s1)) true false false in
            if k_done A c s2 then let '(s3, i3) := k_finalize A hk s2 in (s3, i1 ++ body ++ i3, false)
            else (s2, i1 ++ body, true)) ->
    step_spec s s' it b.

Lemma k_done_nonempty s : k_done A c s = false -> el_pop A (k_el s) <> None.
Proof.
  intros Hd Hn. apply el_pop_none in Hn. unfold k_done, el_peek in Hd. rewrite Hn in Hd. discriminate.
Qed.

Lemma k_step_spec s : let '(s', it, b) := k_step A hk c s in step_spec s s' it b.
Proof.
  unfold k_step. destruct (k_final s || k_aborted s) eqn:Ef; [apply SSFinal; exact Ef|].
  destruct (if k_inited s then (s, []) else k_initialize A hk s) as [s1 i1] eqn:E1.
  destruct (k_done A c s1) eqn:Ed.
  - destruct (k_finalize A hk s1) as [s2 i2] eqn:E2. eapply SSDone; eauto.
  - destruct (el_pop A (k_el s1)) as [[e l1]|] eqn:Ep; [|exfalso; eapply k_done_nonempty; eassumption].
    destruct (hk_exec hk (k_h s1) (ev_ts e) (ev_pl e)) as [[h2 reqs] items] eqn:Ee.
    destruct (sched_all A l1 reqs) as [l2 ref] eqn:Es.
    destruct (hk_after hk h2 (k_iter s1) (ev_ts e)) as [[h3 aitems] raised] eqn:Ea.
    lazymatch goal with |- context [if raised then ?a else ?b] => remember (if raised then a else b) as X eqn:EX end.
    destruct X as [[s' it] b]. eapply SSExec; eauto.
Qed.

Lemma init_part_inv s s1 i1 :
  k_inv s -> (s1, i1) = (if k_inited s then (s, []) else k_initialize A hk s) ->
  k_inv s1 /\ el_now (k_el s1) = el_now (k_el s) /\ execs i1 = [].
Proof.
  intros Hinv. destruct (k_inited s); cbn iota.
  - intros [= -> ->]. auto.
  - intros Heq.
    assert (s1 = fst (k_initialize A hk s)) as -> by (rewrite <- Heq; reflexivity).
    assert (i1 = snd (k_initialize A hk s)) as -> by (rewrite <- Heq; reflexivity).
    split; [apply k_initialize_inv; exact Hinv|]. split; [apply k_initialize_now|apply execs_initialize].
Qed.

(** One step preserves the queue invariant, executes at most one event, at a time that is
    not earlier than the clock, within the configured bounds, and leaves the clock on it. *)
Lemma k_step_props s :
  k_inv s ->
  let '(s', it, b) := k_step A hk c s in
  k_inv s' /\
  ((execs it = [] /\ el_now (k_el s') = el_now (k_el s) /\ k_iter s' = k_iter s) \/
   (exists s1 i1 e, (s1, i1) = (if k_inited s then (s, []) else k_initialize A hk s) /\
      el_peek A (k_el s1) = Some e /\
      execs it = [(k_iter s, ev_ts e, ev_pl e)] /\ el_now (k_el s') = ev_ts e /\
      le (el_now (k_el s)) (ev_ts e) /\ dur_ok (ev_ts e) /\ iter_ok (k_iter s) /\
      (k_aborted s' = false -> k_iter s' = S (k_iter s)))).
Proof.
  intros Hinv. pose proof (k_step_spec s) as Hs. destruct (k_step A hk c s) as [[s' it] b].
  inversion Hs as [Hf | s1 i1 s2 i2 Hf Hi Hd Hfin
                  | s1 i1 e l1 h2 reqs items l2 ref h3 aitems raised Hf Hi Hd Hpop Hexec Hsched Hafter s'' it'' b'' Heq]; subst.
  - split; [exact Hinv|]. left. auto.
  - destruct (init_part_inv _ _ _ Hinv Hi) as (Hi1 & Hn1 & He1).
    assert (Hk1 : k_iter s1 = k_iter s).
    { destruct (k_inited s); [injection Hi as -> _; reflexivity|].
      replace s1 with (fst (k_initialize A hk s)) by (rewrite <- Hi; reflexivity).
      unfold k_initialize. destruct (hk_init hk (k_h s)) as [[? ?] ?]. destruct (sched_all A (k_el s) l). reflexivity. }
    assert (s' = fst (k_finalize A hk s1)) as -> by (rewrite <- Hfin; reflexivity).
    assert (i2 = snd (k_finalize A hk s1)) as -> by (rewrite <- Hfin; reflexivity).
    split; [apply k_finalize_inv; exact Hi1|]. left.
    rewrite execs_app, He1, execs_finalize, k_finalize_now, Hn1. split; [reflexivity|]. split; [reflexivity|].
    rewrite <- Hk1. unfold k_finalize. destruct (k_final s1); [reflexivity|].
    destruct (hk_finish hk (k_h s1) (el_now (k_el s1))) as [[[? ?] ?] ?]. destruct (sched_all A (k_el s1) l). reflexivity.
  - destruct (init_part_inv _ _ _ Hinv Hi) as (Hi1 & Hn1 & He1).
    destruct (el_pop_spec A OL _ _ _ Hi1 Hpop) as (Hin & Hmin & Hperm & Hnow & Hseq & Hle).
    pose proof (el_pop_inv A OL _ _ _ Hi1 Hpop) as Hil1.
    pose proof (sched_all_inv l1 reqs Hil1) as Hil2. rewrite Hsched in Hil2. simpl in Hil2.
    pose proof (sched_all_now l1 reqs) as Hnl2. rewrite Hsched in Hnl2. simpl in Hnl2.
    pose proof (execs_refused l1 reqs) as Hex. rewrite Hsched in Hex. simpl in Hex.
    destruct (k_done_false _ Hd) as (e' & Hpk & Hdur & Hit).
    assert (e' = e) as ->.
    { rewrite (el_peek_is_next_pop A), Hpop in Hpk. injection Hpk as <-. reflexivity. }
    assert (Hk1 : k_iter s1 = k_iter s).
    { destruct (k_inited s); [injection Hi as -> _; reflexivity|].
      replace s1 with (fst (k_initialize A hk s)) by (rewrite <- Hi; reflexivity).
      unfold k_initialize. destruct (hk_init hk (k_h s)) as [[? ?] ?]. destruct (sched_all A (k_el s) l). reflexivity. }
    assert (Hbody : execs (KExec (k_iter s1) (ev_ts e) (ev_seq e) (ev_pl e) :: map (@KUser F P T) items ++ ref ++ map (@KUser F P T) aitems)
                    = [(k_iter s, ev_ts e, ev_pl e)]).
    { simpl. rewrite !execs_app, !execs_user, Hex, Hk1. reflexivity. }
    cbv zeta in Heq.
    destruct raised.
    + injection Heq as -> -> ->. split; [exact Hil2|]. right. exists s1, i1, e.
      split; [exact Hi|]. split; [exact Hpk|]. rewrite execs_app, He1, Hbody. simpl.
      rewrite Hnl2, Hnow, <- Hn1, <- Hk1. repeat split; auto. intros; discriminate.
    + set (s2 := mkK l2 h3 (S (k_iter s1)) true false false) in *.
      destruct (k_done A c s2).
      * destruct (k_finalize A hk s2) as [s3 i3] eqn:E3. injection Heq as -> -> ->.
        assert (s3 = fst (k_finalize A hk s2)) as Hs3 by (rewrite E3; reflexivity).
        assert (i3 = snd (k_finalize A hk s2)) as Hi3 by (rewrite E3; reflexivity).
        split; [rewrite Hs3; apply k_finalize_inv; exact Hil2|]. right. exists s1, i1, e.
        split; [exact Hi|]. split; [exact Hpk|].
        rewrite execs_app, He1. rewrite app_comm_cons, execs_app, Hbody, Hi3, execs_finalize. simpl.
        rewrite Hs3, k_finalize_now. simpl. rewrite Hnl2, Hnow, <- Hn1, <- Hk1. repeat split; auto.
        intros _. unfold k_finalize. simpl.
        destruct (hk_finish hk h3 (el_now l2)) as [[[? ?] ?] ?]. destruct (sched_all A l2 l). reflexivity.
      * injection Heq as -> -> ->. split; [exact Hil2|]. right. exists s1, i1, e.
        split; [exact Hi|]. split; [exact Hpk|]. rewrite execs_app, He1, Hbody. simpl.
        rewrite Hnl2, Hnow, <- Hn1, <- Hk1. repeat split; auto.
Qed.

Lemma k_step_inv s : k_inv s -> k_inv (fst (fst (k_step A hk c s))).
Proof. intros Hinv. pose proof (k_step_props s Hinv) as Hp. destruct (k_step A hk c s) as [[s' it] b]. exact (proj1 Hp). Qed.

(** C05: once the run has reported completion, stepping executes nothing and changes nothing. *)
Theorem k_step_after_completion s :
  k_final s = true \/ k_aborted s = true -> k_step A hk c s = (s, [], false).
Proof. unfold k_step. intros [->| ->]; rewrite ?orb_true_r; reflexivity. Qed.

(** step_simulation returns False exactly when it has finalised (or an exception escaped);
    True means the run is neither finalised nor done. *)
Lemma k_step_result s :
  let '(s', it, b) := k_step A hk c s in
  if b then k_final s' = false /\ k_aborted s' = false /\ k_inited s' = true /\ k_done A c s' = false
  else k_final s' = true \/ k_aborted s' = true.
Proof.
  pose proof (k_step_spec s) as Hs. destruct (k_step A hk c s) as [[s' it] b].
  inversion Hs as [Hf | s1 i1 s2 i2 Hf Hi Hd Hfin
                  | s1 i1 e l1 h2 reqs items l2 ref h3 aitems raised Hf Hi Hd Hpop Hexec Hsched Hafter s'' it'' b'' Heq]; subst.
  - apply orb_true_iff in Hf. exact Hf.
  - left. replace s' with (fst (k_finalize A hk s1)) by (rewrite <- Hfin; reflexivity). apply k_finalize_final.
  - cbv zeta in Heq. destruct raised.
    + injection Heq as -> -> ->. right. reflexivity.
    + set (s2 := mkK l2 h3 (S (k_iter s1)) true false false) in *.
      destruct (k_done A c s2) eqn:Ed.
      * destruct (k_finalize A hk s2) as [s3 i3] eqn:E3. injection Heq as -> -> ->. left.
        replace s3 with (fst (k_finalize A hk s2)) by (rewrite E3; reflexivity). apply k_finalize_final.
      * injection Heq as -> -> ->. auto.
Qed.

(* ---- whole runs ---------------------------------------------------------------------------- *)

Definition exec_ts (items : list kitem) : list F := map (fun x => snd (fst x)) (execs items).
Definition exec_iters (items : list kitem) : list nat := map (fun x => fst (fst x)) (execs items).

Lemma sorted_from_le_app (t : F) (xs ys : list F) :
  sorted_from (fleb A) t xs -> sorted_from (fleb A) (last xs t) ys -> sorted_from (fleb A) t (xs ++ ys).
Proof. apply sorted_from_app; [apply (leb_refl A OL)|apply (leb_trans A OL)]. Qed.

(** C01 (kernel): along any run, driven by the blocking loop, events are executed at
    non-decreasing times, starting from the clock; C04: each within the bounds; iteration
    numbers are consecutive. *)
Theorem k_run_props fuel s :
  k_inv s ->
  let '(s', items, fin) := k_run A hk c fuel s in
  k_inv s' /\
  sorted_from (fleb A) (el_now (k_el s)) (exec_ts items) /\
  el_now (k_el s') = last (exec_ts items) (el_now (k_el s)) /\
  (forall i ts p, In (i, ts, p) (execs items) -> dur_ok ts /\ iter_ok i) /\
  exec_iters items = seq (k_iter s) (length (execs items)) /\
  (k_aborted s' = false -> k_iter s' = k_iter s + length (execs items)).
Proof.
  revert s. induction fuel as [|f IH]; intros s Hinv; simpl.
  - split; [exact Hinv|]. repeat split; auto; try lia; try (intros i ts p []).
  - pose proof (k_step_props s Hinv) as Hp. pose proof (k_step_result s) as Hr.
    destruct (k_step A hk c s) as [[s1 it] cont] eqn:Es.
    destruct Hp as [Hinv1 Hcase].
    assert (Hone : sorted_from (fleb A) (el_now (k_el s)) (exec_ts it) /\
                   el_now (k_el s1) = last (exec_ts it) (el_now (k_el s)) /\
                   (forall i ts p, In (i, ts, p) (execs it) -> dur_ok ts /\ iter_ok i) /\
                   exec_iters it = seq (k_iter s) (length (execs it)) /\
                   (k_aborted s1 = false -> k_iter s1 = k_iter s + length (execs it))).
    { unfold exec_ts, exec_iters. destruct Hcase as [(He & Hn & Hk)|(s0 & i0 & e & _ & _ & He & Hn & Hle & Hd & Hi & Hk)]; rewrite He; simpl.
      - split; [exact I|]. split; [exact Hn|]. split; [intros i ts p []|]. split; [reflexivity|]. intros _. lia.
      - split; [split; [exact Hle|exact I]|]. split; [exact Hn|]. split; [|split; [reflexivity|]].
        + intros i ts p [[= <- <- <-]|[]]. split; assumption.
        + intros Hna. rewrite (Hk Hna). lia. }
    destruct Hone as (S1 & N1 & B1 & I1 & K1).
    destruct cont.
    + destruct Hr as (Hf & Hab & _ & _).
      specialize (IH s1 Hinv1). destruct (k_run A hk c f s1) as [[s2 its] fin].
      destruct IH as (Hinv2 & S2 & N2 & B2 & I2 & K2).
      unfold exec_ts, exec_iters in *. rewrite !execs_app, !map_app, app_length.
      split; [exact Hinv2|]. split; [|split; [|split; [|split]]].
      * apply sorted_from_le_app; [exact S1|]. rewrite <- N1. exact S2.
      * rewrite N2, N1. rewrite last_app_default. reflexivity.
      * intros i ts p Hin. apply in_app_or in Hin. destruct Hin as [Hin|Hin]; [eapply B1|eapply B2]; eassumption.
      * rewrite I1, I2, (K1 Hab), seq_app. reflexivity.
      * intros Hna. rewrite (K2 Hna), (K1 Hab). lia.
    + split; [exact Hinv1|]. split; [exact S1|]. split; [exact N1|]. split; [exact B1|]. split; [exact I1|exact K1].
Qed.

(* ---- C02 for whole runs: every accepted request is executed exactly once ------------------- *)

Definition key (e : event F P) : F * P := (ev_ts e, ev_pl e).
Definition sched_of (it : kitem) : list (F * P) := match it with KSched ts _ p => [(ts, p)] | _ => [] end.
Definition scheds (items : list kitem) : list (F * P) := flat_map sched_of items.
Definition ekey (x : nat * F * P) : F * P := (snd (fst x), snd x).

Lemma scheds_app a b : scheds (a ++ b) = scheds a ++ scheds b.
Proof. unfold scheds. apply flat_map_app. Qed.
Lemma scheds_user (ts : list T) : scheds (map (@KUser F P T) ts) = [].
Proof. induction ts; simpl; auto. Qed.

Lemma sched_all_keys l reqs :
  map key (el_q (fst (sched_all A (T:=T) l reqs))) = map key (el_q l) ++ scheds (snd (sched_all A (T:=T) l reqs)).
Proof.
  revert l. induction reqs as [|[ts p] r IH]; intros l; simpl; [rewrite app_nil_r; reflexivity|].
  destruct (el_schedule A l ts p) as [l'|] eqn:E.
  - specialize (IH l'). destruct (sched_all A l' r) as [l2 it]. simpl in *. rewrite IH.
    unfold el_schedule in E. destruct (fltb A ts (el_now l)); [discriminate|]. injection E as <-. simpl.
    rewrite map_app, <- app_assoc. reflexivity.
  - specialize (IH l). destruct (sched_all A l r) as [l2 it]. simpl in *. exact IH.
Qed.

Lemma k_initialize_keys s :
  map key (el_q (k_el (fst (k_initialize A hk s)))) = map key (el_q (k_el s)) ++ scheds (snd (k_initialize A hk s)).
Proof.
  unfold k_initialize. destruct (hk_init hk (k_h s)) as [[h1 reqs] items].
  pose proof (sched_all_keys (k_el s) reqs) as Hk. destruct (sched_all A (k_el s) reqs). simpl in *.
  rewrite scheds_app, scheds_user. exact Hk.
Qed.

Lemma k_finalize_keys s :
  map key (el_q (k_el (fst (k_finalize A hk s)))) = map key (el_q (k_el s)) ++ scheds (snd (k_finalize A hk s)).
Proof.
  unfold k_finalize. destruct (k_final s); [simpl; rewrite app_nil_r; reflexivity|].
  destruct (hk_finish hk (k_h s) (el_now (k_el s))) as [[[h1 reqs] items] raised].
  pose proof (sched_all_keys (k_el s) reqs) as Hk. destruct (sched_all A (k_el s) reqs). simpl in *.
  rewrite scheds_app, scheds_user. exact Hk.
Qed.

Lemma init_part_keys s s1 i1 :
  (s1, i1) = (if k_inited s then (s, []) else k_initialize A hk s) ->
  map key (el_q (k_el s1)) = map key (el_q (k_el s)) ++ scheds i1.
Proof.
  destruct (k_inited s); cbn iota.
  - intros [= -> ->]. simpl. rewrite app_nil_r. reflexivity.
  - intros Heq.
    assert (s1 = fst (k_initialize A hk s)) as -> by (rewrite <- Heq; reflexivity).
    assert (i1 = snd (k_initialize A hk s)) as -> by (rewrite <- Heq; reflexivity).
    apply k_initialize_keys.
Qed.

Lemma conserve_final items s2 K0 :
  Permutation (K0 ++ scheds items) (map ekey (execs items) ++ map key (el_q (k_el s2))) ->
  Permutation (K0 ++ scheds (items ++ snd (k_finalize A hk s2)))
              (map ekey (execs (items ++ snd (k_finalize A hk s2))) ++ map key (el_q (k_el (fst (k_finalize A hk s2))))).
Proof.
  intros Hc. rewrite k_finalize_keys, scheds_app, execs_app, execs_finalize, app_nil_r.
  rewrite !app_assoc. apply Permutation_app_tail. exact Hc.
Qed.

(** One step: what was queued plus what was accepted = what was executed plus what is queued. *)
Lemma k_step_conservation s :
  k_inv s ->
  let '(s', it, b) := k_step A hk c s in
  Permutation (map key (el_q (k_el s)) ++ scheds it) (map ekey (execs it) ++ map key (el_q (k_el s'))).
Proof.
  intros Hinv. pose proof (k_step_spec s) as Hs. destruct (k_step A hk c s) as [[s' it] b].
  inversion Hs as [Hf | s1 i1 s2 i2 Hf Hi Hd Hfin
                  | s1 i1 e l1 h2 reqs items l2 ref h3 aitems raised Hf Hi Hd Hpop Hexec Hsched Hafter s'' it'' b'' Heq]; subst.
  - simpl. rewrite app_nil_r. reflexivity.
  - destruct (init_part_inv _ _ _ Hinv Hi) as (Hi1 & Hn1 & He1).
    pose proof (init_part_keys _ _ _ Hi) as Hk1.
    assert (s' = fst (k_finalize A hk s1)) as -> by (rewrite <- Hfin; reflexivity).
    assert (i2 = snd (k_finalize A hk s1)) as -> by (rewrite <- Hfin; reflexivity).
    rewrite execs_app, He1, execs_finalize, scheds_app, k_finalize_keys, Hk1. simpl.
    rewrite <- app_assoc. reflexivity.
  - destruct (init_part_inv _ _ _ Hinv Hi) as (Hi1 & Hn1 & He1).
    pose proof (init_part_keys _ _ _ Hi) as Hk1.
    destruct (el_pop_spec A OL _ _ _ Hi1 Hpop) as (Hin & Hmin & Hperm & Hnow & Hseq & Hle).
    pose proof (sched_all_keys l1 reqs) as Hk2. rewrite Hsched in Hk2. simpl in Hk2.
    pose proof (execs_refused l1 reqs) as Hex. rewrite Hsched in Hex. simpl in Hex.
    assert (Hq : Permutation (map key (el_q (k_el s1))) (key e :: map key (el_q l1))).
    { change (key e :: map key (el_q l1)) with (map key (e :: el_q l1)). apply Permutation_map, Permutation_sym. exact Hperm. }
    set (body := KExec (k_iter s1) (ev_ts e) (ev_seq e) (ev_pl e) :: map (@KUser F P T) items ++ ref ++ map (@KUser F P T) aitems) in *.
    assert (Hbe : map ekey (execs body) = [key e]).
    { unfold body. simpl. rewrite !execs_app, !execs_user, Hex. reflexivity. }
    assert (Hbs : scheds body = scheds ref).
    { unfold body. simpl. rewrite !scheds_app, !scheds_user, app_nil_r. reflexivity. }
    assert (Hcore : Permutation (map key (el_q (k_el s)) ++ scheds (i1 ++ body))
                                (map ekey (execs (i1 ++ body)) ++ map key (el_q l2))).
    { rewrite scheds_app, execs_app, He1, Hbs. change ([] ++ execs body) with (execs body).
      rewrite Hbe, app_assoc, <- Hk1, Hk2, Hq. reflexivity. }
    cbv zeta in Heq. fold body in Heq.
    destruct raised.
    + injection Heq as -> -> ->. exact Hcore.
    + set (s2 := mkK l2 h3 (S (k_iter s1)) true false false) in *.
      destruct (k_done A c s2).
      * destruct (k_finalize A hk s2) as [s3 i3] eqn:E3. injection Heq as -> -> ->.
        assert (s3 = fst (k_finalize A hk s2)) as -> by (rewrite E3; reflexivity).
        assert (i3 = snd (k_finalize A hk s2)) as -> by (rewrite E3; reflexivity).
        apply (conserve_final (i1 ++ body) s2 (map key (el_q (k_el s)))) in Hcore.
        rewrite <- app_assoc in Hcore. exact Hcore.
      * injection Heq as -> -> ->. exact Hcore.
Qed.

(** Whole runs: at every prefix of a run, the events queued at the start plus all requests
    accepted so far are, as a multiset, the events executed so far plus the events still
    queued.  Hence nothing is executed that was not requested, nothing twice, and a run that
    ends with an empty queue has executed every accepted request exactly once. *)
Theorem k_run_conservation fuel s :
  k_inv s ->
  let '(s', items, fin) := k_run A hk c fuel s in
  Permutation (map key (el_q (k_el s)) ++ scheds items) (map ekey (execs items) ++ map key (el_q (k_el s'))).
Proof.
  revert s. induction fuel as [|f IH]; intros s Hinv; simpl.
  - rewrite app_nil_r. reflexivity.
  - pose proof (k_step_conservation s Hinv) as Hc. pose proof (k_step_inv s Hinv) as Hinv1.
    destruct (k_step A hk c s) as [[s1 it] cont]. simpl in Hinv1.
    destruct cont; [|exact Hc].
    specialize (IH s1 Hinv1). destruct (k_run A hk c f s1) as [[s2 its] fin].
    rewrite scheds_app, execs_app, map_app, app_assoc, Hc, <- !app_assoc.
    apply Permutation_app_head. exact IH.
Qed.

End KernelP.
