(** * Delivered exactly once (C08), whole runs

    For a run from build() that leaves no delivery in the queue (e.g. one that ran to exhaustion),
    the packet callbacks of the run are, as a multiset, exactly the delivery events the run
    scheduled (to existing nodes): each on its addressee, with its payload, at its due time -- no
    more, no fewer, none twice.  Three whole-run facts compose:
      conservation (every scheduled event is executed exactly once or still queued),
      the cause acceptor (a delivery event's execution is immediately followed by its callback, and a
      packet callback happens only there),
      and the start queue holding no delivery. *)
From Coq Require Import List Arith NArith Bool Lia Permutation.
Import ListNotations.
From GS Require Import Num EventLoop Kernel Geo Sim.
From GS.Proofs Require Import Aux EventLoopP KernelP SimP SimP3 TraceSpec TimerSpec.

Section DeliverOnce.
Context {F : Type} (A : ArithOps F) (OL : OrderLaws A) {PS : Type}.
Variable cfg : scfg F.
Variable react : nat -> PS -> F -> cb F -> PS * list (action F).
Variable c : kcfg F.

Notation sstate := (sstate F PS).
Notation kitem := (kitem F (payload F) (titem F)).
Notation hk := (sim_hooks A cfg react).
Notation pnow := (pnow A cfg).

(** the callback a delivery event (time, payload) must produce: addressee, reported time, message *)
Definition cb_of_key (k : F * payload F) : list (nat * F * nat) :=
  match snd k with
  | EvDeliver _ d m => if d <? c_nnodes cfg then [(d, pnow (fst k), m)] else []
  | _ => []
  end.

Definition cb_of_item (it : kitem) : list (nat * F * nat) :=
  match it with KUser (TCb n t (CbPacket m)) => [(n, t, m)] | _ => [] end.

Definition packet_cbs (tr : list kitem) : list (nat * F * nat) := flat_map cb_of_item tr.

Definition exec_key (it : kitem) : list (F * payload F) := match it with KExec _ ts _ p => [(ts, p)] | _ => [] end.
Definition exec_keys (tr : list kitem) : list (F * payload F) := flat_map exec_key tr.

Lemma exec_keys_execs tr : exec_keys tr = map ekey (execs tr).
Proof.
  unfold exec_keys, execs. induction tr as [|it r IH]; simpl; [reflexivity|].
  rewrite map_app, <- IH. destruct it; reflexivity.
Qed.

Definition owed_cb (x : tstate (F:=F)) : list (nat * F * nat) :=
  match t_exp x with Some (n, t, CbPacket m) => [(n, t, m)] | _ => [] end.

(** along an accepted trace, the packet callbacks are exactly those the executed delivery events call for, in order *)
Lemma cbs_follow_execs tr : forall x,
  accept (t_next A cfg) t_ok x tr -> t_exp (after (t_next A cfg) x tr) = None ->
  owed_cb x ++ flat_map cb_of_key (exec_keys tr) = packet_cbs tr.
Proof.
  induction tr as [|it r IH]; intros x Hacc Hend.
  - unfold after in Hend. simpl in Hend. unfold owed_cb. rewrite Hend. reflexivity.
  - destruct Hacc as [Hok Hacc]. specialize (IH (t_next A cfg x it) Hacc).
    assert (Hend' : t_exp (after (t_next A cfg) (t_next A cfg x it) r) = None) by exact Hend.
    specialize (IH Hend'). unfold packet_cbs, exec_keys in *. simpl. rewrite flat_map_app, <- IH, !app_assoc. f_equal.
    (* owed_cb x ++ cb_of_key* (exec_key it) = cb_of_item it ++ owed_cb (t_next x it) *)
    clear IH Hacc Hend Hend'. unfold owed_cb.
    destruct it as [[n now cbk|n a o|j|j i ts|j|idx]|i ts sq p|ts p|ts sq p]; simpl in *.
    + destruct cbk; simpl in *; rewrite ?Hok; reflexivity.
    + rewrite ?Hok. destruct a; simpl; try (rewrite ?Hok; reflexivity); destruct o; simpl; try (rewrite ?Hok; reflexivity);
        destruct (has_timer cfg); simpl; rewrite ?Hok; reflexivity.
    + rewrite ?Hok. reflexivity.
    + rewrite ?Hok. reflexivity.
    + rewrite ?Hok. reflexivity.
    + rewrite ?Hok. reflexivity.
    + rewrite ?Hok. destruct p as [pn pname pid|psrc pdst pmsg| |pn ppos]; simpl; unfold owed, cb_of_key; simpl.
      * destruct (existsb (pend_id pn pname pid) (t_tbl x)); simpl; [|rewrite ?Hok; reflexivity].
        destruct (pn <? c_nnodes cfg); simpl; [reflexivity|rewrite ?Hok; reflexivity].
      * destruct (pdst <? c_nnodes cfg); simpl; [reflexivity|rewrite ?Hok; reflexivity].
      * rewrite ?Hok. reflexivity.
      * destruct (pn <? c_nnodes cfg); simpl; [reflexivity|rewrite ?Hok; reflexivity].
    + rewrite ?Hok. reflexivity.
    + rewrite ?Hok. reflexivity.
Qed.

Lemma flat_map_all_nil {X Y : Type} (f : X -> list Y) (l : list X) : (forall k, In k l -> f k = []) -> flat_map f l = [].
Proof. induction l as [|k r IH]; intros H; simpl; [reflexivity|]. rewrite (H k (or_introl eq_refl)), IH; [reflexivity|]. intros k' Hk'. apply H. right. exact Hk'. Qed.

Lemma scheds_subset (l : eloop F (payload F)) rq k :
  In k (scheds (snd (sched_all A (T:=titem F) l rq))) -> In k rq.
Proof.
  revert l. induction rq as [|[ts p] r IH]; intros l; simpl; [intros []|].
  destruct (el_schedule A l ts p) as [l'|].
  - specialize (IH l'). destruct (sched_all A l' r) as [l2 its]. simpl in *. intros [<-|Hin]; [left; reflexivity|right; apply IH; exact Hin].
  - specialize (IH l). destruct (sched_all A l r) as [l2 its]. simpl in *. intros Hin. right. apply IH. exact Hin.
Qed.

Theorem delivered_exactly_once fuel ps0 :
  let '(s0, i0) := sim_start A cfg ps0 in
  let '(s', items, fin) := k_run A hk c fuel s0 in
  flat_map cb_of_key (map key (el_q (k_el s'))) = [] ->
  Permutation (flat_map cb_of_key (scheds items)) (packet_cbs items).
Proof.
  pose proof (whole_run_accepted A cfg react c fuel ps0) as Hacc.
  unfold sim_start in *.
  pose proof (k_start_inv A OL (T:=titem F) (sim_state0 cfg ps0) (sim_reqs0 A cfg)) as Hinv.
  pose proof (TraceSpec.k_start_sound A (t_next A cfg) t_ok (t_abs (PS:=PS)) (t_sched_neutral A cfg) (t_refused_neutral A cfg)
                (sim_state0 cfg ps0) (sim_reqs0 A cfg)) as Hst.
  assert (Hq0 : flat_map cb_of_key (map key (el_q (k_el (fst (k_start A (T:=titem F) (sim_state0 cfg ps0) (sim_reqs0 A cfg)))))) = []).
  { unfold k_start. pose proof (sched_all_keys A (T:=titem F) (el_init A) (sim_reqs0 A cfg)) as Hk.
    pose proof (scheds_subset (el_init A) (sim_reqs0 A cfg)) as Hsub.
    destruct (sched_all A (el_init A) (sim_reqs0 A cfg)) as [l0 its]. simpl in *. rewrite Hk. simpl.
    apply flat_map_all_nil. intros k Hin. specialize (Hsub k Hin). unfold sim_reqs0 in Hsub.
    destruct (has_mob cfg); [|destruct Hsub]. destruct Hsub as [<-|[]]. reflexivity. }
  destruct (k_start A (T:=titem F) (sim_state0 cfg ps0) (sim_reqs0 A cfg)) as [s0 i0]. simpl in Hinv, Hst, Hq0.
  pose proof (k_run_conservation A OL hk c fuel s0 Hinv) as Hcons.
  destruct (k_run A hk c fuel s0) as [[s' items] fin]. intros Hqf.
  destruct Hacc as [Ha Hf]. apply accept_app in Ha. destruct Ha as [_ Ha]. rewrite after_app in Hf.
  destruct Hst as [_ Hst0]. change (t_abs (sim_state0 cfg ps0)) with (@t0 F) in Hst0. rewrite Hst0 in Ha, Hf.
  assert (Hend : t_exp (after (t_next A cfg) t0 items) = None) by (rewrite Hf; reflexivity).
  pose proof (cbs_follow_execs items t0 Ha Hend) as Hcb. unfold owed_cb in Hcb. simpl in Hcb.
  rewrite <- Hcb, exec_keys_execs.
  apply (Permutation_flat_map cb_of_key) in Hcons. rewrite !flat_map_app, Hq0, Hqf, app_nil_r in Hcons. simpl in Hcons. exact Hcons.
Qed.

(* ---- timers: the callbacks are exactly the executions of events whose entry is still in the replayed table --------------- *)

Definition tcb_of_item (it : kitem) : list (nat * F * nat) :=
  match it with KUser (TCb n t (CbTimer name)) => [(n, t, name)] | _ => [] end.
Definition timer_cbs (tr : list kitem) : list (nat * F * nat) := flat_map tcb_of_item tr.

(** the timer callbacks the trace calls for, judged on the replayed table at each executed timer event *)
Fixpoint fired (x : tstate (F:=F)) (tr : list kitem) : list (nat * F * nat) :=
  match tr with
  | [] => []
  | it :: r =>
      (match it with
       | KExec _ ts _ (EvTimer n name id) =>
           if existsb (pend_id n name id) (t_tbl x) && (n <? c_nnodes cfg) then [(n, pnow ts, name)] else []
       | _ => []
       end) ++ fired (t_next A cfg x it) r
  end.

Definition owed_tcb (x : tstate (F:=F)) : list (nat * F * nat) :=
  match t_exp x with Some (n, t, CbTimer name) => [(n, t, name)] | _ => [] end.

Lemma timer_cbs_follow tr : forall x,
  accept (t_next A cfg) t_ok x tr -> t_exp (after (t_next A cfg) x tr) = None ->
  owed_tcb x ++ fired x tr = timer_cbs tr.
Proof.
  induction tr as [|it r IH]; intros x Hacc Hend.
  - unfold after in Hend. simpl in Hend. unfold owed_tcb. rewrite Hend. reflexivity.
  - destruct Hacc as [Hok Hacc]. specialize (IH (t_next A cfg x it) Hacc).
    assert (Hend' : t_exp (after (t_next A cfg) (t_next A cfg x it) r) = None) by exact Hend.
    specialize (IH Hend'). unfold timer_cbs in *. cbn [fired flat_map]. rewrite <- IH, !app_assoc. f_equal.
    clear IH Hacc Hend Hend'. unfold owed_tcb.
    destruct it as [[n now cbk|n a o|j|j i ts|j|idx]|i ts sq p|ts p|ts sq p]; simpl in *.
    + destruct cbk; simpl in *; rewrite ?Hok; reflexivity.
    + rewrite ?Hok. destruct a; simpl; try (rewrite ?Hok; reflexivity); destruct o; simpl; try (rewrite ?Hok; reflexivity);
        destruct (has_timer cfg); simpl; rewrite ?Hok; reflexivity.
    + rewrite ?Hok. reflexivity.
    + rewrite ?Hok. reflexivity.
    + rewrite ?Hok. reflexivity.
    + rewrite ?Hok. reflexivity.
    + rewrite ?Hok. destruct p as [pn pname pid|psrc pdst pmsg| |pn ppos]; simpl; unfold owed; simpl.
      * destruct (existsb (pend_id pn pname pid) (t_tbl x)); simpl; [|rewrite ?Hok; reflexivity].
        destruct (pn <? c_nnodes cfg); simpl; [reflexivity|rewrite ?Hok; reflexivity].
      * destruct (pdst <? c_nnodes cfg); simpl; [reflexivity|rewrite ?Hok; reflexivity].
      * rewrite ?Hok. reflexivity.
      * destruct (pn <? c_nnodes cfg); simpl; [reflexivity|rewrite ?Hok; reflexivity].
    + rewrite ?Hok. reflexivity.
    + rewrite ?Hok. reflexivity.
Qed.

(** Whole runs: the timer callbacks of a run are, in order, exactly the executions of timer events whose
    (node, name, identifier) is in the replayed table at that moment. *)
Theorem timer_callbacks_exactly fuel ps0 :
  let '(s0, i0) := sim_start A cfg ps0 in
  let '(s', items, fin) := k_run A hk c fuel s0 in
  timer_cbs (i0 ++ items) = fired t0 (i0 ++ items).
Proof.
  pose proof (whole_run_accepted A cfg react c fuel ps0) as Hacc.
  destruct (sim_start A cfg ps0) as [s0 i0]. destruct (k_run A hk c fuel s0) as [[s' items] fin].
  destruct Hacc as [Ha Hf].
  assert (Hend : t_exp (after (t_next A cfg) t0 (i0 ++ items)) = None) by (rewrite Hf; reflexivity).
  pose proof (timer_cbs_follow (i0 ++ items) t0 Ha Hend) as H. unfold owed_tcb in H. simpl in H. symmetry. exact H.
Qed.

End DeliverOnce.
