(** * Trace specifications: "every run of the model is accepted by this monitor"

    A trace specification is a deterministic acceptor over kernel traces: a state [X], a
    total update [nxt] and a per-item requirement [ok].  If every hook, started in a
    handler state [h] that satisfies an invariant, emits items that the acceptor accepts
    from [abs h] and that lead it to [abs h'] for the hook's resulting state [h'], then the
    trace of EVERY step sequence and of every whole run (any bounds, any fuel) is accepted,
    and the acceptor's state is the abstraction of the final handler state: the handler
    state is a function of the visible history.  The acceptors themselves are the
    specifications a reader checks (they mention no model state). *)
From Coq Require Import List Arith NArith Bool.
Import ListNotations.
From GS Require Import Num EventLoop Kernel.

Section TraceSpec.
Context {F : Type} (A : ArithOps F) {P H T X : Type}.
Variable hk : hooks F P H T.
Variable c : kcfg F.

Notation kstate := (kstate F P H).
Notation kitem := (kitem F P T).
Implicit Types (s : kstate) (x : X) (tr : list kitem).

Variable nxt : X -> kitem -> X.
Variable ok : X -> kitem -> Prop.
Variable abs : H -> X.
Variable Inv : H -> Prop.

Fixpoint accept x tr : Prop :=
  match tr with
  | [] => True
  | it :: r => ok x it /\ accept (nxt x it) r
  end.

Definition after x tr : X := fold_left nxt tr x.

Definition sound x tr x' : Prop := accept x tr /\ after x tr = x'.

Lemma sound_nil x : sound x [] x.
Proof. split; [exact I|reflexivity]. Qed.

Lemma accept_app x a b : accept x (a ++ b) <-> accept x a /\ accept (after x a) b.
Proof.
  revert x. induction a as [|it r IH]; intros x; simpl.
  - tauto.
  - rewrite IH. unfold after. simpl. tauto.
Qed.

Lemma after_app x a b : after x (a ++ b) = after (after x a) b.
Proof. unfold after. apply fold_left_app. Qed.

Lemma sound_app x a x1 b x2 : sound x a x1 -> sound x1 b x2 -> sound x (a ++ b) x2.
Proof.
  intros [Ha Hx1] [Hb Hx2]. split.
  - apply accept_app. rewrite Hx1. split; assumption.
  - rewrite after_app, Hx1. exact Hx2.
Qed.

Hypothesis sched_neutral : forall h ts sq p, nxt (abs h) (KSched ts sq p) = abs h /\ ok (abs h) (KSched ts sq p).
Hypothesis refused_neutral : forall h ts p, nxt (abs h) (KRefused ts p) = abs h /\ ok (abs h) (KRefused ts p).

Hypothesis init_sound : forall h, Inv h ->
  let '(h1, reqs, items) := hk_init hk h in
  Inv h1 /\ sound (abs h) (map (@KUser F P T) items) (abs h1).
Hypothesis exec_sound : forall h ts p i sq, Inv h ->
  let '(h2, reqs, items) := hk_exec hk h ts p in
  Inv h2 /\ sound (abs h) (KExec i ts sq p :: map (@KUser F P T) items) (abs h2).
Hypothesis after_sound : forall h i ts, Inv h ->
  let '(h3, aitems, raised) := hk_after hk h i ts in
  Inv h3 /\ sound (abs h) (map (@KUser F P T) aitems) (abs h3).
Hypothesis finish_sound : forall h now, Inv h ->
  let '(h1, reqs, items, raised) := hk_finish hk h now in
  Inv h1 /\ sound (abs h) (map (@KUser F P T) items) (abs h1).

Lemma sched_all_sound (l : eloop F P) reqs h : sound (abs h) (snd (sched_all A (T:=T) l reqs)) (abs h).
Proof.
  set (x := abs h). revert l. induction reqs as [|[ts p] r IH]; intros l; simpl; [apply sound_nil|].
  destruct (el_schedule A l ts p) as [l'|].
  - specialize (IH l'). destruct (sched_all A l' r) as [l2 its]. simpl in *.
    destruct (sched_neutral h ts (el_seq l) p) as [Hn Hok]. fold x in Hn, Hok. destruct IH as [Ha Hf].
    split; [simpl; rewrite Hn; split; assumption|]. unfold after in *. simpl. rewrite Hn. exact Hf.
  - specialize (IH l). destruct (sched_all A l r) as [l2 its]. simpl in *.
    destruct (refused_neutral h ts p) as [Hn Hok]. fold x in Hn, Hok. destruct IH as [Ha Hf].
    split; [simpl; rewrite Hn; split; assumption|]. unfold after in *. simpl. rewrite Hn. exact Hf.
Qed.

Lemma k_start_sound (h0 : H) reqs0 : sound (abs h0) (snd (k_start A (T:=T) h0 reqs0)) (abs h0).
Proof.
  unfold k_start. pose proof (sched_all_sound (el_init A) reqs0 h0) as Hs.
  destruct (sched_all A (el_init A) reqs0). exact Hs.
Qed.

Lemma k_initialize_sound s :
  Inv (k_h s) ->
  Inv (k_h (fst (k_initialize A hk s))) /\
  sound (abs (k_h s)) (snd (k_initialize A hk s)) (abs (k_h (fst (k_initialize A hk s)))).
Proof.
  intros Hi. unfold k_initialize. pose proof (init_sound (k_h s) Hi) as Hs.
  destruct (hk_init hk (k_h s)) as [[h1 reqs] items]. destruct Hs as [Hi1 Hs].
  pose proof (sched_all_sound (k_el s) reqs h1) as Hr.
  destruct (sched_all A (k_el s) reqs) as [l1 ref]. simpl in *. split; [exact Hi1|].
  eapply sound_app; eassumption.
Qed.

Lemma k_finalize_sound s :
  Inv (k_h s) ->
  Inv (k_h (fst (k_finalize A hk s))) /\
  sound (abs (k_h s)) (snd (k_finalize A hk s)) (abs (k_h (fst (k_finalize A hk s)))).
Proof.
  intros Hi. unfold k_finalize. destruct (k_final s); [split; [exact Hi|apply sound_nil]|].
  pose proof (finish_sound (k_h s) (el_now (k_el s)) Hi) as Hs.
  destruct (hk_finish hk (k_h s) (el_now (k_el s))) as [[[h1 reqs] items] raised]. destruct Hs as [Hi1 Hs].
  pose proof (sched_all_sound (k_el s) reqs h1) as Hr.
  destruct (sched_all A (k_el s) reqs) as [l1 ref]. simpl in *. split; [exact Hi1|].
  eapply sound_app; eassumption.
Qed.

Lemma k_step_sound s :
  Inv (k_h s) ->
  let '(s', it, b) := k_step A hk c s in
  Inv (k_h s') /\ sound (abs (k_h s)) it (abs (k_h s')).
Proof.
  intros Hi. unfold k_step. destruct (k_final s || k_aborted s); [split; [exact Hi|apply sound_nil]|].
  assert (Hinit : let '(s1, i1) := (if k_inited s then (s, []) else k_initialize A hk s) in
                  Inv (k_h s1) /\ sound (abs (k_h s)) i1 (abs (k_h s1))).
  { destruct (k_inited s); [split; [exact Hi|apply sound_nil]|].
    pose proof (k_initialize_sound s Hi) as Hs. destruct (k_initialize A hk s) as [s1 i1]. exact Hs. }
  destruct (if k_inited s then (s, []) else k_initialize A hk s) as [s1 i1]. destruct Hinit as [Hi1 Hs1].
  destruct (k_done A c s1).
  - pose proof (k_finalize_sound s1 Hi1) as Hf. destruct (k_finalize A hk s1) as [s2 i2]. simpl in Hf.
    destruct Hf as [Hi2 Hs2]. split; [exact Hi2|]. eapply sound_app; eassumption.
  - destruct (el_pop A (k_el s1)) as [[e l1]|]; [|split; assumption].
    pose proof (exec_sound (k_h s1) (ev_ts e) (ev_pl e) (k_iter s1) (ev_seq e) Hi1) as He.
    destruct (hk_exec hk (k_h s1) (ev_ts e) (ev_pl e)) as [[h2 reqs] items]. destruct He as [Hi2 He].
    pose proof (sched_all_sound l1 reqs h2) as Hr.
    destruct (sched_all A l1 reqs) as [l2 ref]. simpl in Hr.
    pose proof (after_sound h2 (k_iter s1) (ev_ts e) Hi2) as Ha.
    destruct (hk_after hk h2 (k_iter s1) (ev_ts e)) as [[h3 aitems] raised]. destruct Ha as [Hi3 Ha].
    assert (Hbody : sound (abs (k_h s1))
              (KExec (k_iter s1) (ev_ts e) (ev_seq e) (ev_pl e) :: map (@KUser F P T) items ++ ref ++ map (@KUser F P T) aitems)
              (abs h3)).
    { change (KExec (k_iter s1) (ev_ts e) (ev_seq e) (ev_pl e) :: map (@KUser F P T) items ++ ref ++ map (@KUser F P T) aitems)
        with ((KExec (k_iter s1) (ev_ts e) (ev_seq e) (ev_pl e) :: map (@KUser F P T) items) ++ ref ++ map (@KUser F P T) aitems).
      eapply sound_app; [exact He|]. eapply sound_app; eassumption. }
    destruct raised.
    + simpl. split; [exact Hi3|]. eapply sound_app; eassumption.
    + destruct (k_done A c (mkK l2 h3 (S (k_iter s1)) true false false)).
      * pose proof (k_finalize_sound (mkK l2 h3 (S (k_iter s1)) true false false) Hi3) as Hf.
        destruct (k_finalize A hk (mkK l2 h3 (S (k_iter s1)) true false false)) as [s3 i3]. simpl in Hf.
        destruct Hf as [Hi4 Hf]. split; [exact Hi4|].
        eapply sound_app; [exact Hs1|]. rewrite app_comm_cons. eapply sound_app; eassumption.
      * simpl. split; [exact Hi3|]. eapply sound_app; eassumption.
Qed.

(** Whole runs, any bounds, any fuel (also runs cut by the fuel: every prefix is accepted). *)
Theorem k_run_sound fuel s :
  Inv (k_h s) ->
  let '(s', items, fin) := k_run A hk c fuel s in
  Inv (k_h s') /\ sound (abs (k_h s)) items (abs (k_h s')).
Proof.
  revert s. induction fuel as [|f IH]; intros s Hi; simpl; [split; [exact Hi|apply sound_nil]|].
  pose proof (k_step_sound s Hi) as Hs. destruct (k_step A hk c s) as [[s1 it] cont]. destruct Hs as [Hi1 Hs].
  destruct cont; [|split; assumption].
  specialize (IH s1 Hi1). destruct (k_run A hk c f s1) as [[s2 its] fin]. destruct IH as [Hi2 IH].
  split; [exact Hi2|]. eapply sound_app; eassumption.
Qed.

(** Any number of manual steps. *)
Theorem k_steps_sound n s :
  Inv (k_h s) ->
  let '(s', items, rs) := k_steps A hk c n s in
  Inv (k_h s') /\ sound (abs (k_h s)) items (abs (k_h s')).
Proof.
  revert s. induction n as [|m IH]; intros s Hi; simpl; [split; [exact Hi|apply sound_nil]|].
  pose proof (k_step_sound s Hi) as Hs. destruct (k_step A hk c s) as [[s1 it] r]. destruct Hs as [Hi1 Hs].
  specialize (IH s1 Hi1). destruct (k_steps A hk c m s1) as [[s2 its] rs]. destruct IH as [Hi2 IH].
  split; [exact Hi2|]. eapply sound_app; eassumption.
Qed.

End TraceSpec.
