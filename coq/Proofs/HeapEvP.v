(** The transcribed [heapq] ordered by [Event.__lt__] ([ev_lt]) meets the contract the event-loop
    model assumes of it: what [heappop] returns is the element [el_pop] selects. *)
From Coq Require Import List Arith NArith Bool Lia Permutation.
Import ListNotations.
From GS Require Import Num EventLoop Heap.
From GS.Proofs Require Import Aux EventLoopP HeapP HeapInv.

Section HeapEvP.
Context {F : Type} (A : ArithOps F) (OL : OrderLaws A) {P : Type}.
Notation event := (event F P).

Theorem heap_root_is_least (h : list event) (r : event) :
  heap_inv (ev_lt A) h -> nth_error h 0 = Some r -> forall e, In e h -> ev_lt A e r = false.
Proof.
  apply heap_root_least.
  - apply (ev_lt_irrefl A OL).
  - intros a b c. apply (ev_nlt_trans A OL).
Qed.

(** Whatever layout the array has: if it satisfies the heap condition and holds the queued
    events (in any order), [heappop] returns the event the model's [el_pop] selects from the
    queue kept in scheduling order, and leaves exactly the others. *)
Theorem heappop_is_selected (h h' : list event) (m x : event) (q : list event) :
  heap_inv (ev_lt A) h -> NoDup (map (@ev_seq F P) h) -> Permutation (x :: q) h ->
  heappop (ev_lt A) h = Some (m, h') ->
  m = q_min A x q /\ Permutation (x :: q) (m :: h').
Proof.
  intros Hinv Hnd Hperm Hpop.
  destruct (heappop_perm (ev_lt A) h m h' Hpop) as [Hp H0].
  split; [|eapply perm_trans; eassumption].
  apply (min_unique A OL).
  - apply Permutation_NoDup with (l := map (@ev_seq F P) h); [|exact Hnd].
    apply Permutation_map, Permutation_sym, Hperm.
  - apply Permutation_in with (l := h); [apply Permutation_sym, Hperm|].
    eapply nth_error_In; exact H0.
  - intros e' He'. apply (heap_root_is_least h m Hinv H0).
    apply Permutation_in with (l := x :: q); assumption.
Qed.

(** [heappush] of an event keeps the heap condition under [Event.__lt__]. *)
Theorem heappush_keeps_heap (h : list event) (e : event) :
  heap_inv (ev_lt A) h -> heap_inv (ev_lt A) (heappush (ev_lt A) h e).
Proof.
  apply heappush_inv.
  - apply (ev_lt_asym A OL).
  - intros a b c. apply (ev_nlt_trans A OL).
Qed.

End HeapEvP.
