(** Proofs about the mission plugin model (C16), for every number type, mission length >= 1,
    loop mode and history of API calls and telemetry. *)
From Coq Require Import List Arith ZArith Bool Lia.
Import ListNotations.
From GS Require Import Num Mission.

Section MissionP.
Context {F : Type} (A : ArithOps F).
Variable cfg : mconfig F.
Notation mstate := (mstate F).
Notation mop := (mop F).
Implicit Types (s : mstate) (o : mop).

(** The status flags are mutually consistent, the waypoint index is valid, reversed only in
    REVERSE mode, and the last goto issued is to the current waypoint. *)
Definition m_inv s : Prop :=
  match m_mission s with
  | None => m_idle s = true /\ m_cur s = None /\ m_reversed s = false
  | Some m => m_idle s = false /\ m <> [] /\
              exists i, m_cur s = Some i /\ i < length m /\
                        (m_reversed s = true -> mc_loop cfg = LoopReverse) /\
                        m_last_goto s = nth_error m i
  end.

Definition op_ok o : Prop := match o with MStart m => m <> [] | _ => True end.

Lemma m_init_inv : m_inv (m_init (F:=F)).
Proof. unfold m_inv. simpl. auto. Qed.

Lemma travel_inv m rev i lg :
  m <> [] -> i < length m -> (rev = true -> mc_loop cfg = LoopReverse) ->
  m_inv (fst (travel (mkM (Some m) rev false (Some i) lg))) /\
  exists p, nth_error m i = Some p /\ snd (travel (mkM (Some m) rev false (Some i) lg)) = [MGoto p].
Proof.
  intros Hm Hi Hr. unfold travel. simpl.
  destruct (nth_error m i) as [p|] eqn:E; [|apply nth_error_None in E; lia].
  split; [|exists p; auto]. unfold m_inv. simpl. split; [reflexivity|]. split; [exact Hm|]. exists i. simpl. rewrite E. auto.
Qed.

Lemma stop_inv s : m_inv (stop s).
Proof. unfold m_inv. simpl. auto. Qed.

(** After a progress step the mission is either stopped (consistently idle) or still has a
    valid index. *)
Lemma progress_shape m rev i lg :
  m <> [] -> i < length m -> (rev = true -> mc_loop cfg = LoopReverse) ->
  let s' := progress cfg (mkM (Some m) rev false (Some i) lg) in
  s' = stop (mkM (Some m) rev false (Some i) lg) \/
  exists rev' i', s' = mkM (Some m) rev' false (Some i') lg /\ i' < length m /\ (rev' = true -> mc_loop cfg = LoopReverse).
Proof.
  intros Hm Hi Hr. unfold progress. simpl.
  assert (Hn : 0 < length m) by (destruct m; [congruence|simpl; lia]).
  destruct rev.
  - destruct i as [|j].
    + destruct (mc_loop cfg) eqn:E; [left; reflexivity|right|right].
      * specialize (Hr eq_refl). congruence.
      * exists false, 0. split; [reflexivity|]. split; [lia|]. discriminate.
    + right. exists true, j. split; [reflexivity|]. split; [lia|exact Hr].
  - destruct (Nat.leb (length m) (S i)) eqn:El.
    + destruct (mc_loop cfg) eqn:E; [left; reflexivity|right|right].
      * exists false, 0. split; [reflexivity|]. split; [lia|]. discriminate.
      * exists true, (length m - 2). split; [reflexivity|]. split; [lia|]. intros _. reflexivity.
    + apply Nat.leb_gt in El. right. exists false, (S i). split; [reflexivity|]. split; [lia|]. discriminate.
Qed.

Lemma progress_travel_inv m rev i lg :
  m <> [] -> i < length m -> (rev = true -> mc_loop cfg = LoopReverse) ->
  m_inv (fst (travel (progress cfg (mkM (Some m) rev false (Some i) lg)))).
Proof.
  intros Hm Hi Hr. destruct (progress_shape m rev i lg Hm Hi Hr) as [->|(rev' & i' & -> & Hi' & Hr')].
  - unfold m_inv. simpl. auto.
  - apply travel_inv; assumption.
Qed.

(** C16: the invariant holds after every operation, from any state where it holds. *)
Theorem m_step_inv s o : m_inv s -> op_ok o -> m_inv (fst (fst (m_step A cfg s o))).
Proof.
  intros Hinv Hok. destruct o as [mission| |w|b|pos]; simpl.
  - destruct mission as [|p0 r]; [simpl in Hok; congruence|].
    pose proof (travel_inv (p0 :: r) false 0 (m_last_goto s) Hok ltac:(simpl; lia) ltac:(discriminate)) as [Ht _].
    destruct (travel (mkM (Some (p0 :: r)) false false (Some 0) (m_last_goto s))) as [s2 c]. exact Ht.
  - apply stop_inv.
  - unfold m_inv in Hinv. destruct (m_mission s) as [m|] eqn:Em.
    + destruct Hinv as (Hid & Hm & i & Hc & Hi & Hr & Hl).
      destruct ((w <? 0)%Z || (Z.of_nat (length m) <=? w)%Z) eqn:Ew.
      * simpl. unfold m_inv. rewrite Em. split; [exact Hid|]. split; [exact Hm|]. exists i. auto.
      * apply orb_false_iff in Ew. destruct Ew as [E1 E2]. apply Z.ltb_ge in E1. apply Z.leb_gt in E2.
        rewrite Hid.
        pose proof (travel_inv m (m_reversed s) (Z.to_nat w) (m_last_goto s) Hm ltac:(lia) Hr) as [Ht _].
        destruct (travel (mkM (Some m) (m_reversed s) false (Some (Z.to_nat w)) (m_last_goto s))) as [s2 c]. exact Ht.
    + simpl. unfold m_inv. rewrite Em. exact Hinv.
  - unfold m_inv in Hinv. destruct (m_mission s) as [m|] eqn:Em.
    + destruct Hinv as (Hid & Hm & i & Hc & Hi & Hr & Hl).
      destruct (mc_loop cfg) eqn:El; simpl; try (unfold m_inv; rewrite Em; split; [exact Hid|]; split; [exact Hm|]; exists i; rewrite El; auto).
      destruct (Bool.eqb (m_reversed s) b) eqn:Eb.
      * simpl. apply eqb_prop in Eb. subst b. split; [exact Hid|]. split; [exact Hm|]. exists i. rewrite El. auto.
      * rewrite Hid, Hc.
        pose proof (progress_travel_inv m b i (m_last_goto s) Hm Hi ltac:(intros _; exact El)) as Hp.
        destruct (travel (progress cfg (mkM (Some m) b false (Some i) (m_last_goto s)))) as [s2 c]. exact Hp.
    + simpl. unfold m_inv. rewrite Em. exact Hinv.
  - unfold m_inv in Hinv. destruct (m_mission s) as [m|] eqn:Em.
    + destruct Hinv as (Hid & Hm & i & Hc & Hi & Hr & Hl).
      destruct (reached A cfg s pos).
      * assert (s = mkM (Some m) (m_reversed s) false (Some i) (m_last_goto s)) as Hs.
        { destruct s; simpl in *; subst; reflexivity. }
        rewrite Hs.
        pose proof (progress_travel_inv m (m_reversed s) i (m_last_goto s) Hm Hi Hr) as Hp.
        destruct (travel (progress cfg (mkM (Some m) (m_reversed s) false (Some i) (m_last_goto s)))) as [s2 c]. exact Hp.
      * simpl. unfold m_inv. rewrite Em. split; [exact Hid|]. split; [exact Hm|]. exists i. auto.
    + simpl. unfold m_inv. rewrite Em. exact Hinv.
Qed.

(** ... hence in every state reachable by any history of operations (missions non-empty). *)
Theorem m_run_inv s ops : m_inv s -> Forall op_ok ops -> m_inv (fst (m_run A cfg s ops)).
Proof.
  revert s. induction ops as [|o r IH]; intros s Hinv Hok; simpl; [exact Hinv|].
  inversion Hok as [|? ? Ho Hr]; subst.
  pose proof (m_step_inv s o Hinv Ho) as H1.
  destruct (m_step A cfg s o) as [[s1 c] res]. simpl in H1.
  specialize (IH s1 H1 Hr). destruct (m_run A cfg s1 r) as [s2 out]. exact IH.
Qed.

(** Invalid requests raise the plugin's exception, issue no command and change nothing. *)
Theorem m_err_frame s o s' c : m_step A cfg s o = (s', c, MErr) -> s' = s /\ c = [].
Proof.
  destruct o as [mission| |w|b|pos]; simpl.
  - destruct mission; [discriminate|]. destruct (travel _); discriminate.
  - discriminate.
  - destruct (m_mission s) as [m|]; [|intros [= <- <-]; auto].
    destruct ((w <? 0)%Z || (Z.of_nat (length m) <=? w)%Z); [intros [= <- <-]; auto|]. destruct (travel _); discriminate.
  - destruct (m_mission s) as [m|]; [|intros [= <- <-]; auto].
    destruct (mc_loop cfg); try (intros [= <- <-]; auto).
    destruct (Bool.eqb (m_reversed s) b); [discriminate|]. destruct (travel _); discriminate.
  - destruct (m_mission s) as [m|]; [|discriminate]. destruct (reached A cfg s pos); [destruct (travel _)|]; discriminate.
Qed.

Theorem m_err_iff s o :
  snd (m_step A cfg s o) = MErr <->
  match o with
  | MSetWaypoint w => match m_mission s with None => True | Some m => (w < 0)%Z \/ (Z.of_nat (length m) <= w)%Z end
  | MSetReversed _ => m_mission s = None \/ mc_loop cfg <> LoopReverse
  | _ => False
  end.
Proof.
  destruct o as [mission| |w|b|pos]; simpl.
  - destruct mission; [split; [discriminate|tauto]|]. destruct (travel _). simpl. split; [discriminate|tauto].
  - split; [discriminate|tauto].
  - destruct (m_mission s) as [m|]; [|simpl; tauto].
    destruct ((w <? 0)%Z || (Z.of_nat (length m) <=? w)%Z) eqn:E.
    + simpl. apply orb_true_iff in E. rewrite Z.ltb_lt, Z.leb_le in E. tauto.
    + destruct (travel _). simpl. apply orb_false_iff in E. rewrite Z.ltb_ge, Z.leb_gt in E. split; [discriminate|lia].
  - destruct (m_mission s) as [m|]; [|simpl; tauto].
    destruct (mc_loop cfg) eqn:El; simpl; try (split; [intros _; right; discriminate|reflexivity]).
    destruct (Bool.eqb (m_reversed s) b); [|destruct (travel _)]; simpl; (split; [discriminate|intros [H|H]; congruence]).
  - destruct (m_mission s) as [m|]; [|simpl; split; [discriminate|tauto]].
    destruct (reached A cfg s pos); [destruct (travel _)|]; simpl; (split; [discriminate|tauto]).
Qed.

(** Telemetry that does not reach the current waypoint changes nothing and issues nothing;
    telemetry that does advances by [progress] and issues exactly one goto to the new waypoint. *)
Theorem telemetry_not_reached s pos : reached A cfg s pos = false -> m_step A cfg s (MTelemetry pos) = (s, [], MOk).
Proof. intros Hr. simpl. destruct (m_mission s); [rewrite Hr|]; reflexivity. Qed.

(** Visiting order: the successor of waypoint i in each loop mode. *)
Theorem order_no m i lg :
  mc_loop cfg = LoopNo -> m <> [] -> i < length m ->
  progress cfg (mkM (Some m) false false (Some i) lg) =
  if S i <? length m then mkM (Some m) false false (Some (S i)) lg else stop (mkM (Some m) false false (Some i) lg).
Proof.
  intros Hl Hm Hi. unfold progress. simpl. rewrite Hl.
  destruct (Nat.leb (length m) (S i)) eqn:E.
  - apply Nat.leb_le in E. assert (S i <? length m = false) as -> by (apply Nat.ltb_ge; lia). reflexivity.
  - apply Nat.leb_gt in E. assert (S i <? length m = true) as -> by (apply Nat.ltb_lt; lia). reflexivity.
Qed.

Theorem order_restart m i lg :
  mc_loop cfg = LoopRestart -> m <> [] -> i < length m ->
  progress cfg (mkM (Some m) false false (Some i) lg) = mkM (Some m) false false (Some (S i mod length m)) lg.
Proof.
  intros Hl Hm Hi. unfold progress. simpl. rewrite Hl.
  destruct (Nat.leb (length m) (S i)) eqn:E.
  - apply Nat.leb_le in E. assert (S i = length m) as -> by lia. rewrite Nat.mod_same by lia. reflexivity.
  - apply Nat.leb_gt in E. rewrite Nat.mod_small by lia. reflexivity.
Qed.

Theorem order_reverse m i rev lg :
  mc_loop cfg = LoopReverse -> m <> [] -> i < length m ->
  progress cfg (mkM (Some m) rev false (Some i) lg) =
  if rev then match i with
              | S j => mkM (Some m) true false (Some j) lg            (* going back *)
              | O => mkM (Some m) false false (Some 0) lg              (* bounce at the first waypoint *)
              end
  else if S i <? length m then mkM (Some m) false false (Some (S i)) lg   (* going forward *)
       else mkM (Some m) true false (Some (length m - 2)) lg.            (* bounce at the last waypoint *)
Proof.
  intros Hl Hm Hi. unfold progress. simpl. rewrite Hl. destruct rev.
  - destruct i; reflexivity.
  - destruct (Nat.leb (length m) (S i)) eqn:E.
    + apply Nat.leb_le in E. assert (S i <? length m = false) as -> by (apply Nat.ltb_ge; lia). reflexivity.
    + apply Nat.leb_gt in E. assert (S i <? length m = true) as -> by (apply Nat.ltb_lt; lia). reflexivity.
Qed.

End MissionP.
