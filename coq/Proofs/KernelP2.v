(** More proofs about [Kernel]: the lifecycle decomposition of a run (C05) and the
    equivalence of the blocking loop with manual stepping (C06). *)
From Coq Require Import List Arith NArith Bool Lia.
Import ListNotations.
From GS Require Import Num EventLoop Kernel.
From GS.Proofs Require Import Aux EventLoopP KernelP.

Section KernelP2.
Context {F : Type} (A : ArithOps F) {P H T : Type}.
Variable hk : hooks F P H T.
Variable c : kcfg F.

Notation kstate := (kstate F P H).
Notation kitem := (kitem F P T).
Implicit Types (s : kstate).

(* ---- lifecycle -------------------------------------------------------------------------------- *)

(** One iteration of the main loop on an initialised simulator: pop, execute, after-step hooks. *)
Definition k_body s : option (kstate * list kitem * bool) :=
  match el_pop A (k_el s) with
  | None => None
  | Some (e, l1) =>
      let '(h2, reqs, items) := hk_exec hk (k_h s) (ev_ts e) (ev_pl e) in
      let '(l2, ref) := sched_all A l1 reqs in
      let '(h3, aitems, raised) := hk_after hk h2 (k_iter s) (ev_ts e) in
      let body := KExec (k_iter s) (ev_ts e) (ev_seq e) (ev_pl e) :: map (@KUser F P T) items ++ ref ++ map (@KUser F P T) aitems in
      Some (if raised then mkK l2 h3 (k_iter s) true false true
            else mkK l2 h3 (S (k_iter s)) true false false, body, raised)
  end.

Inductive lstatus : Type := LDone | LAborted | LFuel.

(** The main loop: bodies are executed while the simulation is not done. *)
Fixpoint k_loop (fuel : nat) s : kstate * list kitem * lstatus :=
  if k_done A c s then (s, [], LDone)
  else match fuel with
       | 0 => (s, [], LFuel)
       | S f =>
           match k_body s with
           | None => (s, [], LDone)
           | Some (s2, body, raised) =>
               if raised then (s2, body, LAborted)
               else let '(s3, its, st) := k_loop f s2 in (s3, body ++ its, st)
           end
       end.

Definition k_conclude (st : lstatus) s (items : list kitem) : kstate * list kitem * bool :=
  match st with
  | LDone => let '(s3, i3) := k_finalize A hk s in (s3, items ++ i3, true)
  | LAborted => (s, items, true)
  | LFuel => (s, items, false)
  end.

Lemma k_step_inited s :
  k_inited s = true -> k_final s = false -> k_aborted s = false ->
  k_step A hk c s =
  if k_done A c s then let '(s2, i2) := k_finalize A hk s in (s2, i2, false)
  else match k_body s with
       | None => (s, [], false)
       | Some (s2, body, raised) =>
           if raised then (s2, body, false)
           else if k_done A c s2 then let '(s3, i3) := k_finalize A hk s2 in (s3, body ++ i3, false)
                else (s2, body, true)
       end.
Proof.
  intros Hi Hf Ha. unfold k_step, k_body. rewrite Hi, Hf, Ha. simpl.
  destruct (k_done A c s); [destruct (k_finalize A hk s); reflexivity|].
  destruct (el_pop A (k_el s)) as [[e l1]|]; [|reflexivity].
  destruct (hk_exec hk (k_h s) (ev_ts e) (ev_pl e)) as [[h2 reqs] items].
  destruct (sched_all A l1 reqs) as [l2 ref].
  destruct (hk_after hk h2 (k_iter s) (ev_ts e)) as [[h3 aitems] raised].
  destruct raised; [reflexivity|].
  destruct (k_done A c _); [destruct (k_finalize A hk _); reflexivity|reflexivity].
Qed.

Lemma k_body_state s s2 body raised :
  k_body s = Some (s2, body, raised) ->
  k_inited s2 = true /\ k_final s2 = false /\ k_aborted s2 = raised.
Proof.
  unfold k_body. destruct (el_pop A (k_el s)) as [[e l1]|]; [|discriminate].
  destruct (hk_exec hk (k_h s) (ev_ts e) (ev_pl e)) as [[h2 reqs] items].
  destruct (sched_all A l1 reqs) as [l2 ref].
  destruct (hk_after hk h2 (k_iter s) (ev_ts e)) as [[h3 aitems] r].
  intros [= <- <- <-]. destruct r; auto.
Qed.

(** The blocking loop on an initialised, unfinished simulator is: run the main loop, then
    finalise exactly once (unless an exception escaped or the fuel ran out). *)
Lemma k_run_inited fuel s :
  k_inited s = true -> k_final s = false -> k_aborted s = false ->
  (fuel <> 0 \/ k_done A c s = false) ->
  k_run A hk c fuel s = let '(s2, i2, st) := k_loop fuel s in k_conclude st s2 i2.
Proof.
  revert s. induction fuel as [|f IH]; intros s Hi Hf Ha Hpre.
  - destruct Hpre as [Hpre|Hpre]; [congruence|]. simpl. rewrite Hpre. reflexivity.
  - simpl. rewrite (k_step_inited s Hi Hf Ha).
    destruct (k_done A c s) eqn:Ed.
    + simpl. destruct (k_finalize A hk s) as [s2 i2]. reflexivity.
    + destruct (k_body s) as [[[s2 body] raised]|] eqn:Eb.
      2:{ exfalso. unfold k_body in Eb. destruct (el_pop A (k_el s)) as [[e l1]|] eqn:Ep.
          - destruct (hk_exec hk (k_h s) (ev_ts e) (ev_pl e)) as [[h2 reqs] items].
            destruct (sched_all A l1 reqs) as [l2 ref].
            destruct (hk_after hk h2 (k_iter s) (ev_ts e)) as [[h3 aitems] r]. discriminate.
          - eapply (k_done_nonempty A c); eassumption. }
      destruct (k_body_state _ _ _ _ Eb) as (Hi2 & Hf2 & Ha2).
      destruct raised; [reflexivity|].
      destruct (k_done A c s2) eqn:Ed2.
      * destruct f; simpl; rewrite Ed2; simpl; destruct (k_finalize A hk s2) as [s3 i3]; rewrite app_nil_r; reflexivity.
      * rewrite (IH s2 Hi2 Hf2 Ha2 (or_intror Ed2)).
        destruct (k_loop f s2) as [[s3 its] st]. destruct st; simpl.
        -- destruct (k_finalize A hk s3) as [s4 i4]. rewrite app_assoc. reflexivity.
        -- reflexivity.
        -- reflexivity.
Qed.

Lemma k_initialize_flags s :
  k_inited (fst (k_initialize A hk s)) = true /\
  k_final (fst (k_initialize A hk s)) = k_final s /\ k_aborted (fst (k_initialize A hk s)) = k_aborted s.
Proof.
  unfold k_initialize. destruct (hk_init hk (k_h s)) as [[h1 reqs] items]. destruct (sched_all A (k_el s) reqs). simpl. auto.
Qed.

Lemma k_step_uninit s :
  k_inited s = false -> k_final s = false -> k_aborted s = false ->
  k_step A hk c s =
  let '(s1, i1) := k_initialize A hk s in let '(s2, it, b) := k_step A hk c s1 in (s2, i1 ++ it, b).
Proof.
  intros Hi Hf Ha. destruct (k_initialize_flags s) as (Hi1 & Hf1 & Ha1).
  unfold k_step at 1. rewrite Hi, Hf, Ha. simpl.
  destruct (k_initialize A hk s) as [s1 i1] eqn:E1. simpl in *.
  unfold k_step. rewrite Hi1, Hf1, Hf, Ha1, Ha. simpl.
  destruct (k_done A c s1).
  - destruct (k_finalize A hk s1). reflexivity.
  - destruct (el_pop A (k_el s1)) as [[e l1]|]; [|rewrite app_nil_r; reflexivity].
    destruct (hk_exec hk (k_h s1) (ev_ts e) (ev_pl e)) as [[h2 reqs] items].
    destruct (sched_all A l1 reqs) as [l2 ref].
    destruct (hk_after hk h2 (k_iter s1) (ev_ts e)) as [[h3 aitems] raised].
    destruct raised; [reflexivity|].
    destruct (k_done A c _); [destruct (k_finalize A hk _); reflexivity|reflexivity].
Qed.

(** C05: a whole run from a freshly built simulator is: initialise everything exactly once,
    run the main loop (each body = one event, its callbacks, then the after-step hooks, with
    consecutive iteration numbers), finalise everything exactly once. *)
Theorem k_run_lifecycle fuel s :
  k_inited s = false -> k_final s = false -> k_aborted s = false ->
  k_run A hk c (S fuel) s =
  let '(s1, i1) := k_initialize A hk s in
  let '(s2, i2, st) := k_loop (S fuel) s1 in
  let '(s3, i3, fin) := k_conclude st s2 i2 in
  (s3, i1 ++ i3, fin).
Proof.
  intros Hi Hf Ha. destruct (k_initialize_flags s) as (Hi1 & Hf1 & Ha1). rewrite Hf in Hf1. rewrite Ha in Ha1.
  pose proof (k_run_inited (S fuel) (fst (k_initialize A hk s)) Hi1 Hf1 Ha1 (or_introl (Nat.neq_succ_0 fuel))) as Hr.
  change (k_run A hk c (S fuel) s) with
    (let '(s1, it, cont) := k_step A hk c s in
     if cont then let '(s2, its, fin) := k_run A hk c fuel s1 in (s2, it ++ its, fin) else (s1, it, true)).
  rewrite (k_step_uninit s Hi Hf Ha).
  destruct (k_initialize A hk s) as [s1 i1]. simpl fst in *.
  destruct (k_loop (S fuel) s1) as [[s2 i2] st]. destruct (k_conclude st s2 i2) as [[s3 i3] fin].
  simpl in Hr.
  destruct (k_step A hk c s1) as [[s2' it] b]. destruct b.
  - destruct (k_run A hk c fuel s2') as [[s3' its] fin']. injection Hr as <- <- <-. rewrite app_assoc. reflexivity.
  - injection Hr as <- <- <-. reflexivity.
Qed.

(* ---- blocking loop = manual stepping ---------------------------------------------------------- *)

Lemma k_steps_after_completion m s :
  k_final s = true \/ k_aborted s = true -> k_steps A hk c m s = (s, [], repeat false m).
Proof.
  intros Hc. induction m as [|m IH]; simpl; [reflexivity|].
  rewrite (k_step_after_completion A hk c s Hc), IH. reflexivity.
Qed.

(** C06: if the blocking loop terminates, then stepping manually reaches the same state with
    the same trace after some number [n] of steps (all returning True but the last), and any
    number of further steps changes nothing and returns False. *)
Theorem k_run_eq_steps fuel s s' items :
  k_run A hk c fuel s = (s', items, true) ->
  exists n, n <= fuel /\ n <> 0 /\
    forall m, k_steps A hk c (n + m) s = (s', items, repeat true (n - 1) ++ repeat false (S m)).
Proof.
  revert s s' items. induction fuel as [|f IH]; intros s s' items; simpl; [discriminate|].
  pose proof (k_step_result A hk c s) as Hres.
  destruct (k_step A hk c s) as [[s1 it] cont] eqn:Es. destruct cont.
  - destruct (k_run A hk c f s1) as [[s2 its] fin] eqn:Er. intros [= <- <- ->].
    destruct (IH _ _ _ Er) as (n & Hn & Hn0 & Hsteps). exists (S n). split; [lia|]. split; [lia|].
    intros m. simpl. rewrite Es, (Hsteps m). replace (n - 0) with n by lia.
    destruct n; [congruence|]. simpl. replace (n - 0) with n by lia. reflexivity.
  - intros [= <- <-]. exists 1. split; [lia|]. split; [lia|]. intros m. simpl. rewrite Es.
    rewrite (k_steps_after_completion m s1 Hres). rewrite app_nil_r. reflexivity.
Qed.

End KernelP2.
