(** Kernel theorems under ANY driving: every interleaving of step_simulation() calls and code
    outside the event loop that changes handler state and schedules events ([k_external]). *)
From Coq Require Import List Arith NArith Bool Lia Permutation.
Import ListNotations.
From GS Require Import Num EventLoop Kernel.
From GS.Proofs Require Import Aux EventLoopP KernelP.

Section DriveP.
Context {F : Type} (A : ArithOps F) (OL : OrderLaws A) {P H T : Type}.
Variable hk : hooks F P H T.
Variable c : kcfg F.

Notation kstate := (kstate F P H).
Notation kitem := (kitem F P T).
Implicit Types (s : kstate).

Lemma k_external_props f s :
  k_inv A s ->
  let '(s', it) := k_external A (T:=T) f s in
  k_inv A s' /\ execs it = [] /\ el_now (k_el s') = el_now (k_el s) /\
  map key (el_q (k_el s')) = map key (el_q (k_el s)) ++ scheds it.
Proof.
  intros Hinv. unfold k_external. destruct (f (k_h s) (el_now (k_el s))) as [[h1 reqs] items].
  pose proof (sched_all_inv A OL (T:=T) (k_el s) reqs Hinv) as Hi.
  pose proof (sched_all_now A (T:=T) (k_el s) reqs) as Hn.
  pose proof (sched_all_keys A (T:=T) (k_el s) reqs) as Hk.
  pose proof (execs_refused A (T:=T) (k_el s) reqs) as Hx.
  destruct (sched_all A (k_el s) reqs) as [l1 ref]. simpl in *.
  split; [exact Hi|]. split; [rewrite execs_app, execs_user, Hx; reflexivity|]. split; [exact Hn|].
  rewrite scheds_app, scheds_user. exact Hk.
Qed.

(** C01 / C04 under any driving: executed events are in non-decreasing time order starting from
    the clock, the clock ends at the last one, and each is within the bounds. *)
Theorem k_drive_props ops s :
  k_inv A s ->
  let '(s', items) := k_drive A hk c ops s in
  k_inv A s' /\
  sorted_from (fleb A) (el_now (k_el s)) (exec_ts items) /\
  el_now (k_el s') = last (exec_ts items) (el_now (k_el s)) /\
  (forall i ts p, In (i, ts, p) (execs items) -> dur_ok A c ts /\ iter_ok c i).
Proof.
  revert s. induction ops as [|o r IH]; intros s Hinv; simpl.
  - split; [exact Hinv|]. split; [exact I|]. split; [reflexivity|]. intros i ts p [].
  - assert (Hone : exists s1 it,
              (match o with
               | KDStep => let '(s1', it', _) := k_step A hk c s in (s1', it')
               | KDExt f => k_external A f s
               end) = (s1, it) /\
              k_inv A s1 /\ sorted_from (fleb A) (el_now (k_el s)) (exec_ts it) /\
              el_now (k_el s1) = last (exec_ts it) (el_now (k_el s)) /\
              (forall i ts p, In (i, ts, p) (execs it) -> dur_ok A c ts /\ iter_ok c i)).
    { destruct o as [|f].
      - pose proof (k_step_props A OL hk c s Hinv) as Hp. destruct (k_step A hk c s) as [[s1 it] b].
        exists s1, it. split; [reflexivity|]. destruct Hp as [Hinv1 Hcase]. split; [exact Hinv1|].
        unfold exec_ts. destruct Hcase as [(He & Hn & Hk)|(s0 & i0 & e & _ & _ & He & Hn & Hle & Hd & Hi & Hk)]; rewrite He; simpl.
        + split; [exact I|]. split; [exact Hn|]. intros i ts p [].
        + split; [split; [exact Hle|exact I]|]. split; [exact Hn|].
          intros i ts p [[= <- <- <-]|[]]. split; assumption.
      - pose proof (k_external_props f s Hinv) as Hp. destruct (k_external A f s) as [s1 it].
        exists s1, it. split; [reflexivity|]. destruct Hp as (Hinv1 & He & Hn & _). split; [exact Hinv1|].
        unfold exec_ts. rewrite He. simpl. split; [exact I|]. split; [exact Hn|]. intros i ts p []. }
    destruct Hone as (s1 & it & Heq & Hinv1 & S1 & N1 & B1).
    specialize (IH s1 Hinv1).
    assert (Hgoal : let '(s2, its) := k_drive A hk c r s1 in
              k_inv A s2 /\ sorted_from (fleb A) (el_now (k_el s)) (exec_ts (it ++ its)) /\
              el_now (k_el s2) = last (exec_ts (it ++ its)) (el_now (k_el s)) /\
              (forall i ts p, In (i, ts, p) (execs (it ++ its)) -> dur_ok A c ts /\ iter_ok c i)).
    { destruct (k_drive A hk c r s1) as [s2 its]. destruct IH as (Hinv2 & S2 & N2 & B2).
      unfold exec_ts in *. rewrite !execs_app, !map_app.
      split; [exact Hinv2|]. split; [|split].
      - apply (sorted_from_le_app A OL); [exact S1|]. rewrite <- N1. exact S2.
      - rewrite N2, N1, last_app_default. reflexivity.
      - intros i ts p Hin. apply in_app_or in Hin. destruct Hin as [Hin|Hin]; [eapply B1|eapply B2]; eassumption. }
    destruct o as [|f].
    + destruct (k_step A hk c s) as [[s1' it'] b]. injection Heq as -> ->.
      destruct (k_drive A hk c r s1) as [s2 its]. exact Hgoal.
    + rewrite Heq. destruct (k_drive A hk c r s1) as [s2 its]. exact Hgoal.
Qed.

(** C02 under any driving: queued at the start + every accepted request = executed + still queued. *)
Theorem k_drive_conservation ops s :
  k_inv A s ->
  let '(s', items) := k_drive A hk c ops s in
  Permutation (map key (el_q (k_el s)) ++ scheds items) (map ekey (execs items) ++ map key (el_q (k_el s'))).
Proof.
  revert s. induction ops as [|o r IH]; intros s Hinv; simpl.
  - rewrite app_nil_r. reflexivity.
  - destruct o as [|f].
    + pose proof (k_step_conservation A OL hk c s Hinv) as Hc. pose proof (k_step_inv A OL hk c s Hinv) as Hinv1.
      destruct (k_step A hk c s) as [[s1 it] b]. simpl in Hinv1.
      specialize (IH s1 Hinv1). destruct (k_drive A hk c r s1) as [s2 its].
      rewrite scheds_app, execs_app, map_app, app_assoc, Hc, <- !app_assoc.
      apply Permutation_app_head. exact IH.
    + pose proof (k_external_props f s Hinv) as Hp. destruct (k_external A f s) as [s1 it].
      destruct Hp as (Hinv1 & He & _ & Hk).
      specialize (IH s1 Hinv1). destruct (k_drive A hk c r s1) as [s2 its].
      rewrite scheds_app, execs_app, He, app_assoc, <- Hk. simpl. exact IH.
Qed.

End DriveP.
