(** * Every scheduling item of a run is justified by the visible history

    The acceptor [x_next] / [x_ok] replays, from the trace alone, the positions / targets / speeds
    (as [MoveSpec]), the transmission ranges, the number of random draws and the timer-identifier
    counter, and from them computes the scheduling requests each visible item calls for:

    - an accepted set-timer: one timer event at exactly the requested time, with the next identifier;
    - an accepted unicast: one delivery at send time (+ delay) iff the receiver is within the SENDER's
      current range at the positions OF THAT MOMENT and (on a lossy medium) the next draw passes;
    - an accepted broadcast: the same, independently, for every other node in node order;
    - an executed mobility update: one telemetry per node at the update's time carrying that node's new
      position, then the next update one interval later;
    - nothing else.

    The scheduling items (accepted or refused) that follow must be exactly these, in this order, and
    all of them must have appeared before the next event is executed.  Every run is accepted. *)
From Coq Require Import List Arith NArith Bool Lia.
Import ListNotations.
From GS Require Import Num EventLoop Kernel Geo Sim.
From GS.Proofs Require Import Aux EventLoopP KernelP SimP SimP3 TraceSpec TraceSpecQ MoveSpec.

Section SchedSpec.
Context {F : Type} (A : ArithOps F) {PS : Type}.
Variable cfg : scfg F.
Variable react : nat -> PS -> F -> cb F -> PS * list (action F).

Notation sstate := (sstate F PS).
Notation kitem := (kitem F (payload F) (titem F)).
Notation reqs := (list (F * payload F)).
Implicit Types (h : sstate).

Record xst : Type := mkX {
  x_pos : list (vec3 F); x_tgt : list (option (vec3 F)); x_speed : list F; x_range : list F;
  x_cur : nat;            (* random draws consumed *)
  x_ctr : N;              (* next timer identifier *)
  x_now : F;              (* time of the event being executed *)
  x_owed : reqs           (* scheduling requests called for and not yet seen *)
}.

Definition owe (x : xst) (q : reqs) : xst :=
  mkX (x_pos x) (x_tgt x) (x_speed x) (x_range x) (x_cur x) (x_ctr x) (x_now x) q.

(** one copy from [src] to [dst], at the positions and range of this moment *)
Definition x_transmit (x : xst) (src dst msg : nat) : xst :=
  let sq := sqdist A (nth src (x_pos x) (zero3 A)) (nth dst (x_pos x) (zero3 A)) in
  let in_range := fleb A sq (fsq A (nth src (x_range x) (f0 A))) in
  let lossy := fltb A (f0 A) (c_fail cfg) in
  let pass := if lossy then fltb A (c_fail cfg) (nth (x_cur x) (c_stream cfg) (f0 A)) else true in
  let cur' := if lossy then S (x_cur x) else x_cur x in
  let due := if fleb A (c_delay cfg) (f0 A) then x_now x else fadd A (x_now x) (c_delay cfg) in
  mkX (x_pos x) (x_tgt x) (x_speed x) (x_range x) cur' (x_ctr x) (x_now x)
      (x_owed x ++ (if pass && in_range then [(due, EvDeliver src dst msg)] else [])).

Fixpoint x_broadcast (x : xst) (src msg : nat) (dsts : list nat) : xst :=
  match dsts with
  | [] => x
  | d :: r => if Nat.eqb d src then x_broadcast x src msg r else x_broadcast (x_transmit x src d msg) src msg r
  end.

Definition x_mstate (x : xst) : mstate := mkM (x_pos x) (x_tgt x) (x_speed x).

Definition x_act (x : xst) (n : nat) (a : action F) : xst :=
  match a with
  | ASetTimer name ts =>
      if has_timer cfg
      then mkX (x_pos x) (x_tgt x) (x_speed x) (x_range x) (x_cur x) (N.succ (x_ctr x)) (x_now x)
               (x_owed x ++ [(ts, EvTimer n name (x_ctr x))])
      else x
  | ASend msg (Some d) => if has_comm cfg then x_transmit x n d msg else x
  | ABroadcast msg | ABcastDst msg _ => if has_comm cfg then x_broadcast x n msg (seq 0 (c_nnodes cfg)) else x
  | AGoto p =>
      if has_mob cfg then mkX (x_pos x) (upd n (Some p) (x_tgt x)) (x_speed x) (x_range x) (x_cur x) (x_ctr x) (x_now x) (x_owed x) else x
  | AGotoGeo p =>
      if has_mob cfg
      then mkX (x_pos x) (upd n (Some (geo_to_cartesian A (c_ref cfg) p)) (x_tgt x)) (x_speed x) (x_range x) (x_cur x) (x_ctr x) (x_now x) (x_owed x)
      else x
  | ASetSpeed v =>
      if has_mob cfg then mkX (x_pos x) (x_tgt x) (upd n v (x_speed x)) (x_range x) (x_cur x) (x_ctr x) (x_now x) (x_owed x) else x
  | ASetRange r =>
      if has_comm cfg then mkX (x_pos x) (x_tgt x) (x_speed x) (upd n r (x_range x)) (x_cur x) (x_ctr x) (x_now x) (x_owed x) else x
  | _ => x
  end.

(** a mobility update executed at [ts] *)
Definition x_tick (x : xst) (ts : F) : xst :=
  let m := x_mstate x in
  mkX (step_all A cfg m) (x_tgt x) (x_speed x) (x_range x) (x_cur x) (x_ctr x) ts
      (map (fun n => (ts, EvTelemetry n (step1 A cfg (nth n (x_pos x) (zero3 A)) (nth n (x_tgt x) None) (nth n (x_speed x) (f0 A)))))
           (seq 0 (c_nnodes cfg))
       ++ [(fadd A ts (c_rate cfg), EvTick)]).

Definition x_next (x : xst) (it : kitem) : xst :=
  match it with
  | KExec _ ts _ EvTick => x_tick x ts
  | KExec _ ts _ _ => mkX (x_pos x) (x_tgt x) (x_speed x) (x_range x) (x_cur x) (x_ctr x) ts (x_owed x)
  | KUser (TAct n a Ok) => x_act x n a
  | KSched _ _ _ | KRefused _ _ => owe x (tl (x_owed x))
  | _ => x
  end.

Definition x_ok (x : xst) (it : kitem) : Prop :=
  match it with
  | KSched ts _ p | KRefused ts p => exists r, x_owed x = (ts, p) :: r
  | KExec _ _ _ _ => x_owed x = []
  | _ => True
  end.

Definition x_abs (now : F) h : xst :=
  mkX (s_pos h) (s_tgt h) (s_speed h) (s_range h) (s_cursor h) (s_nextid h) now [].

Notation sound := (sound x_next x_ok).

(* ---- requests ------------------------------------------------------------------------------------------------------------ *)

Lemma transmit_x h now q0 src dst msg :
  let '(h1, q) := transmit A cfg h now src dst msg in
  x_transmit (owe (x_abs now h) q0) src dst msg = owe (x_abs now h1) (q0 ++ q).
Proof.
  unfold transmit, x_transmit, pos_of, owe, x_abs. simpl.
  destruct (fltb A (f0 A) (c_fail cfg)); simpl;
    repeat match goal with |- context [if ?b then _ else _] => destruct b; simpl end; reflexivity.
Qed.

Lemma broadcast_x h now q0 src msg dsts :
  let '(h1, q) := broadcast A cfg h now src msg dsts in
  x_broadcast (owe (x_abs now h) q0) src msg dsts = owe (x_abs now h1) (q0 ++ q).
Proof.
  revert h q0. induction dsts as [|d r IH]; intros h q0; simpl.
  - rewrite app_nil_r. reflexivity.
  - destruct (Nat.eqb d src); [apply IH|].
    pose proof (transmit_x h now q0 src d msg) as Ht. destruct (transmit A cfg h now src d msg) as [h1 q1]. rewrite Ht.
    specialize (IH h1 (q0 ++ q1)). destruct (broadcast A cfg h1 now src msg r) as [h2 q2]. rewrite IH, app_assoc. reflexivity.
Qed.

Lemma do_action_x h now q0 n a :
  let '(h1, q, o) := do_action A cfg h now n a in
  x_next (owe (x_abs now h) q0) (KUser (TAct n a o)) = owe (x_abs now h1) (q0 ++ q).
Proof.
  destruct a as [name ts|name|msg dst|msg|msg d|p|p|sp|r|b]; simpl.
  - destruct (has_timer cfg); simpl; [|rewrite app_nil_r; reflexivity].
    destruct (fltb A ts now); simpl; [rewrite app_nil_r; reflexivity|reflexivity].
  - destruct (negb (has_timer cfg)); simpl; rewrite app_nil_r; reflexivity.
  - destruct (has_comm cfg); simpl; [|destruct dst; rewrite app_nil_r; reflexivity].
    destruct dst as [d|]; simpl; [|rewrite app_nil_r; reflexivity].
    destruct (Nat.eqb d n); simpl; [rewrite app_nil_r; reflexivity|].
    destruct (Nat.ltb d (c_nnodes cfg)); simpl; [|rewrite app_nil_r; reflexivity].
    pose proof (transmit_x h now q0 n d msg) as Ht. destruct (transmit A cfg h now n d msg) as [h1 q1]. simpl. exact Ht.
  - destruct (has_comm cfg); simpl; [|rewrite app_nil_r; reflexivity].
    pose proof (broadcast_x h now q0 n msg (seq 0 (c_nnodes cfg))) as Ht.
    destruct (broadcast A cfg h now n msg (seq 0 (c_nnodes cfg))) as [h1 q1]. simpl. exact Ht.
  - destruct (has_comm cfg); simpl; [|rewrite app_nil_r; reflexivity].
    destruct (Nat.eqb d n); simpl; [rewrite app_nil_r; reflexivity|].
    pose proof (broadcast_x h now q0 n msg (seq 0 (c_nnodes cfg))) as Ht.
    destruct (broadcast A cfg h now n msg (seq 0 (c_nnodes cfg))) as [h1 q1]. simpl. exact Ht.
  - destruct (has_mob cfg); simpl; rewrite app_nil_r; reflexivity.
  - destruct (has_mob cfg); simpl; rewrite app_nil_r; reflexivity.
  - destruct (has_mob cfg); simpl; rewrite app_nil_r; reflexivity.
  - destruct (fltb A r (f0 A)); simpl; [rewrite app_nil_r; reflexivity|].
    destruct (has_comm cfg); simpl; rewrite app_nil_r; reflexivity.
  - rewrite app_nil_r. reflexivity.
Qed.

Lemma sound_cons x it r x' : x_ok x it -> sound (x_next x it) r x' -> sound x (it :: r) x'.
Proof. intros H [Ha Hf]. split; [split; assumption|exact Hf]. Qed.

Lemma do_actions_x h now q0 n acts :
  let '(h1, q, t) := do_actions A cfg h now n acts in
  sound (owe (x_abs now h) q0) (map (@KUser F (payload F) (titem F)) t) (owe (x_abs now h1) (q0 ++ q)).
Proof.
  revert h q0. induction acts as [|a r IH]; intros h q0; simpl.
  - rewrite app_nil_r. apply sound_nil.
  - pose proof (do_action_x h now q0 n a) as Ha. destruct (do_action A cfg h now n a) as [[h1 q1] o].
    specialize (IH h1 (q0 ++ q1)). destruct (do_actions A cfg h1 now n r) as [[h2 q2] t2].
    cbn [map fst snd]. apply sound_cons; [exact I|]. rewrite Ha, app_assoc. exact IH.
Qed.

Lemma set_ps_x now h v q0 : owe (x_abs now (set_ps h v)) q0 = owe (x_abs now h) q0.
Proof. reflexivity. Qed.

Lemma callback_x h now q0 n cbk :
  let '(h1, q, t) := callback A cfg react h now n cbk in
  sound (owe (x_abs now h) q0) (map (@KUser F (payload F) (titem F)) t) (owe (x_abs now h1) (q0 ++ q)).
Proof.
  unfold callback. destruct (nth_error (s_ps h) n) as [ps|]; [|rewrite app_nil_r; apply sound_nil].
  destruct (react n ps (if has_timer cfg then now else f0 A) cbk) as [ps1 acts].
  pose proof (do_actions_x (set_ps h (upd n ps1 (s_ps h))) now q0 n acts) as Hd.
  destruct (do_actions A cfg (set_ps h (upd n ps1 (s_ps h))) now n acts) as [[h2 q] t].
  rewrite set_ps_x in Hd. cbn [map]. apply sound_cons; [exact I|]. exact Hd.
Qed.

Lemma callbacks_x h now q0 ns cbk :
  let '(h1, q, t) := callbacks A cfg react h now ns cbk in
  sound (owe (x_abs now h) q0) (map (@KUser F (payload F) (titem F)) t) (owe (x_abs now h1) (q0 ++ q)).
Proof.
  revert h q0. induction ns as [|n r IH]; intros h q0; simpl.
  - rewrite app_nil_r. apply sound_nil.
  - pose proof (callback_x h now q0 n cbk) as Hc. destruct (callback A cfg react h now n cbk) as [[h1 q1] t1].
    specialize (IH h1 (q0 ++ q1)). destruct (callbacks A cfg react h1 now r cbk) as [[h2 q2] t2].
    rewrite map_app, app_assoc. eapply sound_app; eassumption.
Qed.

Lemma user_neutral (x : xst) (l : list (titem F)) :
  (forall it, In it l -> match it with TAct _ _ _ => False | _ => True end) ->
  sound x (map (@KUser F (payload F) (titem F)) l) x.
Proof.
  induction l as [|it r IH]; intros Hl; simpl; [apply sound_nil|].
  assert (Hr : sound x (map (@KUser F (payload F) (titem F)) r) x) by (apply IH; intros i Hi; apply Hl; right; exact Hi).
  specialize (Hl it (or_introl eq_refl)).
  destruct Hr as [Ha Hf]. unfold TraceSpec.sound, after in *.
  destruct it; try contradiction; simpl; (split; [split; [exact I|exact Ha]|exact Hf]).
Qed.

(* ---- the four hooks -------------------------------------------------------------------------------------------------------- *)

Definition x_inv h : Prop := True.

Lemma handlers_init_x h hs now :
  x_abs now (fst (handlers_init cfg h hs)) = x_abs now h /\
  forall it, In it (snd (handlers_init cfg h hs)) -> match it with TAct _ _ _ => False | _ => True end.
Proof.
  revert h. induction hs as [|k r IH]; intros h; simpl; [split; [reflexivity|intros ? []]|].
  destruct k; try apply IH.
  - specialize (IH h). destruct (handlers_init cfg h r) as [h1 t]. simpl in *. destruct IH as [I1 I2].
    split; [exact I1|]. intros it [<-|Hin]; [exact I|apply I2; exact Hin].
  - specialize (IH (set_astate h (map (assert_init cfg) (c_asserts cfg)))).
    destruct (handlers_init cfg (set_astate h (map (assert_init cfg) (c_asserts cfg))) r) as [h1 t]. exact IH.
Qed.

Theorem sim_init_x h :
  x_inv h ->
  let '(h1, q, items) := sim_init A cfg react h in
  x_inv h1 /\ sound (x_abs (f0 A) h) (map (@KUser F (payload F) (titem F)) items) (owe (x_abs (f0 A) h1) q).
Proof.
  intros _. unfold sim_init. pose proof (handlers_init_x h (c_handlers cfg) (f0 A)) as Hh.
  destruct (handlers_init cfg h (c_handlers cfg)) as [h1 t1]. simpl in Hh. destruct Hh as [E1 N1].
  pose proof (callbacks_x h1 (f0 A) [] (nodes cfg) CbInit) as Hc.
  destruct (callbacks A cfg react h1 (f0 A) (nodes cfg) CbInit) as [[h2 q] t2]. simpl in Hc.
  split; [exact I|]. rewrite map_app. eapply sound_app; [|exact Hc].
  change (owe (x_abs (f0 A) h1) []) with (x_abs (f0 A) h1). rewrite E1. apply user_neutral. exact N1.
Qed.

Lemma tick_x h now0 ts :
  let '(h1, q) := tick A cfg h ts in
  x_tick (x_abs now0 h) ts = owe (x_abs ts h1) q.
Proof.
  pose proof (tick_spec A cfg h ts) as Hq.
  unfold tick in *. pose proof (tick_nodes_fold A cfg h ts (seq 0 (c_nnodes cfg))) as Hf.
  pose proof (tick_nodes_spec A cfg h ts (seq 0 (c_nnodes cfg)) (seq_NoDup _ _)) as Hs.
  destruct (tick_nodes A cfg h ts (seq 0 (c_nnodes cfg))) as [h1 q]. simpl in *.
  destruct Hq as (Hq & _). destruct Hf as (P1 & T1 & S1). destruct Hs as (_ & _ & _ & R1 & _ & N1 & _ & _ & C1 & _).
  unfold x_tick, owe, x_abs, x_mstate, step_all. simpl. rewrite P1, T1, S1, R1, N1, C1, Hq. reflexivity.
Qed.

Theorem sim_exec_x h now0 ts p i sq :
  x_inv h ->
  let '(h2, q, items) := sim_exec A cfg react h ts p in
  x_inv h2 /\ sound (x_abs now0 h) (KExec i ts sq p :: map (@KUser F (payload F) (titem F)) items) (owe (x_abs ts h2) q).
Proof.
  intros _.
  assert (Hcb : forall (h' : sstate) n cbk, x_abs ts h' = x_abs ts h -> p <> EvTick ->
            let '(h2, q, items) := callback A cfg react h' ts n cbk in
            x_inv h2 /\ sound (x_abs now0 h) (KExec i ts sq p :: map (@KUser F (payload F) (titem F)) items) (owe (x_abs ts h2) q)).
  { intros h' n cbk Heq Hp. pose proof (callback_x h' ts [] n cbk) as Hc.
    destruct (callback A cfg react h' ts n cbk) as [[h2 q] t]. simpl in Hc. split; [exact I|].
    change (KExec i ts sq p :: map (@KUser F (payload F) (titem F)) t)
      with ([KExec i ts sq p] ++ map (@KUser F (payload F) (titem F)) t).
    eapply sound_app; [|exact Hc].
    change (owe (x_abs ts h') []) with (x_abs ts h'). rewrite Heq.
    unfold TraceSpec.sound, after. simpl. split; [split; [reflexivity|exact I]|].
    destruct p; try reflexivity. contradiction. }
  destruct p as [n name id|src dst msg| |n pos]; simpl.
  - destruct (existsb (pend_id n name id) (s_pending h)).
    + apply (Hcb (set_pending h (filter (fun e => negb (pend_id n name id e)) (s_pending h))) n (CbTimer name) eq_refl). discriminate.
    + split; [exact I|]. unfold TraceSpec.sound, after. simpl. split; [split; [reflexivity|exact I]|reflexivity].
  - apply (Hcb h dst (CbPacket msg) eq_refl). discriminate.
  - pose proof (tick_x h now0 ts) as Ht. destruct (tick A cfg h ts) as [h1 q]. split; [exact I|].
    unfold TraceSpec.sound, after. simpl. split; [split; [reflexivity|exact I]|exact Ht].
  - apply (Hcb h n (CbTelemetry pos) eq_refl). discriminate.
Qed.

Lemma handlers_after_x h i ts hs now :
  x_abs now (fst (fst (handlers_after cfg h i ts hs))) = x_abs now h /\
  forall it, In it (snd (fst (handlers_after cfg h i ts hs))) -> match it with TAct _ _ _ => False | _ => True end.
Proof.
  revert h. induction hs as [|k r IH]; intros h; simpl; [split; [reflexivity|intros ? []]|].
  destruct k; try apply IH.
  - specialize (IH h). destruct (handlers_after cfg h i ts r) as [[h1 t] raised]. simpl in *. destruct IH as [I1 I2].
    split; [exact I1|]. intros it [<-|Hin]; [exact I|apply I2; exact Hin].
  - destruct (asserts_iter cfg h 0 (c_asserts cfg) (s_astate h)) as [sts res].
    destruct res as [idx|].
    + simpl. split; [reflexivity|]. intros it [<-|[]]. exact I.
    + specialize (IH (set_astate h sts)). destruct (handlers_after cfg (set_astate h sts) i ts r) as [[h1 t] raised]. exact IH.
Qed.

Theorem sim_after_x h now i :
  x_inv h ->
  let '(h3, aitems, raised) := sim_after cfg h i now in
  x_inv h3 /\ sound (x_abs now h) (map (@KUser F (payload F) (titem F)) aitems) (x_abs now h3).
Proof.
  intros _. unfold sim_after. pose proof (handlers_after_x h i now (c_handlers cfg) now) as Hh.
  destruct (handlers_after cfg h i now (c_handlers cfg)) as [[h1 t] raised]. simpl in Hh. destruct Hh as [E1 N1].
  split; [exact I|]. rewrite E1. apply user_neutral. exact N1.
Qed.

Lemma handlers_final_x h hs :
  forall it, In it (fst (handlers_final cfg h hs)) -> match it with TAct _ _ _ => False | _ => True end.
Proof.
  induction hs as [|k r IH]; simpl; [intros ? []|].
  destruct k; try exact IH.
  - destruct (handlers_final cfg h r) as [t raised]. simpl in *. intros it [<-|Hin]; [exact I|apply IH; exact Hin].
  - destruct (asserts_final 0 (c_asserts cfg) (s_astate h)) as [idx|]; [|exact IH].
    simpl. intros it [<-|[]]. exact I.
Qed.

Theorem sim_finish_x h now :
  x_inv h ->
  let '(h1, q, items, raised) := sim_finish A cfg react h now in
  x_inv h1 /\ sound (x_abs now h) (map (@KUser F (payload F) (titem F)) items) (owe (x_abs now h1) q).
Proof.
  intros _. unfold sim_finish. pose proof (callbacks_x h now [] (nodes cfg) CbFinish) as Hc.
  destruct (callbacks A cfg react h now (nodes cfg) CbFinish) as [[h1 q] t1]. simpl in Hc.
  pose proof (handlers_final_x h1 (c_handlers cfg)) as Hf.
  destruct (handlers_final cfg h1 (c_handlers cfg)) as [t2 raised]. simpl in Hf.
  split; [exact I|]. rewrite map_app. eapply sound_app; [exact Hc|]. apply user_neutral. exact Hf.
Qed.

(* ---- whole runs ------------------------------------------------------------------------------------------------------------- *)

Notation hooks := (sim_hooks A cfg react).

(** the acceptor's state right after build(): initial positions, no targets, default speed and range, nothing drawn,
    no identifier handed out, clock 0, and the first mobility update owed if there is a mobility handler *)
Definition x0 : xst :=
  mkX (c_pos0 cfg) (map (fun _ => None) (nodes cfg)) (map (fun _ => c_speed cfg) (nodes cfg))
      (map (fun _ => c_range cfg) (nodes cfg)) 0 0%N (f0 A) (sim_reqs0 A cfg).

Theorem whole_run_scheduled (c : kcfg F) fuel ps0 :
  let '(s0, i0) := sim_start A cfg ps0 in
  let '(s', items, fin) := k_run A hooks c fuel s0 in
  accept x_next x_ok x0 (i0 ++ items) /\
  after x_next x0 (i0 ++ items) = x_abs (el_now (k_el s')) (k_h s').
Proof.
  unfold sim_start.
  assert (Hown : forall now h, owe (x_abs now h) [] = x_abs now h) by reflexivity.
  assert (Hsc : forall now h ts p r sq,
            x_next (owe (x_abs now h) ((ts, p) :: r)) (KSched ts sq p) = owe (x_abs now h) r /\
            x_ok (owe (x_abs now h) ((ts, p) :: r)) (KSched ts sq p)).
  { intros. split; [reflexivity|]. simpl. eexists. reflexivity. }
  assert (Hrf : forall now h ts p r,
            x_next (owe (x_abs now h) ((ts, p) :: r)) (KRefused ts p) = owe (x_abs now h) r /\
            x_ok (owe (x_abs now h) ((ts, p) :: r)) (KRefused ts p)).
  { intros. split; [reflexivity|]. simpl. eexists. reflexivity. }
  pose proof (TraceSpecQ.k_start_sound A x_next x_ok x_abs owe Hown Hsc Hrf (sim_state0 cfg ps0) (sim_reqs0 A cfg)) as H0.
  assert (Hst : let s0 := fst (k_start A (T:=titem F) (sim_state0 cfg ps0) (sim_reqs0 A cfg)) in
                k_h s0 = sim_state0 cfg ps0 /\ k_inited s0 = false /\ el_now (k_el s0) = f0 A).
  { unfold k_start. pose proof (sched_all_clock A (T:=titem F) (el_init A) (sim_reqs0 A cfg)) as Hc.
    destruct (sched_all A (el_init A) (sim_reqs0 A cfg)) as [l its]. simpl in *. auto. }
  destruct (k_start A (T:=titem F) (sim_state0 cfg ps0) (sim_reqs0 A cfg)) as [s0 i0]. simpl in Hst, H0.
  destruct Hst as (Hh & Hin & Hclk).
  pose proof (TraceSpecQ.k_run_sound A hooks c x_next x_ok x_abs owe x_inv Hown Hsc Hrf
                sim_init_x sim_exec_x sim_after_x sim_finish_x fuel s0 I (fun _ => Hclk)) as Hr.
  destruct (k_run A hooks c fuel s0) as [[s' items] fin]. destruct Hr as [_ [Ha Hf]].
  change (owe (x_abs (f0 A) (sim_state0 cfg ps0)) (sim_reqs0 A cfg)) with x0 in H0.
  destruct H0 as [Ha0 Hf0]. unfold K in *. split.
  - apply accept_app. rewrite Hf0. split; assumption.
  - rewrite after_app, Hf0. exact Hf.
Qed.

End SchedSpec.
