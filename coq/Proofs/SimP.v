(** Proofs about [Sim]: what the composed handlers do in one callback / one event, for every
    protocol function [react], every configuration and every oracle stream. *)
From Coq Require Import List Arith NArith Bool Lia Permutation.
Import ListNotations.
From GS Require Import Num EventLoop Kernel Geo Sim.
From GS.Proofs Require Import Aux EventLoopP KernelP.

Section SimP.
Context {F : Type} (A : ArithOps F) (OL : OrderLaws A) {PS : Type}.
Variable cfg : scfg F.
Variable react : nat -> PS -> F -> cb F -> PS * list (action F).

Notation sstate := (sstate F PS).
Notation le x y := (fleb A x y = true).
Notation do_action := (do_action A cfg).
Notation do_actions := (do_actions A cfg).
Notation callback := (callback A cfg react).
Notation callbacks := (callbacks A cfg react).
Notation sim_exec := (sim_exec A cfg react).
Notation transmit := (transmit A cfg).
Notation broadcast := (broadcast A cfg).
Implicit Types (h : sstate).

(** time reported by provider.current_time() when the event loop's clock is [now] *)
Definition pnow (now : F) : F := if has_timer cfg then now else f0 A.

Lemma nlt_le x y : fltb A x y = false -> le y x.
Proof. rewrite (ltb_leb A OL). intros H. apply negb_false_iff in H. exact H. Qed.
Lemma lt_le x y : fltb A x y = true -> le x y.
Proof.
  rewrite (ltb_leb A OL). intros H. apply negb_true_iff in H.
  destruct (leb_total A OL x y) as [H1|H1]; [exact H1|congruence].
Qed.

(* ---- requests of the communication handler -------------------------------------------------- *)

Definition deliver_time (now : F) : F :=
  if fleb A (c_delay cfg) (f0 A) then now else fadd A now (c_delay cfg).

Lemma deliver_time_future now : le now (deliver_time now).
Proof.
  unfold deliver_time. destruct (fleb A (c_delay cfg) (f0 A)) eqn:E; [apply (leb_refl A OL)|].
  apply (add_nonneg A OL). destruct (leb_total A OL (f0 A) (c_delay cfg)) as [H|H]; [exact H|congruence].
Qed.

Lemma transmit_reqs h now src dst msg :
  let '(h1, q) := transmit h now src dst msg in
  (q = [] \/ q = [(deliver_time now, EvDeliver src dst msg)]) /\
  s_pending h1 = s_pending h /\ s_nextid h1 = s_nextid h /\ s_pos h1 = s_pos h /\ s_tgt h1 = s_tgt h /\
  s_speed h1 = s_speed h /\ s_range h1 = s_range h /\ s_ps h1 = s_ps h /\ s_flag h1 = s_flag h /\
  s_astate h1 = s_astate h /\ (s_cursor h <= s_cursor h1 <= S (s_cursor h)).
Proof.
  unfold Sim.transmit, deliver_time.
  destruct (fltb A (f0 A) (c_fail cfg)); simpl;
  repeat match goal with |- context [if ?b then _ else _] => destruct b; simpl end;
  (split; [auto|repeat split; auto; lia]).
Qed.

Lemma broadcast_reqs h now src msg dsts :
  let '(h1, q) := broadcast h now src msg dsts in
  (forall r, In r q -> exists d, In d dsts /\ d <> src /\ r = (deliver_time now, EvDeliver src d msg)) /\
  s_pending h1 = s_pending h /\ s_nextid h1 = s_nextid h /\ s_pos h1 = s_pos h /\ s_tgt h1 = s_tgt h /\
  s_speed h1 = s_speed h /\ s_range h1 = s_range h /\ s_ps h1 = s_ps h /\ s_flag h1 = s_flag h /\
  s_astate h1 = s_astate h /\ s_cursor h <= s_cursor h1.
Proof.
  revert h. induction dsts as [|d r IH]; intros h; simpl.
  - split; [intros ? []|]. repeat split; auto.
  - destruct (Nat.eqb d src) eqn:Ed.
    + specialize (IH h). destruct (broadcast h now src msg r) as [h1 q].
      destruct IH as (I1 & I2). split; [|exact I2].
      intros x Hx. destruct (I1 x Hx) as (d' & Hd & Hne & ->). exists d'. auto.
    + pose proof (transmit_reqs h now src d msg) as Ht.
      destruct (Sim.transmit A cfg h now src d msg) as [h1 q1].
      specialize (IH h1). destruct (broadcast h1 now src msg r) as [h2 q2].
      destruct Ht as (T1 & T2 & T3 & T4 & T5 & T6 & T7 & T8 & T9 & T10 & T11).
      destruct IH as (I1 & I2 & I3 & I4 & I5 & I6 & I7 & I8 & I9 & I10 & I11).
      split.
      * intros x Hx. apply in_app_or in Hx. destruct Hx as [Hx|Hx].
        -- exists d. split; [left; reflexivity|]. split; [apply Nat.eqb_neq; exact Ed|].
           destruct T1 as [->| ->]; [destruct Hx|destruct Hx as [<-|[]]; reflexivity].
        -- destruct (I1 x Hx) as (d' & Hd & Hne & ->). exists d'. auto.
      * repeat split; try congruence; lia.
Qed.

(* ---- one request of a protocol ------------------------------------------------------------------ *)

(** Every request any action issues is due now or later (so the kernel never refuses one). *)
Lemma do_action_reqs_future h now n a :
  forall ts p, In (ts, p) (snd (fst (do_action h now n a))) -> le now ts.
Proof.
  destruct a; simpl.
  - destruct (negb (has_timer cfg)); [intros ? ? []|].
    destruct (fltb A ts now) eqn:E; [intros ? ? []|]. simpl. intros ts' p [[= <- <-]|[]]. apply nlt_le; exact E.
  - destruct (negb (has_timer cfg)); intros ? ? [].
  - destruct (negb (has_comm cfg)); [intros ? ? []|]. destruct dst as [d|]; [|intros ? ? []].
    destruct (Nat.eqb d n); [intros ? ? []|]. destruct (Nat.ltb d (c_nnodes cfg)); [|intros ? ? []].
    pose proof (transmit_reqs h now n d msg) as Ht. destruct (Sim.transmit A cfg h now n d msg) as [h1 q]. simpl.
    destruct Ht as ([->| ->] & _); [intros ? ? []|]. intros ts p [[= <- <-]|[]]. apply deliver_time_future.
  - destruct (negb (has_comm cfg)); [intros ? ? []|].
    pose proof (broadcast_reqs h now n msg (seq 0 (c_nnodes cfg))) as Hb.
    destruct (Sim.broadcast A cfg h now n msg (seq 0 (c_nnodes cfg))) as [h1 q]. simpl.
    destruct Hb as (Hb & _). intros ts p Hin. destruct (Hb _ Hin) as (d & _ & _ & [= -> ->]). apply deliver_time_future.
  - destruct (negb (has_comm cfg)); [intros ? ? []|]. destruct (Nat.eqb dst n); [intros ? ? []|].
    pose proof (broadcast_reqs h now n msg (seq 0 (c_nnodes cfg))) as Hb.
    destruct (Sim.broadcast A cfg h now n msg (seq 0 (c_nnodes cfg))) as [h1 q]. simpl.
    destruct Hb as (Hb & _). intros ts p Hin. destruct (Hb _ Hin) as (d & _ & _ & [= -> ->]). apply deliver_time_future.
  - destruct (negb (has_mob cfg)); intros ? ? [].
  - destruct (negb (has_mob cfg)); intros ? ? [].
  - destruct (negb (has_mob cfg)); intros ? ? [].
  - destruct (fltb A r (f0 A)); [intros ? ? []|]. destruct (negb (has_comm cfg)); intros ? ? [].
  - intros ? ? [].
Qed.

Lemma do_actions_reqs_future h now n acts :
  forall ts p, In (ts, p) (snd (fst (do_actions h now n acts))) -> le now ts.
Proof.
  revert h. induction acts as [|a r IH]; intros h; simpl; [intros ? ? []|].
  pose proof (do_action_reqs_future h now n a) as Ha.
  destruct (Sim.do_action A cfg h now n a) as [[h1 q1] o].
  specialize (IH h1). destruct (Sim.do_actions A cfg h1 now n r) as [[h2 q2] t2]. simpl in *.
  intros ts p Hin. apply in_app_or in Hin. destruct Hin; [eapply Ha|eapply IH]; eassumption.
Qed.

Lemma do_actions_items h now n acts :
  forall it, In it (snd (do_actions h now n acts)) -> exists a o, it = TAct n a o /\ In a acts.
Proof.
  revert h. induction acts as [|a r IH]; intros h; simpl; [intros ? []|].
  destruct (Sim.do_action A cfg h now n a) as [[h1 q1] o].
  specialize (IH h1). destruct (Sim.do_actions A cfg h1 now n r) as [[h2 q2] t2]. simpl in *.
  intros it [<-|Hin]; [exists a, o; auto|]. destruct (IH it Hin) as (a' & o' & -> & Ha). exists a', o'. auto.
Qed.

(* ---- one callback -------------------------------------------------------------------------------- *)

(** A callback reports to its protocol exactly the time of the event being executed, on the
    node it is addressed to, once. *)
Lemma callback_items h now n c :
  let items := snd (callback h now n c) in
  items = [] \/
  exists acts_items, items = TCb n (pnow now) c :: acts_items /\
    forall it, In it acts_items -> exists a o, it = TAct n a o.
Proof.
  unfold Sim.callback. destruct (nth_error (s_ps h) n) as [ps|]; [|left; reflexivity].
  destruct (react n ps (if has_timer cfg then now else f0 A) c) as [ps1 acts].
  pose proof (do_actions_items (set_ps h (upd n ps1 (s_ps h))) now n acts) as Hi.
  destruct (Sim.do_actions A cfg (set_ps h (upd n ps1 (s_ps h))) now n acts) as [[h2 q] t]. simpl in *.
  right. exists t. split; [reflexivity|]. intros it Hin. destruct (Hi it Hin) as (a & o & -> & _). eauto.
Qed.

Lemma callback_reqs_future h now n c :
  forall ts p, In (ts, p) (snd (fst (callback h now n c))) -> le now ts.
Proof.
  unfold Sim.callback. destruct (nth_error (s_ps h) n) as [ps|]; [|intros ? ? []].
  destruct (react n ps (if has_timer cfg then now else f0 A) c) as [ps1 acts].
  pose proof (do_actions_reqs_future (set_ps h (upd n ps1 (s_ps h))) now n acts) as Hi.
  destruct (Sim.do_actions A cfg (set_ps h (upd n ps1 (s_ps h))) now n acts) as [[h2 q] t]. simpl in *. exact Hi.
Qed.

Lemma callbacks_reqs_future h now ns c :
  forall ts p, In (ts, p) (snd (fst (callbacks h now ns c))) -> le now ts.
Proof.
  revert h. induction ns as [|n r IH]; intros h; simpl; [intros ? ? []|].
  pose proof (callback_reqs_future h now n c) as Hc.
  destruct (Sim.callback A cfg react h now n c) as [[h1 q1] t1].
  specialize (IH h1). destruct (Sim.callbacks A cfg react h1 now r c) as [[h2 q2] t2]. simpl in *.
  intros ts p Hin. apply in_app_or in Hin. destruct Hin; [eapply Hc|eapply IH]; eassumption.
Qed.

(** All callbacks of one lifecycle phase: one per node, in node order, all at the same time. *)
Definition is_cb_of (n : nat) (t : F) (c : cb F) (it : titem F) : Prop := it = TCb n t c.

Fixpoint cbs_of (items : list (titem F)) : list (nat * F * cb F) :=
  match items with
  | [] => []
  | TCb n t c :: r => (n, t, c) :: cbs_of r
  | _ :: r => cbs_of r
  end.

Lemma cbs_of_app a b : cbs_of (a ++ b) = cbs_of a ++ cbs_of b.
Proof. induction a as [|x r IH]; simpl; [reflexivity|]. destruct x; simpl; rewrite IH; reflexivity. Qed.

Lemma cbs_of_acts (l : list (titem F)) n :
  (forall it, In it l -> exists a o, it = TAct n a o) -> cbs_of l = [].
Proof.
  induction l as [|x r IH]; intros Hl; [reflexivity|].
  destruct (Hl x (or_introl eq_refl)) as (a & o & ->). simpl. apply IH. intros it Hin. apply Hl. right; exact Hin.
Qed.

Lemma callback_cbs h now n c :
  cbs_of (snd (callback h now n c)) = if n <? length (s_ps h) then [(n, pnow now, c)] else [].
Proof.
  pose proof (callback_items h now n c) as Hi. unfold Sim.callback in *.
  destruct (nth_error (s_ps h) n) as [ps|] eqn:En.
  - assert (n < length (s_ps h)) as Hlt by (apply nth_error_Some; congruence).
    apply Nat.ltb_lt in Hlt. rewrite Hlt.
    destruct (react n ps (if has_timer cfg then now else f0 A) c) as [ps1 acts].
    destruct (Sim.do_actions A cfg (set_ps h (upd n ps1 (s_ps h))) now n acts) as [[h2 q] t]. simpl in *.
    destruct Hi as [Hi|(ai & Heq & Hai)]; [discriminate|]. injection Heq as <-.
    rewrite (cbs_of_acts t n Hai). reflexivity.
  - apply nth_error_None in En. apply Nat.ltb_ge in En. rewrite En. reflexivity.
Qed.

Lemma upd_length {X : Type} n (x : X) l : length (upd n x l) = length l.
Proof. revert n. induction l as [|y r IH]; intros [|n]; simpl; auto. Qed.

Lemma do_action_ps_length h now n a : length (s_ps (fst (fst (do_action h now n a)))) = length (s_ps h).
Proof.
  destruct a; simpl;
    repeat match goal with
    | |- context [if ?b then _ else _] => destruct b; simpl
    | |- context [match ?d with Some _ => _ | None => _ end] => destruct d; simpl
    end; try reflexivity.
  - pose proof (transmit_reqs h now n n0 msg) as Ht. destruct (Sim.transmit A cfg h now n n0 msg) as [h1 q]. simpl.
    destruct Ht as (_ & _ & _ & _ & _ & _ & _ & -> & _). reflexivity.
  - pose proof (broadcast_reqs h now n msg (seq 0 (c_nnodes cfg))) as Hb.
    destruct (Sim.broadcast A cfg h now n msg (seq 0 (c_nnodes cfg))) as [h1 q]. simpl.
    destruct Hb as (_ & _ & _ & _ & _ & _ & _ & -> & _). reflexivity.
  - pose proof (broadcast_reqs h now n msg (seq 0 (c_nnodes cfg))) as Hb.
    destruct (Sim.broadcast A cfg h now n msg (seq 0 (c_nnodes cfg))) as [h1 q]. simpl.
    destruct Hb as (_ & _ & _ & _ & _ & _ & _ & -> & _). reflexivity.
Qed.

Lemma do_actions_ps_length h now n acts : length (s_ps (fst (fst (do_actions h now n acts)))) = length (s_ps h).
Proof.
  revert h. induction acts as [|a r IH]; intros h; simpl; [reflexivity|].
  pose proof (do_action_ps_length h now n a) as Ha.
  destruct (Sim.do_action A cfg h now n a) as [[h1 q1] o]. specialize (IH h1).
  destruct (Sim.do_actions A cfg h1 now n r) as [[h2 q2] t2]. simpl in *. congruence.
Qed.

Lemma callback_ps_length h now n c : length (s_ps (fst (fst (callback h now n c)))) = length (s_ps h).
Proof.
  unfold Sim.callback. destruct (nth_error (s_ps h) n) as [ps|]; [|reflexivity].
  destruct (react n ps (if has_timer cfg then now else f0 A) c) as [ps1 acts].
  pose proof (do_actions_ps_length (set_ps h (upd n ps1 (s_ps h))) now n acts) as Hl.
  destruct (Sim.do_actions A cfg (set_ps h (upd n ps1 (s_ps h))) now n acts) as [[h2 q] t]. simpl in *.
  rewrite Hl. apply upd_length.
Qed.

Lemma callbacks_cbs h now ns c :
  (forall n, In n ns -> n < length (s_ps h)) ->
  cbs_of (snd (callbacks h now ns c)) = map (fun n => (n, pnow now, c)) ns /\
  length (s_ps (fst (fst (callbacks h now ns c)))) = length (s_ps h).
Proof.
  revert h. induction ns as [|n r IH]; intros h Hns; simpl; [auto|].
  pose proof (callback_cbs h now n c) as Hc. pose proof (callback_ps_length h now n c) as Hl.
  destruct (Sim.callback A cfg react h now n c) as [[h1 q1] t1]. simpl in *.
  assert (Hr : forall m, In m r -> m < length (s_ps h1)) by (intros m Hm; rewrite Hl; apply Hns; right; exact Hm).
  specialize (IH h1 Hr). destruct (Sim.callbacks A cfg react h1 now r c) as [[h2 q2] t2]. simpl in *.
  destruct IH as [IH1 IH2]. rewrite cbs_of_app, Hc, IH1.
  assert (n <? length (s_ps h) = true) as -> by (apply Nat.ltb_lt; apply Hns; left; reflexivity).
  split; [reflexivity|congruence].
Qed.

(* ---- executing one event --------------------------------------------------------------------- *)

(** C01: the callback an event produces reports exactly the event's time, goes to the node the
    event names and carries the payload the event captured. *)
Theorem sim_exec_cbs h now p :
  cbs_of (snd (sim_exec h now p)) =
  match p with
  | EvTimer n name id =>
      if existsb (pend_id n name id) (s_pending h) && (n <? length (s_ps h)) then [(n, pnow now, CbTimer name)] else []
  | EvDeliver _ dst msg => if dst <? length (s_ps h) then [(dst, pnow now, CbPacket msg)] else []
  | EvTick => []
  | EvTelemetry n pos => if n <? length (s_ps h) then [(n, pnow now, CbTelemetry pos)] else []
  end.
Proof.
  destruct p as [n name id|src dst msg| |n pos]; simpl.
  - destruct (existsb (pend_id n name id) (s_pending h)); simpl; [|reflexivity].
    rewrite callback_cbs. reflexivity.
  - apply callback_cbs.
  - destruct (Sim.tick A cfg h now). reflexivity.
  - apply callback_cbs.
Qed.

Lemma tick_nodes_reqs h now ns :
  forall ts p, In (ts, p) (snd (tick_nodes A cfg h now ns)) -> ts = now.
Proof.
  revert h. induction ns as [|n r IH]; intros h; simpl; [intros ? ? []|].
  match goal with |- context [tick_nodes A cfg ?h1 now r] => specialize (IH h1); destruct (tick_nodes A cfg h1 now r) as [h2 q] end.
  simpl in *. intros ts p [[= <- <-]|Hin]; [reflexivity|eapply IH; exact Hin].
Qed.

(** Requests issued while executing an event are never in the past, provided the mobility
    update interval is not negative. *)
Theorem sim_exec_reqs_future h now p :
  le (f0 A) (c_rate cfg) ->
  forall ts q, In (ts, q) (snd (fst (sim_exec h now p))) -> le now ts.
Proof.
  intros Hrate. destruct p as [n name id|src dst msg| |n pos]; simpl.
  - destruct (existsb (pend_id n name id) (s_pending h)); [apply callback_reqs_future|intros ? ? []].
  - apply callback_reqs_future.
  - unfold tick. pose proof (tick_nodes_reqs h now (seq 0 (c_nnodes cfg))) as Ht.
    destruct (tick_nodes A cfg h now (seq 0 (c_nnodes cfg))) as [h1 q]. simpl in *.
    intros ts q0 Hin. apply in_app_or in Hin. destruct Hin as [Hin|[[= <- <-]|[]]].
    + rewrite (Ht _ _ Hin). apply (leb_refl A OL).
    + apply (add_nonneg A OL). exact Hrate.
  - apply callback_reqs_future.
Qed.

End SimP.
