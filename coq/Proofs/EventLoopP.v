(** Proofs about [EventLoop] (properties C01, C02, C03 at the level of the queue API).
    Everything here holds for every carrier [F] with [OrderLaws], every payload type and
    every history of operations. *)
From Coq Require Import List Arith NArith Bool Lia Permutation.
Import ListNotations.
From GS Require Import Num EventLoop.
From GS.Proofs Require Import Aux.

Section EventLoopP.
Context {F : Type} (A : ArithOps F) (OL : OrderLaws A) {P : Type}.

Notation event := (event F P).
Notation eloop := (eloop F P).
Notation le x y := (fleb A x y = true).
Implicit Types (l : eloop) (e m : event) (ops : list (el_op F P)) (o : el_op F P).

(* ---- the order on events --------------------------------------------------------- *)

Lemma ev_lt_unfold (a b : event) :
  ev_lt A a b =
  if fleb A (ev_ts a) (ev_ts b) && fleb A (ev_ts b) (ev_ts a)
  then N.ltb (ev_seq a) (ev_seq b) else negb (fleb A (ev_ts b) (ev_ts a)).
Proof. unfold ev_lt. rewrite (eqb_leb A OL), (ltb_leb A OL). reflexivity. Qed.

Ltac order_facts a b c :=
  pose proof (leb_total A OL (ev_ts a) (ev_ts b));
  pose proof (leb_total A OL (ev_ts b) (ev_ts c));
  pose proof (leb_total A OL (ev_ts a) (ev_ts c));
  pose proof (leb_trans A OL (ev_ts a) (ev_ts b) (ev_ts c));
  pose proof (leb_trans A OL (ev_ts a) (ev_ts c) (ev_ts b));
  pose proof (leb_trans A OL (ev_ts b) (ev_ts a) (ev_ts c));
  pose proof (leb_trans A OL (ev_ts b) (ev_ts c) (ev_ts a));
  pose proof (leb_trans A OL (ev_ts c) (ev_ts a) (ev_ts b));
  pose proof (leb_trans A OL (ev_ts c) (ev_ts b) (ev_ts a)).

Ltac order_cases a b c :=
  destruct (fleb A (ev_ts a) (ev_ts b)) eqn:?;
  destruct (fleb A (ev_ts b) (ev_ts a)) eqn:?;
  destruct (fleb A (ev_ts b) (ev_ts c)) eqn:?;
  destruct (fleb A (ev_ts c) (ev_ts b)) eqn:?;
  destruct (fleb A (ev_ts a) (ev_ts c)) eqn:?;
  destruct (fleb A (ev_ts c) (ev_ts a)) eqn:?;
  simpl in *; try (intuition congruence); try (intuition discriminate).

(** "not later than": the negation of [ev_lt] is a total preorder. *)
Lemma ev_nlt_trans (a b c : event) :
  ev_lt A b a = false -> ev_lt A c b = false -> ev_lt A c a = false.
Proof.
  rewrite !ev_lt_unfold. order_facts a b c. order_cases a b c;
  rewrite ?N.ltb_ge, ?N.ltb_lt in *; intros; try lia; try discriminate; intuition (try congruence; try discriminate).
Qed.

Lemma ev_lt_irrefl (a : event) : ev_lt A a a = false.
Proof. rewrite ev_lt_unfold, (leb_refl A OL). simpl. apply N.ltb_irrefl. Qed.

Lemma ev_lt_asym (a b : event) : ev_lt A a b = true -> ev_lt A b a = false.
Proof.
  rewrite !ev_lt_unfold.
  pose proof (leb_total A OL (ev_ts a) (ev_ts b)).
  destruct (fleb A (ev_ts a) (ev_ts b)) eqn:?, (fleb A (ev_ts b) (ev_ts a)) eqn:?; simpl;
    rewrite ?N.ltb_ge, ?N.ltb_lt; intros; try lia; try discriminate; intuition discriminate.
Qed.

(** Two events with different sequence numbers are strictly ordered one way or the other:
    keys are pairwise distinct, so the element a heap may return is unique. *)
Lemma ev_lt_total (a b : event) : ev_seq a <> ev_seq b -> ev_lt A a b = true \/ ev_lt A b a = true.
Proof.
  intro Hne. rewrite !ev_lt_unfold.
  pose proof (leb_total A OL (ev_ts a) (ev_ts b)).
  destruct (fleb A (ev_ts a) (ev_ts b)) eqn:?, (fleb A (ev_ts b) (ev_ts a)) eqn:?; simpl;
    rewrite ?N.ltb_lt; try lia; intuition.
Qed.

(** Same timestamp: the order is the order of the sequence numbers. *)
Lemma ev_lt_same_ts (a b : event) :
  feqb A (ev_ts a) (ev_ts b) = true -> ev_lt A a b = N.ltb (ev_seq a) (ev_seq b).
Proof. unfold ev_lt. intros ->. reflexivity. Qed.

Lemma feqb_sym (x y : F) : feqb A x y = feqb A y x.
Proof. rewrite !(eqb_leb A OL). apply andb_comm. Qed.

(** An event that is not [ev_lt] another is not earlier in time. *)
Lemma ev_nlt_ts (a b : event) : ev_lt A b a = false -> le (ev_ts a) (ev_ts b).
Proof.
  rewrite ev_lt_unfold.
  pose proof (leb_total A OL (ev_ts a) (ev_ts b)).
  destruct (fleb A (ev_ts a) (ev_ts b)) eqn:?, (fleb A (ev_ts b) (ev_ts a)) eqn:?; simpl;
    intros; try discriminate; intuition.
Qed.

(* ---- selecting the minimum -------------------------------------------------------- *)

Lemma q_min_in (m : event) (q : list event) : In (q_min A m q) (m :: q).
Proof.
  revert m. induction q as [|x r IH]; intro m; simpl.
  - left; reflexivity.
  - specialize (IH (if ev_lt A x m then x else m)).
    destruct IH as [IH|IH].
    + destruct (ev_lt A x m); rewrite <- IH; auto.
    + right; right; exact IH.
Qed.

Lemma q_min_least (m : event) (q : list event) :
  forall e, In e (m :: q) -> ev_lt A e (q_min A m q) = false.
Proof.
  revert m. induction q as [|x r IH]; intros m e He; simpl.
  - destruct He as [<-|[]]. apply ev_lt_irrefl.
  - set (m' := if ev_lt A x m then x else m).
    assert (Hm' : ev_lt A m' (q_min A m' r) = false) by (apply IH; left; reflexivity).
    destruct He as [<-|[<-|He]].
    + (* e = m *)
      apply ev_nlt_trans with (b := m'); [exact Hm'|].
      subst m'. destruct (ev_lt A x m) eqn:E; [apply ev_lt_asym in E; exact E|apply ev_lt_irrefl].
    + (* e = x *)
      apply ev_nlt_trans with (b := m'); [exact Hm'|].
      subst m'. destruct (ev_lt A x m) eqn:E; [apply ev_lt_irrefl|exact E].
    + apply IH. right; exact He.
Qed.

(** The heap contract determines the popped element: whatever element of the queue a heap
    returns, if no queued element is [ev_lt] it and sequence numbers are distinct, it is the
    one the model selects. *)
Lemma min_unique (m : event) (q : list event) (e : event) :
  NoDup (map (@ev_seq F P) (m :: q)) ->
  In e (m :: q) -> (forall e', In e' (m :: q) -> ev_lt A e' e = false) ->
  e = q_min A m q.
Proof.
  intros Hnd He Hmin.
  pose proof (q_min_in m q) as Hin.
  pose proof (q_min_least m q e He) as H1.
  pose proof (Hmin _ Hin) as H2.
  destruct (N.eq_dec (ev_seq e) (ev_seq (q_min A m q))) as [Heq|Hne].
  - (* same sequence number => same element *)
    clear - Hnd He Hin Heq.
    remember (m :: q) as l. clear Heql.
    induction l as [|y l IH]; [destruct He|].
    simpl in Hnd. inversion Hnd as [|? ? Hy Hnd']; subst.
    destruct He as [->|He], Hin as [Hin|Hin].
    + exact Hin.
    + exfalso. apply Hy. rewrite Heq. apply in_map. exact Hin.
    + exfalso. apply Hy. subst y. rewrite <- Heq. apply in_map. exact He.
    + apply IH; assumption.
  - destruct (ev_lt_total _ _ Hne) as [Hl|Hl]; congruence.
Qed.

(* ---- q_remove ---------------------------------------------------------------------- *)

Lemma q_remove_perm (q : list event) (m : event) :
  NoDup (map (@ev_seq F P) q) -> In m q -> Permutation (m :: q_remove (ev_seq m) q) q.
Proof.
  induction q as [|x r IH]; intros Hnd Hin; [destruct Hin|].
  simpl. inversion Hnd as [|? ? Hx Hnd']; subst.
  destruct (N.eqb (ev_seq x) (ev_seq m)) eqn:E.
  - apply N.eqb_eq in E. destruct Hin as [->|Hin]; [reflexivity|].
    exfalso. apply Hx. rewrite E. apply in_map. exact Hin.
  - destruct Hin as [->|Hin]; [rewrite N.eqb_refl in E; discriminate|].
    rewrite perm_swap. apply perm_skip. apply IH; assumption.
Qed.

Lemma q_remove_incl (s : N) (q : list event) : incl (q_remove s q) q.
Proof.
  induction q as [|x r IH]; simpl; [apply incl_refl|].
  destruct (N.eqb (ev_seq x) s); [apply incl_tl, incl_refl|].
  intros e [<-|He]; [left; reflexivity|right; apply IH; exact He].
Qed.

Lemma q_remove_length (q : list event) (m : event) :
  NoDup (map (@ev_seq F P) q) -> In m q -> S (length (q_remove (ev_seq m) q)) = length q.
Proof. intros. change (length (m :: q_remove (ev_seq m) q) = length q). apply Permutation_length, q_remove_perm; assumption. Qed.

(* ---- the invariant ------------------------------------------------------------------- *)

Record el_inv (l : eloop) : Prop := mkInv {
  inv_future : forall e, In e (el_q l) -> le (el_now l) (ev_ts e);
  inv_seq_lt : forall e, In e (el_q l) -> (ev_seq e < el_seq l)%N;
  inv_nodup : NoDup (map (@ev_seq F P) (el_q l))
}.

Lemma el_init_inv : el_inv (el_init A).
Proof. constructor; simpl; intros; try contradiction. constructor. Qed.

Lemma el_schedule_inv l ts p l' : el_inv l -> el_schedule A l ts p = Some l' -> el_inv l'.
Proof.
  intros [H1 H2 H3]. unfold el_schedule.
  destruct (fltb A ts (el_now l)) eqn:E; [discriminate|]. intros [= <-].
  rewrite (ltb_leb A OL) in E. apply negb_false_iff in E.
  constructor; simpl.
  - intros e He. apply in_app_or in He. destruct He as [He|[<-|[]]]; [apply H1; exact He|exact E].
  - intros e He. apply in_app_or in He. destruct He as [He|[<-|[]]]; [specialize (H2 e He); lia|simpl; lia].
  - rewrite map_app. simpl. apply NoDup_app_one; [exact H3|].
    intro Hin. apply in_map_iff in Hin. destruct Hin as [e [He1 He2]]. specialize (H2 e He2). lia.
Qed.


Lemma el_peek_spec l m :
  el_peek A l = Some m ->
  In m (el_q l) /\ forall e, In e (el_q l) -> ev_lt A e m = false.
Proof.
  unfold el_peek. destruct (el_q l) as [|x r] eqn:E; [discriminate|]. intros [= <-].
  split; [apply q_min_in|apply q_min_least].
Qed.

Lemma el_peek_none l : el_peek A l = None <-> el_q l = [].
Proof. unfold el_peek. destruct (el_q l); split; intro; congruence. Qed.

(** What [pop] does: it returns a queued event that no queued event precedes, removes
    exactly that event, and sets the clock to its timestamp, which is not in the past. *)
Lemma el_pop_spec l e l' :
  el_inv l -> el_pop A l = Some (e, l') ->
  In e (el_q l) /\ (forall e', In e' (el_q l) -> ev_lt A e' e = false) /\
  Permutation (e :: el_q l') (el_q l) /\ el_now l' = ev_ts e /\ el_seq l' = el_seq l /\
  le (el_now l) (ev_ts e).
Proof.
  intros [H1 H2 H3]. unfold el_pop. destruct (el_peek A l) as [m|] eqn:E; [|discriminate].
  intros [= <- <-]. apply el_peek_spec in E. destruct E as [Hin Hmin]. simpl.
  repeat split; auto. apply q_remove_perm; assumption.
Qed.

Lemma el_pop_none l : el_pop A l = None <-> el_q l = [].
Proof. unfold el_pop. rewrite <- el_peek_none. destruct (el_peek A l); split; intro; congruence. Qed.

Lemma el_pop_inv l e l' : el_inv l -> el_pop A l = Some (e, l') -> el_inv l'.
Proof.
  intros Hinv Hpop. destruct (el_pop_spec _ _ _ Hinv Hpop) as (Hin & Hmin & Hperm & Hnow & Hseq & _).
  destruct Hinv as [H1 H2 H3].
  assert (Hsub : forall x, In x (el_q l') -> In x (el_q l)).
  { intros x Hx. eapply Permutation_in; [exact Hperm|]. right; exact Hx. }
  constructor.
  - intros x Hx. rewrite Hnow. apply ev_nlt_ts. apply Hmin. apply Hsub; exact Hx.
  - intros x Hx. rewrite Hseq. apply H2. apply Hsub; exact Hx.
  - assert (NoDup (map (@ev_seq F P) (e :: el_q l'))) as Hnd.
    { eapply Permutation_NoDup_map; [apply Permutation_sym; exact Hperm|exact H3]. }
    inversion Hnd; assumption.
Qed.

Lemma el_clear_inv l : el_inv l -> el_inv (el_clear l).
Proof. intros _. constructor; simpl; intros; try contradiction. constructor. Qed.

Lemma el_step_inv l o : el_inv l -> el_inv (fst (el_step A l o)).
Proof.
  intros Hinv. destruct o; simpl; try exact Hinv.
  - destruct (el_schedule A l ts p) eqn:E; simpl; [eapply el_schedule_inv; eassumption|exact Hinv].
  - destruct (el_pop A l) as [[e l']|] eqn:E; simpl; [eapply el_pop_inv; eassumption|exact Hinv].
  - apply el_clear_inv; exact Hinv.
Qed.

Lemma el_run_inv l ops : el_inv l -> el_inv (fst (el_run A l ops)).
Proof.
  revert l. induction ops as [|o r IH]; intros l Hinv; simpl; [exact Hinv|].
  destruct (el_step A l o) as [l1 x] eqn:E1. destruct (el_run A l1 r) as [l2 xs] eqn:E2. simpl.
  specialize (IH l1). rewrite E2 in IH. apply IH.
  pose proof (el_step_inv l o Hinv) as H. rewrite E1 in H. exact H.
Qed.

(* ---- C01: time never runs backwards ---------------------------------------------------- *)

Definition popped_ts (res : list (el_res F P)) : list F :=
  flat_map (fun r => match r with RPopped ts _ => [ts] | _ => [] end) res.

Lemma el_step_now_mono l o : el_inv l -> le (el_now l) (el_now (fst (el_step A l o))).
Proof.
  intros Hinv. destruct o; simpl; try apply (leb_refl A OL).
  - unfold el_schedule. destruct (fltb A ts (el_now l)); simpl; apply (leb_refl A OL).
  - destruct (el_pop A l) as [[e l']|] eqn:E; simpl; [|apply (leb_refl A OL)].
    destruct (el_pop_spec _ _ _ Hinv E) as (_ & _ & _ & -> & _ & H). exact H.
Qed.

(** Over any history of operations, the timestamps returned by successive pops are
    non-decreasing, starting from the clock. *)
Theorem el_pops_monotone l ops :
  el_inv l -> sorted_from (fleb A) (el_now l) (popped_ts (snd (el_run A l ops))).
Proof.
  revert l. induction ops as [|o r IH]; intros l Hinv; simpl; [exact I|].
  destruct (el_step A l o) as [l1 x] eqn:E1. destruct (el_run A l1 r) as [l2 xs] eqn:E2. simpl.
  assert (Hinv1 : el_inv l1) by (pose proof (el_step_inv l o Hinv) as H; rewrite E1 in H; exact H).
  specialize (IH l1 Hinv1). rewrite E2 in IH. simpl in IH.
  assert (Hmono : le (el_now l) (el_now l1)) by (pose proof (el_step_now_mono l o Hinv) as H; rewrite E1 in H; exact H).
  destruct o; simpl in E1.
  - destruct (el_schedule A l ts p); injection E1 as <- <-; simpl;
      (eapply sorted_from_weaken; [apply (leb_trans A OL)|exact Hmono|exact IH]).
  - destruct (el_pop A l) as [[e l']|] eqn:E; injection E1 as <- <-; simpl.
    + destruct (el_pop_spec _ _ _ Hinv E) as (_ & _ & _ & Hnow & _ & Hle).
      split; [exact Hle|]. rewrite <- Hnow. exact IH.
    + exact IH.
  - injection E1 as <- <-. exact IH.
  - injection E1 as <- <-. exact IH.
  - injection E1 as <- <-. exact IH.
  - injection E1 as <- <-. exact IH.
Qed.

Theorem el_now_monotone l ops : el_inv l -> le (el_now l) (el_now (fst (el_run A l ops))).
Proof.
  revert l. induction ops as [|o r IH]; intros l Hinv; simpl; [apply (leb_refl A OL)|].
  destruct (el_step A l o) as [l1 x] eqn:E1. destruct (el_run A l1 r) as [l2 xs] eqn:E2. simpl.
  assert (Hinv1 : el_inv l1) by (pose proof (el_step_inv l o Hinv) as H; rewrite E1 in H; exact H).
  specialize (IH l1 Hinv1). rewrite E2 in IH. simpl in IH.
  pose proof (el_step_now_mono l o Hinv) as H. rewrite E1 in H. simpl in H.
  eapply (leb_trans A OL); eassumption.
Qed.

(** A request in the past is refused, and a refused request leaves the loop exactly as it was. *)
Theorem el_schedule_refused_iff l ts p :
  el_schedule A l ts p = None <-> fltb A ts (el_now l) = true.
Proof. unfold el_schedule. destruct (fltb A ts (el_now l)); split; intro; congruence. Qed.

Theorem el_refused_unchanged l o l' : el_step A l o = (l', RRefused) -> l' = l.
Proof.
  destruct o; simpl; try discriminate.
  - destruct (el_schedule A l ts p); intros [= <-]; reflexivity.
  - destruct (el_pop A l) as [[e l1]|]; [discriminate|]. intros [= <-]; reflexivity.
Qed.

Theorem el_refused_iff l o :
  snd (el_step A l o) = RRefused <->
  match o with
  | OpSchedule ts _ => fltb A ts (el_now l) = true
  | OpPop => el_q l = []
  | _ => False
  end.
Proof.
  destruct o; simpl; try (split; [discriminate|tauto]).
  - rewrite <- (el_schedule_refused_iff l ts p). destruct (el_schedule A l ts p); simpl; split; intro; try reflexivity; discriminate.
  - rewrite <- (el_pop_none l). destruct (el_pop A l) as [[e l1]|]; simpl; split; intro; try reflexivity; discriminate.
Qed.

(* ---- C02: conservation -------------------------------------------------------------------- *)

(** Ghost bookkeeping of a history: the events accepted, popped and cleared, in order. *)
Fixpoint el_ghost (l : eloop) (ops : list (el_op F P)) : list event * list event * list event * eloop :=
  match ops with
  | [] => ([], [], [], l)
  | o :: r =>
      let '(acc, pop, clr, l1) :=
        match o with
        | OpSchedule ts p =>
            match el_schedule A l ts p with
            | Some l' => ([mkEv ts (el_seq l) p], [], [], l')
            | None => ([], [], [], l)
            end
        | OpPop =>
            match el_pop A l with
            | Some (e, l') => ([], [e], [], l')
            | None => ([], [], [], l)
            end
        | OpClear => ([], [], el_q l, el_clear l)
        | _ => ([], [], [], l)
        end in
      let '(acc2, pop2, clr2, l2) := el_ghost l1 r in
      (acc ++ acc2, pop ++ pop2, clr ++ clr2, l2)
  end.

Lemma el_ghost_final l ops : snd (el_ghost l ops) = fst (el_run A l ops).
Proof.
  revert l. induction ops as [|o r IH]; intros l; simpl; [reflexivity|].
  destruct o; simpl.
  - destruct (el_schedule A l ts p) as [l'|]; simpl;
      [specialize (IH l')|specialize (IH l)];
      destruct (el_ghost _ r) as [[[a b] c] d]; destruct (el_run A _ r); simpl in *; exact IH.
  - destruct (el_pop A l) as [[e l']|]; simpl;
      [specialize (IH l')|specialize (IH l)];
      destruct (el_ghost _ r) as [[[a b] c] d]; destruct (el_run A _ r); simpl in *; exact IH.
  - specialize (IH l). destruct (el_ghost _ r) as [[[a b] c] d]; destruct (el_run A _ r); simpl in *; exact IH.
  - specialize (IH (el_clear l)). destruct (el_ghost _ r) as [[[a b] c] d]; destruct (el_run A _ r); simpl in *; exact IH.
  - specialize (IH l). destruct (el_ghost _ r) as [[[a b] c] d]; destruct (el_run A _ r); simpl in *; exact IH.
  - specialize (IH l). destruct (el_ghost _ r) as [[[a b] c] d]; destruct (el_run A _ r); simpl in *; exact IH.
Qed.

(** The pops reported to the caller are exactly the ghost's popped events. *)
Lemma el_ghost_popped l ops :
  let '(_, pop, _, _) := el_ghost l ops in
  flat_map (fun r => match r with RPopped ts p => [(ts, p)] | _ => [] end) (snd (el_run A l ops))
  = map (fun e => (ev_ts e, ev_pl e)) pop.
Proof.
  revert l. induction ops as [|o r IH]; intros l; simpl; [reflexivity|].
  destruct o; simpl.
  - destruct (el_schedule A l ts p) as [l'|]; simpl;
      [specialize (IH l')|specialize (IH l)];
      destruct (el_ghost _ r) as [[[a b] c] d]; destruct (el_run A _ r); simpl in *; exact IH.
  - destruct (el_pop A l) as [[e l']|]; simpl;
      [specialize (IH l')|specialize (IH l)];
      destruct (el_ghost _ r) as [[[a b] c] d]; destruct (el_run A _ r); simpl in *; [f_equal|]; exact IH.
  - specialize (IH l). destruct (el_ghost _ r) as [[[a b] c] d]; destruct (el_run A _ r); simpl in *; exact IH.
  - specialize (IH (el_clear l)). destruct (el_ghost _ r) as [[[a b] c] d]; destruct (el_run A _ r); simpl in *; exact IH.
  - specialize (IH l). destruct (el_ghost _ r) as [[[a b] c] d]; destruct (el_run A _ r); simpl in *; exact IH.
  - specialize (IH l). destruct (el_ghost _ r) as [[[a b] c] d]; destruct (el_run A _ r); simpl in *; exact IH.
Qed.

(** Conservation: what was queued at the start plus what was accepted is, as a multiset,
    what was popped plus what was cleared plus what is still queued. *)
Theorem el_conservation l ops :
  el_inv l ->
  let '(acc, pop, clr, l') := el_ghost l ops in
  Permutation (el_q l ++ acc) (pop ++ clr ++ el_q l').
Proof.
  revert l. induction ops as [|o r IH]; intros l Hinv; simpl.
  - rewrite app_nil_r. reflexivity.
  - destruct o; simpl.
    + (* schedule *)
      destruct (el_schedule A l ts p) as [l'|] eqn:E.
      * pose proof (el_schedule_inv _ _ _ _ Hinv E) as Hinv'. specialize (IH l' Hinv').
        destruct (el_ghost l' r) as [[[a b] c] d]. simpl.
        unfold el_schedule in E. destruct (fltb A ts (el_now l)); [discriminate|]. injection E as <-.
        simpl in IH. rewrite <- app_assoc in IH. simpl in IH. exact IH.
      * specialize (IH l Hinv). destruct (el_ghost l r) as [[[a b] c] d]. exact IH.
    + (* pop *)
      destruct (el_pop A l) as [[e l']|] eqn:E.
      * pose proof (el_pop_inv _ _ _ Hinv E) as Hinv'. specialize (IH l' Hinv').
        destruct (el_pop_spec _ _ _ Hinv E) as (_ & _ & Hperm & _).
        destruct (el_ghost l' r) as [[[a b] c] d]. simpl.
        rewrite <- Hperm. simpl. apply perm_skip. exact IH.
      * specialize (IH l Hinv). destruct (el_ghost l r) as [[[a b] c] d]. exact IH.
    + specialize (IH l Hinv). destruct (el_ghost l r) as [[[a b] c] d]. exact IH.
    + (* clear *)
      specialize (IH (el_clear l) (el_clear_inv l Hinv)).
      destruct (el_ghost (el_clear l) r) as [[[a b] c] d]. simpl in *.
      rewrite <- app_assoc.
      rewrite (Permutation_app_comm (el_q l) a).
      rewrite (Permutation_app_comm b (el_q l ++ c ++ el_q d)). rewrite <- !app_assoc.
      rewrite (Permutation_app_comm a (el_q l)). apply Permutation_app_head.
      rewrite IH. rewrite (Permutation_app_comm b (c ++ el_q d)). rewrite <- app_assoc. reflexivity.
    + specialize (IH l Hinv). destruct (el_ghost l r) as [[[a b] c] d]. exact IH.
    + specialize (IH l Hinv). destruct (el_ghost l r) as [[[a b] c] d]. exact IH.
Qed.

(** [len] is the number of queued events = accepted - popped - cleared. *)
Corollary el_len_conservation l ops :
  el_inv l ->
  let '(acc, pop, clr, l') := el_ghost l ops in
  el_len l + length acc = length pop + length clr + el_len l'.
Proof.
  intros Hinv. pose proof (el_conservation l ops Hinv) as H.
  destruct (el_ghost l ops) as [[[a b] c] d]. apply Permutation_length in H.
  rewrite !app_length in H. unfold el_len. lia.
Qed.

(** Sequence numbers identify events: all events of a history are pairwise distinct. *)
Lemma el_ghost_seq_bounds l ops :
  el_inv l ->
  let '(acc, _, _, l') := el_ghost l ops in
  (forall e, In e acc -> (el_seq l <= ev_seq e < el_seq l')%N) /\ (el_seq l <= el_seq l')%N /\
  NoDup (map (@ev_seq F P) acc).
Proof.
  revert l. induction ops as [|o r IH]; intros l Hinv; simpl.
  - split; [intros e []|split; [lia|constructor]].
  - assert (Hsame : forall l1, el_inv l1 -> el_seq l1 = el_seq l ->
             let '(acc, _, _, l') := (let '(acc2, pop2, clr2, l2) := el_ghost l1 r in (acc2, pop2, clr2, l2)) in
             (forall e, In e acc -> (el_seq l <= ev_seq e < el_seq l')%N) /\ (el_seq l <= el_seq l')%N /\
             NoDup (map (@ev_seq F P) acc)).
    { intros l1 Hinv1 Hs. specialize (IH l1 Hinv1). destruct (el_ghost l1 r) as [[[a b] c] d]. rewrite <- Hs. exact IH. }
    destruct o; simpl.
    + destruct (el_schedule A l ts p) as [l'|] eqn:E.
      * pose proof (el_schedule_inv _ _ _ _ Hinv E) as Hinv'. specialize (IH l' Hinv').
        unfold el_schedule in E. destruct (fltb A ts (el_now l)); [discriminate|]. injection E as <-.
        destruct (el_ghost _ r) as [[[a b] c] d]. simpl in *. destruct IH as (I1 & I2 & I3).
        split; [|split].
        -- intros e [<-|He]; simpl; [lia|]. specialize (I1 e He). lia.
        -- lia.
        -- constructor; [|exact I3]. intro Hin. apply in_map_iff in Hin. destruct Hin as [e [He1 He2]].
           specialize (I1 e He2). lia.
      * specialize (Hsame l Hinv eq_refl). destruct (el_ghost l r) as [[[a b] c] d]. exact Hsame.
    + destruct (el_pop A l) as [[e l']|] eqn:E.
      * pose proof (el_pop_inv _ _ _ Hinv E) as Hinv'.
        destruct (el_pop_spec _ _ _ Hinv E) as (_ & _ & _ & _ & Hs & _).
        specialize (Hsame l' Hinv' Hs). destruct (el_ghost l' r) as [[[a b] c] d]. exact Hsame.
      * specialize (Hsame l Hinv eq_refl). destruct (el_ghost l r) as [[[a b] c] d]. exact Hsame.
    + specialize (Hsame l Hinv eq_refl). destruct (el_ghost l r) as [[[a b] c] d]. exact Hsame.
    + specialize (Hsame (el_clear l) (el_clear_inv l Hinv) eq_refl). destruct (el_ghost (el_clear l) r) as [[[a b] c] d]. exact Hsame.
    + specialize (Hsame l Hinv eq_refl). destruct (el_ghost l r) as [[[a b] c] d]. exact Hsame.
    + specialize (Hsame l Hinv eq_refl). destruct (el_ghost l r) as [[[a b] c] d]. exact Hsame.
Qed.

(** Exactly once: no event is popped twice, and nothing is popped that was not queued or
    accepted. *)
Theorem el_exactly_once l ops :
  el_inv l ->
  let '(acc, pop, clr, l') := el_ghost l ops in
  NoDup (map (@ev_seq F P) (pop ++ clr ++ el_q l')) /\
  (forall e, In e pop -> In e (el_q l) \/ In e acc).
Proof.
  intros Hinv. pose proof (el_conservation l ops Hinv) as Hc.
  pose proof (el_ghost_seq_bounds l ops Hinv) as Hb.
  destruct (el_ghost l ops) as [[[a b] c] d]. destruct Hb as (B1 & B2 & B3).
  split.
  - eapply Permutation_NoDup_map; [exact Hc|].
    rewrite map_app. apply NoDup_app_intro; [apply (inv_nodup l Hinv)|exact B3|].
    intros s Hs1 Hs2. apply in_map_iff in Hs1. destruct Hs1 as [e1 [<- He1]].
    apply in_map_iff in Hs2. destruct Hs2 as [e2 [Heq He2]].
    pose proof (inv_seq_lt l Hinv e1 He1). specialize (B1 e2 He2). lia.
  - intros e He. apply in_app_or. eapply Permutation_in; [apply Permutation_sym; exact Hc|].
    apply in_or_app. left. exact He.
Qed.

(** [peek] shows what the next [pop] returns and changes nothing. *)
Theorem el_peek_is_next_pop l :
  el_peek A l = match el_pop A l with Some (e, _) => Some e | None => None end.
Proof. unfold el_pop. destruct (el_peek A l); reflexivity. Qed.

(* ---- C03: FIFO among equal timestamps ---------------------------------------------------- *)

Lemma el_ghost_popped_origin l ops :
  el_inv l ->
  let '(_, pop, _, _) := el_ghost l ops in
  forall e, In e pop -> In e (el_q l) \/ (el_seq l <= ev_seq e)%N.
Proof.
  intros Hinv. pose proof (el_exactly_once l ops Hinv) as H1.
  pose proof (el_ghost_seq_bounds l ops Hinv) as H2.
  destruct (el_ghost l ops) as [[[a b] c] d]. destruct H1 as [_ H1]. destruct H2 as [H2 _].
  intros e He. destruct (H1 e He) as [H|H]; [left; exact H|right; apply H2; exact H].
Qed.

(** In the order in which events are popped, events with the same timestamp appear with
    increasing sequence numbers, i.e. in the order they were scheduled. *)
Theorem el_fifo l ops :
  el_inv l ->
  let '(_, pop, _, _) := el_ghost l ops in
  forall p1 x p2 y p3, pop = p1 ++ x :: p2 ++ y :: p3 ->
    feqb A (ev_ts x) (ev_ts y) = true -> (ev_seq x < ev_seq y)%N.
Proof.
  revert l. induction ops as [|o r IH]; intros l Hinv; simpl.
  - intros p1 x p2 y p3 H. destruct p1; discriminate.
  - assert (Hsame : forall l1, el_inv l1 ->
              let '(_, pop, _, _) := (let '(acc2, pop2, clr2, l2) := el_ghost l1 r in (acc2, pop2, clr2, l2)) in
              forall p1 x p2 y p3, pop = p1 ++ x :: p2 ++ y :: p3 ->
                feqb A (ev_ts x) (ev_ts y) = true -> (ev_seq x < ev_seq y)%N).
    { intros l1 Hinv1. specialize (IH l1 Hinv1). destruct (el_ghost l1 r) as [[[a b] c] d]. exact IH. }
    destruct o; simpl.
    + destruct (el_schedule A l ts p) as [l'|] eqn:E.
      * pose proof (el_schedule_inv _ _ _ _ Hinv E) as Hinv'. specialize (Hsame l' Hinv').
        destruct (el_ghost l' r) as [[[a b] c] d]. exact Hsame.
      * specialize (Hsame l Hinv). destruct (el_ghost l r) as [[[a b] c] d]. exact Hsame.
    + destruct (el_pop A l) as [[e l']|] eqn:E.
      * pose proof (el_pop_inv _ _ _ Hinv E) as Hinv'.
        destruct (el_pop_spec _ _ _ Hinv E) as (Hin & Hmin & Hperm & _ & Hs & _).
        pose proof (el_ghost_popped_origin l' r Hinv') as Horig.
        specialize (IH l' Hinv'). destruct (el_ghost l' r) as [[[a b] c] d]. simpl.
        intros p1 x p2 y p3 Heq Hts.
        destruct p1 as [|z p1]; simpl in Heq.
        -- injection Heq as <- ->.
           assert (Hy : In y (p2 ++ y :: p3)) by (apply in_or_app; right; left; reflexivity).
           destruct (Horig y Hy) as [Hq|Hq].
           ++ assert (Hyl : In y (el_q l)) by (eapply Permutation_in; [exact Hperm|right; exact Hq]).
              pose proof (Hmin y Hyl) as Hn. rewrite ev_lt_same_ts in Hn by (rewrite feqb_sym; exact Hts).
              apply N.ltb_ge in Hn.
              assert (ev_seq e <> ev_seq y).
              { assert (NoDup (map (@ev_seq F P) (e :: el_q l'))) as Hnd
                  by (eapply Permutation_NoDup_map; [apply Permutation_sym; exact Hperm|apply (inv_nodup l Hinv)]).
                inversion Hnd as [|? ? Hni _]; subst. intro Heq. apply Hni. rewrite Heq. apply in_map. exact Hq. }
              lia.
           ++ pose proof (inv_seq_lt l Hinv e Hin). lia.
        -- injection Heq as <- Heq. eapply IH; eassumption.
      * specialize (Hsame l Hinv). destruct (el_ghost l r) as [[[a b] c] d]. exact Hsame.
    + specialize (Hsame l Hinv). destruct (el_ghost l r) as [[[a b] c] d]. exact Hsame.
    + specialize (Hsame (el_clear l) (el_clear_inv l Hinv)). destruct (el_ghost (el_clear l) r) as [[[a b] c] d]. exact Hsame.
    + specialize (Hsame l Hinv). destruct (el_ghost l r) as [[[a b] c] d]. exact Hsame.
    + specialize (Hsame l Hinv). destruct (el_ghost l r) as [[[a b] c] d]. exact Hsame.
Qed.

(** Requests accepted later get larger sequence numbers: "scheduled earlier" is "smaller
    sequence number". *)
Theorem el_schedule_seq l ts p l' :
  el_schedule A l ts p = Some l' ->
  el_q l' = el_q l ++ [mkEv ts (el_seq l) p] /\ el_seq l' = N.succ (el_seq l) /\ el_now l' = el_now l.
Proof.
  unfold el_schedule. destruct (fltb A ts (el_now l)); [discriminate|]. intros [= <-]. simpl. auto.
Qed.

(* ---- pops are strictly increasing in (timestamp, sequence number) ------------------------------ *)

Lemma ev_lt_trans (a b c : event) : ev_lt A a b = true -> ev_lt A b c = true -> ev_lt A a c = true.
Proof.
  rewrite !ev_lt_unfold. order_facts a b c. order_cases a b c;
  rewrite ?N.ltb_ge, ?N.ltb_lt in *; intros; try lia; try discriminate; intuition (try congruence; try discriminate; try lia).
Qed.

(** [e] is a strict lower bound of everything queued (and of everything that can still be
    scheduled): it is what the last popped event is for the loop *)
Definition lb l (e : event) : Prop :=
  (forall x, In x (el_q l) -> ev_lt A e x = true) /\ le (ev_ts e) (el_now l) /\ (ev_seq e < el_seq l)%N.

Definition lb_opt l (lo : option event) : Prop := match lo with Some e => lb l e | None => True end.

Fixpoint chain_sorted (lo : option event) (pops : list event) : Prop :=
  match pops with
  | [] => True
  | x :: r => match lo with Some e => ev_lt A e x = true | None => True end /\ chain_sorted (Some x) r
  end.

Lemma ev_lt_later (e x : event) : le (ev_ts e) (ev_ts x) -> (ev_seq e < ev_seq x)%N -> ev_lt A e x = true.
Proof.
  intros Hle Hs. rewrite ev_lt_unfold. rewrite Hle. simpl.
  destruct (fleb A (ev_ts x) (ev_ts e)); simpl; [apply N.ltb_lt; exact Hs|reflexivity].
Qed.

Lemma lb_schedule l e ts p l' : lb l e -> el_schedule A l ts p = Some l' -> lb l' e.
Proof.
  intros (H1 & H2 & H3). unfold el_schedule. destruct (fltb A ts (el_now l)) eqn:E; [discriminate|]. intros [= <-].
  rewrite (ltb_leb A OL) in E. apply negb_false_iff in E. split; [|split]; simpl.
  - intros x Hx. apply in_app_or in Hx. destruct Hx as [Hx|[<-|[]]]; [apply H1; exact Hx|].
    apply ev_lt_later; simpl; [eapply (leb_trans A OL); eassumption|exact H3].
  - exact H2.
  - lia.
Qed.

Lemma lb_after_pop l e l' : el_inv l -> el_pop A l = Some (e, l') -> lb l' e.
Proof.
  intros Hinv Hpop. destruct (el_pop_spec _ _ _ Hinv Hpop) as (Hin & Hmin & Hperm & Hnow & Hseq & Hle).
  split; [|split].
  - intros x Hx. assert (Hxl : In x (el_q l)) by (eapply Permutation_in; [exact Hperm|right; exact Hx]).
    assert (Hne : ev_seq x <> ev_seq e).
    { assert (NoDup (map (@ev_seq F P) (e :: el_q l'))) as Hnd
        by (eapply Permutation_NoDup_map; [apply Permutation_sym; exact Hperm|apply (inv_nodup l Hinv)]).
      inversion Hnd as [|? ? Hni _]; subst. intro Heq. apply Hni. rewrite <- Heq. apply in_map. exact Hx. }
    destruct (ev_lt_total x e Hne) as [H|H]; [rewrite (Hmin x Hxl) in H; discriminate|exact H].
  - rewrite Hnow. apply (leb_refl A OL).
  - rewrite Hseq. apply (inv_seq_lt l Hinv). exact Hin.
Qed.

(** Over every history of operations the popped events are strictly increasing in
    (timestamp, sequence number): later in time, or same instant and scheduled later.  This is
    C01 (time never runs backwards) and C03 (FIFO among ties) in one statement. *)
Theorem el_pops_sorted l ops lo :
  el_inv l -> lb_opt l lo ->
  let '(_, pop, _, _) := el_ghost l ops in chain_sorted lo pop.
Proof.
  revert l lo. induction ops as [|o r IH]; intros l lo Hinv Hlb; simpl; [exact I|].
  assert (Hsame : forall l1, el_inv l1 -> lb_opt l1 lo ->
            let '(_, pop, _, _) := (let '(acc2, pop2, clr2, l2) := el_ghost l1 r in (acc2, pop2, clr2, l2)) in chain_sorted lo pop).
  { intros l1 Hi1 Hl1. specialize (IH l1 lo Hi1 Hl1). destruct (el_ghost l1 r) as [[[a b] c] d]. exact IH. }
  destruct o; simpl.
  - destruct (el_schedule A l ts p) as [l'|] eqn:E.
    + pose proof (el_schedule_inv _ _ _ _ Hinv E) as Hinv'.
      assert (Hlb' : lb_opt l' lo) by (destruct lo; [eapply lb_schedule; eassumption|exact I]).
      specialize (Hsame l' Hinv' Hlb'). destruct (el_ghost l' r) as [[[a b] c] d]. exact Hsame.
    + specialize (Hsame l Hinv Hlb). destruct (el_ghost l r) as [[[a b] c] d]. exact Hsame.
  - destruct (el_pop A l) as [[e l']|] eqn:E.
    + pose proof (el_pop_inv _ _ _ Hinv E) as Hinv'. pose proof (lb_after_pop _ _ _ Hinv E) as Hlb'.
      destruct (el_pop_spec _ _ _ Hinv E) as (Hin & _).
      specialize (IH l' (Some e) Hinv' Hlb'). destruct (el_ghost l' r) as [[[a b] c] d]. simpl.
      split; [|exact IH]. destruct lo as [e0|]; [|exact I]. destruct Hlb as (H1 & _). apply H1. exact Hin.
    + specialize (Hsame l Hinv Hlb). destruct (el_ghost l r) as [[[a b] c] d]. exact Hsame.
  - specialize (Hsame l Hinv Hlb). destruct (el_ghost l r) as [[[a b] c] d]. exact Hsame.
  - assert (Hlb' : lb_opt (el_clear l) lo).
    { destruct lo as [e0|]; [|exact I]. destruct Hlb as (H1 & H2 & H3). split; [intros x []|split; assumption]. }
    specialize (Hsame (el_clear l) (el_clear_inv l Hinv) Hlb'). destruct (el_ghost (el_clear l) r) as [[[a b] c] d]. exact Hsame.
  - specialize (Hsame l Hinv Hlb). destruct (el_ghost l r) as [[[a b] c] d]. exact Hsame.
  - specialize (Hsame l Hinv Hlb). destruct (el_ghost l r) as [[[a b] c] d]. exact Hsame.
Qed.

(** consecutive => pairwise *)
Lemma chain_sorted_pairwise lo pops :
  chain_sorted lo pops ->
  forall p1 x p2 y p3, pops = p1 ++ x :: p2 ++ y :: p3 -> ev_lt A x y = true.
Proof.
  revert lo. induction pops as [|z r IH]; intros lo Hc p1 x p2 y p3 Heq; [destruct p1; discriminate|].
  destruct Hc as [_ Hc]. destruct p1 as [|w p1]; simpl in Heq.
  - injection Heq as <- ->. clear IH. revert z Hc. induction p2 as [|u p2 IH2]; intros z Hc; simpl in Hc.
    + destruct Hc as [H _]. exact H.
    + destruct Hc as [H Hc']. eapply ev_lt_trans; [exact H|]. apply IH2. exact Hc'.
  - injection Heq as <- Heq. eapply IH; eassumption.
Qed.

(** from strict sortedness: whenever one popped event precedes another in (time, request order),
    it was popped first — in particular a message sent earlier on a link with a fixed delay
    (not later in time, smaller sequence number) is received first *)
Lemma sorted_order_is_pop_order lo pops :
  chain_sorted lo pops ->
  forall p1 y p2 x p3, pops = p1 ++ y :: p2 ++ x :: p3 -> ev_lt A x y = false.
Proof.
  intros Hc p1 y p2 x p3 Heq. pose proof (chain_sorted_pairwise lo pops Hc p1 y p2 x p3 Heq) as H.
  apply ev_lt_asym. exact H.
Qed.

End EventLoopP.
