(** * Interop: model of gradysim/encapsulator/interop.py (InteropProvider / InteropEncapsulator)
    and of how simulator-only extensions behave under it (gradysim/simulator/extension/*.py). *)
From Coq Require Import List Arith Bool.
Import ListNotations.
From GS Require Import Num Sim.

Section Interop.
Context {F : Type} (A : ArithOps F).

(** what a protocol can ask of its environment in one callback *)
Inductive ireq : Type :=
| RAct (a : action F)
| RTrack (key val : nat).            (* provider.tracked_variables[key] = val *)

(** the consequences handed back to OMNeT++ *)
Inductive conseq : Type :=
| CComm (bcast : bool) (msg : nat) (dst : option nat)      (* (COMMUNICATION, command) *)
| CGoto (p : vec3 F) | CGotoGeo (p : vec3 F) | CSetSpeed (s : F)   (* (MOBILITY, command) *)
| CTimer (name : nat) (ts : F)                             (* (TIMER, (timer, timestamp)) *)
| CTrack (key val : nat).                                  (* (TRACK_VARIABLE, (key, value)) *)

Inductive iout : Type := IOk | INotImplemented | IValueError.

(** one request under the interop provider: the consequence it appends (if any) and its outcome.
    cancel_timer is not supported (NotImplementedError); the communication controller extension
    is a no-op outside the python simulator (but still rejects a negative range); a protocol
    attribute is no request at all. *)
Definition interop_req (r : ireq) : list conseq * iout :=
  match r with
  | RAct (ASetTimer name ts) => ([CTimer name ts], IOk)
  | RAct (ACancel _) => ([], INotImplemented)
  | RAct (ASend msg dst) => ([CComm false msg dst], IOk)
  | RAct (ABroadcast msg) => ([CComm true msg None], IOk)
  | RAct (ABcastDst msg d) => ([CComm true msg (Some d)], IOk)
  | RAct (AGoto p) => ([CGoto p], IOk)
  | RAct (AGotoGeo p) => ([CGotoGeo p], IOk)
  | RAct (ASetSpeed s) => ([CSetSpeed s], IOk)
  | RAct (ASetRange r) => ([], if fltb A r (f0 A) then IValueError else IOk)
  | RAct (ASetFlag _) => ([], IOk)
  | RTrack k v => ([CTrack k v], IOk)
  end.

(** the provider's pending list while a callback runs its requests in order *)
Fixpoint interop_reqs (pending : list conseq) (rs : list ireq) : list conseq * list iout :=
  match rs with
  | [] => (pending, [])
  | r :: rest =>
      let '(c, o) := interop_req r in
      let '(p2, os) := interop_reqs (pending ++ c) rest in
      (p2, o :: os)
  end.

(** InteropEncapsulator.<callback>: run the protocol, then _collect_consequences (returns the
    pending list and replaces it by a fresh empty one) *)
Definition interop_callback (pending : list conseq) (rs : list ireq) : list conseq * list conseq * list iout :=
  let '(p2, os) := interop_reqs pending rs in (p2, [], os).     (* (returned, new pending, outcomes) *)

(** the requests the python wrapper forwards to the handlers for the same callback, in the same
    encoding (the python provider forwards every request; tracked variables are a plain dict) *)
Definition python_forwarded (r : ireq) : list conseq :=
  match r with
  | RAct (ASetTimer name ts) => [CTimer name ts]
  | RAct (ASend msg dst) => [CComm false msg dst]
  | RAct (ABroadcast msg) => [CComm true msg None]
  | RAct (ABcastDst msg d) => [CComm true msg (Some d)]
  | RAct (AGoto p) => [CGoto p]
  | RAct (AGotoGeo p) => [CGotoGeo p]
  | RAct (ASetSpeed s) => [CSetSpeed s]
  | _ => []
  end.

(** a whole session: successive callbacks, each with the requests the protocol makes in it *)
Fixpoint interop_session (pending : list conseq) (cbs : list (list ireq)) : list (list conseq * list iout) :=
  match cbs with
  | [] => []
  | rs :: rest =>
      let '(ret, p2, os) := interop_callback pending rs in
      (ret, os) :: interop_session p2 rest
  end.

(* ---- extensions under a provider that is not the python one ------------------------------------ *)
Inductive provider_kind : Type := PythonProv (handler_present : bool) | InteropProv.
Inductive ext_call : Type :=
| ExtCommSetRange (r : F) | ExtCameraTakePicture | ExtCameraChangeFacing
| ExtVisPaintNode | ExtVisPaintEnv | ExtVisResize | ExtVisShowId.
Inductive ext_effect : Type := EffNone | EffHandler.      (* nothing happens / the handler is used *)

Definition ext_behaviour (p : provider_kind) (c : ext_call) : ext_effect * iout :=
  match c with
  | ExtCommSetRange r =>
      if fltb A r (f0 A) then (EffNone, IValueError)
      else (match p with PythonProv true => EffHandler | _ => EffNone end, IOk)
  | ExtCameraChangeFacing => (EffNone, IOk)
  | _ => (match p with PythonProv true => EffHandler | _ => EffNone end, IOk)
  end.

End Interop.
Arguments ireq : clear implicits.
Arguments conseq : clear implicits.
Arguments ext_call : clear implicits.
