(** The real-number instance of the number interface, with its law proofs.  Theorems that
    need field laws are stated for this instance of the same model definitions. *)
From Coq Require Import Reals Lra Bool.
From GS Require Import Num.
Local Open Scope R_scope.

Definition Rleb (x y : R) : bool := if Rle_dec x y then true else false.
Definition Rltb (x y : R) : bool := if Rlt_dec x y then true else false.
Definition Reqb (x y : R) : bool := if Req_EM_T x y then true else false.

Definition Ratan2 (y x : R) : R :=
  if Rlt_dec 0 x then atan (y / x)
  else if Rlt_dec x 0 then (if Rle_dec 0 y then atan (y / x) + PI else atan (y / x) - PI)
  else if Rlt_dec 0 y then PI / 2
  else if Rlt_dec y 0 then - (PI / 2)
  else 0.

Definition R_ops : ArithOps R :=
  mkArith R 0 1 2 Rplus Rminus Rmult Rdiv Ropp (fun x => x * x) sqrt Rleb Rltb Reqb
          sin cos acos Ratan2 (fun x => x * (PI / 180)) (1 / 1000000) 6371000.

Lemma Rleb_true x y : Rleb x y = true <-> x <= y.
Proof. unfold Rleb. destruct (Rle_dec x y); split; intro; try assumption; try reflexivity; try discriminate; contradiction. Qed.
Lemma Rleb_false x y : Rleb x y = false <-> y < x.
Proof. unfold Rleb. destruct (Rle_dec x y); split; intro; try discriminate; try reflexivity; lra. Qed.
Lemma Rltb_true x y : Rltb x y = true <-> x < y.
Proof. unfold Rltb. destruct (Rlt_dec x y); split; intro; try assumption; try reflexivity; try discriminate; contradiction. Qed.
Lemma Rltb_false x y : Rltb x y = false <-> y <= x.
Proof. unfold Rltb. destruct (Rlt_dec x y); split; intro; try discriminate; try reflexivity; lra. Qed.
Lemma Reqb_true x y : Reqb x y = true <-> x = y.
Proof. unfold Reqb. destruct (Req_EM_T x y); split; intro; try assumption; try reflexivity; try discriminate; contradiction. Qed.

Lemma R_order_laws : OrderLaws R_ops.
Proof.
  constructor; simpl.
  - intros x. apply Rleb_true. lra.
  - intros x y z. rewrite !Rleb_true. lra.
  - intros x y. rewrite !Rleb_true. lra.
  - intros x y. unfold Rltb, Rleb. destruct (Rlt_dec x y), (Rle_dec y x); simpl; try reflexivity; lra.
  - intros x y. unfold Reqb, Rleb. destruct (Req_EM_T x y), (Rle_dec x y), (Rle_dec y x); simpl; try reflexivity; lra.
  - intros t d. rewrite !Rleb_true. lra.
  - intros a b d. rewrite !Rleb_true. lra.
Qed.

Lemma R_zero_laws : ZeroLaws R_ops.
Proof.
  constructor; simpl.
  - intros x. lra.
  - lra.
  - lra.
  - apply sqrt_0.
Qed.
