(** Helpers for the non-vacuity [Example]s of Props/*.v: concrete runs over the integer instance,
    evaluated by [vm_compute]. *)
From Coq Require Import List ZArith NArith Bool.
Import ListNotations.
From GS Require Import Num NumZ EventLoop Kernel Sim.
Local Open Scope Z_scope.

Definition cfgx hs nn (pos : list (vec3 Z)) rng delay fail rate speed asserts stream : scfg Z :=
  mkSCfg hs nn pos (map (fun _ => 0%nat) pos) rng delay fail rate speed (0, 0, 0) asserts stream.

Definition users {P T : Type} (l : list (kitem Z P T)) : list T :=
  flat_map (fun it => match it with KUser t => [t] | _ => [] end) l.

(** (protocol- and handler-visible trace, whether the blocking call returned, draws consumed, final positions) *)
Definition runx (cfg : scfg Z) (react : nat -> unit -> Z -> cb Z -> unit * list (action Z)) dur maxit fuel :=
  let '(s0, i0) := sim_start Z_ops cfg (fun _ => tt) in
  let '(s1, items, fin) := k_run Z_ops (sim_hooks Z_ops cfg react) (mkCfg dur maxit) fuel s0 in
  (users items, fin, s_cursor (k_h s1), s_pos (k_h s1)).

Definition stepx (cfg : scfg Z) (react : nat -> unit -> Z -> cb Z -> unit * list (action Z)) dur maxit n :=
  let '(s0, i0) := sim_start Z_ops cfg (fun _ => tt) in
  let '(s1, items, rs) := k_steps Z_ops (sim_hooks Z_ops cfg react) (mkCfg dur maxit) n s0 in
  (users items, rs).
