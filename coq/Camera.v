(** * Camera: model of gradysim/simulator/extension/camera.py (CameraHardware)

    [acos] raises "math domain error" outside [-1, 1] in Python; the model makes that explicit
    ([None]) so that "never fails" is a theorem rather than an artefact of totalisation. *)
From Coq Require Import List Bool.
Import ListNotations.
From GS Require Import Num.

Section Camera.
Context {F : Type} (A : ArithOps F).

Record camcfg : Type := mkCam { cam_reach : F; cam_theta : F; cam_el : F; cam_rot : F }.   (* degrees *)

(** _camera_direction_unit_vector *)
Definition cam_vector (c : camcfg) : vec3 F :=
  let inc := frad A (cam_el c) in
  let rot := frad A (cam_rot c) in
  (fmul A (fsin A inc) (fcos A rot), fmul A (fsin A inc) (fsin A rot), fcos A inc).

(** max(-1.0, min(1.0, x)) with Python's min/max semantics *)
Definition clamp1 (x : F) : F :=
  let m := if fltb A x (f1 A) then x else f1 A in
  if fltb A (fneg A (f1 A)) m then m else fneg A (f1 A).

(** math.acos: [None] = ValueError("math domain error") *)
Definition acos_checked (x : F) : option F :=
  if fltb A x (fneg A (f1 A)) || fltb A (f1 A) x then None else Some (facos A x).

(** one iteration of the loop in take_picture: Some true = appended, Some false = skipped *)
Definition detects (cv : vec3 F) (theta_rad reach : F) (cam other : vec3 F) : option bool :=
  let r0 := fsub A (vx other) (vx cam) in
  let r1 := fsub A (vy other) (vy cam) in
  let r2 := fsub A (vz other) (vz cam) in
  let d := fsqrt A (fadd A (fadd A (fsq A r0) (fsq A r1)) (fsq A r2)) in
  if fltb A reach d then Some false
  else if fltb A (f0 A) d then
    let n0 := fdiv A r0 d in let n1 := fdiv A r1 d in let n2 := fdiv A r2 d in
    let dp := fadd A (fadd A (fmul A (vx cv) n0) (fmul A (vy cv) n1)) (fmul A (vz cv) n2) in
    match acos_checked (clamp1 dp) with
    | None => None
    | Some ac => Some (negb (fltb A theta_rad (fsub A ac (f1em6 A))))
    end
  else Some true.

(** take_picture for the camera of node [me]: positions of the detected other nodes, in node
    order; [None] if some iteration raised *)
Fixpoint picture_from (cv : vec3 F) (theta_rad reach : F) (cam : vec3 F) (me : nat) (idx : nat) (nodes : list (vec3 F))
  : option (list (nat * vec3 F)) :=
  match nodes with
  | [] => Some []
  | p :: r =>
      if Nat.eqb idx me then picture_from cv theta_rad reach cam me (S idx) r
      else match detects cv theta_rad reach cam p with
           | None => None
           | Some b =>
               match picture_from cv theta_rad reach cam me (S idx) r with
               | None => None
               | Some rest => Some (if b then (idx, p) :: rest else rest)
               end
           end
  end.

Definition take_picture (c : camcfg) (me : nat) (nodes : list (vec3 F)) : option (list (nat * vec3 F)) :=
  picture_from (cam_vector c) (frad A (cam_theta c)) (cam_reach c) (nth me nodes (f0 A, f0 A, f0 A)) me 0 nodes.

End Camera.
Arguments camcfg : clear implicits.
