(** * Kernel: model of [Simulator] in gradysim/simulator/simulation.py

    Generic in what handlers and protocols do: the four hooks return the new handler state,
    the scheduling requests they issued (applied through [el_schedule] only — the kernel is
    the only code that pops or peeks) and the trace items they emitted.  Batching the
    requests of one hook call is faithful because no handler ever reads the queue and the
    clock does not move while a callback runs. *)
From Coq Require Import List Arith NArith Bool.
Import ListNotations.
From GS Require Import Num EventLoop.

Section Kernel.
Context {F : Type} (A : ArithOps F) {P H T : Type}.

Record kcfg : Type := mkCfg { k_duration : option F; k_maxit : option nat }.

Record hooks : Type := mkHooks {
  (* _initialize_simulation: every handler.initialize(), then every protocol's initialize *)
  hk_init : H -> H * list (F * P) * list T;
  (* event.callback() for an event with this timestamp and payload *)
  hk_exec : H -> F -> P -> H * list (F * P) * list T;
  (* handler.after_simulation_step(iteration, timestamp) for every handler; [true] = raised *)
  hk_after : H -> nat -> F -> H * list T * bool;
  (* _finalize_simulation: every protocol's finish, then every handler.finalize(); [true] = raised *)
  hk_finish : H -> F -> H * list (F * P) * list T * bool
}.

Inductive kitem : Type :=
| KUser (t : T)
| KExec (iter : nat) (ts : F) (seq : N) (p : P)   (* event popped and executed as iteration [iter] *)
| KRefused (ts : F) (p : P)                (* a hook's scheduling request was refused *)
| KSched (ts : F) (seq : N) (p : P).       (* a hook's scheduling request was accepted (ghost:
                                              lets theorems speak about "every accepted request") *)

Record kstate : Type := mkK {
  k_el : eloop F P;
  k_h : H;
  k_iter : nat;
  k_inited : bool;
  k_final : bool;
  k_aborted : bool
}.

Fixpoint sched_all (l : eloop F P) (reqs : list (F * P)) : eloop F P * list kitem :=
  match reqs with
  | [] => (l, [])
  | (ts, p) :: r =>
      match el_schedule A l ts p with
      | Some l' => let '(l2, items) := sched_all l' r in (l2, KSched ts (el_seq l) p :: items)
      | None => let '(l2, items) := sched_all l r in (l2, KRefused ts p :: items)
      end
  end.

(** Simulator.__init__ + SimulationBuilder.build: handlers are injected (a mobility handler
    schedules its first update here) and nodes are created; nothing runs yet. *)
Definition k_start (h0 : H) (reqs0 : list (F * P)) : kstate * list kitem :=
  let '(l, items) := sched_all (el_init A) reqs0 in
  (mkK l h0 0 false false false, items).

(** is_simulation_done *)
Definition k_done (c : kcfg) (s : kstate) : bool :=
  match el_peek A (k_el s) with
  | None => true
  | Some e =>
      (match k_duration c with Some d => fltb A d (ev_ts e) | None => false end)
      || (match k_maxit c with Some m => Nat.leb m (k_iter s) | None => false end)
  end.

Definition k_initialize (hk : hooks) (s : kstate) : kstate * list kitem :=
  let '(h1, reqs, items) := hk_init hk (k_h s) in
  let '(l1, ref) := sched_all (k_el s) reqs in
  (mkK l1 h1 (k_iter s) true (k_final s) (k_aborted s), map KUser items ++ ref).

Definition k_finalize (hk : hooks) (s : kstate) : kstate * list kitem :=
  if k_final s then (s, [])
  else
    let '(h1, reqs, items, raised) := hk_finish hk (k_h s) (el_now (k_el s)) in
    let '(l1, ref) := sched_all (k_el s) reqs in
    (mkK l1 h1 (k_iter s) (k_inited s) true raised, map KUser items ++ ref).

(** step_simulation; the boolean is its return value (False when an exception escaped). *)
Definition k_step (hk : hooks) (c : kcfg) (s : kstate) : kstate * list kitem * bool :=
  if k_final s || k_aborted s then (s, [], false)
  else
    let '(s1, i1) := if k_inited s then (s, []) else k_initialize hk s in
    if k_done c s1 then
      let '(s2, i2) := k_finalize hk s1 in (s2, i1 ++ i2, false)
    else
      match el_pop A (k_el s1) with
      | None => (s1, i1, false)   (* unreachable: k_done holds on an empty queue *)
      | Some (e, l1) =>
          let '(h2, reqs, items) := hk_exec hk (k_h s1) (ev_ts e) (ev_pl e) in
          let '(l2, ref) := sched_all l1 reqs in
          let '(h3, aitems, raised) := hk_after hk h2 (k_iter s1) (ev_ts e) in
          let body := KExec (k_iter s1) (ev_ts e) (ev_seq e) (ev_pl e) :: map KUser items ++ ref ++ map KUser aitems in
          if raised then
            (mkK l2 h3 (k_iter s1) true false true, i1 ++ body, false)
          else
            let s2 := mkK l2 h3 (S (k_iter s1)) true false false in
            if k_done c s2 then
              let '(s3, i3) := k_finalize hk s2 in (s3, i1 ++ body ++ i3, false)
            else (s2, i1 ++ body, true)
      end.

(** start_simulation: [while is_running: is_running = self.step_simulation()].  The loop may
    not terminate (self-rescheduling events, no bound), hence fuel; the last component says
    whether the loop ended within the fuel. *)
Fixpoint k_run (hk : hooks) (c : kcfg) (fuel : nat) (s : kstate) : kstate * list kitem * bool :=
  match fuel with
  | 0 => (s, [], false)
  | S f =>
      let '(s1, it, cont) := k_step hk c s in
      if cont then
        let '(s2, its, fin) := k_run hk c f s1 in (s2, it ++ its, fin)
      else (s1, it, true)
  end.

(** Manual driving: exactly [n] calls of step_simulation, whatever they return. *)
Fixpoint k_steps (hk : hooks) (c : kcfg) (n : nat) (s : kstate) : kstate * list kitem * list bool :=
  match n with
  | 0 => (s, [], [])
  | S m =>
      let '(s1, it, r) := k_step hk c s in
      let '(s2, its, rs) := k_steps hk c m s1 in
      (s2, it ++ its, r :: rs)
  end.

(** Code outside the event loop (driver code between two calls of step_simulation) that changes
    handler state and asks for events to be scheduled, at the current clock. *)
Definition k_external (f : H -> F -> H * list (F * P) * list T) (s : kstate) : kstate * list kitem :=
  let '(h1, reqs, items) := f (k_h s) (el_now (k_el s)) in
  let '(l1, ref) := sched_all (k_el s) reqs in
  (mkK l1 h1 (k_iter s) (k_inited s) (k_final s) (k_aborted s), map KUser items ++ ref).

Inductive kdrv : Type := KDStep | KDExt (f : H -> F -> H * list (F * P) * list T).

(** Any interleaving of step_simulation() calls and external code. *)
Fixpoint k_drive (hk : hooks) (c : kcfg) (ops : list kdrv) (s : kstate) : kstate * list kitem :=
  match ops with
  | [] => (s, [])
  | KDStep :: r =>
      let '(s1, it, _) := k_step hk c s in
      let '(s2, its) := k_drive hk c r s1 in (s2, it ++ its)
  | KDExt f :: r =>
      let '(s1, it) := k_external f s in
      let '(s2, its) := k_drive hk c r s1 in (s2, it ++ its)
  end.

End Kernel.

Arguments kitem : clear implicits.
Arguments kstate : clear implicits.
Arguments hooks : clear implicits.
Arguments kcfg : clear implicits.
Arguments kdrv : clear implicits.
