(** * Num: the number interface of the model.

    Times, coordinates, speeds, ranges and rates are Python [float]s.  Every model
    function is written once, for an arbitrary carrier [F] with operations [ArithOps F].
    Instances: [R] (theorems that need field laws), [Z] (computable examples) and OCaml
    [float] (supplied by the hand-written driver after extraction; bit-exact against
    CPython because both call the same IEEE hardware operations and the same libm). *)
From Coq Require Import Bool.

Record ArithOps (F : Type) : Type := mkArith {
  f0 : F;                      (* 0.0 *)
  f1 : F;                      (* 1.0 *)
  f2 : F;                      (* 2.0 *)
  fadd : F -> F -> F;
  fsub : F -> F -> F;
  fmul : F -> F -> F;
  fdiv : F -> F -> F;
  fneg : F -> F;
  fsq : F -> F;                (* Python [x ** 2] (libm pow(x, 2.0)); NOT [x * x] *)
  fsqrt : F -> F;
  fleb : F -> F -> bool;       (* <= *)
  fltb : F -> F -> bool;       (* <  *)
  feqb : F -> F -> bool;       (* == *)
  fsin : F -> F;
  fcos : F -> F;
  facos : F -> F;
  fatan2 : F -> F -> F;
  frad : F -> F;               (* math.radians *)
  f1em6 : F;                   (* 1e-6 *)
  fearth : F                   (* 6371000 *)
}.

Arguments f0 {F} _. Arguments f1 {F} _. Arguments f2 {F} _.
Arguments fadd {F} _ _ _. Arguments fsub {F} _ _ _. Arguments fmul {F} _ _ _.
Arguments fdiv {F} _ _ _. Arguments fneg {F} _ _. Arguments fsq {F} _ _.
Arguments fsqrt {F} _ _. Arguments fleb {F} _ _ _. Arguments fltb {F} _ _ _.
Arguments feqb {F} _ _ _. Arguments fsin {F} _ _. Arguments fcos {F} _ _.
Arguments facos {F} _ _. Arguments fatan2 {F} _ _ _. Arguments frad {F} _ _.
Arguments f1em6 {F} _. Arguments fearth {F} _.

(** What the generic (event loop / kernel / handler) proofs need from the carrier.
    Proved for [R] and [Z]; for non-NaN IEEE doubles these are standard facts
    (comparison is a total order, round-to-nearest addition is monotone), stated in the
    trusted base and exercised by the correspondence check. *)
Record OrderLaws {F : Type} (A : ArithOps F) : Prop := mkOrderLaws {
  leb_refl : forall x, fleb A x x = true;
  leb_trans : forall x y z, fleb A x y = true -> fleb A y z = true -> fleb A x z = true;
  leb_total : forall x y, fleb A x y = true \/ fleb A y x = true;
  ltb_leb : forall x y, fltb A x y = negb (fleb A y x);
  eqb_leb : forall x y, feqb A x y = fleb A x y && fleb A y x;
  add_nonneg : forall t d, fleb A (f0 A) d = true -> fleb A t (fadd A t d) = true;
  add_mono_l : forall a b d, fleb A a b = true -> fleb A (fadd A a d) (fadd A b d) = true
}.

Record ZeroLaws {F : Type} (A : ArithOps F) : Prop := mkZeroLaws {
  sub_self : forall x, fsub A x x = f0 A;
  sq_zero : fsq A (f0 A) = f0 A;
  add_zero_zero : fadd A (f0 A) (f0 A) = f0 A;
  sqrt_zero : fsqrt A (f0 A) = f0 A
}.

Definition vec3 (F : Type) : Type := (F * F * F)%type.
Definition vx {F} (p : vec3 F) : F := fst (fst p).
Definition vy {F} (p : vec3 F) : F := snd (fst p).
Definition vz {F} (p : vec3 F) : F := snd p.

(** [squared_distance(start, end)] of gradysim/protocol/position.py and the in-lined copy
    in CommunicationHandler.can_transmit: [(e0-s0)**2 + (e1-s1)**2 + (e2-s2)**2]. *)
Definition sqdist {F} (A : ArithOps F) (s e : vec3 F) : F :=
  fadd A (fadd A (fsq A (fsub A (vx e) (vx s))) (fsq A (fsub A (vy e) (vy s))))
         (fsq A (fsub A (vz e) (vz s))).
