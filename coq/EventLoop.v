(** * EventLoop: model of gradysim/simulator/event.py

    [Event.__lt__] orders by timestamp, ties by the sequence number stamped by
    [EventLoop.schedule_event].  The heap ([heapq], external) is modelled by its contract:
    [pop] removes, and [peek] shows, an element that no other queued element is [ev_lt]
    of.  The queue is kept as a list in scheduling order and the minimum is *selected*;
    [Proofs/EventLoopP.v] shows the selected element is the only one the contract
    permits, so any correct heap agrees with this model. *)
From Coq Require Import List Arith NArith Bool.
Import ListNotations.
From GS Require Import Num.

Section EventLoop.
Context {F : Type} (A : ArithOps F) {P : Type}.

Record event : Type := mkEv { ev_ts : F; ev_seq : N; ev_pl : P }.

(** Event.__lt__ *)
Definition ev_lt (a b : event) : bool :=
  if feqb A (ev_ts a) (ev_ts b) then N.ltb (ev_seq a) (ev_seq b)
  else fltb A (ev_ts a) (ev_ts b).

Record eloop : Type := mkEL { el_q : list event; el_now : F; el_seq : N }.

Definition el_init : eloop := mkEL [] (f0 A) 0%N.

(** schedule_event: refuses a timestamp earlier than the current time. *)
Definition el_schedule (l : eloop) (ts : F) (p : P) : option eloop :=
  if fltb A ts (el_now l) then None   (* EventLoopException *)
  else Some (mkEL (el_q l ++ [mkEv ts (el_seq l) p]) (el_now l) (N.succ (el_seq l))).

Fixpoint q_min (m : event) (q : list event) : event :=
  match q with
  | [] => m
  | x :: r => q_min (if ev_lt x m then x else m) r
  end.

Fixpoint q_remove (s : N) (q : list event) : list event :=
  match q with
  | [] => []
  | x :: r => if N.eqb (ev_seq x) s then r else x :: q_remove s r
  end.

(** peek_event *)
Definition el_peek (l : eloop) : option event :=
  match el_q l with
  | [] => None
  | x :: r => Some (q_min x r)
  end.

(** pop_event: [None] is EventLoopException (empty queue). *)
Definition el_pop (l : eloop) : option (event * eloop) :=
  match el_peek l with
  | None => None
  | Some m => Some (m, mkEL (q_remove (ev_seq m) (el_q l)) (ev_ts m) (el_seq l))
  end.

(** clear *)
Definition el_clear (l : eloop) : eloop := mkEL [] (el_now l) (el_seq l).

(** __len__ *)
Definition el_len (l : eloop) : nat := length (el_q l).

(** An API history and its observable results. *)
Inductive el_op : Type :=
| OpSchedule (ts : F) (p : P)
| OpPop
| OpPeek
| OpClear
| OpLen
| OpNow.

Inductive el_res : Type :=
| RScheduled
| RRefused                         (* EventLoopException *)
| RPopped (ts : F) (p : P)
| RPeeked (o : option (F * P))
| RCleared
| RLen (n : nat)
| RNow (t : F).

Definition el_step (l : eloop) (o : el_op) : eloop * el_res :=
  match o with
  | OpSchedule ts p =>
      match el_schedule l ts p with
      | Some l' => (l', RScheduled)
      | None => (l, RRefused)
      end
  | OpPop =>
      match el_pop l with
      | Some (e, l') => (l', RPopped (ev_ts e) (ev_pl e))
      | None => (l, RRefused)
      end
  | OpPeek =>
      (l, RPeeked (match el_peek l with Some e => Some (ev_ts e, ev_pl e) | None => None end))
  | OpClear => (el_clear l, RCleared)
  | OpLen => (l, RLen (el_len l))
  | OpNow => (l, RNow (el_now l))
  end.

Fixpoint el_run (l : eloop) (ops : list el_op) : eloop * list el_res :=
  match ops with
  | [] => (l, [])
  | o :: r =>
      let '(l1, x) := el_step l o in
      let '(l2, xs) := el_run l1 r in
      (l2, x :: xs)
  end.

End EventLoop.

Arguments event : clear implicits.
Arguments eloop : clear implicits.
Arguments el_op : clear implicits.
Arguments el_res : clear implicits.
